// C06 harness: bslice and bmap wrappers against the Coq memory model / pure specification.
// Streams: exh (bounded exhaustive single calls), wrap (every method through every wrapper on a content family),
// exh-neg (negative / large elements for the order and aggregate methods), stable (stable sorts, equal keys),
// rand (profiled random single calls on longer contents, malformed indexes), seq (short call sequences),
// bmap-* (map methods: single calls and sequences, nil and empty maps).
package main

import (
	"fmt"
	"math"
	"strings"

	"vh/vhlib"
)

// amounts at or above 2^46 elements (2^49 bytes > the runtime's maxAlloc): rejected without touching memory
var hugeAmounts = []int{math.MaxInt, math.MaxInt - 1, 1 << 62, 1 << 50, 1 << 46}

var valsChoices = [][]int{{}, {5}, {5, 6}, {7, 8, 9}}
var predNames = []string{"p_ne1", "p_even", "p_true", "p_false", "p_pos"}
var eqNames = []string{"eq_std", "eq_mod2", "eq_le", "eq_true", "eq_false"}
var totalLess = []string{"lt_asc", "lt_desc"}
var stableLess = []string{"lt_asc", "lt_desc", "lt_half"}
var totalCmp = []string{"cmp_std", "cmp_rev"}
var anyCmp = []string{"cmp_std", "cmp_rev", "cmp_diff"}

// methods whose behaviour is driven by index arguments
var indexMethods = []string{"Insert", "InsertE", "Grow", "GrowE", "GetByIndex", "GetByIndexE", "GetByIndexOrDefault",
	"SetByIndex", "SetByIndexE", "SetByRange", "SetByRangeE"}
var rangeMethods = []string{"Delete", "DeleteE", "DeleteToSlice", "DeleteToSliceE", "DeleteToBSlice", "DeleteToBSliceE",
	"Replace", "ReplaceE", "GetByRange", "GetByRangeE", "Swap"}

// related lists for EqualFunc / CompareFunc / Equal / Compare
func relatives(c []int) [][]int {
	cp := func() []int { return append([]int{}, c...) }
	out := [][]int{cp(), append(cp(), 1), {}, nil}
	if len(c) > 0 {
		out = append(out, cp()[:len(c)-1])
		d := cp()
		d[len(d)-1]++
		out = append(out, d)
		e := cp()
		e[0]--
		out = append(out, e)
	}
	return out
}

func unmarshalInputs(n int) []string {
	long := make([]string, n+10)
	for i := range long {
		long[i] = fmt.Sprint(20 + i)
	}
	return []string{"[]", "[4]", "[4,5]", " [ 4 , -5,6 ] ", "[" + strings.Join(long, ",") + "]", "[" + strings.Join(long[:n+1], ",") + "]",
		"null", "[1,2", "", "{}", "[1,,2]", "x"}
}

// search targets for a content: every element, its successor, one below the minimum, and 0
func targets(c []int) []int {
	seen := map[int]bool{}
	var out []int
	put := func(v int) {
		if !seen[v] {
			seen[v] = true
			out = append(out, v)
		}
	}
	mn := 0
	for i, v := range c {
		if i == 0 || v < mn {
			mn = v
		}
	}
	put(mn - 1)
	put(0)
	for _, v := range c {
		put(v)
		put(v + 1)
	}
	if len(out) > 9 {
		out = out[:9]
	}
	return out
}

// the contents every method is run on through every wrapper: single elements, all negative, all equal,
// mixed signs ascending / descending / unsorted, duplicates, large magnitudes, empty
var familyContents = [][]int{
	{-3}, {7}, {0},
	{-1, -3, -2}, {-7, -7, -2, -9, -1},
	{-5, -5, -5}, {2, 2, 2, 2},
	{-3, -1, 0, 1, 2, 7}, {7, 2, 1, 0, -1, -3}, {1, -3, 7, 0, -1, 2, -3},
	{0, -1, 0, -1, -1}, {-(1 << 40), 1 << 41, -(1 << 40) - 5},
	{},
}

// methods whose result is about order, magnitude or equality of the elements
var orderMethods = map[string]bool{"Max": true, "Min": true, "Sum": true, "Avg": true, "Sort": true, "IsSorted": true, "BinarySearch": true,
	"Contains": true, "Equal": true, "Compare": true, "Compact": true, "SortFunc": true, "SortComparator": true, "SortStableFunc": true,
	"IsSortedFunc": true, "BinarySearchFunc": true, "CompareFunc": true}

// further value-driven methods added in the thorough tier
var orderMethodsThorough = map[string]bool{"CompactFunc": true, "IndexFunc": true, "SortFuncToSlice": true, "SortComparatorToSlice": true,
	"SortStableFuncToSlice": true, "Filter": true, "FilterToSlice": true, "EqualFunc": true, "Reverse": true, "Marshal": true, "Unmarshal": true}

// one variant per method name (the k-th of those valueOps offers), so that a whole family can go through every wrapper
func oneVariantPerMethod(ops []op, k int) []op {
	by := map[string][]op{}
	var order []string
	for _, o := range ops {
		if _, ok := by[o.Name]; !ok {
			order = append(order, o.Name)
		}
		by[o.Name] = append(by[o.Name], o)
	}
	var out []op
	for _, n := range order {
		out = append(out, by[n][k%len(by[n])])
	}
	return out
}

// every call of the value-driven methods for a given content (arguments enumerated)
func valueOps(c []int, full bool) []op {
	var ops []op
	add := func(o op) { ops = append(ops, o) }
	for _, n := range []string{"CloneToSlice", "CloneToBSlice", "Clip", "ForEach", "Reverse", "ReverseToSlice", "ReverseToBSlice", "Marshal", "Len", "Cap",
		"ToInterfaceSlice", "ToMetaSlice", "Clear", "CopyToSlice", "CopyToBSlice", "Compact", "Sort", "IsSorted", "Sum", "Avg", "Max", "Min"} {
		add(op{Name: n})
	}
	for _, f := range predNames {
		for _, n := range []string{"IndexFunc", "Filter", "FilterToSlice", "FilterToBSlice"} {
			add(op{Name: n, Fn: f})
		}
	}
	for _, f := range eqNames {
		add(op{Name: "CompactFunc", Fn: f})
	}
	for _, f := range totalLess {
		for _, n := range []string{"SortFunc", "SortFuncToSlice", "SortFuncToBSlice"} {
			add(op{Name: n, Fn: f})
		}
	}
	for _, f := range stableLess {
		for _, n := range []string{"SortStableFunc", "SortStableFuncToSlice", "SortStableFuncToBSlice", "IsSortedFunc"} {
			add(op{Name: n, Fn: f})
		}
	}
	for _, f := range totalCmp {
		for _, n := range []string{"SortComparator", "SortComparatorToSlice", "SortComparatorToBSlice"} {
			add(op{Name: n, Fn: f})
		}
		for _, t := range targets(c) {
			add(op{Name: "BinarySearchFunc", I: t, Fn: f})
		}
	}
	for _, t := range targets(c) {
		add(op{Name: "BinarySearch", I: t})
		add(op{Name: "Contains", I: t})
	}
	for _, es := range relatives(c) {
		add(op{Name: "Equal", Vals: es})
		add(op{Name: "Compare", Vals: es})
		for _, f := range eqNames[:3] {
			add(op{Name: "EqualFunc", Vals: es, Fn: f})
		}
		for _, f := range anyCmp {
			add(op{Name: "CompareFunc", Vals: es, Fn: f})
		}
		if !full {
			break
		}
	}
	for _, v := range valsChoices {
		for _, n := range []string{"Append", "AppendToSlice", "AppendToBSlice"} {
			add(op{Name: n, Vals: v})
		}
	}
	for _, d := range unmarshalInputs(len(c)) {
		add(op{Name: "Unmarshal", Data: d})
	}
	return ops
}

// every call of the index-driven methods for a content of length n, indexes in [lo, n+hi]
func indexOps(n, lo, hi int) []op {
	var ops []op
	for i := lo; i <= n+hi; i++ {
		for _, m := range indexMethods {
			switch m {
			case "Insert", "InsertE", "SetByRange", "SetByRangeE":
				for _, v := range valsChoices {
					ops = append(ops, op{Name: m, I: i, Vals: v})
				}
			case "Grow", "GrowE":
				ops = append(ops, op{Name: m, I: i}, op{Name: m, I: i + 9})
				if i == lo {
					// amounts no slice can hold: the runtime refuses them before allocating anything
					for _, huge := range hugeAmounts {
						ops = append(ops, op{Name: m, I: huge})
					}
				}
			default:
				ops = append(ops, op{Name: m, I: i, J: 42})
			}
		}
		for j := lo; j <= n+hi; j++ {
			for _, m := range rangeMethods {
				if m == "Replace" || m == "ReplaceE" {
					for _, v := range valsChoices[(i+j+4)%2 : (i+j+4)%2+2] {
						ops = append(ops, op{Name: m, I: i, J: j, Vals: v})
					}
				} else {
					ops = append(ops, op{Name: m, I: i, J: j})
				}
			}
		}
	}
	return ops
}

func allContents(maxLen int, alphabet []int) [][]int {
	res := [][]int{{}}
	layer := [][]int{{}}
	for l := 1; l <= maxLen; l++ {
		var next [][]int
		for _, c := range layer {
			for _, a := range alphabet {
				next = append(next, append(append([]int{}, c...), a))
			}
		}
		res = append(res, next...)
		layer = next
	}
	return res
}

func sameInts(a, b []int) bool {
	if len(a) != len(b) {
		return false
	}
	for i := range a {
		if a[i] != b[i] {
			return false
		}
	}
	return true
}

func randContent(rng *vhlib.Rng, n int, profile int) []int {
	c := make([]int, n)
	for i := range c {
		switch profile {
		case 0: // ascending
			c[i] = i * 2
		case 1: // descending
			c[i] = (n - i) * 3
		case 2: // zig-zag
			c[i] = (i%2)*10 - i
		case 3: // duplicate heavy
			c[i] = rng.Intn(3)
		case 4: // zero values
			c[i] = 0
		case 5: // runs (for Compact)
			c[i] = (i / 2) % 3
		case 6: // large magnitudes (no arithmetic overflow in Sum for these lengths)
			c[i] = (rng.Intn(2)*2 - 1) * (1<<40 + rng.Intn(1000))
		default:
			c[i] = rng.Range(-20, 20)
		}
	}
	return c
}

func randOp(rng *vhlib.Rng, c []int) op {
	n := len(c)
	idx := func() int { return rng.Range(-2, n+2) }
	vals := func() []int {
		v := make([]int, rng.Intn(4))
		for i := range v {
			v[i] = rng.Range(-9, 9)
		}
		return v
	}
	switch rng.Intn(3) {
	case 0:
		m := indexMethods[rng.Intn(len(indexMethods))]
		o := op{Name: m, I: idx(), J: rng.Range(-5, 5), Vals: vals()}
		if (m == "Grow" || m == "GrowE") && rng.Chance(1, 4) {
			o.I = hugeAmounts[rng.Intn(len(hugeAmounts))]
		}
		return o
	case 1:
		m := rangeMethods[rng.Intn(len(rangeMethods))]
		o := op{Name: m, I: idx(), J: idx()}
		if rng.Chance(2, 3) && o.J < o.I { // mostly valid ranges
			o.I, o.J = o.J, o.I
		}
		if strings.HasPrefix(m, "Replace") {
			o.Vals = vals()
		}
		return o
	default:
		vo := valueOps(c, true)
		o := vo[rng.Intn(len(vo))]
		switch o.Name {
		case "Append", "AppendToSlice", "AppendToBSlice":
			o.Vals = vals()
		case "BinarySearch", "BinarySearchFunc", "Contains":
			if n > 0 && rng.Bool() {
				o.I = c[rng.Intn(n)]
			} else {
				o.I = rng.Range(-25, 25)
			}
		}
		return o
	}
}

func main() {
	o := vhlib.ParseOpts()
	if o.Replay != "" {
		replayFile(o.Replay)
		return
	}
	rng := vhlib.NewRng(o.Seed)
	w := vhlib.NewWriter(o.Out, "From VF Require Import C06.Model C06.BMap C06.Check.\nLocal Open Scope Z_scope.", "case", "mismatches", 300)
	wsel := 0
	nextW := func() int { wsel++; return wsel % 8 }

	// ---- exh: bounded exhaustive single calls, contents over {0,1,2} ----
	maxVal, maxIdx := 3, 1
	if o.Thorough() {
		maxVal, maxIdx = 4, 4
	}
	for _, c := range allContents(maxVal, []int{0, 1, 2}) {
		for _, op1 := range valueOps(c, o.Thorough() || len(c) <= 2) {
			runCase(w, "exh", nextW(), c, []op{op1})
		}
	}
	for _, c := range allContents(4, []int{0, 1, 2}) {
		// quick: index arguments exhaustively on every content of length <= maxIdx and on two contents of each longer length
		if len(c) > maxIdx && !sameInts(c, []int{1, 2, 0, 2}[:len(c)]) && !sameInts(c, []int{0, 0, 1, 1}[:len(c)]) {
			continue
		}
		for _, op1 := range indexOps(len(c), -1, 1) {
			runCase(w, "exh", nextW(), c, []op{op1})
		}
	}

	// ---- wrap: every method through EVERY wrapper that has it (a Safe method has its own body: it is exercised on its
	// own, never assumed equal to its unsafe sibling), on the whole content family (negatives, all equal, single, ...) ----
	for k, c := range familyContents {
		ops := oneVariantPerMethod(valueOps(c, true), k)
		for mi, m := range indexMethods {
			ops = append(ops, op{Name: m, I: (k + mi) % (len(c) + 2), J: 42 - k, Vals: valsChoices[1+k%3]})
		}
		for mi, m := range rangeMethods {
			lo := (k + mi) % (len(c) + 1)
			ops = append(ops, op{Name: m, I: lo, J: lo + (k+mi/2)%2, Vals: valsChoices[k%3]})
		}
		for _, op1 := range ops {
			for wi := 0; wi < 8; wi++ {
				if wi/2 >= op1.level() {
					runCase(w, "wrap", wi, c, []op{op1})
				}
			}
		}
	}

	// ---- exh-neg: every content of length <= 3 over {-3,-1,7}: the order/magnitude/equality methods with every
	// argument variant, on the unsafe AND the safe wrapper of the flavour that defines the method ----
	for _, c := range allContents(3, []int{-3, -1, 7}) {
		for _, op1 := range valueOps(c, o.Thorough()) {
			if !orderMethods[op1.Name] && !(o.Thorough() && orderMethodsThorough[op1.Name]) {
				continue
			}
			runCase(w, "exh-neg", 2*op1.level(), c, []op{op1})
			runCase(w, "exh-neg", 2*op1.level()+1, c, []op{op1})
		}
	}

	// ---- stable: the stable sorts on long contents with many equal keys (lt_half: 2k and 2k+1 are equal but
	// distinguishable), beyond the insertion-sort threshold of the unstable sort ----
	nst := 12
	if o.Thorough() {
		nst = 200
	}
	for i := 0; i < nst; i++ {
		n := 13 + rng.Intn(50)
		c := make([]int, n)
		for j := range c {
			c[j] = rng.Intn(8)
		}
		for _, m := range []string{"SortStableFunc", "SortStableFuncToSlice", "SortStableFuncToBSlice"} {
			for _, wi := range []int{0, 1, 2 + 2*(i%3), 3 + 2*(i%3)} {
				runCase(w, "stable", wi, c, []op{{Name: m, Fn: "lt_half"}})
			}
		}
	}

	// ---- detach: a slice is handed over (the one the wrapper was built from, a ToMetaSlice / CopyToSlice result), then a
	// method that rebinds or resets the receiver (Clear, Filter, Unmarshal), then methods that write: what was handed over
	// before must not be reached through the receiver any more (re-read after every call, see o_ret) ----
	resetters := []op{{Name: "Clear"}, {Name: "Filter", Fn: "p_false"}, {Name: "Filter", Fn: "p_even"}, {Name: "Filter", Fn: "p_true"},
		{Name: "Unmarshal", Data: "[]"}, {Name: "Unmarshal", Data: "[4]"}, {Name: "DeleteE", I: 0, J: 1}, {Name: "Clip"}}
	writers := [][]op{
		{{Name: "Append", Vals: []int{5, 6}}},
		{{Name: "InsertE", I: 0, Vals: []int{7}}},
		{{Name: "Unmarshal", Data: "[4,5]"}},
		{{Name: "Unmarshal", Data: "[4,5,6,7,8,9,10,11,12,13,14,15,16,17,18,19,20]"}},
		{{Name: "ReplaceE", I: 0, J: 0, Vals: []int{8, 9}}},
		{{Name: "SetByRangeE", I: 0, Vals: []int{9}}},
		{{Name: "Grow", I: 2}, {Name: "Append", Vals: []int{3}}, {Name: "Cap"}},
		{{Name: "Append", Vals: []int{9, 8}}, {Name: "Insert", I: 0, Vals: []int{7}}, {Name: "Reverse"}},
	}
	for k, c := range familyContents {
		if k%3 != 1 && !o.Thorough() {
			continue
		}
		for ri, rs := range resetters {
			for wi, ws := range writers {
				first := op{Name: "ToMetaSlice"}
				if (k+ri+wi)%3 == 1 {
					first = op{Name: "CopyToSlice"}
				} else if (k+ri+wi)%3 == 2 {
					first = op{Name: "GetByRange", I: 0, J: len(c)}
				}
				ops := append([]op{first, rs}, ws...)
				runCase(w, "detach", (ri+wi)%2, c, ops)
				if (ri+wi)%4 == 0 {
					runCase(w, "detach", 2+(k+ri+wi)%6, c, ops)
				}
			}
		}
	}

	// ---- spy: the user callback looks at the receiver while the method runs (live ToMetaSlice on the unsafe wrappers, the
	// captured underlying slice on the safe ones) and what it saw is recorded; except for the in-place methods it must see
	// the receiver exactly as it was before the call ----
	callbackMethods := map[string]bool{"EqualFunc": true, "CompareFunc": true, "IndexFunc": true, "ForEach": true, "IsSortedFunc": true,
		"BinarySearchFunc": true, "Filter": true, "FilterToSlice": true, "FilterToBSlice": true, "CompactFunc": true,
		"SortFunc": true, "SortFuncToSlice": true, "SortFuncToBSlice": true, "SortComparator": true, "SortComparatorToSlice": true,
		"SortComparatorToBSlice": true, "SortStableFunc": true, "SortStableFuncToSlice": true, "SortStableFuncToBSlice": true}
	for k, c := range familyContents {
		for _, variant := range []int{k, k + 1} {
			for _, op1 := range oneVariantPerMethod(valueOps(c, true), variant) {
				if !callbackMethods[op1.Name] {
					continue
				}
				op1.Spy = true
				runCase(w, "spy", (k+variant)%2, c, []op{op1})
				if variant == k {
					runCase(w, "spy", 1-(k+variant)%2, c, []op{op1})
					if o.Thorough() || (k+len(op1.Name))%2 == 0 {
						runCase(w, "spy", 2+(k+len(op1.Name))%6, c, []op{op1})
					}
				}
			}
		}
	}

	// ---- rand: profiled contents, malformed indexes ----
	nr := 2000
	if o.Thorough() {
		nr = 60000
	}
	for i := 0; i < nr; i++ {
		n := rng.Intn(10)
		if rng.Chance(1, 10) {
			n = 10 + rng.Intn(30) // beyond the insertion-sort threshold of pdqsort
		}
		c := randContent(rng, n, rng.Intn(8))
		runCase(w, "rand", nextW(), c, []op{randOp(rng, c)})
	}

	// ---- seq: short sequences of calls on one receiver per variant ----
	ns := 1200
	if o.Thorough() {
		ns = 30000
	}
	for i := 0; i < ns; i++ {
		c := randContent(rng, rng.Intn(6), 3+rng.Intn(5))
		k := 2 + rng.Intn(4)
		cur := append([]int{}, c...)
		var ops []op
		for s := 0; s < k; s++ {
			// arguments are drawn for the ORIGINAL length (later lengths drift: a source of malformed indexes)
			ops = append(ops, randOp(rng, cur))
		}
		runCase(w, "seq", nextW(), c, ops)
	}

	genRecs(w, rng, o.Thorough())
	genFloats(w, rng, o.Thorough())
	genBMap(w, rng, o.Thorough())

	w.Close(o, "bslice: one case = one logical content (ints), 3 capacity variants (clipped, cap=len+1, cap=2*len+8; for the empty content also the nil slice), "+
		"a sequence of 1..5 method calls executed on the real wrappers; every call records panic/error/result/receiver window/array identity/alias probe per variant. "+
		"exh = every method x every argument in [-1,len+1] x contents over {0,1,2} (quick: value-driven methods on all contents of length<=3, index-driven methods on all contents of length<=1 and two per longer length; thorough: all of length<=4); "+
		"wrap = every method through each of the 8 wrappers on a family of contents (single, all negative, all equal, mixed signs, large magnitudes, empty); exh-neg = order/magnitude methods on all contents of length<=3 over {-3,-1,7} through the unsafe and safe wrapper of the defining flavour; stable = stable sorts on 13..62 elements with equal keys; detach = hand a slice over, reset/rebind the receiver (Clear, Filter, Unmarshal, Delete, Clip), then write through it; every slice handed over (constructor argument, every returned slice) is re-read after every later call of the case; rand = profiled contents up to length 40 with indexes in [-2,n+2]; seq = sequences of 2..5 calls. "+
		"spy = callback-taking methods with callbacks that look at the receiver mid-call; float = Ordered/Calculable wrappers over float64/float32 with NaN, signed zeros, infinities, subnormals, MaxFloat (reference = plain Go loop, compared by bit pattern); bmap-live = DeleteFunc/ForEach with callbacks on the live size of the map; "+
		"recs = element type struct{ID; Name omitempty} (shown as ID*16+nameIndex): shrink/reset the receiver (Clear, Delete, Filter, Replace, Compact, Clip ...), then Unmarshal JSON objects that omit fields, on Unsafe/SafeAny; "+
		"bmap: sequences of 1..6 calls on the 4 wrappers from nil/empty/populated maps. distinct = distinct case terms; non-trivial = non-empty content or a call with a non-empty argument (bslice), non-empty initial map or more than one call (bmap)")
}
