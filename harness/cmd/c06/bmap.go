// C06 harness, bmap half: every bmap method on the four wrappers; what depends on Go's map iteration
// order is recorded as a sorted collection.
package main

import (
	"encoding/json"
	"fmt"
	"sort"

	"github.com/songzhibin97/go-baseutils/base/bmap"

	"vh/vhlib"
)

var kvfuncs = map[string]func(int, int) bool{
	"kv_true":  func(k, v int) bool { return true },
	"kv_false": func(k, v int) bool { return false },
	"kv_keven": func(k, v int) bool { return k%2 == 0 },
	"kv_vpos":  func(k, v int) bool { return v > 0 },
	"kv_klt_v": func(k, v int) bool { return k < v },
	"eq_std":   func(a, b int) bool { return a == b },
	"eq_mod2":  func(a, b int) bool { return a%2 == b%2 },
	"eq_le":    func(a, b int) bool { return a <= b },
	"eq_true":  func(a, b int) bool { return true },
	"eq_false": func(a, b int) bool { return false },
}

// callbacks on the live size of the map being filtered (Coq: nat -> bool)
type liveFunc struct {
	f   func(int) bool
	coq string
}

var liveFuncs = map[string]liveFunc{
	"live_gt0":  {func(n int) bool { return n > 0 }, "(fun n => Nat.ltb 0 n)"},
	"live_gt1":  {func(n int) bool { return n > 1 }, "(fun n => Nat.ltb 1 n)"},
	"live_gt2":  {func(n int) bool { return n > 2 }, "(fun n => Nat.ltb 2 n)"},
	"live_gt4":  {func(n int) bool { return n > 4 }, "(fun n => Nat.ltb 4 n)"},
	"live_even": {func(n int) bool { return n%2 == 0 }, "Nat.even"},
	"live_odd":  {func(n int) bool { return n%2 == 1 }, "Nat.odd"},
	"live_ne3":  {func(n int) bool { return n != 3 }, "(fun n => negb (Nat.eqb n 3))"},
}
var liveNames = []string{"live_gt0", "live_gt1", "live_gt2", "live_gt4", "live_even", "live_odd", "live_ne3"}

var bmWrapperNames = []string{"UnsafeAny", "SafeAny", "UnsafeComparable", "SafeComparable"}

type mrecv struct {
	any bmap.AnyBMap[int, int]
	cmp bmap.ComparableBMap[int, int]
}

func newMRecv(w int, m map[int]int) mrecv {
	switch w {
	case 0:
		return mrecv{any: bmap.NewUnsafeAnyBMapByMap(m)}
	case 1:
		return mrecv{any: bmap.NewSafeAnyBMapByMap(m)}
	case 2:
		x := bmap.NewUnsafeComparableBMapByMap(m)
		return mrecv{any: x, cmp: x}
	default:
		x := bmap.NewSafeComparableBMapByMap(m)
		return mrecv{any: x, cmp: x}
	}
}

type mop struct {
	Name  string      `json:"m"`
	K     int         `json:"k,omitempty"`
	V     int         `json:"v,omitempty"`
	V2    int         `json:"v2,omitempty"`
	Fn    string      `json:"fn,omitempty"`
	Arg   map[int]int `json:"arg,omitempty"`
	ArgOK bool        `json:"arg_non_nil,omitempty"`
	Data  string      `json:"data,omitempty"`
}

func cloneMap(m map[int]int) map[int]int {
	if m == nil {
		return nil
	}
	r := map[int]int{}
	for k, v := range m {
		r[k] = v
	}
	return r
}

func sortedKeys(m map[int]int) []int {
	ks := make([]int, 0, len(m))
	for k := range m {
		ks = append(ks, k)
	}
	sort.Ints(ks)
	return ks
}

func amap(m map[int]int) string {
	it := []string{}
	for _, k := range sortedKeys(m) {
		it = append(it, vhlib.Pair(zi(k), zi(m[k])))
	}
	return vhlib.List(it)
}
func bmapTerm(m map[int]int) string {
	if m == nil {
		return "None"
	}
	return "(Some " + amap(m) + ")"
}
func flatSorted(m map[int]int) []int {
	r := []int{}
	for _, k := range sortedKeys(m) {
		r = append(r, k, m[k])
	}
	return r
}

func (o mop) arg() map[int]int {
	if !o.ArgOK {
		return nil
	}
	if o.Arg == nil {
		return map[int]int{}
	}
	return cloneMap(o.Arg)
}

func (o mop) coq() string {
	b := vhlib.Bool
	byB := len(o.Name) > 4 && o.Name[len(o.Name)-4:] == "BMap"
	argT := bmapTerm(o.arg())
	if byB && !o.ArgOK {
		argT = "(Some [])" // the argument is wrapped by NewUnsafeAnyBMapByMap: nil becomes an empty map
	}
	switch o.Name {
	case "ToMetaMap":
		return "OToMetaMap"
	case "Keys":
		return "OKeys"
	case "Values":
		return "OValues"
	case "EqualFuncByMap", "EqualFuncByBMap":
		return fmt.Sprintf("OEqualFunc %s %s %s", b(byB), argT, o.Fn)
	case "Clear":
		return "OClear"
	case "CloneToMap":
		return "OClone false"
	case "CloneToBMap":
		return "OClone true"
	case "CopyByMap", "CopyByBMap":
		return fmt.Sprintf("OCopy %s %s", b(byB), argT)
	case "DeleteFunc":
		if g, ok := liveFuncs[o.Fn]; ok {
			return "ODeleteFuncLive " + g.coq
		}
		return "ODeleteFunc " + o.Fn
	case "Marshal":
		return "OMarshal"
	case "Unmarshal":
		var m map[int]int
		if err := json.Unmarshal([]byte(o.Data), &m); err != nil || m == nil {
			return "OUnmarshal None"
		}
		return "OUnmarshal (Some " + amap(m) + ")"
	case "Size":
		return "OSize"
	case "IsEmpty":
		return "OIsEmpty"
	case "IsExist":
		return "OIsExist " + zi(o.K)
	case "ContainsKey":
		return "OContainsKey " + zi(o.K)
	case "ContainsValue":
		return "OContainsValue " + zi(o.V)
	case "ForEach":
		if o.Fn == "live" {
			return "OForEachLive"
		}
		return "OForEach"
	case "Get":
		return "OGet " + zi(o.K)
	case "GetOrDefault":
		return fmt.Sprintf("OGetOrDefault %s %s", zi(o.K), zi(o.V))
	case "Put":
		return fmt.Sprintf("OPut %s %s", zi(o.K), zi(o.V))
	case "PuTIfAbsent":
		return fmt.Sprintf("OPutIfAbsent %s %s", zi(o.K), zi(o.V))
	case "Delete":
		return "ODelete " + zi(o.K)
	case "DeleteIfPresent":
		return "ODeleteIfPresent " + zi(o.K)
	case "MergeByMap", "MergeByBMap":
		f := "None"
		if o.Fn != "" {
			f = "(Some " + o.Fn + ")"
		}
		return fmt.Sprintf("OMerge %s %s %s", b(byB), argT, f)
	case "Replace":
		return fmt.Sprintf("OReplace %s %s %s", zi(o.K), zi(o.V), zi(o.V2))
	case "EqualByMap", "EqualByBMap":
		return fmt.Sprintf("OEqual %s %s", b(byB), argT)
	}
	panic("unknown bmap method " + o.Name)
}

const mapSentinel = 987654321

// aliasOf: does a write through m show in the receiver's map?
func aliasOf(m map[int]int, r mrecv) bool {
	if m == nil {
		return false
	}
	m[mapSentinel] = 1
	_, seen := r.any.ToMetaMap()[mapSentinel]
	delete(m, mapSentinel)
	return seen
}

func execMap(o mop, r mrecv) string {
	a := r.any
	bo := func(x bool) string { return "BBool " + vhlib.Bool(x) }
	ib := func(v int, ok bool) string { return fmt.Sprintf("BIntBool %s %s", zi(v), vhlib.Bool(ok)) }
	mo := func(m map[int]int) string {
		return fmt.Sprintf("BMapOut %s %s", bmapTerm(m), vhlib.Bool(aliasOf(m, r)))
	}
	var fn func(int, int) bool
	if o.Fn != "" {
		fn = kvfuncs[o.Fn]
	}
	switch o.Name {
	case "ToMetaMap":
		return mo(a.ToMetaMap())
	case "Keys":
		ks := a.Keys()
		sort.Ints(ks)
		return "BList " + zl(ks)
	case "Values":
		vs := a.Values()
		sort.Ints(vs)
		return "BList " + zl(vs)
	case "EqualFuncByMap":
		return bo(a.EqualFuncByMap(o.arg(), fn))
	case "EqualFuncByBMap":
		return bo(a.EqualFuncByBMap(bmap.NewUnsafeAnyBMapByMap(o.arg()), fn))
	case "Clear":
		a.Clear()
	case "CloneToMap":
		return mo(a.CloneToMap())
	case "CloneToBMap":
		return mo(a.CloneToBMap().ToMetaMap())
	case "CopyByMap":
		dst := o.arg()
		a.CopyByMap(dst)
		return mo(dst)
	case "CopyByBMap":
		dst := bmap.NewUnsafeAnyBMapByMap(o.arg())
		a.CopyByBMap(dst)
		return mo(dst.ToMetaMap())
	case "DeleteFunc":
		if g, ok := liveFuncs[o.Fn]; ok {
			// the callback looks at the LIVE map (through ToMetaMap) and records the size it sees
			seen := []int{}
			visited := map[int]int{}
			a.DeleteFunc(func(k, v int) bool {
				visited[k]++
				n := len(a.ToMetaMap())
				seen = append(seen, n)
				return g.f(n)
			})
			for _, c := range visited {
				if c > 1 {
					return "BErr" // a key was handed to the callback twice
				}
			}
			return "BList " + zl(seen)
		}
		a.DeleteFunc(fn)
	case "Marshal":
		bs, err := a.Marshal()
		var m map[int]int
		if err != nil || json.Unmarshal(bs, &m) != nil || m == nil {
			return "BErr"
		}
		return "BList " + zl(flatSorted(m))
	case "Unmarshal":
		if a.Unmarshal([]byte(o.Data)) != nil {
			return "BErr"
		}
	case "Size":
		return "BInt " + zi(a.Size())
	case "IsEmpty":
		return bo(a.IsEmpty())
	case "IsExist":
		return bo(a.IsExist(o.K))
	case "ContainsKey":
		return bo(a.ContainsKey(o.K))
	case "ContainsValue":
		return bo(a.ContainsValue(o.V))
	case "ForEach":
		if o.Fn == "live" {
			sizes := []int{}
			a.ForEach(func(k, v int) { sizes = append(sizes, len(a.ToMetaMap())) })
			return "BList " + zl(sizes)
		}
		seen := map[int]int{}
		n := 0
		a.ForEach(func(k, v int) { seen[k] = v; n++ })
		if n != len(seen) {
			return "BErr" // a key was visited twice
		}
		return "BList " + zl(flatSorted(seen))
	case "Get":
		return ib(a.Get(o.K))
	case "GetOrDefault":
		return "BInt " + zi(a.GetOrDefault(o.K, o.V))
	case "Put":
		a.Put(o.K, o.V)
	case "PuTIfAbsent":
		return bo(a.PuTIfAbsent(o.K, o.V))
	case "Delete":
		a.Delete(o.K)
	case "DeleteIfPresent":
		return ib(a.DeleteIfPresent(o.K))
	case "MergeByMap":
		a.MergeByMap(o.arg(), fn)
	case "MergeByBMap":
		a.MergeByBMap(bmap.NewUnsafeAnyBMapByMap(o.arg()), fn)
	case "Replace":
		return bo(a.Replace(o.K, o.V, o.V2))
	case "EqualByMap":
		return bo(r.cmp.EqualByMap(o.arg()))
	case "EqualByBMap":
		return bo(r.cmp.EqualByBMap(bmap.NewUnsafeAnyBMapByMap(o.arg())))
	default:
		panic("unknown bmap method " + o.Name)
	}
	return "BNone"
}

// runMapCase: init = the map handed to the constructor (nil allowed)
func runMapCase(wr *vhlib.Writer, stream string, w int, init map[int]int, ops []mop) {
	for _, o := range ops {
		if (o.Name == "EqualByMap" || o.Name == "EqualByBMap") && w < 2 {
			w += 2
		}
	}
	r := newMRecv(w, cloneMap(init))
	// step 0 = the constructor: every ...ByMap constructor must hand out a usable map (nil argument -> empty map)
	start := cloneMap(r.any.ToMetaMap())
	ctor := "New" + bmWrapperNames[w] + "BMapByMap"
	steps := []string{fmt.Sprintf("{| ms_op := ONew %s; ms_out := BNone; ms_after := %s |}", bmapTerm(init), bmapTerm(start))}
	labels := []string{ctor}
	seen := []interface{}{map[string]interface{}{"out": "constructed", "after": fmt.Sprint(start), "after_nil": start == nil}}
	for _, o := range ops {
		var out string
		p, pv := vhlib.Recover(func() { out = execMap(o, r) })
		if p {
			out = "BPanic"
		}
		after := r.any.ToMetaMap()
		steps = append(steps, fmt.Sprintf("{| ms_op := %s; ms_out := %s; ms_after := %s |}", o.coq(), out, bmapTerm(after)))
		labels = append(labels, o.Name)
		seen = append(seen, map[string]interface{}{"out": out, "after": fmt.Sprint(after), "panic": fmt.Sprint(pv)})
		if p {
			break
		}
	}
	term := fmt.Sprintf("BM {| mc_init := %s; mc_steps := %s |}", bmapTerm(init), vhlib.List(steps))
	label := stream
	if len(ops) == 1 {
		label = stream + ":" + ops[0].Name
	}
	wr.Case(term, label, len(init) > 0 || len(ops) > 1, labels, map[string]interface{}{
		"type": "bmap", "wrapper": bmWrapperNames[w], "init": fmt.Sprint(init), "init_nil": init == nil, "constructor": ctor, "ops": ops[:len(labels)-1], "observed": seen})
}
