// C03 harness: drives the real structure/sets/zset (plain Set[int]; IntComparator and comparators of other shapes) through
// operation sequences, records every return value and - through the verif accessor VerifDump -
// the real skip list after mutations, and writes Coq cases for C03/Check.v.
//
// The heights randomLevel draws are an oracle input of the model: the harness installs a recorded
// source in fastrand.Uint32 (a reassignable package variable) that makes randomLevel return the
// planned raw level (h-1 zero draws, then a non-zero one). The dump comparison (node levels) checks
// that the list really built towers of those heights.
package main

import (
	"encoding/json"
	"fmt"
	"math"
	"os"
	"strings"

	"github.com/songzhibin97/go-baseutils/base/bcomparator"
	"github.com/songzhibin97/go-baseutils/structure/sets/zset"
	"github.com/songzhibin97/go-baseutils/sys/fastrand"

	"vh/vhlib"
)

// ---------- height oracle ----------

type source struct{ q []uint32 }

func (s *source) next() uint32 {
	if len(s.q) == 0 {
		return 0xFFFFFFFF // Uint32n(4) == 3: randomLevel stops (level 1 when nothing was planned)
	}
	v := s.q[0]
	s.q = s.q[1:]
	return v
}

func (s *source) plan(hs []int) {
	s.q = s.q[:0]
	for _, h := range hs {
		for i := 1; i < h; i++ {
			s.q = append(s.q, uint32(i*7919)&0x3FFFFFFF) // < 2^30: Uint32n(4) == 0
		}
		s.q = append(s.q, 0x40000000+uint32(h%3)*0x40000000) // >= 2^30: Uint32n(4) in 1..3
	}
}

var src = &source{}

func pickH(r *vhlib.Rng) int {
	switch x := r.Intn(100); {
	case x < 50:
		return 1
	case x < 75:
		return 2
	case x < 87:
		return 3
	case x < 93:
		return 4
	case x < 97:
		return 5 // beyond op1 = 4: the optionalArray's extra block
	case x < 99:
		return 6 + r.Intn(3)
	default:
		if r.Chance(1, 8) {
			return 33 + r.Intn(3) // above maxLevel: capped at 32
		}
		return 9 + r.Intn(4)
	}
}

func pickHs(r *vhlib.Rng, n int) []int {
	hs := make([]int, n)
	for i := range hs {
		hs[i] = pickH(r)
	}
	return hs
}

// ---------- operations ----------

type op struct {
	K     string `json:"op"`
	A     int    `json:"a,omitempty"` // score / min / start (RevRangeByScore: max)
	B     int    `json:"b,omitempty"` // member / max / stop (RevRangeByScore: min)
	ExMin bool   `json:"exmin,omitempty"`
	ExMax bool   `json:"exmax,omitempty"`
	Ms    []int  `json:"ms,omitempty"`
	Hs    []int  `json:"hs,omitempty"`
}

func mutates(k string) bool {
	switch k {
	case "AddB", "IncrBy", "RemoveB", "Add", "Remove", "Clear", "RemoveRangeByRank", "RemoveRangeByScore", "RemoveRangeByScoreWithOpt":
		return true
	}
	return false
}

func z64(v int) string { return vhlib.Z(int64(v)) }

// ---------- comparator shapes ----------
// The Comparator type only promises the sign of its result. A share of the cases runs with
// comparators of other shapes than the library's -1/0/+1: the difference a-b, the sign times a large
// constant, and the reversed order b-a. Model and Spec only need the sign; for the reversed order the
// members are written to the Coq case NEGATED (m <-> -m is an order isomorphism between (int, b-a) and
// (Z, <)), so the same model and Spec judge it.
var shapes = []string{"diff", "big", "rev"}
var (
	mSign      = 1     // -1 while a reversed-order case is being recorded
	curShape   = "std" // comparator of the case being recorded
	shapeCount = 0
	forceShape = false // tie-heavy generators: never the standard comparator
)

func cmpFor(shape string) bcomparator.Comparator[int] {
	switch shape {
	case "diff":
		return func(a, b int) int { return a - b }
	case "big":
		return func(a, b int) int {
			switch {
			case a < b:
				return -(1 << 40) - 7
			case a > b:
				return 1<<40 + 7
			}
			return 0
		}
	case "rev":
		return func(a, b int) int { return b - a }
	}
	return bcomparator.IntComparator()
}

// nextShape chooses the comparator of the next case: every third case (every case of a tie-heavy
// generator) gets a non-standard shape, cycling through them.
func nextShape() bcomparator.Comparator[int] {
	shapeCount++
	curShape = "std"
	if forceShape || shapeCount%3 == 0 {
		curShape = shapes[(shapeCount/3+shapeCount)%len(shapes)]
	}
	return useShape(curShape)
}

func useShape(shape string) bcomparator.Comparator[int] {
	curShape = shape
	mSign = 1
	if shape == "rev" {
		mSign = -1
	}
	return cmpFor(shape)
}

func zm(v int) string { return z64(v * mSign) }
func zms(vs []int) string {
	it := make([]int, len(vs))
	for i, v := range vs {
		it[i] = v * mSign
	}
	return vhlib.IntList(it)
}

func (o *op) coq() string {
	switch o.K {
	case "AddB":
		return fmt.Sprintf("OAddB %s %s %s", z64(o.A), zm(o.B), vhlib.NatList(o.Hs))
	case "IncrBy":
		return fmt.Sprintf("OIncrBy %s %s %s", z64(o.A), zm(o.B), vhlib.NatList(o.Hs))
	case "RemoveB":
		return "ORemoveB " + zm(o.B)
	case "Add":
		return fmt.Sprintf("OAdd %s %s", zms(o.Ms), vhlib.NatList(o.Hs))
	case "Remove":
		return "ORemove " + zms(o.Ms)
	case "Contains":
		return "OContains " + zms(o.Ms)
	case "Clear":
		return "OClear"
	case "Len":
		return "OLen"
	case "Size":
		return "OSize"
	case "Empty":
		return "OEmpty"
	case "Values":
		return "OValues"
	case "Score":
		return "OScore " + zm(o.B)
	case "ContainsB":
		return "OContainsB " + zm(o.B)
	case "Rank":
		return "ORank " + zm(o.B)
	case "RevRank":
		return "ORevRank " + zm(o.B)
	case "Count":
		return fmt.Sprintf("OCount %s %s", z64(o.A), z64(o.B))
	case "CountWithOpt":
		return fmt.Sprintf("OCountOpt %s %s %s %s", z64(o.A), z64(o.B), vhlib.Bool(o.ExMin), vhlib.Bool(o.ExMax))
	case "Range":
		return fmt.Sprintf("ORange %s %s", z64(o.A), z64(o.B))
	case "RevRange":
		return fmt.Sprintf("ORevRange %s %s", z64(o.A), z64(o.B))
	case "RangeByScore":
		return fmt.Sprintf("ORangeByScore %s %s", z64(o.A), z64(o.B))
	case "RangeByScoreWithOpt":
		return fmt.Sprintf("ORangeByScoreOpt %s %s %s %s", z64(o.A), z64(o.B), vhlib.Bool(o.ExMin), vhlib.Bool(o.ExMax))
	case "RevRangeByScore":
		return fmt.Sprintf("ORevRangeByScore %s %s", z64(o.A), z64(o.B))
	case "RevRangeByScoreWithOpt":
		return fmt.Sprintf("ORevRangeByScoreOpt %s %s %s %s", z64(o.A), z64(o.B), vhlib.Bool(o.ExMin), vhlib.Bool(o.ExMax))
	case "RemoveRangeByRank":
		return fmt.Sprintf("ORemRangeByRank %s %s", z64(o.A), z64(o.B))
	case "RemoveRangeByScore":
		return fmt.Sprintf("ORemRangeByScore %s %s", z64(o.A), z64(o.B))
	case "RemoveRangeByScoreWithOpt":
		return fmt.Sprintf("ORemRangeByScoreOpt %s %s %s %s", z64(o.A), z64(o.B), vhlib.Bool(o.ExMin), vhlib.Bool(o.ExMax))
	}
	panic("unknown op " + o.K)
}

// Inf as a query bound stands for +Inf (and -Inf for -Inf): the model and the Spec see the integer
// 2^60, which is beyond every score just as the infinities are.
const Inf = 1 << 60

func fl(v int) float64 {
	switch v {
	case Inf:
		return math.Inf(1)
	case -Inf:
		return math.Inf(-1)
	}
	return float64(v)
}

// a float64 score as the integer the model works with; anything else (the header sentinel's
// -MaxFloat64, a non-integral value) becomes a value no model or spec ever produces
func fscore(f float64) int64 {
	if f == math.Trunc(f) && math.Abs(f) < 1<<50 {
		return int64(f)
	}
	return -(1 << 60)
}

func nodesTerm(ns []zset.Node[int]) string {
	it := make([]string, len(ns))
	for i, n := range ns {
		it[i] = vhlib.Pair(vhlib.Z(fscore(n.Score)), zm(n.Value))
	}
	return "RNodes " + vhlib.List(it)
}

func scoreOk(s float64, ok bool) string {
	return fmt.Sprintf("RScoreOk %s %s", vhlib.Z(fscore(s)), vhlib.Bool(ok))
}

// exec runs one operation on the real set and returns the Coq term of what it returned.
// zapi: what every flavour of the sorted set offers (zset.New and zset.NewSafe); both must satisfy the
// same sequential specification, so a share of every stream runs through the concurrency-safe
// wrapper (single goroutine) against the same model and Spec.
type zapi interface {
	Add(elements ...int)
	Remove(elements ...int)
	Contains(elements ...int) bool
	Empty() bool
	Size() int
	Clear()
	Values() []int
	Len() int
	AddB(score float64, value int) bool
	RemoveB(value int) (float64, bool)
	IncrBy(incr float64, value int) (float64, bool)
	ContainsB(value int) bool
	Score(value int) (float64, bool)
	Rank(value int) int
	RevRank(value int) int
	Count(min, max float64) int
	CountWithOpt(min, max float64, opt zset.RangeOpt) int
	Range(start, stop int) []zset.Node[int]
	RangeByScore(min, max float64) []zset.Node[int]
	RangeByScoreWithOpt(min, max float64, opt zset.RangeOpt) []zset.Node[int]
	RevRange(start, stop int) []zset.Node[int]
	RevRangeByScore(max, min float64) []zset.Node[int]
	RevRangeByScoreWithOpt(max, min float64, opt zset.RangeOpt) []zset.Node[int]
	RemoveRangeByRank(start, stop int) []zset.Node[int]
	RemoveRangeByScore(min, max float64) []zset.Node[int]
	RemoveRangeByScoreWithOpt(min, max float64, opt zset.RangeOpt) []zset.Node[int]
}

var _ zapi = (*zset.Set[int])(nil)
var _ zapi = (*zset.SetSafe[int])(nil)

func exec(z zapi, o *op) (out string) {
	src.plan(o.Hs)
	p, pv := vhlib.Recover(func() {
		a, b := fl(o.A), fl(o.B)
		opt := zset.RangeOpt{ExcludeMin: o.ExMin, ExcludeMax: o.ExMax}
		switch o.K {
		case "AddB":
			out = "RBool " + vhlib.Bool(z.AddB(a, o.B))
		case "IncrBy":
			out = scoreOk(z.IncrBy(a, o.B))
		case "RemoveB":
			out = scoreOk(z.RemoveB(o.B))
		case "Add":
			z.Add(o.Ms...)
			out = "RUnit"
		case "Remove":
			z.Remove(o.Ms...)
			out = "RUnit"
		case "Contains":
			out = "RBool " + vhlib.Bool(z.Contains(o.Ms...))
		case "Clear":
			z.Clear()
			out = "RUnit"
		case "Len":
			out = "RInt " + z64(z.Len())
		case "Size":
			out = "RInt " + z64(z.Size())
		case "Empty":
			out = "RBool " + vhlib.Bool(z.Empty())
		case "Values":
			out = "RVals " + zms(z.Values())
		case "Score":
			out = scoreOk(z.Score(o.B))
		case "ContainsB":
			out = "RBool " + vhlib.Bool(z.ContainsB(o.B))
		case "Rank":
			out = "RInt " + z64(z.Rank(o.B))
		case "RevRank":
			out = "RInt " + z64(z.RevRank(o.B))
		case "Count":
			out = "RInt " + z64(z.Count(a, b))
		case "CountWithOpt":
			out = "RInt " + z64(z.CountWithOpt(a, b, opt))
		case "Range":
			out = nodesTerm(z.Range(o.A, o.B))
		case "RevRange":
			out = nodesTerm(z.RevRange(o.A, o.B))
		case "RangeByScore":
			out = nodesTerm(z.RangeByScore(a, b))
		case "RangeByScoreWithOpt":
			out = nodesTerm(z.RangeByScoreWithOpt(a, b, opt))
		case "RevRangeByScore":
			out = nodesTerm(z.RevRangeByScore(a, b))
		case "RevRangeByScoreWithOpt":
			out = nodesTerm(z.RevRangeByScoreWithOpt(a, b, opt))
		case "RemoveRangeByRank":
			out = nodesTerm(z.RemoveRangeByRank(o.A, o.B))
		case "RemoveRangeByScore":
			out = nodesTerm(z.RemoveRangeByScore(a, b))
		case "RemoveRangeByScoreWithOpt":
			out = nodesTerm(z.RemoveRangeByScoreWithOpt(a, b, opt))
		default:
			panic("unknown op " + o.K)
		}
	})
	if p {
		_ = pv
		return "RPanic"
	}
	return out
}

func pairList(next, span []int) string {
	it := make([]string, len(next))
	for i := range next {
		it[i] = vhlib.Pair(z64(next[i]), z64(span[i]))
	}
	return vhlib.List(it)
}

func dumpTerm(z *zset.Set[int]) string {
	var d zset.VerifDump[int]
	p, _ := vhlib.Recover(func() { d = z.VerifDump() })
	if p || d.Truncated {
		// a dump that cannot be taken never equals a derived one
		return "(mkDump 0%nat (-7) (-7) [] [])"
	}
	ns := make([]string, len(d.Nodes))
	for i, n := range d.Nodes {
		ns[i] = fmt.Sprintf("mkD %s %s %s %s %s", vhlib.Z(fscore(n.Score)), zm(n.Value), vhlib.Nat(n.Level), pairList(n.Next, n.Span), z64(n.Prev))
	}
	return fmt.Sprintf("(mkDump %s %s %s %s %s)", vhlib.Nat(d.Highest), z64(d.Length), z64(d.Tail), pairList(d.HeaderNext, d.HeaderSpan), vhlib.List(ns))
}

// ---------- a running case ----------

type run struct {
	z       zapi
	steps   []string
	labels  []string
	ops     []*op
	maxLen  int
	shape   string
	flavour string
}

// curRun: the case being recorded (generators look at its set to aim bounds at scores that are present)
var curRun *run
var flavourCount = 0
var forceFlavour = "" // "safe" / "plain": the next run's flavour regardless of the count

// newRun: a fresh set; every fourth case is built with zset.NewSafe (the modulus differs from the
// comparator shapes' so that the two vary independently)
func newRun() *run {
	cmp := nextShape()
	flavourCount++
	r := &run{shape: curShape, flavour: "plain"}
	if (flavourCount%4 == 1 && forceFlavour == "") || forceFlavour == "safe" {
		r.flavour = "safe"
		r.z = zset.NewSafe[int](cmp)
	} else {
		r.z = zset.New[int](cmp)
	}
	curRun = r
	return r
}

// do executes o; dump: attach the structural dump taken right after it
func (r *run) do(o *op, dump bool) {
	out := exec(r.z, o)
	d := "None"
	if p, ok := r.z.(*zset.Set[int]); dump && ok {
		d = "(Some " + dumpTerm(p) + ")" // the safe flavour keeps its Set unexported: no structural dump
	}
	r.steps = append(r.steps, fmt.Sprintf("mkStep (%s) (%s) %s", o.coq(), out, d))
	r.labels = append(r.labels, o.K)
	r.ops = append(r.ops, o)
	if n := r.z.Len(); n > r.maxLen {
		r.maxLen = n
	}
}

// removalType: does o unlink a node (deleteNode)? Re-scoring an existing member may (UpdateScore's
// delete-and-reinsert path), so AddB/IncrBy/Add on a present member count.
func (r *run) removalType(o *op) bool {
	switch o.K {
	case "RemoveB", "Remove", "RemoveRangeByRank", "RemoveRangeByScore", "RemoveRangeByScoreWithOpt", "Clear":
		return true
	case "AddB", "IncrBy":
		return r.z.ContainsB(o.B)
	case "Add":
		for _, m := range o.Ms {
			if r.z.ContainsB(m) {
				return true
			}
		}
	}
	return false
}

// doM executes a mutator and, when it is removal-type, follows it with the battery of traversals that
// run past both ends of the list (back pointers, tail): every result is judged against the Spec.
func (r *run) doM(o *op, dump bool, probe []int, large bool) {
	rem := r.removalType(o)
	r.do(o, dump)
	if !rem {
		// a pure insertion: still walk the list once in both directions past its ends (RevRange follows
		// the back pointers, Range the level-0 forward pointers; the Spec makes them mirror images)
		if !large {
			n := r.z.Len()
			r.do(&op{K: "RevRange", A: 0, B: n + 2}, false)
			r.do(&op{K: "Range", A: 0, B: n + 2}, false)
		}
		return
	}
	if large {
		r.endsBatteryLarge(probe)
	} else {
		r.endsBattery(probe)
	}
}

func (r *run) bounds() (n, lo, hi int) {
	n = r.z.Len()
	if f := r.z.Range(0, 0); len(f) == 1 {
		lo = int(fscore(f[0].Score))
	}
	if l := r.z.Range(-1, -1); len(l) == 1 {
		hi = int(fscore(l[0].Score))
	}
	return
}

// fullBattery (thorough tier): every variant; otherwise the essential ones
var fullBattery bool

func (r *run) endsBattery(probe []int) {
	n, lo, hi := r.bounds()
	// reverse and forward traversals that run past the front / the end
	pairs := [][2]int{{0, n + 2}, {-n - 2, n + 2}, {n - 1, n + 1}}
	if fullBattery {
		pairs = append(pairs, [2]int{0, 0}, [2]int{n - 2, n})
	}
	for _, ab := range pairs {
		r.do(&op{K: "RevRange", A: ab[0], B: ab[1]}, false)
		r.do(&op{K: "Range", A: ab[0], B: ab[1]}, false)
	}
	r.do(&op{K: "RevRange", A: 0, B: 0}, false)
	for e := 0; e < 4; e++ {
		em, ex := e&1 == 1, e&2 == 2
		r.do(&op{K: "RevRangeByScoreWithOpt", A: Inf, B: -Inf, ExMin: em, ExMax: ex}, false)
		if fullBattery {
			r.do(&op{K: "RevRangeByScoreWithOpt", A: lo, B: -Inf, ExMin: em, ExMax: ex}, false)
			r.do(&op{K: "RangeByScoreWithOpt", A: hi, B: Inf, ExMin: em, ExMax: ex}, false)
			r.do(&op{K: "CountWithOpt", A: hi, B: Inf, ExMin: em, ExMax: ex}, false)
		}
	}
	r.do(&op{K: "RevRangeByScore", A: lo, B: -Inf}, false)
	r.do(&op{K: "RangeByScore", A: hi, B: Inf}, false)
	// a stale tail with a higher score would make IsInRange accept these empty ranges
	maxd := 1
	if fullBattery {
		maxd = 3
		r.do(&op{K: "RevRangeByScore", A: Inf, B: -Inf}, false)
		r.do(&op{K: "RangeByScore", A: -Inf, B: Inf}, false)
	}
	for d := 1; d <= maxd; d++ {
		r.do(&op{K: "RangeByScore", A: hi + d, B: Inf}, false)
		r.do(&op{K: "Count", A: hi + d, B: hi + 4}, false)
		r.do(&op{K: "RevRangeByScore", A: Inf, B: hi + d}, false)
		r.do(&op{K: "RevRangeByScore", A: lo - d, B: -Inf}, false)
	}
	for _, m := range probe {
		r.do(&op{K: "RevRank", B: m}, false)
		if fullBattery {
			r.do(&op{K: "Rank", B: m}, false)
		}
	}
}

func (r *run) endsBatteryLarge(probe []int) {
	n, lo, hi := r.bounds()
	r.do(&op{K: "RevRange", A: n - 2, B: n + 2}, false)
	r.do(&op{K: "Range", A: n - 2, B: n + 2}, false)
	r.do(&op{K: "RevRange", A: 0, B: 0}, false)
	r.do(&op{K: "RevRangeByScoreWithOpt", A: lo, B: -Inf, ExMin: n%2 == 0}, false)
	r.do(&op{K: "RangeByScoreWithOpt", A: hi, B: Inf, ExMax: n%2 == 0}, false)
	r.do(&op{K: "RangeByScore", A: hi + 1, B: Inf}, false)
	r.do(&op{K: "Count", A: hi + 1, B: hi + 30}, false)
	if f := r.z.Range(0, 0); len(f) == 1 {
		r.do(&op{K: "RevRank", B: f[0].Value}, false)
	}
	if l := r.z.Range(-1, -1); len(l) == 1 {
		r.do(&op{K: "RevRank", B: l[0].Value}, false)
	}
}

func (r *run) emit(w *vhlib.Writer, label string) {
	term := "CSeq [\n  " + strings.Join(r.steps, ";\n  ") + "]"
	if r.flavour != "plain" {
		label += "/" + r.flavour
	}
	w.Case(term, label, r.maxLen >= 2, r.labels, map[string]interface{}{"kind": "seq", "cmp": r.shape, "flavour": r.flavour, "ops": r.ops})
}

// ---------- generators ----------

type gen struct {
	r       *vhlib.Rng
	members []int
	scores  []int
}

func (g *gen) member() int { return g.members[g.r.Intn(len(g.members))] }
func (g *gen) score() int  { return g.scores[g.r.Intn(len(g.scores))] }
func (g *gen) hs(n int) []int {
	return pickHs(g.r, n)
}

func (g *gen) mutator(profile string, i int, n int) *op { return g.snap(g.mutator0(profile, i, n)) }

func (g *gen) mutator0(profile string, i int, n int) *op {
	r := g.r
	switch profile {
	case "ascending":
		if r.Chance(3, 4) {
			return &op{K: "AddB", A: g.scores[i%len(g.scores)], B: g.members[i%len(g.members)], Hs: g.hs(1)}
		}
	case "descending":
		if r.Chance(3, 4) {
			k := len(g.members) - 1 - i%len(g.members)
			return &op{K: "AddB", A: g.scores[len(g.scores)-1-i%len(g.scores)], B: g.members[k], Hs: g.hs(1)}
		}
	case "zigzag":
		if r.Chance(3, 4) {
			s := g.scores[0]
			if i%2 == 1 {
				s = g.scores[len(g.scores)-1]
			}
			return &op{K: "AddB", A: s - i%2 + i%3, B: g.member(), Hs: g.hs(1)}
		}
	case "rescoring": // few members, scores change all the time: UpdateScore fast and slow paths
		m := g.members[r.Intn(2+len(g.members)/3)]
		if r.Chance(1, 2) {
			return &op{K: "IncrBy", A: r.Range(-2, 2), B: m, Hs: g.hs(1)}
		}
		if r.Chance(4, 5) {
			return &op{K: "AddB", A: g.score(), B: m, Hs: g.hs(1)}
		}
	case "deleting":
		if r.Chance(1, 2) {
			switch r.Intn(4) {
			case 0:
				return &op{K: "RemoveB", B: g.member()}
			case 1:
				return &op{K: "RemoveRangeByRank", A: r.Range(-n-2, n+2), B: r.Range(-n-2, n+2)}
			case 2:
				lo := g.score()
				return &op{K: "RemoveRangeByScoreWithOpt", A: lo, B: lo + r.Range(-1, 2), ExMin: r.Bool(), ExMax: r.Bool()}
			default:
				lo := g.score()
				return &op{K: "RemoveRangeByScore", A: lo, B: lo + r.Range(-1, 2)}
			}
		}
	case "zeros": // every score 0: order is by member only
		if r.Chance(2, 3) {
			if r.Bool() {
				return &op{K: "AddB", A: 0, B: g.member(), Hs: g.hs(1)}
			}
			k := r.Intn(4)
			ms := make([]int, k)
			for j := range ms {
				ms[j] = g.member()
			}
			return &op{K: "Add", Ms: ms, Hs: g.hs(k)}
		}
	}
	if profile == "neighbours" {
		switch x := r.Intn(100); {
		case x < 55:
			if o := g.neighbourUpdate(-1, -1); o != nil {
				return o
			}
		case x < 80:
			if cur := curRun.z.Range(0, -1); len(cur) > 0 {
				return &op{K: "RemoveB", B: cur[r.Intn(len(cur))].Value}
			}
		}
		return &op{K: "AddB", A: 3 * g.score(), B: g.member(), Hs: g.hs(1)}
	}
	if r.Chance(1, 10) {
		if o := g.neighbourUpdate(-1, -1); o != nil {
			return o
		}
	}
	// churn: everything
	switch x := r.Intn(100); {
	case x < 30:
		return &op{K: "AddB", A: g.score(), B: g.member(), Hs: g.hs(1)}
	case x < 50:
		return &op{K: "IncrBy", A: r.Range(-2, 2), B: g.member(), Hs: g.hs(1)}
	case x < 66:
		return &op{K: "RemoveB", B: g.member()}
	case x < 72:
		k := r.Intn(4)
		ms := make([]int, k)
		for j := range ms {
			ms[j] = g.member()
		}
		return &op{K: "Add", Ms: ms, Hs: g.hs(k)}
	case x < 78:
		k := r.Intn(3)
		ms := make([]int, k)
		for j := range ms {
			ms[j] = g.member()
		}
		return &op{K: "Remove", Ms: ms}
	case x < 85:
		return &op{K: "RemoveRangeByRank", A: r.Range(-n-2, n+2), B: r.Range(-n-2, n+2)}
	case x < 91:
		lo := g.score()
		return &op{K: "RemoveRangeByScoreWithOpt", A: lo, B: lo + r.Range(-1, 3), ExMin: r.Bool(), ExMax: r.Bool()}
	case x < 97:
		lo := g.score()
		return &op{K: "RemoveRangeByScore", A: lo, B: lo + r.Range(-1, 3)}
	default:
		return &op{K: "Clear"}
	}
}

// neighbourUpdate re-scores a member that is present so that its new score lands relative to a
// NEIGHBOUR's score: just below, equal to, or just above the predecessor's or the successor's score.
// These are the inputs that decide between UpdateScore's in-place fast path (which reads x.prev and
// x.next) and delete-and-reinsert. idx / where < 0: random choice; where = 0..5 =
// pred-1, pred, pred+1, succ-1, succ, succ+1 (a missing neighbour falls back to the node's own score).
func (g *gen) neighbourUpdate(idx, where int) *op {
	if curRun == nil {
		return nil
	}
	cur := curRun.z.Range(0, -1)
	if len(cur) == 0 {
		return nil
	}
	if idx < 0 || idx >= len(cur) {
		idx = g.r.Intn(len(cur))
	}
	if where < 0 {
		where = g.r.Intn(6)
	}
	own := int(fscore(cur[idx].Score))
	ref := own
	if where < 3 && idx > 0 {
		ref = int(fscore(cur[idx-1].Score))
	}
	if where >= 3 && idx+1 < len(cur) {
		ref = int(fscore(cur[idx+1].Score))
	}
	target := ref + where%3 - 1
	if g.r.Bool() {
		return &op{K: "AddB", A: target, B: cur[idx].Value, Hs: g.hs(1)}
	}
	return &op{K: "IncrBy", A: target - own, B: cur[idx].Value, Hs: g.hs(1)}
}

// snap: half of the randomly generated score-range calls with options get their bounds moved onto
// scores that are present in the set, with at least one bound exclusive - members exactly ON an
// excluded bound are the inputs on which the exclusivity flags matter.
func (g *gen) snap(o *op) *op {
	switch o.K {
	case "RemoveRangeByScoreWithOpt", "CountWithOpt", "RangeByScoreWithOpt", "RevRangeByScoreWithOpt":
	default:
		return o
	}
	if curRun == nil || !g.r.Chance(1, 2) {
		return o
	}
	cur := curRun.z.Range(0, -1)
	if len(cur) == 0 {
		return o
	}
	i := g.r.Intn(len(cur))
	j := i + g.r.Intn(4)
	if j >= len(cur) {
		j = len(cur) - 1
	}
	lo, hi := int(fscore(cur[i].Score)), int(fscore(cur[j].Score))
	e := 1 + g.r.Intn(3)
	o.ExMin, o.ExMax = e&1 == 1, e&2 == 2
	if o.K == "RevRangeByScoreWithOpt" {
		o.A, o.B = hi, lo
	} else {
		o.A, o.B = lo, hi
	}
	return o
}

var queryKinds = []string{"Len", "Size", "Empty", "Values", "Score", "ContainsB", "Contains", "Rank", "RevRank", "Count", "CountWithOpt",
	"Range", "RevRange", "RangeByScore", "RangeByScoreWithOpt", "RevRangeByScore", "RevRangeByScoreWithOpt"}

func (g *gen) query(n int) *op { return g.snap(g.query0(n)) }

func (g *gen) query0(n int) *op {
	r := g.r
	k := queryKinds[r.Intn(len(queryKinds))]
	lo, hi := g.scores[0]-1, g.scores[len(g.scores)-1]+1
	switch k {
	case "Score", "ContainsB", "Rank", "RevRank":
		m := g.member()
		if r.Chance(1, 8) {
			m = g.members[len(g.members)-1] + 1 + r.Intn(3) // never added
		}
		return &op{K: k, B: m}
	case "Contains":
		c := r.Intn(3)
		if r.Chance(1, 3) {
			c = n + 1 + r.Intn(2) // more arguments than members (repeats)
		}
		ms := make([]int, c)
		for j := range ms {
			ms[j] = g.member()
		}
		if cur := curRun.z.Values(); len(cur) > 0 && r.Bool() {
			for j := range ms {
				ms[j] = cur[r.Intn(len(cur))] // all present
			}
		}
		return &op{K: k, Ms: ms}
	case "Count", "RangeByScore":
		a := r.Range(lo, hi)
		return &op{K: k, A: a, B: a + r.Range(-1, 3)}
	case "RevRangeByScore":
		a := r.Range(lo, hi)
		return &op{K: k, A: a + r.Range(-1, 3), B: a} // (max, min)
	case "CountWithOpt", "RangeByScoreWithOpt":
		a := r.Range(lo, hi)
		return &op{K: k, A: a, B: a + r.Range(-1, 3), ExMin: r.Bool(), ExMax: r.Bool()}
	case "RevRangeByScoreWithOpt":
		a := r.Range(lo, hi)
		return &op{K: k, A: a + r.Range(-1, 3), B: a, ExMin: r.Bool(), ExMax: r.Bool()}
	case "Range", "RevRange":
		return &op{K: k, A: r.Range(-n-2, n+2), B: r.Range(-n-2, n+2)}
	}
	return &op{K: k}
}

// the observables of the whole API on the current state, with every argument of the small universe
func (g *gen) fullSweep(run *run, probeMembers []int) {
	n := run.z.Len()
	for _, k := range []string{"Len", "Size", "Empty", "Values"} {
		run.do(&op{K: k}, false)
	}
	for _, m := range probeMembers {
		for _, k := range []string{"Score", "ContainsB", "Rank", "RevRank"} {
			run.do(&op{K: k, B: m}, false)
		}
	}
	run.do(&op{K: "Contains"}, false)
	run.do(&op{K: "Contains", Ms: probeMembers[:2]}, false)
	for a := -n - 2; a <= n+2; a++ {
		for b := -n - 2; b <= n+2; b++ {
			run.do(&op{K: "Range", A: a, B: b}, false)
			run.do(&op{K: "RevRange", A: a, B: b}, false)
		}
	}
	lo, hi := g.scores[0]-1, g.scores[len(g.scores)-1]+1
	for a := lo; a <= hi; a++ {
		for b := lo; b <= hi; b++ {
			run.do(&op{K: "Count", A: a, B: b}, false)
			run.do(&op{K: "RangeByScore", A: a, B: b}, false)
			run.do(&op{K: "RevRangeByScore", A: b, B: a}, false)
			for e := 0; e < 4; e++ {
				em, ex := e&1 == 1, e&2 == 2
				run.do(&op{K: "CountWithOpt", A: a, B: b, ExMin: em, ExMax: ex}, false)
				run.do(&op{K: "RangeByScoreWithOpt", A: a, B: b, ExMin: em, ExMax: ex}, false)
				run.do(&op{K: "RevRangeByScoreWithOpt", A: b, B: a, ExMin: em, ExMax: ex}, false)
			}
		}
	}
}

// a short fixed battery after a word
func (g *gen) miniSweep(run *run, probe []int) {
	n := run.z.Len()
	for _, k := range []string{"Len", "Size", "Empty", "Values"} {
		run.do(&op{K: k}, false)
	}
	if vs := run.z.Values(); len(vs) > 0 {
		rep := make([]int, len(vs)+2) // more arguments than members, all present
		for i := range rep {
			rep[i] = vs[i%len(vs)]
		}
		run.do(&op{K: "Contains", Ms: rep}, false)
		run.do(&op{K: "Contains", Ms: append(append([]int(nil), vs...), probe[len(probe)-1]+7)}, false)
	}
	for _, m := range probe {
		for _, k := range []string{"Score", "Rank", "RevRank"} {
			run.do(&op{K: k, B: m}, false)
		}
	}
	for _, ab := range [][2]int{{0, -1}, {-n - 1, n}, {1, 1}, {n, n}, {-1, -1}, {-n - 2, 0}, {n - 1, n + 1}} {
		run.do(&op{K: "Range", A: ab[0], B: ab[1]}, false)
		run.do(&op{K: "RevRange", A: ab[0], B: ab[1]}, false)
	}
	run.do(&op{K: "Count", A: -1, B: 1}, false)
	run.do(&op{K: "CountWithOpt", A: 0, B: 1, ExMin: true}, false)
	run.do(&op{K: "RangeByScore", A: 0, B: 1}, false)
	run.do(&op{K: "RangeByScoreWithOpt", A: -1, B: 1, ExMax: true}, false)
	run.do(&op{K: "RevRangeByScore", A: 1, B: -1}, false)
	run.do(&op{K: "RevRangeByScoreWithOpt", A: 1, B: 0, ExMin: true, ExMax: true}, false)
}

func cloneOp(o *op) *op {
	c := *o
	c.Ms = append([]int(nil), o.Ms...)
	c.Hs = append([]int(nil), o.Hs...)
	return &c
}

func main() {
	o := vhlib.ParseOpts()
	orig := fastrand.Uint32
	fastrand.Uint32 = src.next
	defer func() { fastrand.Uint32 = orig }()
	if o.Replay != "" {
		replay(o.Replay)
		return
	}
	rng := vhlib.NewRng(o.Seed)
	w := vhlib.NewWriter(o.Out, "From VF Require Import Common.Base C03.Spec C03.Model C03.Check.\nLocal Open Scope Z_scope.", "case", "mismatches", 60)
	th := o.Thorough()

	// ---- 1. bounded-exhaustive words over a tiny universe ----
	{
		g := &gen{r: rng.Fork(), members: []int{1, 2, 3}, scores: []int{-1, 0, 1}}
		var alpha []*op
		for _, m := range g.members {
			for _, s := range g.scores {
				alpha = append(alpha, &op{K: "AddB", A: s, B: m})
			}
			for _, d := range []int{-1, 0, 1} {
				alpha = append(alpha, &op{K: "IncrBy", A: d, B: m})
			}
			alpha = append(alpha, &op{K: "RemoveB", B: m})
		}
		alpha = append(alpha, &op{K: "RemoveRangeByRank", A: 0, B: 0}, &op{K: "RemoveRangeByRank", A: -1, B: -1}, &op{K: "RemoveRangeByRank", A: 1, B: 5},
			&op{K: "RemoveRangeByScore", A: 0, B: 1}, &op{K: "RemoveRangeByScoreWithOpt", A: -1, B: 0, ExMin: true}, &op{K: "Clear"})
		// every: ends battery after every removal-type letter; otherwise only after the last letter (the
		// enumeration is prefix-closed, so the battery after an earlier letter is the one of the shorter word)
		runWord := func(word []int, every bool) {
			run := newRun()
			for j, ai := range word {
				c := cloneOp(alpha[ai])
				if c.K == "AddB" || c.K == "IncrBy" {
					c.Hs = g.hs(1)
				}
				if every || j == len(word)-1 {
					run.doM(c, true, g.members, false)
				} else {
					run.do(c, true)
				}
			}
			g.miniSweep(run, g.members)
			run.emit(w, "exhaustive")
		}
		na := len(alpha)
		for a := 0; a < na; a++ {
			runWord([]int{a}, false)
			for b := 0; b < na; b++ {
				runWord([]int{a, b}, false)
				if th {
					for c := 0; c < na; c++ {
						runWord([]int{a, b, c}, false)
					}
				}
			}
		}
		extra := 500
		if th {
			extra = 4000
		}
		for i := 0; i < extra; i++ {
			l := 3 + g.r.Intn(4)
			word := make([]int, l)
			for j := range word {
				word[j] = g.r.Intn(na)
			}
			runWord(word, true)
		}
	}

	fullBattery = th // the exhaustive words above keep the essential battery in both tiers

	// ---- 2. profiled random sequences over 4-6 members x scores -2..2, queries after every mutation ----
	profiles := []string{"churn", "ascending", "descending", "zigzag", "rescoring", "deleting", "zeros", "neighbours"}
	nrand := 20
	if th {
		nrand = 150
	}
	for _, prof := range profiles {
		for c := 0; c < nrand; c++ {
			nm := 4 + rng.Intn(3)
			g := &gen{r: rng.Fork(), scores: []int{-2, -1, 0, 1, 2}}
			for m := 0; m < nm; m++ {
				g.members = append(g.members, m) // includes the zero value 0
			}
			forceShape = prof == "zeros" || prof == "rescoring" // tie-heavy: never the standard comparator
			run := newRun()
			forceShape = false
			l := 12 + g.r.Intn(20)
			for i := 0; i < l; i++ {
				run.doM(g.mutator(prof, i, run.z.Len()), true, g.members, false)
				for q := 0; q < 3; q++ {
					run.do(g.query(run.z.Len()), false)
				}
			}
			run.emit(w, "random/"+prof)
		}
	}

	// ---- 3. full sweeps of every query over every argument on random small states ----
	nsweep := 6
	if th {
		nsweep = 60
	}
	for c := 0; c < nsweep; c++ {
		nm := 4 + rng.Intn(3)
		g := &gen{r: rng.Fork(), scores: []int{-2, -1, 0, 1, 2}}
		for m := 0; m < nm; m++ {
			g.members = append(g.members, m)
		}
		run := newRun()
		l := 4 + g.r.Intn(10)
		for i := 0; i < l; i++ {
			run.do(g.mutator("churn", i, run.z.Len()), true)
		}
		if c == 0 {
			run = newRun() // the empty set
		}
		g.fullSweep(run, append(append([]int(nil), g.members...), nm+1))
		run.emit(w, "sweep")
	}

	// ---- 4. destructive sweeps: every rank pair / score range with every exclusivity on one state ----
	ndest := 1
	if th {
		ndest = 6
	}
	for c := 0; c < ndest; c++ {
		g := &gen{r: rng.Fork(), members: []int{0, 1, 2, 3, 4}, scores: []int{-2, -1, 0, 1, 2}}
		var build []*op
		nb := 4 + g.r.Intn(4)
		for i := 0; i < nb; i++ {
			build = append(build, &op{K: "AddB", A: g.score(), B: g.member(), Hs: g.hs(1)})
		}
		tryOp := func(x *op) {
			run := newRun()
			for _, b := range build {
				run.do(cloneOp(b), false)
			}
			run.doM(x, true, g.members, false)
			for _, k := range []string{"Len", "Size", "Values"} {
				run.do(&op{K: k}, false)
			}
			run.do(&op{K: "Range", A: 0, B: -1}, false)
			run.do(&op{K: "AddB", A: 0, B: 7, Hs: g.hs(1)}, true)
			run.do(&op{K: "Rank", B: 7}, false)
			run.emit(w, "destructive")
		}
		n := 5
		for a := -n - 2; a <= n+2; a++ {
			for b := -n - 2; b <= n+2; b++ {
				tryOp(&op{K: "RemoveRangeByRank", A: a, B: b})
			}
		}
		for a := -3; a <= 3; a++ {
			for b := -3; b <= 3; b++ {
				tryOp(&op{K: "RemoveRangeByScore", A: a, B: b})
				for e := 0; e < 4; e++ {
					tryOp(&op{K: "RemoveRangeByScoreWithOpt", A: a, B: b, ExMin: e&1 == 1, ExMax: e&2 == 2})
				}
			}
		}
	}

	// ---- 5. large random sets with churn ----
	nlarge, size, dumpEvery := 3, 250, 40
	if th {
		nlarge, size, dumpEvery = 6, 1000, 100
	}
	for c := 0; c < nlarge; c++ {
		g := &gen{r: rng.Fork()}
		target := size/2 + g.r.Intn(size/2+1)
		for m := 0; m < 2*target; m++ {
			g.members = append(g.members, m-target/2)
		}
		spread := 3 + g.r.Intn(40)
		for s := -spread; s <= spread; s++ {
			g.scores = append(g.scores, s)
		}
		forceFlavour = []string{"plain", "safe"}[c%2]
		run := newRun()
		forceFlavour = ""
		total := 3 * target
		for i := 0; i < total; i++ {
			n := run.z.Len()
			var m *op
			switch {
			case i < target: // grow
				m = &op{K: "AddB", A: g.score(), B: g.member(), Hs: g.hs(1)}
			case i < 2*target: // churn
				switch x := g.r.Intn(100); {
				case x < 30:
					m = &op{K: "AddB", A: g.score(), B: g.member(), Hs: g.hs(1)}
				case x < 55:
					m = &op{K: "IncrBy", A: g.r.Range(-3, 3), B: g.member(), Hs: g.hs(1)}
				case x < 85:
					m = &op{K: "RemoveB", B: g.member()}
				case x < 90:
					a := g.r.Range(-n-2, n+2)
					m = &op{K: "RemoveRangeByRank", A: a, B: a + g.r.Range(-1, 6)}
				case x < 95:
					lo := g.score()
					m = &op{K: "RemoveRangeByScoreWithOpt", A: lo, B: lo + g.r.Range(0, 1), ExMin: g.r.Bool(), ExMax: g.r.Bool()}
				default:
					k := g.r.Intn(5)
					ms := make([]int, k)
					for j := range ms {
						ms[j] = g.member()
					}
					m = &op{K: "Add", Ms: ms, Hs: g.hs(k)}
				}
			default: // shrink
				switch x := g.r.Intn(100); {
				case x < 70:
					m = &op{K: "RemoveB", B: g.member()}
				case x < 85:
					a := g.r.Range(-n-2, n+2)
					m = &op{K: "RemoveRangeByRank", A: a, B: a + g.r.Range(0, 8)}
				default:
					lo := g.score()
					m = &op{K: "RemoveRangeByScore", A: lo, B: lo + g.r.Range(0, 1)}
				}
			}
			run.doM(g.snap(m), i%dumpEvery == dumpEvery-1 || i == total-1, nil, true)
			// one query per step, windows instead of whole-set listings
			n = run.z.Len()
			var q *op
			switch x := g.r.Intn(10); {
			case x < 2:
				q = &op{K: "Rank", B: g.member()}
			case x < 4:
				q = &op{K: "RevRank", B: g.member()}
			case x < 5:
				a := g.r.Range(-n-2, n+2)
				q = &op{K: "Range", A: a, B: a + g.r.Range(-1, 5)}
			case x < 6:
				a := g.r.Range(-n-2, n+2)
				q = &op{K: "RevRange", A: a, B: a + g.r.Range(-1, 5)}
			case x < 7:
				lo := g.score()
				q = &op{K: "CountWithOpt", A: lo, B: lo + g.r.Range(-1, 6), ExMin: g.r.Bool(), ExMax: g.r.Bool()}
			case x < 8:
				lo := g.score()
				q = &op{K: "RangeByScoreWithOpt", A: lo, B: lo + g.r.Range(0, 1), ExMin: g.r.Bool(), ExMax: g.r.Bool()}
			case x < 9:
				lo := g.score()
				q = &op{K: "RevRangeByScoreWithOpt", A: lo + g.r.Range(0, 1), B: lo, ExMin: g.r.Bool(), ExMax: g.r.Bool()}
			default:
				q = &op{K: []string{"Len", "Size", "Empty", "Score"}[g.r.Intn(4)], B: g.member()}
			}
			run.do(g.snap(q), false)
		}
		run.do(&op{K: "Values"}, false)
		run.emit(w, "large")
	}

	// ---- 5a. directed: score updates landing relative to the neighbours' scores right after the removal
	// of an adjacent node (four nodes 10/20/30/40; remove none or one; then two updates, each of any
	// remaining node to pred-1/pred/pred+1/succ-1/succ/succ+1). Thorough: all 2880; quick: a sample. ----
	{
		g := &gen{r: rng.Fork(), members: []int{3, 1, 2, 0}, scores: []int{-2, -1, 0, 1, 2}}
		one := func(rem, i1, w1, i2, w2 int) {
			run := newRun()
			for k, m := range g.members {
				run.do(&op{K: "AddB", A: 10 * (k + 1), B: m, Hs: g.hs(1)}, false)
			}
			if rem >= 0 {
				run.doM(&op{K: "RemoveB", B: g.members[rem]}, true, g.members, false)
			}
			for _, iw := range [][2]int{{i1, w1}, {i2, w2}} {
				if o := g.neighbourUpdate(iw[0], iw[1]); o != nil {
					run.doM(o, true, g.members, false)
				}
			}
			run.do(&op{K: "Range", A: 0, B: -1}, false)
			run.do(&op{K: "RevRange", A: 0, B: -1}, false)
			run.do(&op{K: "RangeByScore", A: -Inf, B: Inf}, false)
			run.do(&op{K: "Values"}, false)
			for _, m := range g.members {
				run.do(&op{K: "Rank", B: m}, false)
			}
			if cur := run.z.Range(0, -1); len(cur) > 0 {
				mid := int(fscore(cur[len(cur)/2].Score))
				run.doM(&op{K: "RemoveRangeByScore", A: -Inf, B: mid}, true, g.members, false)
			}
			run.emit(w, "neighbours")
		}
		if th {
			for rem := -1; rem < 4; rem++ {
				for i1 := 0; i1 < 4; i1++ {
					for w1 := 0; w1 < 6; w1++ {
						for i2 := 0; i2 < 4; i2++ {
							for w2 := 0; w2 < 6; w2++ {
								one(rem, i1, w1, i2, w2)
							}
						}
					}
				}
			}
		} else {
			for c := 0; c < 120; c++ {
				one(g.r.Intn(5)-1, g.r.Intn(4), g.r.Intn(6), g.r.Intn(4), g.r.Intn(6))
			}
		}
	}

	// ---- 5b. removals aimed at the first / last / middle element, each followed by the ends battery ----
	nfb := 40
	if th {
		nfb = 300
	}
	for c := 0; c < nfb; c++ {
		g := &gen{r: rng.Fork(), members: []int{0, 1, 2, 3, 4, 5}, scores: []int{-2, -1, 0, 1, 2}}
		run := newRun()
		k := 2 + g.r.Intn(5)
		for i := 0; i < k; i++ {
			run.do(&op{K: "AddB", A: g.score(), B: g.member(), Hs: g.hs(1)}, true)
		}
		for round := 0; round < 6; round++ {
			cur := run.z.Range(0, -1)
			n := len(cur)
			if n == 0 || (n < 3 && g.r.Chance(1, 2)) {
				run.do(&op{K: "AddB", A: g.score(), B: g.member(), Hs: g.hs(1)}, true)
				continue
			}
			first, last, mid := cur[0], cur[n-1], cur[n/2]
			fs, ls := int(fscore(first.Score)), int(fscore(last.Score))
			var x *op
			switch g.r.Intn(14) {
			case 0:
				x = &op{K: "RemoveB", B: first.Value}
			case 1:
				x = &op{K: "RemoveB", B: last.Value}
			case 2:
				x = &op{K: "RemoveB", B: mid.Value}
			case 3:
				x = &op{K: "Remove", Ms: []int{first.Value, last.Value}}
			case 4:
				x = &op{K: "RemoveRangeByRank", A: 0, B: 0}
			case 5:
				x = &op{K: "RemoveRangeByRank", A: -1, B: -1}
			case 6:
				x = &op{K: "RemoveRangeByRank", A: n / 2, B: n + 2}
			case 7:
				x = &op{K: "RemoveRangeByScore", A: -Inf, B: fs}
			case 8:
				x = &op{K: "RemoveRangeByScoreWithOpt", A: ls, B: Inf, ExMin: g.r.Bool()}
			case 9:
				x = &op{K: "RemoveRangeByScoreWithOpt", A: -Inf, B: int(fscore(mid.Score)), ExMax: g.r.Bool()}
			case 10:
				x = &op{K: "IncrBy", A: ls - fs + 1, B: first.Value, Hs: g.hs(1)} // the first element moves to the end
			case 11:
				x = &op{K: "IncrBy", A: fs - ls - 1, B: last.Value, Hs: g.hs(1)} // the last element moves to the front
			case 12:
				x = &op{K: "AddB", A: ls + 1, B: first.Value, Hs: g.hs(1)}
			default:
				x = &op{K: "AddB", A: fs - 1, B: mid.Value, Hs: g.hs(1)}
			}
			run.doM(x, true, g.members, false)
		}
		run.emit(w, "ends")
	}

	// ---- 6. malformed / degenerate calls ----
	{
		g := &gen{r: rng.Fork(), members: []int{0, 1, 2, 3}, scores: []int{-2, -1, 0, 1, 2}}
		for c := 0; c < 6; c++ {
			run := newRun()
			for i := 0; i < c; i++ {
				run.do(&op{K: "AddB", A: g.score(), B: g.member(), Hs: g.hs(1)}, true)
			}
			for _, x := range []*op{{K: "Add"}, {K: "Remove"}, {K: "Contains"}, {K: "Remove", Ms: []int{9, 9}}, {K: "RemoveB", B: 9},
				{K: "Range", A: -100, B: 100}, {K: "RevRange", A: -100, B: 100}, {K: "Range", A: 5, B: 1}, {K: "RevRange", A: 5, B: 1},
				{K: "Range", A: 100, B: -100}, {K: "Range", A: -1000000, B: 1000000}, {K: "RevRange", A: -1000000, B: -1},
				{K: "RemoveRangeByRank", A: 100, B: 200}, {K: "RemoveRangeByRank", A: 3, B: 1}, {K: "RemoveRangeByScore", A: 2, B: -2},
				{K: "RemoveRangeByScoreWithOpt", A: 1, B: 1, ExMin: true}, {K: "Count", A: 5, B: -5}, {K: "CountWithOpt", A: 0, B: 0, ExMax: true},
				{K: "RangeByScore", A: 3, B: -3}, {K: "RevRangeByScore", A: -3, B: 3}, {K: "RangeByScore", A: -1000, B: 1000},
				{K: "Rank", B: 99}, {K: "RevRank", B: 99}, {K: "Score", B: 99}, {K: "IncrBy", A: 0, B: 0, Hs: g.hs(1)},
				{K: "Add", Ms: []int{2, 2, 0}, Hs: g.hs(3)}, {K: "RemoveRangeByRank", A: -1000, B: 1000}, {K: "Len"}, {K: "Size"}, {K: "Empty"},
				{K: "Clear"}, {K: "Clear"}, {K: "Values"}, {K: "AddB", A: -2, B: 0, Hs: g.hs(1)}, {K: "Size"}, {K: "Empty"}, {K: "RevRank", B: 0}} {
				if mutates(x.K) {
					run.doM(x, true, g.members, false)
				} else {
					run.do(x, false)
				}
			}
			run.emit(w, "malformed")
		}
	}

	// ---- 7. Union / Inter of 0-3 small sets with overlapping members ----
	nalg := 250
	if th {
		nalg = 4000
	}
	for c := 0; c < nalg; c++ {
		g := &gen{r: rng.Fork(), members: []int{0, 1, 2, 3, 4}, scores: []int{-2, -1, 0, 1, 2}}
		k := 2 + g.r.Intn(2)
		if g.r.Chance(1, 12) {
			k = g.r.Intn(2)
		}
		inter := g.r.Bool()
		cmp := nextShape()
		var sets []*zset.Set[int]
		var builds []string
		var rep [][]*op
		total := 0
		for i := 0; i < k; i++ {
			z := zset.New[int](cmp)
			nops := g.r.Intn(7)
			var terms []string
			var ops []*op
			for j := 0; j < nops; j++ {
				var x *op
				switch y := g.r.Intn(10); {
				case y < 7:
					x = &op{K: "AddB", A: g.score(), B: g.member(), Hs: g.hs(1)}
				case y < 9:
					x = &op{K: "IncrBy", A: g.r.Range(-1, 1), B: g.member(), Hs: g.hs(1)}
				default:
					x = &op{K: "RemoveB", B: g.member()}
				}
				exec(z, x)
				terms = append(terms, x.coq())
				ops = append(ops, x)
			}
			total += z.Len()
			sets = append(sets, z)
			builds = append(builds, vhlib.List(terms))
			rep = append(rep, ops)
		}
		hs := g.hs(total + 1)
		src.plan(hs)
		var res *zset.Set[int]
		label := "Union"
		p, _ := vhlib.Recover(func() {
			if inter {
				res = zset.Inter[int](cmp, sets...)
			} else {
				res = zset.Union[int](cmp, sets...)
			}
		})
		if inter {
			label = "Inter"
		}
		if p || res == nil {
			w.Violation("alg", label, map[string]interface{}{"panic": true, "builds": rep})
			continue
		}
		src.plan(nil)
		items := res.Range(0, -1)
		it := make([]string, len(items))
		for i, n := range items {
			it[i] = vhlib.Pair(vhlib.Z(fscore(n.Score)), zm(n.Value))
		}
		term := fmt.Sprintf("CAlg %s %s %s %s %s %s", vhlib.Bool(inter), vhlib.List(builds), vhlib.NatList(hs), vhlib.List(it), z64(res.Len()), dumpTerm(res))
		w.Case(term, "alg", total >= 2, []string{label}, map[string]interface{}{"kind": "alg", "cmp": curShape, "inter": inter, "builds": rep, "hs": hs})
	}

	w.Close(o, "one case = one operation sequence on a fresh zset.Set[int] (or one Union/Inter of sets built by such sequences); every step records the real return value, mutating steps of small cases also the structural dump of the real skip list; heights are injected through fastrand.Uint32 and recorded; distinct = distinct case text; non-trivial = the set held at least two members at some point")
}

// replay re-runs the operation list of a replay file (the "case.replay" object written by bin/check,
// or a bare {"ops": [...]}) on the real code and prints what it returns.
func replay(path string) {
	raw, err := os.ReadFile(path)
	if err != nil {
		panic(err)
	}
	var top map[string]json.RawMessage
	if err := json.Unmarshal(raw, &top); err != nil {
		panic(err)
	}
	if c, ok := top["case"]; ok {
		var cm map[string]json.RawMessage
		json.Unmarshal(c, &cm)
		json.Unmarshal(cm["replay"], &top)
	} else if c, ok := top["replay"]; ok {
		json.Unmarshal(c, &top)
	}
	var kind, shape string
	json.Unmarshal(top["kind"], &kind)
	json.Unmarshal(top["cmp"], &shape)
	cmp := useShape(shape)
	fmt.Printf("comparator shape: %q (members printed x%d)\n", shape, mSign)
	if kind == "alg" {
		var builds [][]*op
		var hs []int
		var inter bool
		json.Unmarshal(top["builds"], &builds)
		json.Unmarshal(top["hs"], &hs)
		json.Unmarshal(top["inter"], &inter)
		var sets []*zset.Set[int]
		for i, b := range builds {
			z := zset.New[int](cmp)
			for _, x := range b {
				exec(z, x)
			}
			fmt.Printf("input %d: %v\n", i, z.Range(0, -1))
			sets = append(sets, z)
		}
		src.plan(hs)
		if inter {
			fmt.Printf("Inter -> %v\n", zset.Inter[int](cmp, sets...).Range(0, -1))
		} else {
			fmt.Printf("Union -> %v\n", zset.Union[int](cmp, sets...).Range(0, -1))
		}
		return
	}
	var ops []*op
	json.Unmarshal(top["ops"], &ops)
	var flavour string
	json.Unmarshal(top["flavour"], &flavour)
	var z zapi = zset.New[int](cmp)
	if flavour == "safe" {
		z = zset.NewSafe[int](cmp)
	}
	fmt.Printf("flavour: %q\n", flavour)
	for i, x := range ops {
		out := exec(z, x)
		fmt.Printf("%3d %-60s -> %s   [Len %d]\n", i, x.coq(), out, z.Len())
		if p, ok := z.(*zset.Set[int]); ok && mutates(x.K) {
			fmt.Printf("      dump: %s\n", dumpTerm(p))
		}
	}
}
