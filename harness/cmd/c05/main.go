// C05 harness: runs the real structure/queues/lscq (generic, pointer, uint64 variants) and writes Coq cases.
//
//	sequential traces  -> CSeq: run-length encoded calls + what they returned + internal snapshots/probes
//	                      (judged inside Coq against the FIFO spec and against the model at ring size 65536)
//	concurrent runs    -> CHist: timed histories with unique values, decided by aspects_b / lin_b inside Coq;
//	                      long segment-crossing runs are decided by the Go twin of lin_b (+ the empty-answer rule)
//	                      and, value-projected, by aspects_b inside Coq; CTwin cases compare twin and Coq checker
//	                      on deliberately corrupted histories
//	tiny concurrent    -> CLin: 2..4 goroutines, <= 12 calls: decided by the verified linearizability checker (Common/Hist.v
//	                      lin_check for the FIFO specification) and cross-checked with aspects_b; CLinX: corrupted copies,
//	                      only the agreement of the two deciders is checked
//	GC pressure        -> child processes (gcpressure.go): fresh heap objects through NewPointer / New[*T] / New[struct], consumers hold them
//	                      in locals across forced collections and validate them; corruption, repeats, disorder, loss, crashes -> violations
//	constants          -> CConst: scqsize, entries per cache line and samples of cacheRemap16Byte
package main

import (
	"fmt"
	"runtime"
	"sort"
	"strings"
	"sync"
	"sync/atomic"
	"time"
	"unsafe"

	"github.com/songzhibin97/go-baseutils/structure/queues/lscq"

	"vh/vhlib"
)

// ---------- the three variants behind one interface (values are ids >= 1; 0 = nil / zero) ----------

type qapi interface {
	Enq(v int64) bool
	Deq() (int64, bool)
	Snap() lscq.VerifSnap
	Entry(last bool, idx uint64) (lscq.VerifEntry, int64)
	Name() string
}

type genQ struct{ q *lscq.Queue[int64] }

func (g genQ) Enq(v int64) bool     { g.q.Enqueue(v); return true }
func (g genQ) Deq() (int64, bool)   { return g.q.Dequeue() }
func (g genQ) Snap() lscq.VerifSnap { return g.q.VerifSnap() }
func (g genQ) Entry(last bool, idx uint64) (lscq.VerifEntry, int64) {
	e, p := g.q.VerifEntry(last, idx)
	if p == nil {
		return e, 0
	}
	return e, *p
}
func (g genQ) Name() string { return "New[int64]" }

// pointer variant: the payload of id v is &arena[v]
type ptrQ struct {
	q     *lscq.PointerQueue
	arena []int64
}

func newPtrQ(maxv int) ptrQ {
	a := make([]int64, maxv+2)
	for i := range a {
		a[i] = int64(i)
	}
	return ptrQ{q: lscq.NewPointer(), arena: a}
}
func (p ptrQ) Enq(v int64) bool { return p.q.Enqueue(unsafe.Pointer(&p.arena[v])) }
func (p ptrQ) Deq() (int64, bool) {
	d, ok := p.q.Dequeue()
	if d == nil {
		return 0, ok
	}
	return *(*int64)(d), ok
}
func (p ptrQ) Snap() lscq.VerifSnap { return p.q.VerifSnap() }
func (p ptrQ) Entry(last bool, idx uint64) (lscq.VerifEntry, int64) {
	e, d := p.q.VerifEntry(last, idx)
	if d == nil {
		return e, 0
	}
	return e, *(*int64)(d)
}
func (p ptrQ) Name() string { return "NewPointer" }

type u64Q struct{ q *lscq.Uint64Queue }

func (u u64Q) Enq(v int64) bool     { return u.q.Enqueue(uint64(v)) }
func (u u64Q) Deq() (int64, bool)   { d, ok := u.q.Dequeue(); return int64(d), ok }
func (u u64Q) Snap() lscq.VerifSnap { return u.q.VerifSnap() }
func (u u64Q) Entry(last bool, idx uint64) (lscq.VerifEntry, int64) {
	e, d := u.q.VerifEntry(last, idx)
	return e, int64(d)
}
func (u u64Q) Name() string { return "NewUint64" }

var vnames = []string{"New[int64]", "NewPointer", "NewUint64"}

func newQ0(variant int, maxv int) qapi {
	switch variant {
	case 0:
		return genQ{lscq.New[int64]()}
	case 1:
		return newPtrQ(maxv)
	default:
		return u64Q{lscq.NewUint64()}
	}
}

// ---------- sequential traces ----------

type burst struct {
	enq bool
	k   int
}

func ringStr(r lscq.VerifRing) string {
	return fmt.Sprintf("(%d, %d, %s, %s)", r.Head, r.Tail, vhlib.Bool(r.Closed), vhlib.Z(r.Threshold))
}

func seqCase(variant int, bursts []burst, rng *vhlib.Rng) (term string, steps []string, nontrivial bool, ncalls int) {
	total := 0
	for _, b := range bursts {
		if b.enq {
			total += b.k
		}
	}
	q := newQ(variant, total)
	var items []string
	add := func(s, label string) { items = append(items, s); steps = append(steps, label) }
	next := int64(1)
	for _, b := range bursts {
		if b.k <= 0 {
			continue
		}
		ncalls += b.k
		if b.enq {
			// run-length encode equal results
			runStart, runOk, runLen := next, true, 0
			for i := 0; i < b.k; i++ {
				ok := q.Enq(next)
				if runLen > 0 && ok != runOk {
					add(fmt.Sprintf("SEnq %s %d %s", vhlib.Nat(runLen), runStart, vhlib.Bool(runOk)), "Enqueue")
					runLen = 0
				}
				if runLen == 0 {
					runStart, runOk = next, ok
				}
				runLen++
				next++
			}
			add(fmt.Sprintf("SEnq %s %d %s", vhlib.Nat(runLen), runStart, vhlib.Bool(runOk)), "Enqueue")
		} else {
			// kind of run: 1 = consecutive values, 2 = empty
			kind, start, last, n := 0, int64(0), int64(0), 0
			flush := func() {
				if n == 0 {
					return
				}
				if kind == 1 {
					add(fmt.Sprintf("SDeq %s %s", vhlib.Nat(n), vhlib.Z(start)), "Dequeue")
				} else {
					add(fmt.Sprintf("SDeqEmpty %s", vhlib.Nat(n)), "Dequeue(empty answer)")
				}
				n = 0
			}
			for i := 0; i < b.k; i++ {
				v, ok := q.Deq()
				if ok {
					nontrivial = true
					if !(kind == 1 && n > 0 && v == last+1) {
						flush()
						kind, start = 1, v
					}
					last = v
					n++
				} else {
					if !(kind == 2 && n > 0) {
						flush()
						kind = 2
					}
					n++
				}
			}
			flush()
		}
		s := q.Snap()
		add(fmt.Sprintf("SSnap %s %s %s", vhlib.Nat(s.Segments), ringStr(s.First), ringStr(s.Last)), "snapshot(head/tail/closed/threshold/segments)")
		// probes of ring slots (index after cacheRemap)
		type pr struct {
			last bool
			idx  uint64
		}
		ps := []pr{
			{false, lscq.VerifCacheRemap(s.First.Head)}, {false, lscq.VerifCacheRemap(s.First.Head - 1)},
			{true, lscq.VerifCacheRemap(s.Last.Tail)}, {true, lscq.VerifCacheRemap(s.Last.Tail - 1)},
			{rng.Bool(), uint64(rng.Intn(int(lscq.VerifSCQSize)))},
		}
		for _, p := range ps {
			e, d := q.Entry(p.last, p.idx)
			add(fmt.Sprintf("SProbe %s %d (%s, %s, %d, %s)", vhlib.Bool(p.last), p.idx, vhlib.Bool(e.Safe), vhlib.Bool(e.Empty), e.Cycle, vhlib.Z(d)), "probe(ring slot)")
		}
	}
	term = fmt.Sprintf("CSeq %d%%nat %s", variant, vhlib.List(items))
	return
}

// ---------- concurrent histories ----------

type ev struct {
	inv, resp int64
	who       int
	kind      int // 0 enq, 1 deq, 2 empty
	v         int64
}

func evStr(e ev) string {
	k := "HEmpty"
	switch e.kind {
	case 0:
		k = fmt.Sprintf("(HEnq %d)", e.v)
	case 1:
		k = fmt.Sprintf("(HDeq %d)", e.v)
	}
	return fmt.Sprintf("ev %s %s %d %s", vhlib.Z(e.inv), vhlib.Z(e.resp), e.who, k)
}

func histStr(h []ev) string {
	it := make([]string, len(h))
	for i, e := range h {
		it[i] = evStr(e)
	}
	return "[" + strings.Join(it, ";\n  ") + "]"
}

const (
	aEnq = iota
	aDeq
	aYield
	aBarrier
	aWaitProduced // spin until the global count of completed enqueues reaches v
	aSpin         // tiny scripts in lockstep: spin until every party that has a v-th call arrived at it
)

// ---------- yield hooks (lscq.VerifYieldHook) ----------

var (
	produced  int64 // completed enqueues of the current run
	attempts  int64 // calls of yield point 1 (one per LSCQ.Enqueue loop iteration)
	stallLo   int64
	stallHi   int64
	stallDur  time.Duration
	perturbCt uint64
)

// perturbHook: reschedule at about one marked point in eight.
func perturbHook(k int) {
	x := atomic.AddUint64(&perturbCt, 0x9E3779B97F4A7C15)
	if (x>>33)%8 == 0 {
		runtime.Gosched()
	}
}

// stallHook: the enqueuers whose attempt number falls in [stallLo, stallHi) sleep between reading q.tail and
// entering the ring, long enough for that ring to be filled, closed, drained and dropped by the others.
func stallHook(k int) {
	if k == 1 {
		c := atomic.AddInt64(&attempts, 1)
		if c >= stallLo && c < stallHi {
			time.Sleep(stallDur)
		}
	}
}

type action struct {
	kind int
	v    int64
}

// runScripts executes one script per goroutine against q, all stamped from one atomic counter, then drains.
var (
	spinStart   bool
	spinArrived int32
	spinCnt     [16]int32
	spinNeed    [16]int32
)

func runScripts(q qapi, scripts [][]action, nbarriers int, drain bool, clock *int64) []ev {
	T := len(scripts)
	atomic.StoreInt32(&spinArrived, 0)
	for i := range spinCnt {
		atomic.StoreInt32(&spinCnt[i], 0)
	}
	atomic.StoreInt64(&produced, 0)
	atomic.StoreInt64(&attempts, 0)
	logs := make([][]ev, T)
	var start sync.WaitGroup
	start.Add(1)
	bar := make([]sync.WaitGroup, nbarriers)
	for i := range bar {
		bar[i].Add(T)
	}
	var wg sync.WaitGroup
	for t := 0; t < T; t++ {
		wg.Add(1)
		go func(t int) {
			defer wg.Done()
			lg := make([]ev, 0, len(scripts[t]))
			nb := 0
			start.Wait()
			if spinStart { // tiny scripts: all parties leave a spin barrier together, otherwise the first one is done before the last one wakes up
				atomic.AddInt32(&spinArrived, 1)
				for k := 0; atomic.LoadInt32(&spinArrived) < int32(T); k++ {
					if k%4096 == 4095 {
						runtime.Gosched()
					}
				}
			}
			for _, a := range scripts[t] {
				switch a.kind {
				case aEnq:
					i := atomic.AddInt64(clock, 1)
					q.Enq(a.v)
					r := atomic.AddInt64(clock, 1)
					atomic.AddInt64(&produced, 1)
					lg = append(lg, ev{i, r, t + 1, 0, a.v})
				case aDeq:
					i := atomic.AddInt64(clock, 1)
					v, ok := q.Deq()
					r := atomic.AddInt64(clock, 1)
					if ok {
						lg = append(lg, ev{i, r, t + 1, 1, v})
					} else {
						lg = append(lg, ev{i, r, t + 1, 2, 0})
					}
				case aYield:
					runtime.Gosched()
				case aBarrier:
					bar[nb].Done()
					bar[nb].Wait()
					nb++
				case aSpin:
					atomic.AddInt32(&spinCnt[a.v], 1)
					for k := 0; atomic.LoadInt32(&spinCnt[a.v]) < spinNeed[a.v] && k < 1<<22; k++ {
						if k%4096 == 4095 {
							runtime.Gosched()
						}
					}
				case aWaitProduced:
					for atomic.LoadInt64(&produced) < a.v {
						runtime.Gosched()
					}
				}
			}
			logs[t] = lg
		}(t)
	}
	start.Done()
	wg.Wait()
	var h []ev
	for _, l := range logs {
		h = append(h, l...)
	}
	if drain {
		for {
			i := atomic.AddInt64(clock, 1)
			v, ok := q.Deq()
			r := atomic.AddInt64(clock, 1)
			if ok {
				h = append(h, ev{i, r, 0, 1, v})
			} else {
				h = append(h, ev{i, r, 0, 2, 0})
				break
			}
		}
	}
	sort.Slice(h, func(a, b int) bool { return h[a].inv < h[b].inv })
	return h
}

// makeScripts: P producers, C consumers (profile 1: every worker does both), per = values per producer.
func makeScripts(rng *vhlib.Rng, profile, P, C, per int, base int64) (scripts [][]action, nbar int) {
	next := base
	vals := func(n int) []int64 {
		r := make([]int64, n)
		for i := range r {
			next++
			r[i] = next
		}
		return r
	}
	switch profile {
	case 0: // bursty producers / bursty consumers
		for p := 0; p < P; p++ {
			var s []action
			for _, v := range vals(per) {
				s = append(s, action{aEnq, v})
				if rng.Chance(1, 4) {
					s = append(s, action{aYield, 0})
				}
			}
			scripts = append(scripts, s)
		}
		att := (P*per)/C + 2
		for c := 0; c < C; c++ {
			var s []action
			for i := 0; i < att; i++ {
				s = append(s, action{aDeq, 0})
				if rng.Chance(1, 3) {
					s = append(s, action{aYield, 0})
				}
			}
			scripts = append(scripts, s)
		}
	case 1: // alternating: every worker enqueues and dequeues in turn
		for w := 0; w < P+C; w++ {
			var s []action
			for _, v := range vals(per) {
				s = append(s, action{aEnq, v})
				if rng.Chance(2, 3) {
					s = append(s, action{aDeq, 0})
				}
				if rng.Chance(1, 5) {
					s = append(s, action{aDeq, 0})
				}
			}
			scripts = append(scripts, s)
		}
	default: // drain / refill phases separated by barriers
		nbar = 2
		h1 := per / 2
		att := (P*per)/C + 1
		for p := 0; p < P; p++ {
			var s []action
			vs := vals(per)
			for _, v := range vs[:h1] {
				s = append(s, action{aEnq, v})
			}
			s = append(s, action{aBarrier, 0}, action{aBarrier, 0})
			for _, v := range vs[h1:] {
				s = append(s, action{aEnq, v})
			}
			scripts = append(scripts, s)
		}
		for c := 0; c < C; c++ {
			var s []action
			s = append(s, action{aBarrier, 0})
			for i := 0; i < att/2+1; i++ { // drain phase: more attempts than values, so empty answers occur
				s = append(s, action{aDeq, 0})
			}
			s = append(s, action{aBarrier, 0})
			for i := 0; i < att/2+1; i++ {
				s = append(s, action{aDeq, 0})
			}
			scripts = append(scripts, s)
		}
	}
	return
}

// tinyScripts: T goroutines share at most 12 calls (including the final drain when drain is set).
func tinyScripts(rng *vhlib.Rng, T int) (scripts [][]action, drain bool) {
	drain = rng.Chance(1, 3)
	budget := rng.Range(T, 12)
	maxEnq := 12
	if drain { // the drain adds (values left)+1 calls: budget + maxEnq + 1 <= 12
		budget = rng.Range(T, 7)
		maxEnq = 11 - budget
	}
	scripts = make([][]action, T)
	mode := rng.Intn(3) // 0 mixed, 1 producers and consumers, 2 dequeue-heavy (empty answers)
	next, nenq := int64(0), 0
	for k := 0; k < budget; k++ {
		t := k
		if k >= T {
			t = rng.Intn(T)
		}
		isEnq := false
		switch mode {
		case 0:
			isEnq = rng.Chance(1, 2)
		case 1:
			isEnq = t < (T+1)/2
		default:
			isEnq = rng.Chance(1, 3)
		}
		if isEnq && nenq < maxEnq {
			next++
			nenq++
			scripts[t] = append(scripts[t], action{aEnq, next})
		} else {
			scripts[t] = append(scripts[t], action{aDeq, 0})
		}
		if rng.Chance(1, 4) {
			scripts[t] = append(scripts[t], action{aYield, 0})
		}
	}
	if rng.Chance(1, 2) { // lockstep: the j-th calls of all parties start together
		for i := range spinNeed {
			spinNeed[i] = 0
		}
		for t := range scripts {
			var s []action
			j := 0
			for _, a := range scripts[t] {
				if a.kind == aEnq || a.kind == aDeq {
					s = append(s, action{aSpin, int64(j)})
					spinNeed[j]++
					j++
				}
				s = append(s, a)
			}
			scripts[t] = s
		}
	}
	return
}

// corruptTiny: a copy of h with one deliberate defect; stamps stay non-negative and pairwise distinct, enqueued values unique.
func corruptTiny(rng *vhlib.Rng, h0 []ev, m int) ([]ev, string) {
	h := append([]ev(nil), h0...)
	var deqs, enqs []int
	maxs := int64(0)
	for j, e := range h {
		switch e.kind {
		case 0:
			enqs = append(enqs, j)
		case 1:
			deqs = append(deqs, j)
		}
		if e.resp > maxs {
			maxs = e.resp
		}
	}
	switch m {
	case 0:
		if len(deqs) < 1 {
			return nil, ""
		}
		d := h[deqs[rng.Intn(len(deqs))]]
		d.inv, d.resp = maxs+1, maxs+2
		return append(h, d), "repeat"
	case 1:
		if len(deqs) < 1 {
			return nil, ""
		}
		h[deqs[rng.Intn(len(deqs))]].v = 999999
		return h, "fresh"
	case 2:
		if len(deqs) < 2 {
			return nil, ""
		}
		a, b := deqs[rng.Intn(len(deqs))], deqs[rng.Intn(len(deqs))]
		h[a].v, h[b].v = h[b].v, h[a].v
		return h, "order"
	case 3:
		if len(deqs) < 1 {
			return nil, ""
		}
		j := deqs[rng.Intn(len(deqs))]
		h[j].kind, h[j].v = 2, 0
		return h, "empty-answer"
	case 4:
		if len(enqs) < 2 {
			return nil, ""
		}
		a, b := enqs[rng.Intn(len(enqs))], enqs[rng.Intn(len(enqs))]
		h[a].inv, h[a].resp, h[b].inv, h[b].resp = h[b].inv, h[b].resp, h[a].inv, h[a].resp
		return h, "enqueue-times-swapped"
	default:
		if len(enqs) < 1 {
			return nil, ""
		}
		j := enqs[rng.Intn(len(enqs))]
		return append(h[:j:j], h[j+1:]...), "enqueue-dropped"
	}
}

// ---------- near-empty contention aimed at the empty-answer clause ----------
//
// Token discipline: a consumer calls Dequeue only after a producer published a token following a COMPLETED
// Enqueue whose value has not been handed to a consumer yet, so every empty answer is wrong and the recorded
// history violates EmptyJustified (the completed value is definitely inside during the whole call).

var (
	armStall int32 // 1: the next enqueuer reaching yield point 4 (tail ticket taken, slot not yet written) parks
	stalled  int32 // 1: an enqueuer is parked at point 4
	release  int32 // 1: the parked enqueuer may go on
	jitterCt uint64
)

// parkHook parks ONE armed enqueuer between its tail fetch-add and its slot write until released (or 2 s).
func parkHook(k int) {
	if k == 4 && atomic.CompareAndSwapInt32(&armStall, 1, 0) {
		atomic.StoreInt32(&stalled, 1)
		limit := time.Now().Add(2 * time.Second)
		for atomic.LoadInt32(&release) == 0 && time.Now().Before(limit) {
			runtime.Gosched()
		}
	}
}

// jitterHook: about every second enqueuer dawdles between ticket and slot write, dequeuers sometimes after theirs.
func jitterHook(k int) {
	if k == 4 || k == 5 || k == 7 {
		x := atomic.AddUint64(&jitterCt, 0x9E3779B97F4A7C15)
		n := 0
		if k == 4 && (x>>40)%2 == 0 {
			n = int((x>>20)%12) + 1
		} else if k != 4 && (x>>40)%5 == 0 {
			n = 1
		}
		for i := 0; i < n; i++ {
			runtime.Gosched()
		}
	}
}

// worker runs closures on its own goroutine (so that every party of a scripted round is a real goroutine)
type worker struct {
	cmd  chan func()
	done chan struct{}
}

func newWorker() *worker {
	w := &worker{cmd: make(chan func()), done: make(chan struct{})}
	go func() {
		for f := range w.cmd {
			f()
			w.done <- struct{}{}
		}
	}()
	return w
}
func (w *worker) do(f func())    { w.cmd <- f; <-w.done }
func (w *worker) start(f func()) { w.cmd <- f }
func (w *worker) wait()          { <-w.done }
func (w *worker) stop()          { close(w.cmd) }

// scriptedNearEmpty: rounds of the three-party interleaving on a queue holding 0 or 1 elements:
// enqueuer A takes a tail ticket and parks before writing its slot; enqueuer B completes the NEXT slot and
// publishes its token; dequeuer C (and sometimes D) then dequeues: the ticket it lands on is A's unwritten slot,
// B's completed value lies behind it. Returns the history and whether every round parked as intended.
func scriptedNearEmpty(q qapi, rounds int, rng *vhlib.Rng, clock *int64) ([]ev, bool) {
	var mu sync.Mutex
	var h []ev
	rec := func(e ev) { mu.Lock(); h = append(h, e); mu.Unlock() }
	enq := func(who int, v int64) {
		i := atomic.AddInt64(clock, 1)
		q.Enq(v)
		r := atomic.AddInt64(clock, 1)
		rec(ev{i, r, who, 0, v})
	}
	deq := func(who int) bool {
		i := atomic.AddInt64(clock, 1)
		v, ok := q.Deq()
		r := atomic.AddInt64(clock, 1)
		if ok {
			rec(ev{i, r, who, 1, v})
		} else {
			rec(ev{i, r, who, 2, 0})
		}
		return ok
	}
	A, B, C, D := newWorker(), newWorker(), newWorker(), newWorker()
	defer func() { A.stop(); B.stop(); C.stop(); D.stop() }()
	lscq.VerifYieldHook = parkHook
	defer func() { lscq.VerifYieldHook = nil }()
	next := int64(0)
	inside := 0 // completed, not yet dequeued (as far as the tokens say)
	allParked := true
	for r := 0; r < rounds; r++ {
		if inside == 0 && rng.Chance(1, 3) { // sometimes one older element is inside already
			next++
			v := next
			B.do(func() { enq(2, v) })
			inside++
		}
		atomic.StoreInt32(&stalled, 0)
		atomic.StoreInt32(&release, 0)
		atomic.StoreInt32(&armStall, 1)
		next++
		va := next
		A.start(func() { enq(1, va) })
		limit := time.Now().Add(time.Second)
		for atomic.LoadInt32(&stalled) == 0 && time.Now().Before(limit) {
			runtime.Gosched()
		}
		if atomic.LoadInt32(&stalled) == 0 {
			allParked = false
		}
		nb := 1
		if rng.Chance(1, 4) {
			nb = 2
		}
		for i := 0; i < nb; i++ {
			next++
			v := next
			B.do(func() { enq(2, v) }) // completes; its return is the token
			inside++
		}
		// consumers hold one token each
		if inside >= 2 && rng.Chance(1, 2) {
			C.start(func() { deq(3) })
			D.start(func() { deq(4) })
			C.wait()
			D.wait()
			inside -= 2
		} else {
			n := 1
			if inside >= 2 && rng.Chance(1, 2) {
				n = 2
			}
			for i := 0; i < n; i++ {
				C.do(func() { deq(3) })
				inside--
			}
		}
		atomic.StoreInt32(&release, 1)
		A.wait()
		inside++
		// bring the queue back to 0 or 1 elements
		for inside > 1 || (inside == 1 && rng.Chance(1, 2)) {
			C.do(func() { deq(3) })
			inside--
		}
	}
	atomic.StoreInt32(&armStall, 0)
	for { // final drain (an empty answer after every enqueue returned)
		if !deq(0) {
			break
		}
	}
	sort.Slice(h, func(a, b int) bool { return h[a].inv < h[b].inv })
	return h, allParked
}

// tokenNearEmpty: P producers and C consumers on a queue hovering between 0 and 2 elements, enqueuers dawdling
// between ticket and slot write (jitterHook). A producer publishes a token after each completed Enqueue and waits
// while 2 tokens are unclaimed; a consumer claims a token before each Dequeue.
func tokenNearEmpty(q qapi, P, C, per int, clock *int64) []ev {
	var tokens, claimed int64
	total := int64(P * per)
	logs := make([][]ev, P+C)
	lscq.VerifYieldHook = jitterHook
	defer func() { lscq.VerifYieldHook = nil }()
	var wg sync.WaitGroup
	var start sync.WaitGroup
	start.Add(1)
	for p := 0; p < P; p++ {
		wg.Add(1)
		go func(p int) {
			defer wg.Done()
			start.Wait()
			for j := 0; j < per; j++ {
				for atomic.LoadInt64(&tokens) >= 2 {
					runtime.Gosched()
				}
				v := int64(p*per + j + 1)
				i := atomic.AddInt64(clock, 1)
				q.Enq(v)
				r := atomic.AddInt64(clock, 1)
				logs[p] = append(logs[p], ev{i, r, p + 1, 0, v})
				atomic.AddInt64(&tokens, 1)
			}
		}(p)
	}
	for c := 0; c < C; c++ {
		wg.Add(1)
		go func(c int) {
			defer wg.Done()
			start.Wait()
			for atomic.LoadInt64(&claimed) < total {
				t := atomic.LoadInt64(&tokens)
				if t <= 0 || !atomic.CompareAndSwapInt64(&tokens, t, t-1) {
					runtime.Gosched()
					continue
				}
				atomic.AddInt64(&claimed, 1)
				i := atomic.AddInt64(clock, 1)
				v, ok := q.Deq()
				r := atomic.AddInt64(clock, 1)
				if ok {
					logs[P+c] = append(logs[P+c], ev{i, r, P + c + 1, 1, v})
				} else {
					logs[P+c] = append(logs[P+c], ev{i, r, P + c + 1, 2, 0})
				}
			}
		}(c)
	}
	start.Done()
	wg.Wait()
	var h []ev
	for _, l := range logs {
		h = append(h, l...)
	}
	for {
		i := atomic.AddInt64(clock, 1)
		v, ok := q.Deq()
		r := atomic.AddInt64(clock, 1)
		if ok {
			h = append(h, ev{i, r, 0, 1, v})
		} else {
			h = append(h, ev{i, r, 0, 2, 0})
			break
		}
	}
	sort.Slice(h, func(a, b int) bool { return h[a].inv < h[b].inv })
	return h
}

// ---------- Go twin of Aspects.lin_b plus the empty-answer rule (same algorithms, same listing order) ----------

func twin(h []ev, drained, withEmpty bool) bool {
	ok := true
	enq := map[int64]int{} // value -> index of the FIRST listed enqueue (fold_right adds the first element last)
	for i := len(h) - 1; i >= 0; i-- {
		if h[i].kind == 0 {
			enq[h[i].v] = i
		}
	}
	// L1
	for _, d := range h {
		if d.kind == 1 {
			i, found := enq[d.v]
			if !found || d.resp < h[i].inv {
				ok = false
			}
		}
	}
	// L2
	seen := map[int64]bool{}
	for _, d := range h {
		if d.kind == 1 {
			if seen[d.v] {
				ok = false
			}
			seen[d.v] = true
		}
	}
	// L4
	type pair struct{ d, e int }
	prev := map[int64]pair{}
	for di, d := range h {
		if d.kind != 1 {
			continue
		}
		ei, found := enq[d.v]
		if !found {
			continue
		}
		ea := h[ei]
		k := int64(d.who)*65536 + int64(ea.who)
		if p, has := prev[k]; has {
			eb, db := h[p.e], h[p.d]
			if ea.resp < eb.inv && db.resp < d.inv {
				ok = false
			}
		}
		prev[k] = pair{di, ei}
	}
	// L3
	if drained {
		for _, e := range h {
			if e.kind == 0 && !seen[e.v] {
				ok = false
			}
		}
	}
	if withEmpty {
		// intervals [resp of enqueue, earliest invocation of a dequeue of the value) of definite presence
		var maxs int64
		for _, e := range h {
			if e.resp > maxs {
				maxs = e.resp
			}
			if e.inv > maxs {
				maxs = e.inv
			}
		}
		dmin := map[int64]int64{}
		for _, d := range h {
			if d.kind == 1 {
				if m, has := dmin[d.v]; !has || d.inv < m {
					dmin[d.v] = d.inv
				}
			}
		}
		diff := make([]int32, maxs+3)
		for _, e := range h {
			if e.kind != 0 {
				continue
			}
			a := e.resp
			b, has := dmin[e.v]
			if !has {
				b = maxs + 2
			}
			if a < 0 {
				a = 0
			}
			if b > a {
				diff[a]++
				diff[b]--
			}
		}
		cover := make([]bool, maxs+3)
		c := int32(0)
		for i := range diff {
			c += diff[i]
			cover[i] = c > 0
		}
		for _, o := range h {
			if o.kind != 2 {
				continue
			}
			just := false
			for s := o.inv; s < o.resp; s++ {
				if s < 0 || !cover[s] {
					just = true
					break
				}
			}
			if !just {
				ok = false
			}
		}
	}
	return ok
}

// project keeps the events of the chosen values plus the chosen empty answers.
func project(h []ev, keep map[int64]bool, keepEmpty map[int]bool) []ev {
	var r []ev
	for i, e := range h {
		if e.kind == 2 {
			if keepEmpty[i] {
				r = append(r, e)
			}
		} else if keep[e.v] {
			r = append(r, e)
		}
	}
	return r
}

func main() {
	o := vhlib.ParseOpts()
	if strings.HasPrefix(o.Extra, "child:gc:") { // GC-pressure scenario, see gcpressure.go
		var variant, idx int
		fmt.Sscanf(o.Extra, "child:gc:%d:%d", &variant, &idx)
		gcChildMain(o, variant, idx)
		return
	}
	rng := vhlib.NewRng(o.Seed).Fork() // Fork: vhlib streams of neighbouring seeds are shifted copies of each other
	header := "From VF Require Import Common.Base C05.Model C05.Aspects C05.Check.\nLocal Open Scope Z_scope.\n" +
		"Definition ev a b w k := {| inv := a; resp := b; who := w; what := k |}."
	w := vhlib.NewWriter(o.Out, header, "case", "mismatches", 24)
	th := o.Thorough()
	N := int(lscq.VerifSCQSize)

	type pending struct {
		term, label string
		nontrivial  bool
		steps       []string
		replay      interface{}
	}
	var heavy, light []pending

	// ---- constants ----
	{
		var it []string
		idx := []uint64{0, 1, 2, 31, 32, 33, 2047, 2048, 2049, 65534, 65535}
		for i := 0; i < 64; i++ {
			idx = append(idx, uint64(rng.Intn(N)))
		}
		for _, i := range idx {
			it = append(it, vhlib.Pair(vhlib.ZU(i), vhlib.ZU(lscq.VerifCacheRemap(i))))
		}
		light = append(light, pending{fmt.Sprintf("CConst %d %d %s", lscq.VerifSCQSize, lscq.VerifEntriesPerLine, vhlib.List(it)),
			"constants(scqsize, cache line, cacheRemap16Byte)", true, nil, map[string]interface{}{"scqsize": lscq.VerifSCQSize, "entries_per_line": lscq.VerifEntriesPerLine}})
	}

	// ---- the fast-forward constructor against really driven rings (laps.go); a difference is a harness/hook error (kind 1) ----
	for _, d := range validateFF() {
		light = append(light, pending{"CConst 0 0 []", "fast-forward hook differs from a really driven ring", true, nil, map[string]interface{}{"difference": d}})
	}

	// ---- sequential: many short / medium traces ----
	nlight := 240
	if th {
		nlight = 8000
	}
	for i := 0; i < nlight; i++ {
		variant := i % 3
		var bs []burst
		nb := rng.Range(1, 12)
		pEnq := []int{3, 5, 7}[rng.Intn(3)]
		maxk := []int{3, 12, 60}[rng.Intn(3)]
		for j := 0; j < nb; j++ {
			bs = append(bs, burst{rng.Chance(pEnq, 10), rng.Range(1, maxk)})
		}
		if rng.Chance(1, 6) { // start with dequeues on the fresh queue (threshold -1 path)
			bs = append([]burst{{false, rng.Range(1, 3)}}, bs...)
		}
		if (i/3)%2 == 1 {
			curLaps = pickLap(rng)
		}
		term, steps, nt, _ := seqCase(variant, bs, rng)
		light = append(light, pending{term, "sequential/" + vnames[variant] + "/short" + lapTag(), nt, steps, map[string]interface{}{"variant": variant, "bursts": fmt.Sprint(bs), "lap_offset": curLaps}})
		curLaps = 0
	}
	// ---- sequential: segment-crossing and threshold traces (one Coq shard each) ----
	type hv struct {
		name    string
		variant int
		bs      []burst
	}
	hvLaps := map[int]uint64{} // index in hvs -> lap offset the ring is fast-forwarded to before the trace (laps.go)
	hvs := []hv{
		{"burst 70000, drain, empty answers", 0, []burst{{true, 70000}, {false, 100}, {false, 69900}, {false, 5}, {true, 3}, {false, 4}}},
		{"fill to 65535/65536/65537 then alternate across the boundary", 1, []burst{{true, N - 1}, {true, 1}, {true, 1}, {false, 1}, {true, 2}, {false, 3}, {true, 1}, {false, N - 10}, {true, 20}, {false, 40}}},
		{"three segments", 2, []burst{{true, 2*N + 5000}, {false, N + 1}, {false, N + 5000}, {false, 2}}},
		{"threshold exhaustion on an empty ring", 2, []burst{{true, 2}, {false, 3}, {false, 2*N + 10}, {true, 2}, {false, 3}}},
		{"cross, partial drain, refill across the next ring, drain", 0, []burst{{true, N + 4000}, {false, N + 3000}, {true, N + 10}, {false, 2000}, {true, 5}, {false, N}}},
		{"closed ring drained with empty answers before the advance", 1, []burst{{true, N + 1}, {false, N}, {false, 1}, {false, 2}, {true, 1}, {false, 2}}},
	}
	for v := 0; v < 3; v++ { // the emptiness budget after idle polling, with enqueues in between (snapshots compare the threshold)
		hvs = append(hvs, hv{"idle polls between enqueues: budget decays by one per poll, every enqueue refills it", v,
			[]burst{{true, 1}, {false, 1}, {false, 30000 + 1000*v}, {true, 1}, {false, 1}, {false, 500}, {true, 2}, {false, 3}, {false, 7}, {true, 1}}})
	}
	if th {
		for r := 0; r < 30; r++ {
			var bs []burst
			for j := 0; j < rng.Range(3, 8); j++ {
				bs = append(bs, burst{rng.Chance(6, 10), rng.Range(1, N+N/2)})
			}
			bs = append(bs, burst{false, 3 * N})
			hvs = append(hvs, hv{"random long bursts", r % 3, bs})
		}
		hvs = append(hvs, hv{"five segments", 1, []burst{{true, 5*N + 7}, {false, 5*N + 9}}})
	}
	// one trace per variant that crosses a lap boundary of the first ring (no new segment), started just below a
	// lap number at which a truncated cycle / position field would wrap
	for v, k := range []uint64{1<<16 - 2, 1<<32 - 2, 1<<31 - 2} {
		hvLaps[len(hvs)] = k
		hvs = append(hvs, hv{"across a lap boundary of one ring", v, []burst{{true, N - 3}, {false, N - 3}, {true, 10}, {false, 4}, {true, 3}, {false, 12}, {true, 2}, {false, 1}}})
	}
	for xi, x := range hvs {
		curLaps = hvLaps[xi]
		term, steps, nt, nc := seqCase(x.variant, x.bs, rng)
		heavy = append(heavy, pending{term, "sequential/" + vnames[x.variant] + "/segments: " + x.name + lapTag(), nt, steps,
			map[string]interface{}{"variant": x.variant, "bursts": fmt.Sprint(x.bs), "calls": nc, "lap_offset": hvLaps[xi]}})
		curLaps = 0
	}

	// ---- concurrent: small contended histories, decided by aspects_b inside Coq ----
	var clock int64
	nsmall := 60
	if th {
		nsmall = 2500
	}
	var keepForTwin [][]ev
	twinAgree := 0
	for i := 0; i < nsmall; i++ {
		variant := i % 3
		profile := rng.Intn(3)
		P, C := rng.Range(1, 16), rng.Range(1, 16)
		if rng.Chance(1, 3) {
			P, C = rng.Range(1, 4), rng.Range(1, 4)
		}
		budget := rng.Range(20, 110) // enqueues in the history
		per := budget / P
		if profile == 1 {
			per = budget / (P + C)
		}
		if per < 1 {
			per = 1
		}
		nw := P
		if profile == 1 {
			nw = P + C
		}
		if (i/3)%3 == 2 {
			curLaps = pickLap(rng)
		}
		q := newQ(variant, nw*per+5)
		lapT := lapTag()
		curLaps = 0
		clock = 0
		scripts, nbar := makeScripts(rng, profile, P, C, per, 0)
		pert := ""
		if i%2 == 1 {
			lscq.VerifYieldHook = perturbHook
			pert = "+yields"
		}
		h := runScripts(q, scripts, nbar, true, &clock)
		lscq.VerifYieldHook = nil
		tv := twin(h, true, true)
		if !tv {
			// the twin's verdict is not trusted on its own: the case below is decided by Coq; this is only a note
			twinAgree--
		}
		label := fmt.Sprintf("concurrent/%s/%s%s%s", q.Name(), []string{"bursty", "alternating", "drain-refill"}[profile], pert, lapT)
		light = append(light, pending{fmt.Sprintf("CHist true true %s\n %s", vhlib.Bool(tv), histStr(h)), label, len(scripts) >= 2, nil,
			map[string]interface{}{"P": P, "C": C, "per": per, "profile": profile, "events": len(h)}})
		if len(keepForTwin) < 12 && len(h) >= 12 {
			keepForTwin = append(keepForTwin, h)
		}
	}
	// ---- twin self-test: corrupted copies of recorded histories, twin verdict against the Coq checker ----
	for i, h0 := range keepForTwin {
		for m := 0; m < 5; m++ {
			h := append([]ev(nil), h0...)
			var deqs []int
			for j, e := range h {
				if e.kind == 1 {
					deqs = append(deqs, j)
				}
			}
			if len(deqs) < 2 {
				continue
			}
			name := ""
			switch m {
			case 0:
				name = "repeat"
				d := h[deqs[rng.Intn(len(deqs))]]
				d.inv, d.resp = d.resp+1, d.resp+2
				h = append(h, d)
			case 1:
				name = "fresh"
				h[deqs[rng.Intn(len(deqs))]].v = 999999
			case 2:
				name = "loss"
				j := deqs[rng.Intn(len(deqs))]
				h = append(h[:j:j], h[j+1:]...)
			case 3:
				name = "order"
				a, b := deqs[rng.Intn(len(deqs))], deqs[rng.Intn(len(deqs))]
				h[a].v, h[b].v = h[b].v, h[a].v
			case 4:
				name = "early"
				// a dequeue that returned before the enqueue of its value was invoked
				j := deqs[rng.Intn(len(deqs))]
				h[j].inv, h[j].resp = -5, -4
			}
			tv := twin(h, true, true)
			light = append(light, pending{fmt.Sprintf("CTwin true true %s\n %s", vhlib.Bool(tv), histStr(h)), "twin-selftest/" + name, true, nil,
				map[string]interface{}{"source_history": i, "mutation": name}})
		}
	}

	// ---- concurrent: near-empty contention (empty-answer clause), all three variants, aspects_b inside Coq ----
	nne := 4 // per variant and kind
	if th {
		nne = 40
	}
	notParked, wrongEmpties := 0, 0
	for variant := 0; variant < 3; variant++ {
		for i := 0; i < nne; i++ {
			if i%2 == 1 {
				curLaps = pickLap(rng)
			}
			lapT := lapTag()
			q := newQ(variant, 400)
			clock = 0
			h, parked := scriptedNearEmpty(q, rng.Range(12, 28), rng, &clock)
			if !parked {
				notParked++
			}
			light = append(light, pending{fmt.Sprintf("CHist true true %s\n %s", vhlib.Bool(twin(h, true, true)), histStr(h)),
				fmt.Sprintf("concurrent/%s/near-empty(parked enqueuer, tokens)%s", q.Name(), lapT), true, nil,
				map[string]interface{}{"events": len(h), "every_round_parked": parked}})
			P, C := rng.Range(2, 4), rng.Range(1, 3)
			per := 90 / P
			q = newQ(variant, P*per+5)
			curLaps = 0
			clock = 0
			h = tokenNearEmpty(q, P, C, per, &clock)
			for _, e := range h[:len(h)-1] {
				if e.kind == 2 {
					wrongEmpties++
				}
			}
			light = append(light, pending{fmt.Sprintf("CHist true true %s\n %s", vhlib.Bool(twin(h, true, true)), histStr(h)),
				fmt.Sprintf("concurrent/%s/near-empty(jitter, tokens)%s", q.Name(), lapT), true, nil,
				map[string]interface{}{"P": P, "C": C, "per": per, "events": len(h)}})
		}
	}
	// ---- idle polling then burst (idlepoll.go): the emptiness budget is polled down to its last unit, then the same rounds ----
	nidle := 2 // per variant and kind
	if th {
		nidle = 12
	}
	totalPolls := 0
	var budgets []int64
	for variant := 0; variant < 3; variant++ {
		for i := 0; i < nidle; i++ {
			for kind := 0; kind < 2; kind++ {
				if i%2 == 1 {
					curLaps = pickLap(rng)
				}
				lapT := lapTag()
				q := newQ(variant, 6000)
				curLaps = 0
				clock = 0
				split := (i+kind)%2 == 1
				pre, polls, budget := idlePoll(q, rng, &clock, split)
				totalPolls += polls
				budgets = append(budgets, budget)
				var h []ev
				label := ""
				if kind == 0 {
					var parked bool
					h, parked = scriptedNearEmpty(q, rng.Range(6, 14), rng, &clock)
					if !parked {
						notParked++
					}
					label = "idle-polling then parked enqueuer, tokens"
				} else {
					P, C := rng.Range(2, 4), rng.Range(1, 3)
					h = tokenNearEmpty(q, P, C, 60/P, &clock)
					label = "idle-polling then jitter, tokens"
				}
				for _, e := range h[:len(h)-1] {
					if e.kind == 2 {
						wrongEmpties++
					}
				}
				h = append(pre, h...)
				sort.Slice(h, func(a, b int) bool { return h[a].inv < h[b].inv })
				light = append(light, pending{fmt.Sprintf("CHist true true %s\n %s", vhlib.Bool(twin(h, true, true)), histStr(h)),
					fmt.Sprintf("concurrent/%s/%s%s", q.Name(), label, lapT), true, nil,
					map[string]interface{}{"events": len(h), "unrecorded_empty_polls": polls, "threshold_after_polling": budget, "refill_midway": split}})
			}
		}
	}
	// ---- lapped consumer (lapped.go): a consumer parked for a whole ring lap, a second one marks its slot unsafe,
	//      an enqueuer holds that very ticket ----
	nlap := 2 // per variant
	if th {
		nlap = 10
	}
	lapNotParked := 0
	for variant := 0; variant < 3; variant++ {
		for i := 0; i < nlap; i++ {
			if i%2 == 1 {
				curLaps = pickLap(rng)
			}
			q := newQ(variant, 3000)
			clock = 0
			label := lappedLabel(q) + lapTag()
			curLaps = 0
			h, parked := lappedConsumer(q, rng.Range(1, 3), rng, &clock, func(what string, detail interface{}) { w.Violation(label, what, detail) })
			if !parked {
				lapNotParked++
			}
			light = append(light, pending{fmt.Sprintf("CHist true true %s\n %s", vhlib.Bool(twin(h, true, true)), histStr(h)), label, true, nil,
				map[string]interface{}{"events": len(h), "all_parked": parked}})
		}
	}
	w.Notes["lapped_consumer_runs_where_a_party_did_not_park"] = lapNotParked
	w.Notes["fast_forward_refused"] = ffRefused
	w.Notes["idle_polling_unrecorded_empty_polls"] = totalPolls
	w.Notes["idle_polling_threshold_before_the_rounds"] = budgets
	w.Notes["near_empty_rounds_where_the_enqueuer_did_not_park"] = notParked
	w.Notes["near_empty_empty_answers_under_token_discipline"] = wrongEmpties

	// ---- concurrent: tiny contended histories (2..4 goroutines, <= 12 calls), decided by the verified linearizability
	//      checker (Common/Hist.v lin_check for the FIFO specification) and cross-checked with aspects_b inside Coq ----
	ntiny := 150
	if th {
		ntiny = 6000
	}
	var keepTiny [][]ev
	tinyWarm, tinyCross, tinyCrossTwoRings := 0, 0, 0
	for i := 0; i < ntiny; i++ {
		variant := i % 3
		T := rng.Range(2, 4)
		scripts, drain := tinyScripts(rng, T)
		if (i/3)%3 == 2 && (i/9)%2 == 0 { // (the other two thirds start with a warm-up / a sequential prefix)
			curLaps = pickLap(rng)
		}
		lapT := lapTag()
		q := newQ(variant, N+200)
		curLaps = 0
		warm := 0
		if (i/3)%3 == 0 { // unrecorded sequential warm-up that leaves the queue empty: the recorded calls straddle a wrap of the ring index (cycle change)
			warm = N - rng.Range(0, 5)
			for v := 0; v < warm; v++ {
				q.Enq(int64(20 + v%N))
			}
			for v := 0; v < warm; v++ {
				if _, ok := q.Deq(); !ok {
					w.Violation("concurrent/"+q.Name()+"/tiny(lin_check)/warm-up", "sequential warm-up lost a value", map[string]interface{}{"warm": warm, "at": v})
					break
				}
			}
			tinyWarm++
		}
		clock = 0
		// Segment crossing on the dequeue side: an unrecorded SEQUENTIAL prefix (its results are checked here) fills the first ring,
		// closes it, puts cj values into the second ring and dequeues all but ck values of the first ring. What is left, in FIFO
		// order, enters the history as sequential enqueue events stamped before the concurrent part (they did happen before it,
		// in that order; the dropped prefix is a complete sequential run whose net effect on a FIFO queue is nil), so that
		// "linearizable from the empty queue" of the emitted history is "linearizable from the left-over contents" of the
		// recorded part (Common/Hist.v lin_segments). The recorded dequeuers drain the closed ring and advance the queue head
		// to the second ring while the recorded enqueuers append to it.
		var pre []ev
		cross := (i/3)%3 == 1
		if cross {
			cj, ck := rng.Range(1, 3), rng.Range(0, 3)
			okPrefix := true
			for v := 1; v <= N+cj; v++ {
				q.Enq(int64(100 + v))
			}
			for v := 1; v <= N-ck; v++ {
				if d, ok := q.Deq(); !ok || d != int64(100+v) {
					w.Violation("concurrent/"+q.Name()+"/tiny(lin_check)/prefix", "sequential prefix: Dequeue returned a wrong value or empty",
						map[string]interface{}{"at": v, "got": d, "ok": ok, "want": 100 + v})
					okPrefix = false
					break
				}
			}
			if !okPrefix {
				continue
			}
			for v := N - ck + 1; v <= N+cj; v++ {
				clock += 2
				pre = append(pre, ev{clock - 1, clock, 0, 0, int64(100 + v)})
			}
			tinyCross++
			if q.Snap().Segments >= 2 {
				tinyCrossTwoRings++
			}
		}
		pert := ""
		if i%2 == 1 {
			lscq.VerifYieldHook = perturbHook
			pert = "+yields"
		}
		spinStart = true
		h := runScripts(q, scripts, 0, drain, &clock)
		spinStart = false
		lscq.VerifYieldHook = nil
		h = append(pre, h...)
		label := fmt.Sprintf("concurrent/%s/tiny(lin_check)/T=%d%s%s", q.Name(), T, pert, lapT)
		if warm > 0 {
			label += "+cycle-wrap"
		}
		if cross {
			label += "+segment-crossing"
		}
		light = append(light, pending{"CLin\n " + histStr(h), label, true, nil,
			map[string]interface{}{"T": T, "events": len(h), "drain": drain, "warm": warm, "left_over_of_sequential_prefix": len(pre)}})
		if len(keepTiny) < 30 && len(h) >= 5 {
			keepTiny = append(keepTiny, h)
		}
	}
	w.Notes["tiny_histories_recorded_across_a_cycle_wrap_of_the_ring"] = tinyWarm
	w.Notes["tiny_histories_recorded_while_the_head_moves_to_the_second_ring"] = tinyCross
	w.Notes["of_these_started_with_two_rings_linked"] = tinyCrossTwoRings
	// corrupted copies of tiny histories: aspects_b against lin_check on histories that are (mostly) not linearizable
	for i, h0 := range keepTiny {
		for m := 0; m < 6; m++ {
			h, name := corruptTiny(rng, h0, m)
			if h == nil {
				continue
			}
			light = append(light, pending{"CLinX\n " + histStr(h), "lin-selftest/" + name, true, nil,
				map[string]interface{}{"source_history": i, "mutation": name}})
		}
	}

	// ---- concurrent: medium histories (a few thousand events), lin_b inside Coq ----
	nmed := 3
	if th {
		nmed = 40
	}
	for i := 0; i < nmed; i++ {
		variant := i % 3
		P, C := rng.Range(2, 16), rng.Range(2, 16)
		per := 2500 / P
		q := newQ(variant, P*per+5)
		clock = 0
		scripts, nbar := makeScripts(rng, 0, P, C, per, 0)
		h := runScripts(q, scripts, nbar, true, &clock)
		tv := twin(h, true, false)
		heavy = append(heavy, pending{fmt.Sprintf("CHist false true %s\n %s", vhlib.Bool(tv), histStr(h)),
			fmt.Sprintf("concurrent/%s/medium(lin_b)", q.Name()), true, nil, map[string]interface{}{"P": P, "C": C, "per": per, "events": len(h)}})
	}

	// ---- concurrent: long segment-crossing runs: Go twin on the whole history, aspects_b on value projections ----
	nbig := 3
	if th {
		nbig = 24
	}
	bigEvents := 0
	for i := 0; i < nbig; i++ {
		variant := i % 3
		P, C := rng.Range(4, 16), rng.Range(1, 16)
		stall := i%2 == 0 || !th // quick: every long run has stalled enqueuers
		total := N + rng.Range(6000, 40000)
		if stall {
			total = 2*N + rng.Range(1000, 20000)
		}
		if th && i%4 == 3 {
			total = 3*N + rng.Range(1000, 30000)
		}
		per := total / P
		q := newQ(variant, P*per+5)
		clock = 0
		// consumers start once N+2000 enqueues have completed (the first ring is closed by then)
		var scripts [][]action
		next := int64(0)
		for p := 0; p < P; p++ {
			var s []action
			for j := 0; j < per; j++ {
				next++
				s = append(s, action{aEnq, next})
			}
			scripts = append(scripts, s)
		}
		att := (P*per)/C + 50
		for c := 0; c < C; c++ {
			s := []action{{aWaitProduced, int64(N + 2000)}}
			for j := 0; j < att; j++ {
				s = append(s, action{aDeq, 0})
			}
			scripts = append(scripts, s)
		}
		if stall {
			// two enqueue attempts shortly before the first ring fills up sleep across its close, drain and drop
			stallLo, stallHi, stallDur = int64(N-60), int64(N-58), 150*time.Millisecond
			lscq.VerifYieldHook = stallHook
		}
		h := runScripts(q, scripts, 0, true, &clock)
		lscq.VerifYieldHook = nil
		bigEvents += len(h)
		snap := q.Snap()
		label := fmt.Sprintf("concurrent/%s/segment-crossing", q.Name())
		if stall {
			label += "+stalled-enqueuers"
		}
		if !twin(h, true, true) {
			w.Violation(label, "history violates the queue conditions (Go twin of lin_b + empty-answer rule)",
				map[string]interface{}{"P": P, "C": C, "per": per, "events": len(h), "seed": o.Seed})
		}
		// projections: random values and runs of consecutive values of one producer
		var empties []int
		for j, e := range h {
			if e.kind == 2 {
				empties = append(empties, j)
			}
		}
		nproj := 4
		for k := 0; k < nproj; k++ {
			keep := map[int64]bool{}
			for len(keep) < 60 {
				v := int64(rng.Range(1, P*per))
				keep[v] = true
				if rng.Chance(1, 2) { // neighbours of the same producer
					for d := int64(1); d <= 3; d++ {
						if v+d <= int64(P*per) && (v-1)/int64(per) == (v+d-1)/int64(per) {
							keep[v+d] = true
						}
					}
				}
			}
			ke := map[int]bool{}
			if len(empties) > 0 {
				ke[empties[len(empties)-1]] = true // the final drain's empty answer
				for j := 0; j < 12 && j < len(empties); j++ {
					ke[empties[rng.Intn(len(empties))]] = true
				}
			}
			ph := project(h, keep, ke)
			tv := twin(ph, true, true)
			light = append(light, pending{fmt.Sprintf("CHist true true %s\n %s", vhlib.Bool(tv), histStr(ph)), label + "/projection", true, nil,
				map[string]interface{}{"P": P, "C": C, "per": per, "events_full": len(h), "events_projected": len(ph), "segments_at_end": snap.Segments}})
		}
	}
	w.Notes["long_history_events_decided_by_go_twin"] = bigEvents
	w.Notes["twin_false_on_recorded_small_histories"] = -twinAgree

	// ---- GC pressure on the pointer-carrying variants (child processes; decided there, reported as violations) ----
	{
		ngc := 2 // x 3 variants, three children at a time, ~3 s each
		if th {
			ngc = 4
		}
		reportGC(w, o, startGCChildren(o, ngc)())
	}

	// ---- emit: every shard starts with at most one heavy case ----
	li := 0
	shard := 24
	for _, hcase := range heavy {
		w.Case(hcase.term, hcase.label, hcase.nontrivial, hcase.steps, hcase.replay)
		for k := 0; k < shard-1 && li < len(light); k++ {
			c := light[li]
			li++
			w.Case(c.term, c.label, c.nontrivial, c.steps, c.replay)
		}
	}
	for ; li < len(light); li++ {
		c := light[li]
		w.Case(c.term, c.label, c.nontrivial, c.steps, c.replay)
	}
	w.Close(o, "sequential: one case = one trace of Enqueue/Dequeue bursts on New[int64]/NewPointer/NewUint64 with results, cursor snapshots and slot probes, "+
		"non-trivial when some Dequeue returned a value; concurrent: one case = one recorded history (P,C in 1..16, unique values, stamps from one atomic counter), "+
		"non-trivial when >= 2 goroutines took part; tiny histories (2..4 goroutines, <= 12 calls, a third recorded across a wrap of the ring index after an unrecorded warm-up, a third while the queue head moves from the drained first ring to the second one) are decided by lin_check and aspects_b; "+
		"distinct = distinct case text")
}
