// C05 harness, "lapped consumer" schedules (the only situation in which the isSafe bit of a ring slot matters).
//
// Scripted with the verifYield hook points, at the real ring size (n = 65536 tickets per lap):
//
//	C1  Dequeue: takes head ticket t (a filled position holding x) and is parked before it loads the slot (point 5)
//	    ... the main goroutine enqueues and dequeues n-1 filler values: head and tail reach t+n (one whole lap) ...
//	E   Enqueue(y): takes tail ticket t+n (the SAME slot) and is parked before it inspects the slot (point 4)
//	D   Dequeue: lands on ticket t+n, finds x of the previous lap still there, marks the slot UNSAFE, reports empty
//	C1  released: takes x (slot: empty, unsafe)          [or E first: the slot is still full, E moves on]
//	E   released: must NOT store at t+n (head is already past it): it moves on to a fresh ticket
//	... drain: y must come out, then empty ...
//
// Only x, y, the dequeues that meet them and the drain are recorded; the filler pairs are complete
// enqueue/dequeue pairs of other values, checked here against FIFO order and dropped from the history (dropping
// values from a history is sound for all four conditions, as for the projections of long runs).
// A value stored at a position the consumers have passed never comes out: Enqueue returned true, no Dequeue
// returns it, the drain's empty answer has it inside -> EmptyJustified / NoLoss fail in Coq (kind 2).
package main

import (
	"fmt"
	"runtime"
	"sort"
	"sync"
	"sync/atomic"
	"time"

	"github.com/songzhibin97/go-baseutils/structure/queues/lscq"

	"vh/vhlib"
)

var (
	lapArm     [8]int32 // per yield point: 1 = the next goroutine reaching it parks
	lapStalled [8]int32
	lapRelease [8]int32
)

func lapHook(k int) {
	if (k == 4 || k == 5) && atomic.CompareAndSwapInt32(&lapArm[k], 1, 0) {
		atomic.StoreInt32(&lapStalled[k], 1)
		limit := time.Now().Add(5 * time.Second)
		for atomic.LoadInt32(&lapRelease[k]) == 0 && time.Now().Before(limit) {
			runtime.Gosched()
		}
	}
}

func lapPark(k int) {
	atomic.StoreInt32(&lapStalled[k], 0)
	atomic.StoreInt32(&lapRelease[k], 0)
	atomic.StoreInt32(&lapArm[k], 1)
}

func lapWaitParked(k int) bool {
	limit := time.Now().Add(2 * time.Second)
	for atomic.LoadInt32(&lapStalled[k]) == 0 && time.Now().Before(limit) {
		runtime.Gosched()
	}
	return atomic.LoadInt32(&lapStalled[k]) == 1
}

// lappedConsumer runs `rounds` rounds on q. viol reports filler mismatches (decided here, outside Coq).
func lappedConsumer(q qapi, rounds int, rng *vhlib.Rng, clock *int64, viol func(what string, detail interface{})) (h []ev, parkedAll bool) {
	var mu sync.Mutex
	rec := func(e ev) { mu.Lock(); h = append(h, e); mu.Unlock() }
	enq := func(who int, v int64) {
		i := atomic.AddInt64(clock, 1)
		q.Enq(v)
		r := atomic.AddInt64(clock, 1)
		rec(ev{i, r, who, 0, v})
	}
	deq := func(who int) (int64, bool) {
		i := atomic.AddInt64(clock, 1)
		v, ok := q.Deq()
		r := atomic.AddInt64(clock, 1)
		if ok {
			rec(ev{i, r, who, 1, v})
		} else {
			rec(ev{i, r, who, 2, 0})
		}
		return v, ok
	}
	n := int(lscq.VerifSCQSize)
	C1, E, D := newWorker(), newWorker(), newWorker()
	defer func() { C1.stop(); E.stop(); D.stop() }()
	lscq.VerifYieldHook = lapHook
	defer func() { lscq.VerifYieldHook = nil }()
	parkedAll = true
	next := int64(0)
	fillerOK := true
	for r := 0; r < rounds && fillerOK; r++ {
		// a few ordinary recorded calls first (they also move the ticket the round is about)
		for i := 0; i < rng.Intn(4); i++ {
			next++
			enq(5, next)
			deq(6)
		}
		next++
		x := next
		enq(5, x) // position t, the queue holds exactly x
		lapPark(5)
		C1.start(func() { deq(1) }) // takes ticket t, parks before loading the slot
		if !lapWaitParked(5) {
			parkedAll = false
		}
		// one lap of filler pairs (unrecorded, checked)
		lap := n - 1
		if rng.Chance(1, 4) {
			lap = n - 1 + n // two laps: D then finds a slot two cycles old
		}
		for i := 0; i < lap && fillerOK; i++ {
			f := int64(1000 + i%1500)
			q.Enq(f)
			if v, ok := q.Deq(); !ok || v != f {
				fillerOK = false
				viol("sequential filler pair behind a parked consumer: Dequeue did not return the value just enqueued",
					map[string]interface{}{"round": r, "pair": i, "enqueued": f, "got": v, "ok": ok})
			}
		}
		next++
		y := next
		lapPark(4)
		E.start(func() { enq(2, y) }) // takes the tail ticket one lap after t, parks before looking at the slot
		if !lapWaitParked(4) {
			parkedAll = false
		}
		nd := rng.Range(1, 2)
		for i := 0; i < nd; i++ {
			D.do(func() { deq(3) }) // lands on the lapped slot, marks it unsafe, empty answer
		}
		if rng.Chance(3, 4) {
			atomic.StoreInt32(&lapRelease[5], 1)
			C1.wait()
			atomic.StoreInt32(&lapRelease[4], 1)
			E.wait()
		} else {
			atomic.StoreInt32(&lapRelease[4], 1)
			E.wait()
			atomic.StoreInt32(&lapRelease[5], 1)
			C1.wait()
		}
		// what is inside now must come out
		for i := 0; i < 3; i++ {
			if _, ok := deq(6); !ok {
				break
			}
		}
	}
	for i := range lapArm {
		atomic.StoreInt32(&lapArm[i], 0)
	}
	for { // final drain
		if _, ok := deq(0); !ok {
			break
		}
	}
	sort.Slice(h, func(a, b int) bool { return h[a].inv < h[b].inv })
	return h, parkedAll
}

func lappedLabel(q qapi) string {
	return fmt.Sprintf("concurrent/%s/lapped consumer (slot marked unsafe)", q.Name())
}
