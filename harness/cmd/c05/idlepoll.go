// C05 harness, "idle polling then burst": a consumer polls an EMPTY queue until the ring's emptiness budget
// (threshold) is used up to its last unit(s); every poll costs one unit, every successful Enqueue must refill the
// budget to 2n-1. Then the parked-enqueuer / token rounds of main.go run on that queue: a dequeuer that has to step
// over the slot of an in-flight enqueuer needs budget; if an Enqueue failed to refill it the dequeuer reports empty
// although a completed value sits behind the in-flight slot (EmptyJustified violated, decided by aspects_b in Coq).
package main

import (
	"sync/atomic"

	"vh/vhlib"
)

// idlePoll: Enqueue+Dequeue one value (the budget becomes 2n-1), then poll the empty queue up to ~140000 times,
// stopping early when the verif snapshot shows the budget at `target` (0 or 1). With split, one more
// Enqueue+Dequeue happens after 70000 polls (it refills the budget, so the polling runs to its cap).
// The polls themselves are not recorded (dropping empty answers from a history is sound); the value-carrying calls are.
func idlePoll(q qapi, rng *vhlib.Rng, clock *int64, split bool) (pre []ev, polls int, budget int64) {
	id := int64(5000)
	enqdeq := func() {
		id++
		i := atomic.AddInt64(clock, 1)
		q.Enq(id)
		r := atomic.AddInt64(clock, 1)
		pre = append(pre, ev{i, r, 9, 0, id})
		i = atomic.AddInt64(clock, 1)
		v, ok := q.Deq()
		r = atomic.AddInt64(clock, 1)
		if ok {
			pre = append(pre, ev{i, r, 9, 1, v})
		} else {
			pre = append(pre, ev{i, r, 9, 2, 0})
		}
	}
	enqdeq()
	target := int64(rng.Intn(2))
	limit := 140000 + rng.Intn(2000)
	for polls < limit {
		if split && polls == 70000 {
			enqdeq()
		}
		if q.Snap().Last.Threshold <= target {
			break
		}
		i := atomic.AddInt64(clock, 1)
		v, ok := q.Deq()
		r := atomic.AddInt64(clock, 1)
		if ok { // cannot happen on an empty queue; recorded so that the checker sees it
			pre = append(pre, ev{i, r, 9, 1, v})
		}
		polls++
	}
	return pre, polls, q.Snap().Last.Threshold
}
