// C05 harness, lap offsets: the behaviour of the queue must not depend on how many laps a ring has already made
// (width of the cycle field and of the ticket counters). lscq.VerifFastForward (hook lscq_ff_verif.go) translates an
// empty quiescent ring by k laps; the streams of main.go then run from there. The Coq model is unbounded and
// translation invariant (it only compares cycles and takes positions modulo / divided by the ring size), so the
// case type is unchanged: cursor snapshots and probed cycles are reported relative to the fast-forwarded origin
// (offQ), results and histories as they are; the lap offset appears in the label and in the replay data.
// The constructor itself is validated on every run against rings that were really driven (validateFF).
package main

import (
	"fmt"

	"github.com/songzhibin97/go-baseutils/structure/queues/lscq"

	"vh/vhlib"
)

// curLaps: lap offset applied by newQ to the queues it creates (0 = none)
var curLaps uint64

type ffer interface{ FF(k uint64) bool }

func (g genQ) FF(k uint64) bool { return g.q.VerifFastForward(k) }
func (p ptrQ) FF(k uint64) bool { return p.q.VerifFastForward(k) }
func (u u64Q) FF(k uint64) bool { return u.q.VerifFastForward(k) }

// offQ reports positions and cycles of the fast-forwarded ring relative to its new origin
type offQ struct {
	qapi
	k uint64
}

func (o offQ) norm(r lscq.VerifRing) lscq.VerifRing {
	if d := o.k * lscq.VerifSCQSize; r.Head >= d && r.Tail >= d { // later rings of the queue are fresh ones
		r.Head -= d
		r.Tail -= d
	}
	return r
}
func (o offQ) Snap() lscq.VerifSnap {
	s := o.qapi.Snap()
	s.First, s.Last = o.norm(s.First), o.norm(s.Last)
	return s
}
func (o offQ) Entry(last bool, idx uint64) (lscq.VerifEntry, int64) {
	e, d := o.qapi.Entry(last, idx)
	if e.Cycle >= o.k {
		e.Cycle -= o.k
	}
	return e, d
}

var ffRefused int

func newQ(variant int, maxv int) qapi {
	q := newQ0(variant, maxv)
	if curLaps == 0 {
		return q
	}
	if !q.(ffer).FF(curLaps) {
		ffRefused++
		return q
	}
	return offQ{q, curLaps}
}

// lap offsets around the widths a cycle / position could be truncated to: 15/16 bits, 31/32 bits, 46/47 bits
// (head = (k+1) * 2^16 stays below the 63-bit ticket counter: k + 1 < 2^47; the cycle has 62 bits)
var lapOffsets = []uint64{
	3, 255, 1<<15 - 2, 1<<15 - 1, 1 << 15, 1<<16 - 3, 1<<16 - 2, 1<<16 - 1, 1 << 16, 1<<16 + 1, 1<<16 + 2,
	1<<24 - 1, 1<<31 - 2, 1<<31 - 1, 1 << 31, 1<<32 - 3, 1<<32 - 2, 1<<32 - 1, 1 << 32, 1<<32 + 1, 1<<32 + 2,
	1<<40 + 12345, 1<<46 - 1, 1 << 46, 1<<47 - 70,
}

func pickLap(rng *vhlib.Rng) uint64 { return lapOffsets[rng.Intn(len(lapOffsets))] }

func lapTag() string {
	if curLaps == 0 {
		return ""
	}
	return fmt.Sprintf("@lap+%d", curLaps)
}

// validateFF: the fast-forwarded state against really driven rings, slot by slot. Returns descriptions of differences.
func validateFF() (diffs []string) {
	n := int(lscq.VerifSCQSize)
	same := func(what string, a, b qapi) {
		sa, sb := a.Snap(), b.Snap()
		if sa != sb {
			diffs = append(diffs, fmt.Sprintf("%s: cursors %+v vs %+v", what, sa, sb))
			return
		}
		for i := 0; i < n; i++ {
			ea, da := a.Entry(false, uint64(i))
			eb, db := b.Entry(false, uint64(i))
			if ea != eb || da != db {
				diffs = append(diffs, fmt.Sprintf("%s: slot %d: %+v/%d vs %+v/%d", what, i, ea, da, eb, db))
				return
			}
		}
	}
	pairs := func(q qapi, m int) {
		for i := 0; i < m; i++ {
			q.Enq(int64(1 + i%1000))
			q.Deq()
		}
	}
	for variant := 0; variant < 3; variant++ {
		for _, laps := range []int{1, 2} {
			// armed threshold: r pairs, then k laps of pairs  ==  r pairs, fast-forward k
			r := 1 + 7*variant
			a, b := newQ0(variant, 1100), newQ0(variant, 1100)
			pairs(a, r)
			pairs(a, laps*n)
			pairs(b, r)
			if !b.(ffer).FF(uint64(laps)) {
				diffs = append(diffs, fmt.Sprintf("%s: fast-forward refused on an empty quiescent ring", vnames[variant]))
				continue
			}
			same(fmt.Sprintf("%s: %d pairs + %d laps of pairs vs fast-forward %d", vnames[variant], r, laps, laps), a, b)
		}
		// fresh ring: k-2 laps of pairs, then 2n empty polls  ==  fast-forward k of the fresh ring
		a, b := newQ0(variant, 1100), newQ0(variant, 1100)
		pairs(a, n)
		for i := 0; i < 2*n; i++ {
			a.Deq()
		}
		if !b.(ffer).FF(3) {
			diffs = append(diffs, fmt.Sprintf("%s: fast-forward refused on a fresh ring", vnames[variant]))
			continue
		}
		same(fmt.Sprintf("%s: 1 lap of pairs + 2n empty polls vs fast-forward 3 of a fresh ring", vnames[variant]), a, b)
		// and it must refuse a non-empty ring
		c := newQ0(variant, 1100)
		c.Enq(1)
		if c.(ffer).FF(1) {
			diffs = append(diffs, fmt.Sprintf("%s: fast-forward accepted a non-empty ring", vnames[variant]))
		}
	}
	return
}
