// C05 harness, GC-pressure scenario (runs in a child process: memory corruption may crash, a crash is a violation).
//
// Producers enqueue pointers to freshly allocated objects carrying (magic, producer, sequence, checksum) and keep
// no other reference. Consumers dequeue a batch, hold the pointers ONLY in stack locals, wait until a couple of
// garbage collections have completed, then validate every object. Meanwhile goroutines force collections
// continuously and churn the allocator with objects of the same size classes. If the queue drops its reference
// without telling the collector (missing / misplaced deletion barrier in Dequeue), an object that was allocated
// before a mark phase and dequeued during it is freed while the consumer still holds it; its memory is reused and
// the consumer observes a value that was never enqueued (bad magic/checksum, or a different producer/sequence,
// which also shows up as a repeat or an order violation).
package main

import (
	"encoding/json"
	"fmt"
	"os"
	"os/exec"
	"runtime"
	"runtime/debug"
	"strconv"
	"strings"
	"sync"
	"sync/atomic"
	"time"
	"unsafe"

	"github.com/songzhibin97/go-baseutils/structure/queues/lscq"

	"vh/vhlib"
)

type gobj struct{ magic, prod, seq, sum uint64 } // 32 bytes, pointer-free

type gbox struct { // the "struct with a pointer" payload of the generic variant
	id uint64
	p  *gobj
}

const gMagic = uint64(0x5ca1ab1e0ddba115)

func gsum(p, s uint64) uint64 { return (p+1)*0x9E3779B97F4A7C15 ^ (s+1)*0xBF58476D1CE4E5B9 ^ gMagic }

// the three pointer-carrying variants; deq returns the object and (variant 2) the id stored next to the pointer
type gcq interface {
	enq(o *gobj)
	deq() (*gobj, uint64, bool)
	name() string
}

type gPtr struct{ q *lscq.PointerQueue }

func (g gPtr) enq(o *gobj) { g.q.Enqueue(unsafe.Pointer(o)) }
func (g gPtr) deq() (*gobj, uint64, bool) {
	p, ok := g.q.Dequeue()
	return (*gobj)(p), 0, ok
}
func (g gPtr) name() string { return "NewPointer" }

type gGenP struct{ q *lscq.Queue[*gobj] }

func (g gGenP) enq(o *gobj) { g.q.Enqueue(o) }
func (g gGenP) deq() (*gobj, uint64, bool) {
	o, ok := g.q.Dequeue()
	return o, 0, ok
}
func (g gGenP) name() string { return "New[*T]" }

type gGenS struct{ q *lscq.Queue[gbox] }

func (g gGenS) enq(o *gobj) { g.q.Enqueue(gbox{id: o.prod<<32 | o.seq, p: o}) }
func (g gGenS) deq() (*gobj, uint64, bool) {
	b, ok := g.q.Dequeue()
	return b.p, b.id, ok
}
func (g gGenS) name() string { return "New[struct{id;*T}]" }

var gcVariantNames = []string{"NewPointer", "New[*T]", "New[struct{id;*T}]"}

type gcResult struct {
	Variant   string `json:"variant"`
	Enqueued  int64  `json:"enqueued"`
	Dequeued  int64  `json:"dequeued"`
	Corrupted int64  `json:"corrupted"` // bad magic / checksum / impossible producer or sequence / id mismatch
	Repeated  int64  `json:"repeated"`
	Disorder  int64  `json:"disorder"` // per producer, per consumer
	Lost      int64  `json:"lost"`
	Example   string `json:"example"`
	GCs       int64  `json:"gcs"`
	Backlog   int    `json:"backlog"`
}

var junkSink [64]unsafe.Pointer

func gcPressure(seed uint64, variant, idx int, thorough bool) gcResult {
	rng := vhlib.NewRng(seed).Fork()
	for i := 0; i < 300+variant*17+idx; i++ {
		rng = rng.Fork()
	}
	debug.SetGCPercent(10)
	var q gcq
	switch variant {
	case 0:
		q = gPtr{lscq.NewPointer()}
	case 1:
		q = gGenP{lscq.New[*gobj]()}
	default:
		q = gGenS{lscq.New[gbox]()}
	}
	var res gcResult
	res.Variant = q.name()
	// ballast: a live, pointer-rich structure, so that every mark phase takes a while and the window between the
	// scan of a consumer's stack and the scan of the ring slot it dequeues from is wide
	ballast := make([]*gbox, 300000)
	for i := range ballast {
		ballast[i] = &gbox{id: uint64(i), p: &gobj{magic: 1}}
	}
	defer runtime.KeepAlive(ballast)
	P, C := rng.Range(2, 4), rng.Range(6, 12)
	per := 400000 // cap per producer; the run is bounded by wall-clock time
	dur := 3 * time.Second
	if thorough {
		dur = 10 * time.Second
	}
	deadline := time.Now().Add(dur)
	made := make([]int64, P) // objects enqueued by each producer
	var prodDone int32
	backlog := rng.Range(40000, 120000) // queued before the first consumer starts
	res.Backlog = backlog
	total := int64(P * per)
	var produced, consumed, gcCount int64
	var example atomic.Value
	seen := make([]uint32, total) // dequeue count per (producer, seq)
	stop := make(chan struct{})
	var bg sync.WaitGroup
	// collectors: one collection after the other
	for g := 0; g < 2; g++ {
		bg.Add(1)
		go func() {
			defer bg.Done()
			for {
				select {
				case <-stop:
					return
				default:
				}
				runtime.GC()
				atomic.AddInt64(&gcCount, 1)
			}
		}()
	}
	// allocator churn in the size classes of the payload objects and of the generic queue's boxes
	for g := 0; g < 4; g++ {
		bg.Add(1)
		go func(g int) {
			defer bg.Done()
			i := 0
			for {
				select {
				case <-stop:
					return
				default:
				}
				for k := 0; k < 256; k++ {
					j := &gobj{magic: 0xdeadbeefdeadbeef, prod: ^uint64(0), seq: ^uint64(0), sum: 1}
					b := &gbox{id: ^uint64(0)}
					pp := new(*gobj)
					switch (i + k) % 3 {
					case 0:
						junkSink[(g*16+k)%64] = unsafe.Pointer(j)
					case 1:
						junkSink[(g*16+k)%64] = unsafe.Pointer(b)
					default:
						junkSink[(g*16+k)%64] = unsafe.Pointer(pp)
					}
				}
				i++
				runtime.Gosched()
			}
		}(g)
	}
	var pw, cw sync.WaitGroup
	for p := 0; p < P; p++ {
		pw.Add(1)
		go func(p int) {
			defer pw.Done()
			defer atomic.AddInt32(&prodDone, 1)
			for s := 0; s < per && time.Now().Before(deadline); s++ {
				o := &gobj{magic: gMagic, prod: uint64(p), seq: uint64(s), sum: gsum(uint64(p), uint64(s))}
				q.enq(o) // no other reference is kept
				atomic.StoreInt64(&made[p], int64(s+1))
				n := atomic.AddInt64(&produced, 1)
				// keep a backlog, but bounded, so that the final drain stays short
				for n-atomic.LoadInt64(&consumed) > int64(backlog)+30000 {
					runtime.Gosched()
				}
			}
		}(p)
	}
	bad := func(what string, o *gobj, id uint64, c int) {
		atomic.AddInt64(&res.Corrupted, 1)
		example.Store(fmt.Sprintf("%s: consumer %d holds object {magic %#x prod %d seq %d sum %#x} (id word %#x): never enqueued",
			what, c, o.magic, o.prod, o.seq, o.sum, id))
	}
	validate := func(o *gobj, id uint64, c int, last []int64) {
		if o == nil {
			atomic.AddInt64(&res.Corrupted, 1)
			example.Store(fmt.Sprintf("consumer %d dequeued a nil payload", c))
			return
		}
		m, pr, sq, sm := o.magic, o.prod, o.seq, o.sum
		if m != gMagic || pr >= uint64(P) || sq >= uint64(per) || sm != gsum(pr, sq) {
			bad("bad magic/checksum", o, id, c)
			return
		}
		if variant == 2 && id != pr<<32|sq {
			bad("id stored next to the pointer does not match the object", o, id, c)
			return
		}
		if atomic.AddUint32(&seen[int(pr)*per+int(sq)], 1) != 1 {
			atomic.AddInt64(&res.Repeated, 1)
			example.Store(fmt.Sprintf("consumer %d: (producer %d, seq %d) dequeued twice", c, pr, sq))
		}
		if int64(sq) <= last[pr] {
			atomic.AddInt64(&res.Disorder, 1)
			example.Store(fmt.Sprintf("consumer %d: producer %d seq %d after seq %d", c, pr, sq, last[pr]))
		} else {
			last[pr] = int64(sq)
		}
	}
	// wait for the backlog (objects allocated before the collections that will run during their dequeue)
	for atomic.LoadInt64(&produced) < int64(backlog) && time.Now().Before(deadline) {
		runtime.Gosched()
	}
	for c := 0; c < C; c++ {
		cw.Add(1)
		go func(c int, r *vhlib.Rng) {
			defer cw.Done()
			last := make([]int64, P)
			for i := range last {
				last[i] = -1
			}
			var held [512]*gobj // stack locals only: stores into them have no write barrier
			var ids [512]uint64
			idle := 0
			for idle < 2000 || atomic.LoadInt32(&prodDone) < int32(P) {
				n := 0
				want := r.Range(32, 512)
				for n < want {
					o, id, ok := q.deq()
					if !ok {
						break
					}
					held[n], ids[n] = o, id
					n++
				}
				if n == 0 {
					idle++
					runtime.Gosched()
					continue
				}
				idle = 0
				atomic.AddInt64(&consumed, int64(n))
				// hold across (up to) two collections, at most a few milliseconds
				g0, t0 := atomic.LoadInt64(&gcCount), time.Now()
				for atomic.LoadInt64(&gcCount) < g0+2 && time.Since(t0) < 3*time.Millisecond && time.Now().Before(deadline) {
					if r.Chance(1, 4) {
						time.Sleep(20 * time.Microsecond)
					} else {
						runtime.Gosched()
					}
				}
				for i := 0; i < n; i++ {
					validate(held[i], ids[i], c+1, last)
					held[i] = nil
				}
			}
		}(c, rng.Fork())
	}
	pw.Wait()
	cw.Wait()
	close(stop)
	bg.Wait()
	// final drain by this goroutine
	last := make([]int64, P)
	for i := range last {
		last[i] = -1
	}
	for {
		o, id, ok := q.deq()
		if !ok {
			break
		}
		atomic.AddInt64(&consumed, 1)
		validate(o, id, 0, last)
	}
	for i := range seen {
		if seen[i] == 0 && int64(i%per) < made[i/per] {
			res.Lost++
			if res.Lost == 1 {
				example.CompareAndSwap(nil, fmt.Sprintf("(producer %d, seq %d) was enqueued and never dequeued", i/per, i%per))
			}
		}
	}
	res.Enqueued, res.Dequeued, res.GCs = atomic.LoadInt64(&produced), atomic.LoadInt64(&consumed), atomic.LoadInt64(&gcCount)
	if e, ok := example.Load().(string); ok {
		res.Example = e
	}
	return res
}

// gcChildMain: entry of the child process (-extra child:gc:<variant>:<idx>)
func gcChildMain(o vhlib.Opts, variant, idx int) {
	r := gcPressure(o.Seed, variant, idx, o.Thorough())
	b, _ := json.Marshal(r)
	os.Stdout.Write(b)
}

type gcJob struct {
	variant, idx int
	out          []byte
	stderr       string
	err          error
}

// startGCChildren launches the children (they run while the parent records its own cases); wait() collects them.
func startGCChildren(o vhlib.Opts, n int) (wait func() []*gcJob) {
	var jobs []*gcJob
	var wg sync.WaitGroup
	sem := make(chan struct{}, 3)
	for i := 0; i < n; i++ {
		for v := 0; v < 3; v++ {
			j := &gcJob{variant: v, idx: i}
			jobs = append(jobs, j)
			wg.Add(1)
			go func(j *gcJob) {
				defer wg.Done()
				sem <- struct{}{}
				defer func() { <-sem }()
				exe, err := os.Executable()
				if err != nil {
					j.err = err
					return
				}
				cmd := exec.Command(exe, "-seed", strconv.FormatUint(o.Seed, 10), "-tier", o.Tier, "-out", o.Out,
					"-extra", fmt.Sprintf("child:gc:%d:%d", j.variant, j.idx))
				var so, se safeBuf
				cmd.Stdout, cmd.Stderr = &so, &se
				if err := cmd.Start(); err != nil {
					j.err = err
					return
				}
				done := make(chan error, 1)
				go func() { done <- cmd.Wait() }()
				select {
				case j.err = <-done:
				case <-time.After(180 * time.Second):
					cmd.Process.Kill()
					j.err = fmt.Errorf("child timed out")
				}
				j.out = so.b
				j.stderr = clipCrash(string(se.b))
			}(j)
		}
	}
	return func() []*gcJob { wg.Wait(); return jobs }
}

// clipCrash keeps the head of a crash report and the part around the runtime's "fatal error" line.
func clipCrash(s string) string {
	head := s
	if len(head) > 300 {
		head = head[:300]
	}
	if i := strings.Index(s, "fatal error"); i >= 0 {
		t := s[i:]
		if len(t) > 1200 {
			t = t[:1200]
		}
		if i > 300 {
			return head + "\n...\n" + t
		}
		if len(s) > 1500 {
			return s[:1500]
		}
		return s
	}
	if len(s) > 1500 {
		return s[:1500]
	}
	return s
}

type safeBuf struct {
	mu sync.Mutex
	b  []byte
}

func (s *safeBuf) Write(p []byte) (int, error) {
	s.mu.Lock()
	s.b = append(s.b, p...)
	s.mu.Unlock()
	return len(p), nil
}

// reportGC turns the children's results into violations / notes.
func reportGC(w *vhlib.Writer, o vhlib.Opts, jobs []*gcJob) {
	var deq, gcs int64
	var runs []string
	for _, j := range jobs {
		label := "gc-pressure/" + gcVariantNames[j.variant]
		if j.err != nil {
			w.Violation(label, "the code under test crashed or hung in a child process (memory corruption is a likely cause)",
				map[string]interface{}{"child": fmt.Sprintf("gc:%d:%d", j.variant, j.idx), "error": j.err.Error(), "stderr": j.stderr, "seed": o.Seed})
			continue
		}
		var r gcResult
		if err := json.Unmarshal(j.out, &r); err != nil {
			w.Violation(label, "child output unreadable", map[string]interface{}{"error": err.Error(), "stderr": j.stderr})
			continue
		}
		deq += r.Dequeued
		runs = append(runs, fmt.Sprintf("%s: %d objects, %d collections, backlog %d", r.Variant, r.Dequeued, r.GCs, r.Backlog))
		gcs += r.GCs
		if r.Corrupted > 0 {
			w.Violation(label, "a value was dequeued that was never enqueued (object freed and reused while the consumer held it)", r)
		}
		if r.Repeated > 0 || r.Disorder > 0 || r.Lost > 0 {
			w.Violation(label, "repeat / per-producer order / loss under GC pressure", r)
		}
	}
	w.Notes["gc_pressure_objects_validated"] = deq
	w.Notes["gc_pressure_collections"] = gcs
	w.Notes["gc_pressure_runs"] = runs
}
