// C15, second harness run: JSON round trips of app/bcache (Export -> json.Valid -> Load into a fresh cache ->
// further operations), written as C12-style cases judged by C12.Check. See package vh/bcachetrace (MainC15).
package main

import "vh/bcachetrace"

func main() { bcachetrace.MainC15() }
