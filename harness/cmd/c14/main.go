// C14 harness: drives every container iterator of /repo/structure with cursor command words and
// records what each command returned; writes Coq cases judged by coq/theories/C14/Check.v.
package main

import (
	"fmt"
	"os"
	"sort"
	"strings"
	"time"

	"github.com/songzhibin97/go-baseutils/structure/lists/arraylist"
	"github.com/songzhibin97/go-baseutils/structure/lists/doublylinkedlist"
	"github.com/songzhibin97/go-baseutils/structure/lists/singlylinkedlist"
	"github.com/songzhibin97/go-baseutils/structure/maps/linkedhashmap"
	"github.com/songzhibin97/go-baseutils/structure/maps/treebidimap"
	"github.com/songzhibin97/go-baseutils/structure/maps/treemap"
	"github.com/songzhibin97/go-baseutils/structure/queues/arrayqueue"
	"github.com/songzhibin97/go-baseutils/structure/queues/circularbuffer"
	"github.com/songzhibin97/go-baseutils/structure/queues/linkedlistqueue"
	"github.com/songzhibin97/go-baseutils/structure/queues/priorityqueue"
	"github.com/songzhibin97/go-baseutils/structure/sets/linkedhashset"
	"github.com/songzhibin97/go-baseutils/structure/sets/treeset"
	"github.com/songzhibin97/go-baseutils/structure/stacks/arraystack"
	"github.com/songzhibin97/go-baseutils/structure/stacks/linkedliststack"
	"github.com/songzhibin97/go-baseutils/structure/trees/avltree"
	"github.com/songzhibin97/go-baseutils/structure/trees/binaryheap"
	"github.com/songzhibin97/go-baseutils/structure/trees/btree"
	"github.com/songzhibin97/go-baseutils/structure/trees/redblacktree"

	"github.com/songzhibin97/go-baseutils/base/bcomparator"

	"vh/vhlib"
)

// the iterator surface, with the key/index accessor unified as K()
type fwd interface {
	Next() bool
	Value() int
	Begin()
	First() bool
	NextTo(func(int, int) bool) bool
}
type rev interface {
	Prev() bool
	End()
	Last() bool
	PrevTo(func(int, int) bool) bool
}
type keyed interface{ Key() int }
type indexed interface{ Index() int }

type pred struct {
	kind string
	x    int
}

func (p pred) coq() string {
	switch p.kind {
	case "PTrue", "PFalse":
		return p.kind
	}
	return fmt.Sprintf("(%s %s)", p.kind, vhlib.Z(int64(p.x)))
}
func (p pred) f(k, v int) bool {
	switch p.kind {
	case "PTrue":
		return true
	case "PFalse":
		return false
	case "PValEq":
		return v == p.x
	case "PValGe":
		return v >= p.x
	case "PKeyEq":
		return k == p.x
	case "PKeyGe":
		return k >= p.x
	}
	return false
}

type cmd struct {
	name string
	p    pred
}

func (c cmd) coq() string {
	if c.name == "NextTo" || c.name == "PrevTo" {
		return "(" + c.name + " " + c.p.coq() + ")"
	}
	return c.name
}
func (c cmd) label() string { return c.name }

type pairKV struct{ k, v int }

func pairs(ps []pairKV) string {
	it := make([]string, len(ps))
	for i, p := range ps {
		it[i] = vhlib.Pair(vhlib.Z(int64(p.k)), vhlib.Z(int64(p.v)))
	}
	return vhlib.List(it)
}

// subject = one container content with a way to make fresh iterators and (optionally) enumerables
type subject struct {
	label    string
	kindCoq  string
	reported []pairKV
	bidir    bool
	mk       func() interface{}
	enum     *enumer
	height   int // B-tree streams only
}
type enumer struct {
	each   func(func(int, int))
	ref    []int // heap: reference multiset
	any    func(func(int, int) bool) bool
	all    func(func(int, int) bool) bool
	find   func(func(int, int) bool) (int, int)
	sel    func(func(int, int) bool) []pairKV
	keyed  bool
	mapped func() []pairKV // Map with f(i,v) = 2v+i (lists only)
}

func keyOf(it interface{}) int {
	if k, ok := it.(keyed); ok {
		return k.Key()
	}
	return it.(indexed).Index()
}

func randPred(r *vhlib.Rng, hi int) pred {
	switch r.Intn(7) {
	case 0:
		return pred{"PTrue", 0}
	case 1:
		return pred{"PFalse", 0}
	case 2:
		return pred{"PValEq", r.Intn(hi + 1)}
	case 3:
		return pred{"PValGe", r.Intn(hi + 2)}
	case 4:
		return pred{"PKeyEq", r.Intn(hi + 1)}
	default:
		return pred{"PKeyGe", r.Intn(hi + 2)}
	}
}

var basicF = []string{"Next", "First", "Begin"}
var basicB = []string{"Next", "Prev", "First", "Last", "Begin", "End"}

func randWord(r *vhlib.Rng, bidir bool, n, hi int) []cmd {
	w := make([]cmd, n)
	for i := range w {
		names := basicF
		if bidir {
			names = basicB
		}
		// bias towards Next/Prev so that the cursor actually travels
		switch x := r.Intn(10); {
		case x < 4:
			w[i] = cmd{name: "Next"}
		case x < 6 && bidir:
			w[i] = cmd{name: "Prev"}
		case x == 8:
			w[i] = cmd{name: "NextTo", p: randPred(r, hi)}
		case x == 9 && bidir:
			w[i] = cmd{name: "PrevTo", p: randPred(r, hi)}
		default:
			w[i] = cmd{name: names[r.Intn(len(names))]}
		}
	}
	return w
}

func runWord(s *subject, w []cmd) (obs []string, steps []string) {
	it := s.mk()
	f := it.(fwd)
	var b rev
	if s.bidir {
		b = it.(rev)
	}
	for _, c := range w {
		var res bool
		landed := false
		var k, v int
		p, _ := vhlib.Recover(func() {
			switch c.name {
			case "Next":
				res = f.Next()
			case "Prev":
				res = b.Prev()
			case "First":
				res = f.First()
			case "Last":
				res = b.Last()
			case "Begin":
				f.Begin()
			case "End":
				b.End()
			case "NextTo":
				res = f.NextTo(c.p.f)
			case "PrevTo":
				res = b.PrevTo(c.p.f)
			}
			if res {
				k, v = keyOf(it), f.Value()
				landed = true
			}
		})
		steps = append(steps, s.label+"."+c.label())
		if p {
			obs = append(obs, "None")
			// the iterator may be in an arbitrary state after a panic: stop the word here
			break
		}
		if landed {
			obs = append(obs, fmt.Sprintf("Some (true, Some %s)", vhlib.Pair(vhlib.Z(int64(k)), vhlib.Z(int64(v)))))
		} else {
			obs = append(obs, fmt.Sprintf("Some (%s, None)", vhlib.Bool(res)))
		}
	}
	return
}

func runEnum(s *subject, r *vhlib.Rng, hi int) (terms []string, steps []string) {
	e := s.enum
	if e == nil {
		return
	}
	var vis []pairKV
	e.each(func(k, v int) { vis = append(vis, pairKV{k, v}) })
	terms = append(terms, "EEach "+pairs(vis))
	steps = append(steps, s.label+".Each")
	if e.ref != nil {
		terms = append(terms, "EContents "+vhlib.IntList(e.ref))
		steps = append(steps, s.label+".contents")
	}
	for i := 0; i < 2; i++ {
		p := randPred(r, hi)
		if e.any != nil {
			terms = append(terms, fmt.Sprintf("EAny %s %s", p.coq(), vhlib.Bool(e.any(p.f))))
			steps = append(steps, s.label+".Any")
			terms = append(terms, fmt.Sprintf("EAll %s %s", p.coq(), vhlib.Bool(e.all(p.f))))
			steps = append(steps, s.label+".All")
			k, v := e.find(p.f)
			// not found: (-1, zero) for indexed containers, (zero, zero) for keyed ones (keys are >= 1 here)
			found := (e.keyed && k != 0) || (!e.keyed && k != -1)
			terms = append(terms, fmt.Sprintf("EFind %s %s", p.coq(), vhlib.Opt(found, vhlib.Pair(vhlib.Z(int64(k)), vhlib.Z(int64(v))))))
			steps = append(steps, s.label+".Find")
		}
		if e.sel != nil {
			terms = append(terms, fmt.Sprintf("ESelect %s %s", p.coq(), pairs(e.sel(p.f))))
			steps = append(steps, s.label+".Select")
		}
	}
	if e.mapped != nil {
		terms = append(terms, "EMap "+pairs(e.mapped()))
		steps = append(steps, s.label+".Map")
	}
	return
}

func idxPairs(vs []int) []pairKV {
	ps := make([]pairKV, len(vs))
	for i, v := range vs {
		ps[i] = pairKV{i, v}
	}
	return ps
}

// ---- shape dumps ----
func rbShape(n *redblacktree.Node[int, int]) string {
	if n == nil {
		return "BL"
	}
	return fmt.Sprintf("(BN %s %s %s %s)", rbShape(n.Left), vhlib.Z(int64(n.Key)), vhlib.Z(int64(n.Value)), rbShape(n.Right))
}
func avlShape(n *avltree.Node[int, int]) string {
	if n == nil {
		return "BL"
	}
	return fmt.Sprintf("(BN %s %s %s %s)", avlShape(n.Children[0]), vhlib.Z(int64(n.Key)), vhlib.Z(int64(n.Value)), avlShape(n.Children[1]))
}
func btShape(n *btree.Node[int, int]) string {
	if n == nil {
		return "(BNode [] [])"
	}
	es := make([]string, len(n.Entries))
	for i, e := range n.Entries {
		es[i] = vhlib.Pair(vhlib.Z(int64(e.Key)), vhlib.Z(int64(e.Value)))
	}
	cs := make([]string, len(n.Children))
	for i, c := range n.Children {
		cs[i] = btShape(c)
	}
	return fmt.Sprintf("(BNode %s %s)", vhlib.List(es), vhlib.List(cs))
}

// a right spine carrying the given in-order sequence (any shape yields the same cursor: theorem C14_tree_cursor)
func spine(ps []pairKV) string {
	s := "BL"
	for i := len(ps) - 1; i >= 0; i-- {
		s = fmt.Sprintf("(BN BL %s %s %s)", vhlib.Z(int64(ps[i].k)), vhlib.Z(int64(ps[i].v)), s)
	}
	return s
}

func ints(vs []int) string { return vhlib.IntList(vs) }

// ---- content builders: every container is filled by a random operation sequence so that layout varies ----
func genSeq(r *vhlib.Rng, n, hi int) []int {
	vs := make([]int, n)
	for i := range vs {
		vs[i] = r.Intn(hi + 1)
	}
	return vs
}

// safeSubjects: Keys()/Values()/String() of several containers are implemented with the iterator, so a
// broken iterator can panic while the content is being built or read back.
func safeSubjects(w *vhlib.Writer, r *vhlib.Rng, size, hi int) []*subject {
	var out []*subject
	p, val := vhlib.Recover(func() { out = subjects(r, size, hi) })
	if p {
		w.Violation("container", "panic while building or reading back a container (Keys/Values iterate)", fmt.Sprint(val))
		return nil
	}
	return out
}

func subjects(r *vhlib.Rng, size, hi int) []*subject {
	var out []*subject
	vals := genSeq(r, size, hi)
	// --- lists ---
	{
		l := arraylist.New[int]()
		for _, v := range vals {
			l.Add(v)
		}
		for i := 0; i < size/3; i++ {
			l.Insert(r.Intn(l.Size()+1), r.Intn(hi+1))
			l.Remove(r.Intn(l.Size() + 1))
		}
		vs := l.Values()
		out = append(out, &subject{label: "arraylist", kindCoq: "KIndex " + ints(vs), reported: idxPairs(vs), bidir: true,
			mk: func() interface{} { it := l.Iterator(); return &it },
			enum: &enumer{each: l.Each, any: l.Any, all: l.All, find: l.Find,
				sel:    func(f func(int, int) bool) []pairKV { return idxPairs(l.Select(f).Values()) },
				mapped: func() []pairKV { return idxPairs(l.Map(func(i, v int) int { return 2*v + i }).Values()) }}})
	}
	{
		l := doublylinkedlist.New[int]()
		for _, v := range vals {
			if r.Bool() {
				l.Add(v)
			} else {
				l.Prepend(v)
			}
		}
		for i := 0; i < size/3; i++ {
			l.Remove(r.Intn(l.Size() + 1))
			l.Add(r.Intn(hi + 1))
		}
		// batch inserts at the head, in the middle and at the end (they maintain prev links separately)
		for i := 0; i < 1+size/4; i++ {
			batch := make([]int, 1+r.Intn(3))
			for j := range batch {
				batch[j] = r.Intn(hi + 1)
			}
			idx := 0
			switch r.Intn(3) {
			case 1:
				idx = r.Intn(l.Size() + 1)
			case 2:
				idx = l.Size()
			}
			l.Insert(idx, batch...)
			if r.Chance(1, 3) && l.Size() > 0 {
				l.Remove(r.Intn(l.Size()))
			}
		}
		vs := l.Values()
		out = append(out, &subject{label: "doublylinkedlist", kindCoq: "KLinked true " + ints(vs), reported: idxPairs(vs), bidir: true,
			mk: func() interface{} { it := l.Iterator(); return &it },
			enum: &enumer{each: l.Each, any: l.Any, all: l.All, find: l.Find,
				sel:    func(f func(int, int) bool) []pairKV { return idxPairs(l.Select(f).Values()) },
				mapped: func() []pairKV { return idxPairs(l.Map(func(i, v int) int { return 2*v + i }).Values()) }}})
	}
	{
		l := singlylinkedlist.New[int]()
		for _, v := range vals {
			if r.Bool() {
				l.Add(v)
			} else {
				l.Prepend(v)
			}
		}
		for i := 0; i < size/3; i++ {
			l.Remove(r.Intn(l.Size() + 1))
			l.Add(r.Intn(hi + 1))
		}
		for i := 0; i < 1+size/4; i++ {
			l.Insert(r.Intn(l.Size()+1), r.Intn(hi+1), r.Intn(hi+1))
			if r.Chance(1, 3) && l.Size() > 0 {
				l.Remove(r.Intn(l.Size()))
			}
		}
		vs := l.Values()
		out = append(out, &subject{label: "singlylinkedlist", kindCoq: "KLinked false " + ints(vs), reported: idxPairs(vs), bidir: false,
			mk: func() interface{} { it := l.Iterator(); return &it },
			enum: &enumer{each: l.Each, any: l.Any, all: l.All, find: l.Find,
				sel:    func(f func(int, int) bool) []pairKV { return idxPairs(l.Select(f).Values()) },
				mapped: func() []pairKV { return idxPairs(l.Map(func(i, v int) int { return 2*v + i }).Values()) }}})
	}
	// --- queues / stacks ---
	{
		q := arrayqueue.New[int]()
		for _, v := range vals {
			q.Enqueue(v)
		}
		for i := 0; i < size/3; i++ {
			q.Dequeue()
			q.Enqueue(r.Intn(hi + 1))
		}
		vs := q.Values()
		out = append(out, &subject{label: "arrayqueue", kindCoq: "KIndex " + ints(vs), reported: idxPairs(vs), bidir: true,
			mk: func() interface{} { it := q.Iterator(); return &it }})
	}
	{
		q := linkedlistqueue.New[int]()
		for _, v := range vals {
			q.Enqueue(v)
		}
		for i := 0; i < size/3; i++ {
			q.Dequeue()
			q.Enqueue(r.Intn(hi + 1))
		}
		vs := q.Values()
		out = append(out, &subject{label: "linkedlistqueue", kindCoq: "KIndex " + ints(vs), reported: idxPairs(vs), bidir: false,
			mk: func() interface{} { it := q.Iterator(); return &it }})
	}
	{
		capa := 1 + r.Intn(size+2)
		q := circularbuffer.New[int](capa)
		for _, v := range vals {
			q.Enqueue(v + 1) // non-zero values: the zero-valued head defect (D19) is C08's business
			if r.Chance(1, 4) {
				q.Dequeue()
			}
		}
		vs := q.Values()
		out = append(out, &subject{label: "circularbuffer", kindCoq: "KIndex " + ints(vs), reported: idxPairs(vs), bidir: true,
			mk: func() interface{} { it := q.Iterator(); return &it }})
	}
	{
		s := arraystack.New[int]()
		for _, v := range vals {
			s.Push(v)
			if r.Chance(1, 5) {
				s.Pop()
			}
		}
		vs := s.Values()
		out = append(out, &subject{label: "arraystack", kindCoq: "KIndex " + ints(vs), reported: idxPairs(vs), bidir: true,
			mk: func() interface{} { it := s.Iterator(); return &it }})
	}
	{
		s := linkedliststack.New[int]()
		for _, v := range vals {
			s.Push(v)
			if r.Chance(1, 5) {
				s.Pop()
			}
		}
		vs := s.Values()
		out = append(out, &subject{label: "linkedliststack", kindCoq: "KIndex " + ints(vs), reported: idxPairs(vs), bidir: false,
			mk: func() interface{} { it := s.Iterator(); return &it }})
	}
	// --- heap / priority queue: reference multiset kept by the harness ---
	{
		h := binaryheap.NewWithIntComparator()
		var ref []int
		for i := 0; i < len(vals); i++ {
			v := vals[i]
			// a third of the insertions are multi-value pushes (the heapify path) onto whatever the heap holds by then
			if nb := 2 + r.Intn(3); r.Chance(1, 3) && i+nb <= len(vals) {
				h.Push(vals[i : i+nb]...)
				ref = append(ref, vals[i:i+nb]...)
				i += nb - 1
			} else {
				h.Push(v)
				ref = append(ref, v)
			}
			if r.Chance(1, 5) {
				if x, ok := h.Pop(); ok {
					for i, y := range ref {
						if y == x {
							ref = append(ref[:i], ref[i+1:]...)
							break
						}
					}
				}
			}
		}
		vs := h.Values()
		var each func(func(int, int))
		each = func(f func(int, int)) {
			it := h.Iterator()
			for it.Next() {
				f(it.Index(), it.Value())
			}
		}
		out = append(out, &subject{label: "binaryheap", kindCoq: "KHeap " + ints(vs), reported: idxPairs(vs), bidir: true,
			mk: func() interface{} { it := h.Iterator(); return &it }, enum: &enumer{each: each, ref: append([]int{}, ref...)}})
	}
	{
		q := priorityqueue.NewWith[int](bcomparator.IntComparator())
		var ref []int
		for _, v := range vals {
			q.Enqueue(v)
			ref = append(ref, v)
		}
		vs := q.Values()
		each := func(f func(int, int)) {
			it := q.Iterator()
			for it.Next() {
				f(it.Index(), it.Value())
			}
		}
		out = append(out, &subject{label: "priorityqueue", kindCoq: "KHeap " + ints(vs), reported: idxPairs(vs), bidir: true,
			mk: func() interface{} { it := q.Iterator(); return &it }, enum: &enumer{each: each, ref: append([]int{}, ref...)}})
	}
	// --- trees: keys >= 1 ---
	keys := make([]int, size)
	for i := range keys {
		keys[i] = 1 + r.Intn(2*size+1)
	}
	{
		t := redblacktree.NewWithIntComparator[int]()
		for _, k := range keys {
			t.Put(k, k*10+r.Intn(3))
		}
		for i := 0; i < size/3; i++ {
			t.Remove(keys[r.Intn(len(keys))])
		}
		var rep []pairKV
		ks, vs := t.Keys(), t.Values()
		for i := range ks {
			rep = append(rep, pairKV{ks[i], vs[i]})
		}
		out = append(out, &subject{label: "redblacktree", kindCoq: "KTree " + rbShape(t.Root), reported: rep, bidir: true,
			mk: func() interface{} { it := t.Iterator(); return &it }})
	}
	{
		t := avltree.NewWithIntComparator[int]()
		for _, k := range keys {
			t.Put(k, k*10+r.Intn(3))
		}
		for i := 0; i < size/3; i++ {
			t.Remove(keys[r.Intn(len(keys))])
		}
		var rep []pairKV
		ks, vs := t.Keys(), t.Values()
		for i := range ks {
			rep = append(rep, pairKV{ks[i], vs[i]})
		}
		out = append(out, &subject{label: "avltree", kindCoq: "KTree " + avlShape(t.Root), reported: rep, bidir: true,
			mk: func() interface{} { return t.Iterator() }})
	}
	{
		order := 3 + r.Intn(4)
		t := btree.NewWithIntComparator[int](order)
		for _, k := range keys {
			t.Put(k, k*10+r.Intn(3))
		}
		for i := 0; i < size/3; i++ {
			t.Remove(keys[r.Intn(len(keys))])
		}
		var rep []pairKV
		ks, vs := t.Keys(), t.Values()
		for i := range ks {
			rep = append(rep, pairKV{ks[i], vs[i]})
		}
		out = append(out, &subject{label: "btree", kindCoq: "KBTree " + btShape(t.Root), reported: rep, bidir: true,
			mk: func() interface{} { it := t.Iterator(); return &it }})
	}
	{
		m := treemap.NewWithIntComparator[int]()
		for _, k := range keys {
			m.Put(k, k*10+r.Intn(3))
		}
		for i := 0; i < size/3; i++ {
			m.Remove(keys[r.Intn(len(keys))])
		}
		var rep []pairKV
		ks, vs := m.Keys(), m.Values()
		for i := range ks {
			rep = append(rep, pairKV{ks[i], vs[i]})
		}
		selp := func(f func(int, int) bool) []pairKV {
			n := m.Select(f)
			var ps []pairKV
			k2, v2 := n.Keys(), n.Values()
			for i := range k2 {
				ps = append(ps, pairKV{k2[i], v2[i]})
			}
			return ps
		}
		out = append(out, &subject{label: "treemap", kindCoq: "KTree " + spine(rep), reported: rep, bidir: true,
			mk:   func() interface{} { it := m.Iterator(); return &it },
			enum: &enumer{each: m.Each, any: m.Any, all: m.All, find: m.Find, sel: selp, keyed: true}})
	}
	{
		m := treebidimap.NewWithIntComparators()
		for _, k := range keys {
			m.Put(k, k*10+r.Intn(3))
		}
		for i := 0; i < size/3; i++ {
			m.Remove(keys[r.Intn(len(keys))])
		}
		var rep []pairKV
		for _, k := range m.Keys() {
			v, _ := m.Get(k)
			rep = append(rep, pairKV{k, v})
		}
		selp := func(f func(int, int) bool) []pairKV {
			n := m.Select(f)
			var ps []pairKV
			for _, k := range n.Keys() {
				v, _ := n.Get(k)
				ps = append(ps, pairKV{k, v})
			}
			return ps
		}
		out = append(out, &subject{label: "treebidimap", kindCoq: "KTree " + spine(rep), reported: rep, bidir: true,
			mk:   func() interface{} { it := m.Iterator(); return &it },
			enum: &enumer{each: m.Each, any: m.Any, all: m.All, find: m.Find, sel: selp, keyed: true}})
	}
	{
		s := treeset.NewWithIntComparator()
		for _, k := range keys {
			s.Add(k)
		}
		for i := 0; i < size/3; i++ {
			s.Remove(keys[r.Intn(len(keys))])
		}
		vs := s.Values()
		var sp []pairKV
		for _, v := range vs {
			sp = append(sp, pairKV{v, 0})
		}
		out = append(out, &subject{label: "treeset", kindCoq: "KTreeSet " + spine(sp), reported: idxPairs(vs), bidir: true,
			mk: func() interface{} { it := s.Iterator(); return &it },
			enum: &enumer{each: s.Each, any: s.Any, all: s.All, find: s.Find,
				sel: func(f func(int, int) bool) []pairKV { return idxPairs(s.Select(f).Values()) }}})
	}
	// --- linked hash containers ---
	{
		m := linkedhashmap.New[int, int]()
		for _, k := range keys {
			m.Put(k, k*10+r.Intn(3))
			if r.Chance(1, 5) {
				m.Remove(keys[r.Intn(len(keys))])
			}
		}
		var rep []pairKV
		ks, vs := m.Keys(), m.Values()
		for i := range ks {
			rep = append(rep, pairKV{ks[i], vs[i]})
		}
		selp := func(f func(int, int) bool) []pairKV {
			n := m.Select(f)
			var ps []pairKV
			k2, v2 := n.Keys(), n.Values()
			for i := range k2 {
				ps = append(ps, pairKV{k2[i], v2[i]})
			}
			return ps
		}
		out = append(out, &subject{label: "linkedhashmap", kindCoq: "KLinkedKV " + ints(ks) + " " + ints(vs), reported: rep, bidir: true,
			mk:   func() interface{} { it := m.Iterator(); return &it },
			enum: &enumer{each: m.Each, any: m.Any, all: m.All, find: m.Find, sel: selp, keyed: true}})
	}
	{
		s := linkedhashset.New[int]()
		for _, k := range keys {
			s.Add(k)
			if r.Chance(1, 5) {
				s.Remove(keys[r.Intn(len(keys))])
			}
		}
		vs := s.Values()
		out = append(out, &subject{label: "linkedhashset", kindCoq: "KLinked true " + ints(vs), reported: idxPairs(vs), bidir: true,
			mk: func() interface{} { it := s.Iterator(); return &it },
			enum: &enumer{each: s.Each, any: s.Any, all: s.All, find: s.Find,
				sel: func(f func(int, int) bool) []pairKV { return idxPairs(s.Select(f).Values()) }}})
	}
	return out
}

func allWords(names []string, n int) [][]cmd {
	if n == 0 {
		return [][]cmd{{}}
	}
	var out [][]cmd
	for _, w := range allWords(names, n-1) {
		for _, nm := range names {
			nw := append(append([]cmd{}, w...), cmd{name: nm})
			out = append(out, nw)
		}
	}
	return out
}

func main() {
	o := vhlib.ParseOpts()
	rng := vhlib.NewRng(o.Seed)
	w := vhlib.NewWriter(o.Out, "From VF Require Import C14.Spec C14.Model C14.Check.\nLocal Open Scope Z_scope.", "case", "mismatches", 250)
	emit := func(s *subject, word []cmd, withEnum bool) {
		var obs, steps []string
		if !vhlib.WithTimeout(20*time.Second, func() { obs, steps = runWord(s, word) }) {
			cs := make([]string, len(word))
			for i, c := range word {
				cs[i] = c.coq()
			}
			w.Violation(s.label, s.label+".hang", map[string]interface{}{"what": "iterator command word did not terminate within 20 s",
				"reported": fmt.Sprint(s.reported), "commands": strings.Join(cs, " ")})
			w.Close(o, "aborted: a command word did not terminate")
			os.Exit(0)
		}
		word = word[:len(obs)]
		var enumTerms []string
		if withEnum {
			var es []string
			enumTerms, es = runEnum(s, rng, 12)
			steps = append(steps, es...)
		}
		cs := make([]string, len(word))
		for i, c := range word {
			cs[i] = c.coq()
		}
		term := fmt.Sprintf("{| c_kind := %s; c_reported := %s; c_cmds := %s; c_obs := %s; c_enum := %s |}",
			s.kindCoq, pairs(s.reported), vhlib.List(cs), vhlib.List(obs), vhlib.List(enumTerms))
		steps = append(steps, s.label+".shape")
		w.Case(term, s.label, len(s.reported) >= 2 && len(word) >= 3, steps,
			map[string]interface{}{"container": s.label, "reported": fmt.Sprint(s.reported), "commands": strings.Join(cs, " ")})
	}
	rounds := 45
	if o.Thorough() {
		rounds = 150
	}
	// bounded-exhaustive: every command word of length <= L over the basic commands, sizes 0..3
	L := 3
	if o.Thorough() {
		L = 4
	}
	for size := 0; size <= 3; size++ {
		for _, s := range safeSubjects(w, rng, size, 3) {
			names := basicF
			if s.bidir {
				names = basicB
			}
			// one case carries several words back to back separated by Begin (keeps Coq start-up cost down)
			var batch []cmd
			for _, wd := range allWords(names, L) {
				batch = append(batch, wd...)
				batch = append(batch, cmd{name: "Begin"})
				if len(batch) > 120 {
					emit(s, batch, false)
					batch = nil
				}
			}
			if len(batch) > 0 {
				emit(s, batch, true)
			}
		}
	}
	// random: sizes 0..12 (and a few larger), long words, predicates
	for i := 0; i < rounds; i++ {
		size := rng.Intn(13)
		if rng.Chance(1, 8) {
			size = 20 + rng.Intn(40)
		}
		hi := 3 + rng.Intn(9)
		for _, s := range safeSubjects(w, rng, size, hi) {
			emit(s, randWord(rng, s.bidir, 10+rng.Intn(30), 2*size+12), true)
		}
	}
	// tall B-trees (height 3..6), full sweeps in both directions + key-directed jumps
	deep := 30
	if o.Thorough() {
		deep = 150
	}
	heights := deepBTrees(w, rng, deep, emit)
	_ = sort.Ints
	w.Close(o, fmt.Sprintf("B-tree heights of the tall-tree stream (height:count) %v; ", heights)+"one case = one container content (built by a random operation sequence; tree/B-tree shape dumped through exported fields) + a cursor command word executed on a fresh iterator + enumerable calls; bounded-exhaustive words over the basic commands for sizes 0..3, random words with NextTo/PrevTo predicates for sizes 0..12 and 20..59; B-trees of order 3..5 with 25..160 keys (ascending/descending/shuffled insertion, 0 / 10% / 33% removals) walked by a full forward and a full backward sweep plus key-directed jumps; non-trivial = at least 2 elements and 3 commands; distinct = distinct case terms")
}
