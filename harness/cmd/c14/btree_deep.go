package main

// Tall B-trees for the iterator check: orders 3..5 with enough keys to reach height 3..6 (the generic
// subject stream rarely exceeds height 2), built ascending / descending / shuffled, thinned by removals,
// and walked by full forward and backward sweeps (every descent into a child and every climb through
// several parents happens) followed by a random word with key-directed jumps.

import (
	"fmt"
	"time"

	"github.com/songzhibin97/go-baseutils/structure/trees/btree"

	"vh/vhlib"
)

func btHeight(n *btree.Node[int, int]) int {
	h := 0
	for n != nil {
		h++
		if len(n.Children) == 0 {
			break
		}
		n = n.Children[0]
	}
	return h
}

func deepBTree(r *vhlib.Rng, order, n, profile int) *subject {
	t := btree.NewWithIntComparator[int](order)
	keys := make([]int, n)
	for i := range keys {
		keys[i] = 1 + 2*i
	}
	switch profile % 3 {
	case 1:
		for i, j := 0, n-1; i < j; i, j = i+1, j-1 {
			keys[i], keys[j] = keys[j], keys[i]
		}
	case 2:
		p := r.Perm(n)
		ks := make([]int, n)
		for i, j := range p {
			ks[i] = keys[j]
		}
		keys = ks
	}
	for _, k := range keys {
		t.Put(k, k*10+r.Intn(3))
	}
	// removals: none / a tenth / a third (merges and rotations leave differently filled nodes)
	rm := []int{0, n / 10, n / 3}[(profile/3)%3]
	for i := 0; i < rm; i++ {
		t.Remove(keys[r.Intn(n)])
	}
	var rep []pairKV
	ks, vs := t.Keys(), t.Values()
	for i := range ks {
		rep = append(rep, pairKV{ks[i], vs[i]})
	}
	return &subject{label: "btree", kindCoq: "KBTree " + btShape(t.Root), reported: rep, bidir: true, height: btHeight(t.Root),
		mk: func() interface{} { it := t.Iterator(); return &it }}
}

func deepWord(r *vhlib.Rng, n int) []cmd {
	var w []cmd
	w = append(w, cmd{name: "First"})
	for i := 0; i <= n; i++ {
		w = append(w, cmd{name: "Next"})
	}
	w = append(w, cmd{name: "Prev"}, cmd{name: "Last"})
	for i := 0; i <= n; i++ {
		w = append(w, cmd{name: "Prev"})
	}
	w = append(w, cmd{name: "Next"})
	// key-directed jumps, each followed by a short walk in both directions
	for j := 0; j < 6; j++ {
		k := r.Intn(2*n + 3)
		if r.Bool() {
			w = append(w, cmd{name: "Begin"}, cmd{name: "NextTo", p: pred{"PKeyGe", k}})
		} else {
			w = append(w, cmd{name: "End"}, cmd{name: "PrevTo", p: pred{"PKeyEq", k | 1}})
		}
		for i := r.Intn(4); i > 0; i-- {
			w = append(w, cmd{name: "Prev"})
		}
		for i := r.Intn(6); i > 0; i-- {
			w = append(w, cmd{name: "Next"})
		}
	}
	return append(w, randWord(r, true, 10, 2*n+3)...)
}

// deepBTrees emits count cases and returns the histogram of tree heights (for the rule text in meta.json)
func deepBTrees(w *vhlib.Writer, r *vhlib.Rng, count int, emit func(*subject, []cmd, bool)) map[int]int {
	hist := map[int]int{}
	for i := 0; i < count; i++ {
		order := 3 + i%3
		n := 25 + r.Intn(60)
		if order == 3 && i%2 == 0 {
			n = 90 + r.Intn(70)
		}
		var s *subject
		var val interface{}
		p := false
		// Keys()/Values() iterate: a broken iterator can panic or loop while the content is read back
		if !vhlib.WithTimeout(20*time.Second, func() {
			p, val = vhlib.Recover(func() { s = deepBTree(r, order, n, i) })
		}) {
			w.Violation("btree", "btree.hang", "building or reading back (Keys/Values iterate) a B-tree did not terminate within 20 s")
			return hist
		}
		if p || s == nil {
			w.Violation("btree", "panic while building or reading back a B-tree (Keys/Values iterate)", fmt.Sprint(val))
			continue
		}
		hist[s.height]++
		emit(s, deepWord(r, len(s.reported)), false)
	}
	return hist
}
