// Package vhlib: shared plumbing of the verification harness (PRNG, Coq term printers,
// sharded case files, meta.json). Unverified glue; see DESIGN.md §7.
package vhlib

import (
	"crypto/sha256"
	"encoding/json"
	"flag"
	"fmt"
	"os"
	"path/filepath"
	"sort"
	"strconv"
	"strings"
	"time"
)

// ---------- PRNG (SplitMix64): every random choice derives from VERIF_SEED ----------

type Rng struct{ s uint64 }

// NewRng: the seed is passed through the SplitMix64 finaliser first, so that the streams of neighbouring seeds are
// unrelated (a plain multiple of the increment would make them shifted copies of one another).
func NewRng(seed uint64) *Rng {
	z := seed + 0x632BE59BD9B4E019
	z = (z ^ (z >> 30)) * 0xBF58476D1CE4E5B9
	z = (z ^ (z >> 27)) * 0x94D049BB133111EB
	return &Rng{s: z ^ (z >> 31)}
}
func (r *Rng) U64() uint64 {
	r.s += 0x9E3779B97F4A7C15
	z := r.s
	z = (z ^ (z >> 30)) * 0xBF58476D1CE4E5B9
	z = (z ^ (z >> 27)) * 0x94D049BB133111EB
	return z ^ (z >> 31)
}
func (r *Rng) Intn(n int) int {
	if n <= 0 {
		return 0
	}
	return int(r.U64() % uint64(n))
}
func (r *Rng) Range(lo, hi int) int     { return lo + r.Intn(hi-lo+1) } // inclusive
func (r *Rng) Bool() bool               { return r.U64()&1 == 1 }
func (r *Rng) Chance(num, den int) bool { return r.Intn(den) < num }
func (r *Rng) Fork() *Rng               { return NewRng(r.U64()) }
func (r *Rng) Perm(n int) []int {
	p := make([]int, n)
	for i := range p {
		p[i] = i
	}
	for i := n - 1; i > 0; i-- {
		j := r.Intn(i + 1)
		p[i], p[j] = p[j], p[i]
	}
	return p
}

// ---------- Coq term printers ----------

func Z(v int64) string {
	if v < 0 {
		return "(" + strconv.FormatInt(v, 10) + ")"
	}
	return strconv.FormatInt(v, 10)
}
func ZU(v uint64) string { return strconv.FormatUint(v, 10) }
func Nat(v int) string {
	if v < 0 {
		panic("negative nat")
	}
	if v > 5000 {
		return fmt.Sprintf("(Z.to_nat %d)", v)
	}
	return strconv.Itoa(v) + "%nat"
}
func Bool(b bool) string {
	if b {
		return "true"
	}
	return "false"
}
func List(items []string) string { return "[" + strings.Join(items, "; ") + "]" }
func ZList(vs []int64) string {
	it := make([]string, len(vs))
	for i, v := range vs {
		it[i] = Z(v)
	}
	return List(it)
}
func IntList(vs []int) string {
	it := make([]string, len(vs))
	for i, v := range vs {
		it[i] = Z(int64(v))
	}
	return List(it)
}
func NatList(vs []int) string {
	it := make([]string, len(vs))
	for i, v := range vs {
		it[i] = Nat(v)
	}
	return List(it)
}
func Opt(ok bool, v string) string {
	if ok {
		return "(Some " + v + ")"
	}
	return "None"
}
func Pair(a, b string) string { return "(" + a + ", " + b + ")" }

// Str renders a Go string as a list of byte values (models never use Coq strings).
func Bytes(b []byte) string {
	it := make([]string, len(b))
	for i, v := range b {
		it[i] = strconv.Itoa(int(v))
	}
	return List(it)
}

// ---------- command line ----------

type Opts struct {
	Seed   uint64
	Tier   string
	Out    string
	Replay string
	Extra  string
}

func ParseOpts() Opts {
	var o Opts
	flag.Uint64Var(&o.Seed, "seed", 1, "seed")
	flag.StringVar(&o.Tier, "tier", "quick", "quick|thorough")
	flag.StringVar(&o.Out, "out", "", "output directory")
	flag.StringVar(&o.Replay, "replay", "", "replay file")
	flag.StringVar(&o.Extra, "extra", "", "extra options")
	flag.Parse()
	if o.Out == "" {
		fmt.Fprintln(os.Stderr, "missing -out")
		os.Exit(2)
	}
	os.MkdirAll(o.Out, 0o755)
	return o
}
func (o Opts) Thorough() bool { return o.Tier == "thorough" }

// ---------- sharded case files ----------

type CaseMeta struct {
	Shard  int         `json:"shard"`
	Idx    int         `json:"idx"`
	Label  string      `json:"label"`
	Steps  []string    `json:"steps,omitempty"` // per-step labels (for stateful cases)
	Replay interface{} `json:"replay"`          // whatever is needed to re-run the case on the implementation
}

type Writer struct {
	dir, header, caseType, fn string
	shardSize                 int
	cur                       []string
	shard                     int
	Meta                      []CaseMeta
	Dist                      map[string]int
	hashes                    map[[32]byte]bool
	Nontrivial                int
	Evaluations               int
	Samples                   []interface{}
	Notes                     map[string]interface{}
	maxMeta                   int
}

// NewWriter: header = Coq imports; caseType = Coq type of one case; fn = the Coq function
// list case -> list (nat*nat) reporting (index, code) of the non-zero cases.
func NewWriter(dir, header, caseType, fn string, shardSize int) *Writer {
	old, _ := filepath.Glob(filepath.Join(dir, "cases_*.v"))
	for _, f := range old {
		os.Remove(f)
	}
	return &Writer{dir: dir, header: header, caseType: caseType, fn: fn, shardSize: shardSize,
		Dist: map[string]int{}, hashes: map[[32]byte]bool{}, Notes: map[string]interface{}{}, maxMeta: 200000}
}

// Case adds one case. nontrivial: whether it counts towards distinct_nontrivial by the
// property's stated rule. replay: JSON-able description to re-run it.
func (w *Writer) Case(term, label string, nontrivial bool, steps []string, replay interface{}) {
	w.Evaluations++
	w.Dist[label]++
	h := sha256.Sum256([]byte(term))
	if !w.hashes[h] {
		w.hashes[h] = true
		if nontrivial {
			w.Nontrivial++
		}
	}
	w.Meta = append(w.Meta, CaseMeta{Shard: w.shard, Idx: len(w.cur), Label: label, Steps: steps, Replay: replay})
	if len(w.Samples) < 3 || (len(w.Samples) < 6 && w.Dist[label] == 1) {
		w.Samples = append(w.Samples, map[string]interface{}{"label": label, "coq_case": clip(term, 600), "replay": replay})
	}
	w.cur = append(w.cur, term)
	if len(w.cur) >= w.shardSize {
		w.flush()
	}
}

func clip(s string, n int) string {
	if len(s) > n {
		return s[:n] + "…"
	}
	return s
}

func (w *Writer) flush() {
	if len(w.cur) == 0 {
		return
	}
	var b strings.Builder
	b.WriteString(w.header)
	b.WriteString("\nDefinition cases : list (" + w.caseType + ") := [\n")
	b.WriteString(strings.Join(w.cur, ";\n"))
	b.WriteString("\n].\nDefinition M := Eval vm_compute in (" + w.fn + " cases).\nPrint M.\n")
	name := filepath.Join(w.dir, fmt.Sprintf("cases_%03d.v", w.shard))
	if err := os.WriteFile(name, []byte(b.String()), 0o644); err != nil {
		panic(err)
	}
	w.shard++
	w.cur = nil
}

func (w *Writer) Close(o Opts, rule string) {
	w.flush()
	keys := make([]string, 0, len(w.Dist))
	for k := range w.Dist {
		keys = append(keys, k)
	}
	sort.Strings(keys)
	m := map[string]interface{}{
		"seed": o.Seed, "tier": o.Tier, "shards": w.shard, "evaluations": w.Evaluations,
		"distinct_nontrivial": w.Nontrivial, "distinct": len(w.hashes), "rule": rule,
		"distribution": w.Dist, "samples": w.Samples, "notes": w.Notes, "cases": w.Meta,
	}
	f, err := os.Create(filepath.Join(w.dir, "meta.json"))
	if err != nil {
		panic(err)
	}
	enc := json.NewEncoder(f)
	if err := enc.Encode(m); err != nil {
		panic(err)
	}
	f.Close()
}

// Violation records a property violation that is decided outside Coq (race detector report, deadlock
// watchdog, goroutine leak, out-of-bounds guard page ...). label/what form the known-finding signature.
func (w *Writer) Violation(label, what string, detail interface{}) {
	dv, _ := w.Notes["direct_violations"].([]interface{})
	if len(dv) < 50 {
		dv = append(dv, map[string]interface{}{"label": label, "what": what, "detail": detail})
	}
	w.Notes["direct_violations"] = dv
}

// WithTimeout runs f in a goroutine and reports whether it finished within d. A call that does not
// return (an iterator loop that never terminates, a deadlock) cannot be killed: the caller should record
// a Violation, Close the writer and exit the process.
func WithTimeout(d time.Duration, f func()) bool {
	done := make(chan struct{})
	go func() { defer close(done); f() }()
	select {
	case <-done:
		return true
	case <-time.After(d):
		return false
	}
}

// Recover runs f and reports whether it panicked (and with what).
func Recover(f func()) (panicked bool, val interface{}) {
	defer func() {
		if r := recover(); r != nil {
			panicked = true
			val = r
		}
	}()
	f()
	return
}
