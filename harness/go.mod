module vh

go 1.18

require github.com/songzhibin97/go-baseutils v0.0.0

replace github.com/songzhibin97/go-baseutils => /repo
