package bcachetrace

// Sweeper-vs-store race rounds for C12: keys whose entries have JUST expired are refreshed by writer goroutines
// (Set / SetNoExpire / SetDefault / SetIfAbsent / Replace with a long, wrapping or no TTL, unique values) while the
// sweeper runs: flavour "loop": 1-2 goroutines calling VerifSweep (= deleteExpire) in a loop; flavour "ticker": the
// cache's own sentinel with a 1 ms interval. Optionally a getter reads the keys meanwhile. The sweeper may remove
// only the OLD expired entry; nothing stored in the round is due. After the join every key is read: the same
// rule as for the get-vs-store rounds applies (Check.CRace; RaceProofs.race_complete covers sweeps among the
// round's steps).

import (
	"fmt"
	"runtime"
	"sort"
	"strings"
	"sync"
	"sync/atomic"
	"time"

	"github.com/songzhibin97/go-baseutils/app/bcache"
	"github.com/songzhibin97/go-baseutils/base/bcomparator"

	"vh/vhlib"
)

type sweepRaceRes struct {
	t0     int64
	def    time.Duration
	label  string
	rounds []raceRound
	sweeps int64
}

// one cache, several passes over its keys
func runSweepRace(r *vhlib.Rng, ticker bool, passes, nk int, base int) sweepRaceRes {
	def := raceDefaults[r.Intn(len(raceDefaults))]
	var c *bcache.BCache[int, int]
	noop := bcache.SetCapture[int, int](func(int, int) {})
	res := sweepRaceRes{def: def, label: "race sweeper vs store (VerifSweep loop)"}
	if ticker {
		res.label = "race sweeper vs store (1ms ticker)"
		c = bcache.New[int, int](bcomparator.IntComparator(), bcache.SetDefaultExpire[int, int](def), bcache.SetInternal[int, int](ms), noop)
	} else {
		c = bcache.New[int, int](bcomparator.IntComparator(), bcache.SetDefaultExpire[int, int](def), noop)
	}
	res.t0 = time.Now().UnixNano()
	val := 0
	for pass := 0; pass < passes; pass++ {
		// short-lived entries under every key; the round starts once all of them are past their deadline
		short := time.Duration(150+r.Intn(400)) * time.Microsecond
		for k := 0; k < nk; k++ {
			c.Set(k, -(pass*nk + k + 1), short)
		}
		mem, _ := c.VerifDump()
		var latest int64
		for k := 0; k < nk; k++ {
			if e, ok := mem[k]; ok && e.Expire > latest {
				latest = e.Expire
			}
		}
		for time.Now().UnixNano() <= latest {
		}
		nSweep := 0
		if !ticker {
			nSweep = 1 + r.Intn(2)
		}
		withGetter := r.Intn(3) == 0
		type wk struct {
			k     int
			p     wplan
			delay time.Duration
		}
		var ws []wk
		for k := 0; k < nk; k++ {
			for i := 1 + r.Intn(2); i > 0; i-- {
				val++
				w := wk{k: k, p: planWriter(r, base+val)}
				if ticker { // sit expired for a random part of a tick before refreshing
					w.delay = time.Duration(r.Intn(1200)) * time.Microsecond
				} else if r.Intn(3) == 0 {
					w.delay = time.Duration(r.Intn(20)) * time.Microsecond
				}
				ws = append(ws, w)
			}
		}
		stores := make([]raceStore, len(ws))
		var gate, writersLeft int32
		writersLeft = int32(len(ws))
		var ready, wg sync.WaitGroup
		n := len(ws) + nSweep
		if withGetter {
			n++
		}
		ready.Add(n)
		wg.Add(n)
		var nsweeps int64
		for s := 0; s < nSweep; s++ {
			go func() {
				defer raceGuard(&wg, nil)
				ready.Done()
				for atomic.LoadInt32(&gate) == 0 {
				}
				for atomic.LoadInt32(&writersLeft) > 0 {
					c.VerifSweep()
					atomic.AddInt64(&nsweeps, 1)
				}
				c.VerifSweep()
			}()
		}
		gobs := map[int][]raceObs{}
		gcnt := 0
		if withGetter {
			go func() {
				defer raceGuard(&wg, nil)
				ready.Done()
				for atomic.LoadInt32(&gate) == 0 {
				}
				for it := 0; it < 40; it++ {
					for k := 0; k < nk; k++ {
						v, tt, ok := c.GetWithExpire(k)
						gcnt++
						o := raceObs{hit: ok, v: v}
						if ok && !tt.IsZero() {
							o.d = tt.UnixNano()
						}
						l := gobs[k]
						if len(l) < 2 || (len(l) < 8 && l[len(l)-1] != o) {
							gobs[k] = append(l, o)
						}
					}
					if atomic.LoadInt32(&writersLeft) == 0 && it >= 1 {
						break
					}
				}
			}()
		}
		for i := range ws {
			go func(i int) {
				defer raceGuard(&wg, &writersLeft)
				w := ws[i]
				ready.Done()
				for atomic.LoadInt32(&gate) == 0 {
				}
				if w.delay > 0 {
					until := time.Now().Add(w.delay)
					for time.Now().Before(until) {
					}
				}
				for y := 0; y < w.p.yield; y++ {
					runtime.Gosched()
				}
				stores[i] = raceStoreCall(c, def, w.k, w.p)
			}(i)
		}
		ready.Wait()
		atomic.StoreInt32(&gate, 1)
		wg.Wait()
		res.sweeps += nsweeps
		if ticker { // let at least one more tick run over the refreshed keys
			time.Sleep(time.Duration(1200+r.Intn(1500)) * time.Microsecond)
		}
		for k := 0; k < nk; k++ {
			rd := raceRound{key: k}
			for i, w := range ws {
				if w.k == k {
					rd.stores = append(rd.stores, stores[i])
				}
			}
			rd.gets = gobs[k]
			rd.ngets = gcnt / nk
			v, tt, ok := c.GetWithExpire(k)
			rd.final = raceObs{hit: ok, v: v}
			if ok && !tt.IsZero() {
				rd.final.d = tt.UnixNano()
			}
			res.rounds = append(res.rounds, rd)
		}
	}
	return res
}

func emitRaceRound(w *vhlib.Writer, label string, def time.Duration, t0 int64, rd raceRound, before string) {
	stores := make([]string, len(rd.stores))
	kinds := map[string]bool{}
	var desc []string
	for i, s := range rd.stores {
		stores[i] = fmt.Sprintf("{| r_op := %s; r_a := %s; r_b := %s; r_ok := %s |}", s.op, vhlib.Z(s.a-t0), vhlib.Z(s.b-s.a), vhlib.Bool(s.ok))
		kinds[s.kind] = true
		desc = append(desc, fmt.Sprintf("%s @[%d,%d]", s.desc, s.a-t0, s.b-t0))
	}
	var ks []string
	for k := range kinds {
		ks = append(ks, k)
	}
	sort.Strings(ks)
	gs := make([]string, len(rd.gets))
	var gdesc []string
	for i, o := range rd.gets {
		gs[i] = obsCoq(o, t0)
		gdesc = append(gdesc, fmt.Sprintf("%v", o))
	}
	term := fmt.Sprintf("CRace %s %d %s %s %s", vhlib.Z(int64(def)), t0, vhlib.List(stores), vhlib.List(gs), obsCoq(rd.final, t0))
	w.Case(term, label, true,
		[]string{"epilogue Get after " + strings.Join(ks, "+"), "racing Get"},
		map[string]interface{}{"default_expire": def.String(), "key": rd.key, "before": before,
			"concurrent_stores": desc, "concurrent_GetWithExpire_calls": rd.ngets, "recorded_racing_gets{hit v d}": gdesc,
			"epilogue_GetWithExpire{hit v d}": fmt.Sprintf("%v", rd.final)})
}

// emitSweepRaces: nLoop caches driven by VerifSweep loops, nTick caches with the real 1 ms ticker
func emitSweepRaces(w *vhlib.Writer, rng *vhlib.Rng, nLoop, nTick int, budget time.Duration) {
	start := time.Now()
	rounds, missEpilogue := 0, 0
	var sweeps int64
	run := func(ticker bool, idx int) {
		passes, nk := 12, 2+rng.Intn(5)
		if ticker {
			passes, nk = 6, 8
		}
		var res sweepRaceRes
		if p, v := vhlib.Recover(func() { res = runSweepRace(rng.Fork(), ticker, passes, nk, 5000000+idx*10000) }); p {
			w.Violation("race sweeper vs store", "panic", fmt.Sprintf("%v", v))
			return
		}
		reportRacePanics(w, res.label)
		sweeps += res.sweeps
		for _, rd := range res.rounds {
			rounds++
			if !rd.final.hit {
				missEpilogue++
			}
			emitRaceRound(w, res.label, res.def, res.t0, rd, "Set(k, old, 150-550us) on every key of the pass, all past their deadline; sweeper running")
		}
	}
	done := [2]int{}
	for i := 0; i < nLoop && time.Since(start) < budget; i++ {
		run(false, i)
		done[0]++
	}
	for i := 0; i < nTick && time.Since(start) < budget*3/2; i++ {
		run(true, nLoop+i)
		done[1]++
	}
	w.Notes["sweeprace_caches_run(loop,ticker)_of_planned"] = fmt.Sprintf("%d/%d, %d/%d", done[0], nLoop, done[1], nTick)
	w.Notes["sweeprace_rounds(key x pass)"] = rounds
	w.Notes["sweeprace_VerifSweep_calls"] = sweeps
	w.Notes["sweeprace_rounds_whose_epilogue_missed(no store took effect)"] = missEpilogue
	w.Notes["sweeprace_seconds"] = fmt.Sprintf("%.1f", time.Since(start).Seconds())
}
