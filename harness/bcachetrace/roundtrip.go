package bcachetrace

// C15 run for app/bcache: Export (= Marshal) of a cache built by a random operation sequence, json.Valid, Load
// (= Unmarshal) into a FRESH cache, then further operations on the restored cache. Both halves are ordinary
// bcache traces (C12.Check.case): the source trace ends with Export, the restored trace starts with an OLoad
// step carrying the exported data (parsed from the real bytes). C12.Check judges them:
//   kind 2: the restored cache does not hold exactly the exported entries that were not expired at the load
//           (values, deadlines), or disobeys C12 under the further operations (expiry, sweeps, Count, ...);
//   kind 1: only the internal shape differs (member map / deadline index dump vs the model after each step).
// Plus real-ticker round trips (restored cache built with a 10 ms sentinel) as CTicker cases.

import (
	"encoding/json"
	"fmt"
	"strings"
	"sync"
	"time"

	"github.com/songzhibin97/go-baseutils/app/bcache"
	"github.com/songzhibin97/go-baseutils/base/bcomparator"

	"vh/vhlib"
)

// Set SetD SetNE SIA Repl Del Get GetWE Cnt Clr Swp Exp Rst Load
var wSource = []int{16, 6, 6, 8, 8, 5, 2, 4, 2, 1, 2, 0, 0, 0}
var wAfter = []int{10, 3, 3, 6, 8, 5, 5, 14, 8, 1, 8, 3, 0, 1}

func newCfg(r *vhlib.Rng) plan {
	pl := plan{def: defAlphabet[r.Intn(len(defAlphabet))], capture: r.Intn(3)}
	if pl.def == 0 && r.Bool() {
		pl.noDefOpt = true
	}
	return pl
}

// source cache: stores of every kind and TTL kind, a few deletes / looks, then Export
func makeSourcePlan(r *vhlib.Rng) plan {
	g := &gen{r: r}
	pl := newCfg(r)
	pl.profile = "bcache roundtrip source"
	n := r.Range(3, 11)
	if r.Intn(4) == 0 {
		g.defaultOps()
	}
	for len(g.ops) < n {
		g.random(false, wSource)
	}
	g.add(kExport, 0, 0, pickPause(r, false))
	pl.ops = g.ops
	return pl
}

// restored cache: Load of the source's export into a fresh cache, looks right away, pauses / sweeps, further ops
func makeRestoredPlan(r *vhlib.Rng) plan {
	g := &gen{r: r, val: 1000}
	pl := newCfg(r)
	pl.profile = "bcache roundtrip restored"
	// some time may pass between Export and Load: entries that expire meanwhile must be skipped
	g.ops = append(g.ops, planOp{kind: kLoad, pause: pickPause(r, true)})
	look := func() {
		for k := 0; k < nKeys; k++ {
			if r.Intn(4) != 0 {
				g.add([]int{kGetWithExpire, kGetWithExpire, kGet}[r.Intn(3)], k, 0, 0)
			}
		}
		g.add(kCount, 0, 0, 0)
		if r.Bool() {
			g.add(kExport, 0, 0, 0)
		}
	}
	switch r.Intn(4) {
	case 0: // everything right away, then pause past the short deadlines, sweep, look again
		look()
		g.add(kSweep, 0, 0, []time.Duration{60 * ms, 150 * ms}[r.Intn(2)])
		look()
	case 1: // sweep first (nothing may disappear that is still live), look, pause, sweep, look
		g.add(kSweep, 0, 0, 0)
		look()
		g.add(kSweep, 0, 0, []time.Duration{25 * ms, 60 * ms, 150 * ms}[r.Intn(3)])
		g.add(kCount, 0, 0, 0)
		g.add(kExport, 0, 0, 0)
	case 2: // further writes over restored entries (timed over untimed and the reverse), then expiry
		for i := r.Range(1, 3); i > 0; i-- {
			g.add([]int{kSet, kSetNoExpire, kReplace, kSetIfAbsent, kDelete, kSetDefault}[r.Intn(6)], g.key(), pickTTL(r), 0)
		}
		look()
		g.add(kSweep, 0, 0, 150*ms)
		look()
	case 3: // pause past the deadlines without any look in between, then sweep and count
		g.add(kSweep, 0, 0, []time.Duration{60 * ms, 150 * ms}[r.Intn(2)])
		g.add(kCount, 0, 0, 0)
		g.add(kSetIfAbsent, g.key(), pickTTL(r), 0)
		look()
	}
	n := len(g.ops) + r.Range(2, 8)
	for len(g.ops) < n {
		g.random(false, wAfter)
	}
	var tot time.Duration
	for i := range g.ops {
		tot += g.ops[i].pause
		if tot > 700*ms {
			g.ops[i].pause = 0
		}
	}
	pl.ops = g.ops
	return pl
}

type rtRes struct {
	src, dst traceRes
	invalid  string // Export output that is not valid JSON
}

func runRoundTrip(src, dst plan) (res rtRes) {
	res.src = runTrace(src)
	if res.src.dropped != "" {
		return
	}
	blob := res.src.lastBlob
	if !json.Valid(blob) {
		res.invalid = string(blob)
		return
	}
	res.dst = runTraceFrom(dst, blob)
	return
}

// real ticker: the restored cache runs its own 10 ms sentinel
func runTickerRoundTrip(r *vhlib.Rng) tickerRes {
	const interval = 10 * ms
	noop := bcache.SetCapture[int, int](func(int, int) {})
	a := bcache.New[int, int](bcomparator.IntComparator(), noop)
	live := map[int]int{}
	n := r.Range(6, 14)
	short := 0
	var calls []string
	for k := 0; k < n; k++ {
		v := 2000 + k
		switch r.Intn(4) {
		case 0, 1:
			a.Set(k, v, 40*ms)
			short++
			calls = append(calls, fmt.Sprintf("Set(%d,%d,40ms)", k, v))
		case 2:
			a.SetNoExpire(k, v)
			live[k] = v
			calls = append(calls, fmt.Sprintf("SetNoExpire(%d,%d)", k, v))
		case 3:
			a.Set(k, v, 10*time.Second)
			live[k] = v
			calls = append(calls, fmt.Sprintf("Set(%d,%d,10s)", k, v))
		}
	}
	res := tickerRes{expected: len(live)}
	blob, err := a.Export()
	if err != nil || !json.Valid(blob) {
		res.observed, res.lost = 1<<20, len(live)
		res.detail = map[string]interface{}{"calls": calls, "export_error": fmt.Sprint(err), "blob": string(blob)}
		return res
	}
	if r.Bool() { // sometimes the short-lived entries are already expired when the blob is loaded
		time.Sleep(50 * ms)
	}
	def := defAlphabet[r.Intn(len(defAlphabet))]
	b := bcache.New[int, int](bcomparator.IntComparator(), bcache.SetDefaultExpire[int, int](def),
		bcache.SetInternal[int, int](interval), noop)
	if err := b.Load(blob); err != nil {
		res.observed, res.lost = 1<<20, len(live)
		res.detail = map[string]interface{}{"calls": calls, "load_error": err.Error()}
		return res
	}
	loaded := time.Now()
	for time.Since(loaded) < 45*ms {
		time.Sleep(5 * ms)
	}
	tk := time.NewTicker(interval)
	good, total := 0, 0
	prev := time.Now()
	for good < 10 && total < 200 {
		t := <-tk.C
		total++
		if t.Sub(prev) < 2*interval+5*ms {
			good++
		}
		prev = t
	}
	tk.Stop()
	res.observed = b.Count()
	for k, v := range live {
		if got, ok := b.Get(k); !ok || got != v {
			res.lost++
		}
	}
	res.detail = map[string]interface{}{"source_calls": calls, "then": "Export; Load into a fresh cache with a 10ms sentinel (default " + durStr(def) + ")",
		"short_lived": short, "expected_count": res.expected, "observed_count": res.observed, "live_entries_missing": res.lost, "reference_ticks": total}
	return res
}

func emitTrace(w *vhlib.Writer, pl plan, r traceRes, extra map[string]interface{}, stats *[4]int) {
	steps := make([]string, len(r.steps))
	labels := make([]string, len(r.steps))
	desc := make([]string, len(r.steps))
	timed, dec := false, true
	for j, s := range r.steps {
		steps[j] = s.coq(r.t0)
		labels[j] = s.label
		desc[j] = s.describe(r.t0)
		for _, e := range s.mem {
			if e.Expire != 0 {
				timed = true
			}
		}
		stats[0]++
		if s.window {
			stats[1]++
			dec = false
		}
	}
	if dec {
		stats[2]++
	}
	stats[3]++
	rep := map[string]interface{}{"profile": pl.profile, "default_expire": pl.def.String(),
		"config":      fmt.Sprintf("SetDefaultExpire option given: %v; capture kind %d", !pl.noDefOpt, pl.capture),
		"t0_unixnano": r.t0, "steps": desc}
	for k, v := range extra {
		rep[k] = v
	}
	term := fmt.Sprintf("CTrace %s %d %d %s", vhlib.Z(int64(pl.def)), gran, r.t0, vhlib.List(steps))
	w.Case(term, pl.profile, timed, labels, rep)
}

// MainC15 is the bcache run of the C15 check (cmd/c15bc).
func MainC15() {
	o := vhlib.ParseOpts()
	rng := vhlib.NewRng(o.Seed ^ 0xC15BC)
	w := vhlib.NewWriter(o.Out, "From VF Require Import Common.Base C12.Model C12.Check.\nLocal Open Scope Z_scope.", "case", "mismatches", 150)
	nTrips, nTick, par := 600, 24, 64
	if o.Thorough() {
		nTrips, nTick = 6000, 120
	}
	srcs := make([]plan, nTrips)
	dsts := make([]plan, nTrips)
	for i := range srcs {
		srcs[i] = makeSourcePlan(rng.Fork())
		dsts[i] = makeRestoredPlan(rng.Fork())
	}
	results := make([]rtRes, nTrips)
	var wg sync.WaitGroup
	next := make(chan int)
	for g := 0; g < par; g++ {
		wg.Add(1)
		go func() {
			defer wg.Done()
			for i := range next {
				results[i] = runRoundTrip(srcs[i], dsts[i])
			}
		}()
	}
	for i := range srcs {
		next <- i
	}
	close(next)
	wg.Wait()
	dropped := map[string]int{}
	var stats [4]int
	emptyExports, expiredBetween := 0, 0
	for i, r := range results {
		if r.invalid != "" {
			w.Violation("bcache roundtrip source", "Export output is not valid JSON", r.invalid)
			continue
		}
		bad := r.src.dropped
		if bad == "" {
			bad = r.dst.dropped
		}
		if bad != "" {
			if strings.HasPrefix(bad, "PANIC") {
				w.Violation("bcache roundtrip", "panic", bad)
				dropped["panic"]++
			} else {
				dropped[bad]++
			}
			continue
		}
		emitTrace(w, srcs[i], r.src, nil, &stats)
		exported, _ := parseBlob(r.src.lastBlob)
		if len(exported) == 0 {
			emptyExports++
		}
		if len(r.dst.steps) > 0 && len(r.dst.steps[0].mem) < len(exported) {
			expiredBetween++
		}
		emitTrace(w, dsts[i], r.dst, map[string]interface{}{"loaded_blob": string(r.src.lastBlob),
			"source_default_expire": srcs[i].def.String()}, &stats)
	}
	tres := make([]tickerRes, nTick)
	var wg2 sync.WaitGroup
	for i := 0; i < nTick; i++ {
		wg2.Add(1)
		tr := rng.Fork()
		go func(i int) {
			defer wg2.Done()
			tres[i] = runTickerRoundTrip(tr)
		}(i)
	}
	wg2.Wait()
	for _, t := range tres {
		w.Case(fmt.Sprintf("CTicker %s %s %s", vhlib.Nat(t.expected), vhlib.Nat(t.observed), vhlib.Nat(t.lost)),
			"bcache roundtrip ticker", true, []string{"Count-after-10-intervals"}, t.detail)
	}
	w.Notes["bcache_round_trips_run"] = nTrips
	w.Notes["bcache_traces_written"] = stats[3]
	w.Notes["bcache_round_trips_dropped"] = dropped
	w.Notes["bcache_steps_total"] = stats[0]
	w.Notes["bcache_steps_with_a_deadline_inside_the_call_bracket"] = stats[1]
	w.Notes["bcache_traces_with_no_deadline_inside_any_bracket(decided)"] = stats[2]
	w.Notes["bcache_exports_of_an_empty_cache"] = emptyExports
	w.Notes["bcache_round_trips_with_entries_expired_between_export_and_load"] = expiredBetween
	w.Close(o, "bcache run: one round trip = two cases (C12.Check.case): the source cache's trace (3..11 random Set/SetDefault/SetNoExpire/SetIfAbsent/Replace/Delete/... calls with the C12 TTL and default-expiry alphabets, then Export) and the restored cache's trace (Load of the exported bytes - checked with json.Valid and parsed - into a fresh cache, GetWithExpire/Count/Export right away, pauses, VerifSweep, further operations), every call bracketed by clock readings, member map and deadline index dumped after every call; plus one CTicker case per real-ticker round trip; distinct = distinct case terms; non-trivial = some timed entry was stored")
}
