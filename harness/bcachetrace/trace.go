// Package bcachetrace: trace machinery for app/bcache shared by the C12 harness (cmd/c12) and the bcache
// round-trip run of C15 (cmd/c15bc). Runs the real cache on short traces (sweeper disabled, sweeps issued through
// the verif hook VerifSweep as ordinary trace steps), brackets every API call with two clock readings, dumps the
// member map and the deadline index after every call, and writes Coq cases of type C12.Check.case. A second part
// runs caches with the real sentinel ticker (10 ms) and checks Count / liveness after an allowance of intervals.
package bcachetrace

import (
	"encoding/json"
	"fmt"
	"math"
	"math/big"
	"sort"
	"strconv"
	"strings"
	"sync"
	"time"

	"github.com/songzhibin97/go-baseutils/app/bcache"
	"github.com/songzhibin97/go-baseutils/base/bcomparator"

	"vh/vhlib"
)

const (
	kSet = iota
	kSetDefault
	kSetNoExpire
	kSetIfAbsent
	kReplace
	kDelete
	kGet
	kGetWithExpire
	kCount
	kClear
	kSweep
	kExport
	kRestore
	kLoad
)

var kindName = []string{"Set", "SetDefault", "SetNoExpire", "SetIfAbsent", "Replace", "Delete", "Get", "GetWithExpire",
	"Count", "Clear", "VerifSweep", "Export", "Restore", "Load"}

const nKeys = 4
const ms = time.Millisecond
const lo60 = int64(1) << 60
const hi61 = int64(1) << 61
const gran = 1024    // largest float64 spacing on int64 (|x| >= 2^62): slack of the interval checker
const nearGran = 256 // spacing for 2^60 <= x < 2^61 (today's UnixNano)

type synthEnt struct {
	k, v  int
	abs   int64         // when not 0: this absolute Expire (negative / huge values)
	rel   time.Duration // deadline relative to the start of the Restore call; 0 = untimed (when timed == false)
	timed bool
}

type planOp struct {
	kind  int
	k, v  int
	ttl   time.Duration
	pause time.Duration
	// alignOn: before the call, wait until (a stored deadline + align ns) so that the call's clock bracket
	// lands on the deadline itself (exercises the undecided windows of the interval checker)
	alignOn bool
	align   int64
	// ttlWrap: the TTL is MaxInt64 - now + wrapOff, computed just before the call
	ttlWrap bool
	wrapOff int64
	// useKpos: the key is the one at position kpos of the deadline index as dumped just before the call
	// (kpos = -2: the key remembered by the last op with saveKey)
	useKpos bool
	kpos    int
	saveKey bool
	// nbr != 0: the TTL is chosen so that the new deadline lands next to a NEIGHBOUR of the key in the index:
	// 1/2 = nbrOff before/after the predecessor's deadline, 3/4 = before/after the successor's, 5 = midway
	// between them, 6/7 = equal to the predecessor's / successor's
	nbr    int
	nbrOff time.Duration
	synth  []synthEnt // Restore / Load: synthetic content (nil = latest exported blob, or empty object when none)
}

type plan struct {
	profile  string
	noDefOpt bool // no SetDefaultExpire option (def must be 0)
	capture  int  // 0 = no-op capture, 1 = SetCapture(nil), 2 = recording capture
	def      time.Duration
	ops      []planOp
}

type ent struct {
	Value  int
	Expire int64
}

type stepRec struct {
	label  string
	call   string
	op     string
	a, b   int64
	out    string
	tw     int64
	mem    map[int]ent
	visK   []int
	visS   []*big.Int // exact integer value of the float64 score (2^63 does not fit int64)
	window bool       // some deadline relevant to the call lies inside its clock bracket (not "decided")
}

type traceRes struct {
	lastBlob []byte // output of the last Export of the trace
	t0       int64
	steps    []stepRec
	dropped  string
}

// ---------- generation ----------

const year250 = 250 * 365 * 24 * time.Hour // 7.884e18 ns: wraps as well
// ttlWrapPoint marks "a TTL next to the overflow point MaxInt64 - now"; the offset is drawn when the op is built
const ttlWrapPoint = time.Duration(math.MinInt64 + 12345)

var wrapOffsets = []int64{-1000000000, -1000000, -3000, -400, 0, 1, 400, 3000, 1000000, 1000000000}

var ttlAlphabet = []time.Duration{bcache.NoExpire, bcache.DefaultExpire, bcache.DefaultExpire, 40 * ms, 120 * ms, 40 * ms, 120 * ms}

// every TTL kind newIterator distinguishes: NoExpire, DefaultExpire, positive (short, and occasionally huge),
// other negatives
func pickTTL(r *vhlib.Rng) time.Duration {
	switch r.Intn(40) {
	case 5:
		return time.Duration(math.MaxInt64) // now + ttl overflows int64: Expire wraps negative, never expires
	case 6:
		return year250
	case 7, 8:
		return ttlWrapPoint // placeholder: replaced at run time by MaxInt64 - now + a small offset
	case 0, 1:
		return -5 * ms
	case 2:
		return -time.Second
	case 3:
		return time.Hour
	case 4:
		return 8760 * time.Hour // a year: deadline still below 2^61 ns
	}
	return ttlAlphabet[r.Intn(len(ttlAlphabet))]
}

// cache configurations: the default expiry given to SetDefaultExpire. Substantial weight on the non-positive
// ones (0 = none, NoExpire = -1ns, other negatives): DefaultExpire writes must then store WITHOUT expiry.
var defAlphabet = []time.Duration{40 * ms, 120 * ms, 40 * ms, 0, 0, bcache.NoExpire, bcache.NoExpire, -5 * ms, -time.Hour,
	40 * ms, 120 * ms, 0, bcache.NoExpire, -5 * ms, time.Duration(math.MaxInt64), year250}
var defNonPositive = []time.Duration{0, bcache.NoExpire, -5 * ms, -time.Hour}

func pickTimed(r *vhlib.Rng) time.Duration {
	if r.Bool() {
		return 40 * ms
	}
	return 120 * ms
}
func pickPause(r *vhlib.Rng, heavy bool) time.Duration {
	n := 6
	if heavy {
		n = 2
	}
	if r.Intn(n) != 0 {
		return 0
	}
	return []time.Duration{25 * ms, 60 * ms, 150 * ms, 25 * ms, 60 * ms}[r.Intn(5)]
}

type gen struct {
	r   *vhlib.Rng
	val int
	ops []planOp
	nk  int // key universe (0 = nKeys)
}

// addPos: an op on the key found at position kpos of the deadline index at run time
func (g *gen) addPos(kind, kpos int, ttl, pause time.Duration) *planOp {
	g.add(kind, 0, ttl, pause)
	op := &g.ops[len(g.ops)-1]
	op.useKpos, op.kpos = true, kpos
	return op
}

func (g *gen) nv() int { g.val++; return g.val - 1 } // the first stored value is the zero value 0

// defaultOps: every write kind with the DefaultExpire TTL kind (Set(k,v,0), SetDefault, SetIfAbsent(k,v,0),
// Replace(k,v,0)), each followed by a look at the key
func (g *gen) defaultOps() {
	k := g.key()
	for _, kind := range [][]int{{kSet, kSetDefault}, {kSetIfAbsent, kSetDefault}, {kReplace, kReplace}, {kSetIfAbsent, kSet}}[g.r.Intn(4)] {
		if g.r.Bool() {
			k = g.key()
		}
		if kind == kReplace && g.r.Bool() { // make sure there is something to replace: untimed or timed
			g.add([]int{kSetNoExpire, kSet}[g.r.Intn(2)], k, pickTimed(g.r), 0)
		}
		g.add(kind, k, bcache.DefaultExpire, 0)
		g.add([]int{kGetWithExpire, kGetWithExpire, kGet, kCount}[g.r.Intn(4)], k, 0, 0)
	}
}
func (g *gen) add(kind, k int, ttl, pause time.Duration) {
	op := planOp{kind: kind, k: k, v: g.nv(), ttl: ttl, pause: pause}
	g.fixWrap(&op)
	g.ops = append(g.ops, op)
}

func (g *gen) fixWrap(op *planOp) {
	if op.ttl == ttlWrapPoint {
		op.ttlWrap = true
		op.wrapOff = wrapOffsets[g.r.Intn(len(wrapOffsets))]
	}
}
func (g *gen) key() int {
	if g.nk > 0 {
		return g.r.Intn(g.nk)
	}
	return g.r.Intn(nKeys)
}

// synthWith: synthetic content with a chosen entry for key fk (fk < 0: none forced)
func (g *gen) synthWith(fk int, fe synthEnt) []synthEnt {
	s := g.synth()
	if fk < 0 {
		return s
	}
	out := []synthEnt{}
	for _, e := range s {
		if e.k != fk {
			out = append(out, e)
		}
	}
	fe.k = fk
	fe.v = g.nv()
	return append(out, fe)
}

func (g *gen) synth() []synthEnt {
	var s []synthEnt
	for k := 0; k < nKeys; k++ {
		switch g.r.Intn(8) {
		case 7: // deadlines the code treats as "never": negative (wrapped) or next to MaxInt64
			s = append(s, synthEnt{k: k, v: g.nv(), timed: true, abs: []int64{math.MinInt64, math.MinInt64 + 600, -7432541275397305633,
				-8771913312252021218, -5, -1, math.MaxInt64, math.MaxInt64 - 600, 1 << 62}[g.r.Intn(9)]})
		case 6: // deadline inside (or next to) the clock bracket of the load itself
			s = append(s, synthEnt{k: k, v: g.nv(), rel: time.Duration(g.r.Intn(40000)), timed: true})
		case 0: // absent
		case 1:
			s = append(s, synthEnt{k: k, v: g.nv()})
		case 2: // long expired
			s = append(s, synthEnt{k: k, v: g.nv(), rel: -time.Duration(1+g.r.Intn(1000)) * ms, timed: true})
		case 3:
			s = append(s, synthEnt{k: k, v: g.nv(), rel: 40 * ms, timed: true})
		case 4:
			s = append(s, synthEnt{k: k, v: g.nv(), rel: 120 * ms, timed: true})
		case 5:
			s = append(s, synthEnt{k: k, v: g.nv(), rel: time.Duration(5+g.r.Intn(30)) * ms, timed: true})
		}
	}
	if s == nil {
		s = []synthEnt{}
	}
	return s
}

// one random operation
func (g *gen) random(heavyPause bool, w []int) {
	tot := 0
	for _, x := range w {
		tot += x
	}
	n := g.r.Intn(tot)
	kind := 0
	for i, x := range w {
		if n < x {
			kind = i
			break
		}
		n -= x
	}
	p := pickPause(g.r, heavyPause)
	op := planOp{kind: kind, k: g.key(), v: g.nv(), ttl: pickTTL(g.r), pause: p}
	g.fixWrap(&op)
	if (kind == kGet || kind == kGetWithExpire || kind == kReplace || kind == kSweep || kind == kCount) && g.r.Chance(1, 6) {
		op.alignOn = true
		op.align = int64(g.r.Intn(4001)) - 2000
		if g.r.Chance(1, 4) {
			op.align = int64(g.r.Intn(601)) - 300
		}
	}
	if (kind == kRestore || kind == kLoad) && g.r.Intn(3) != 0 {
		op.synth = g.synth()
	}
	g.ops = append(g.ops, op)
}

// Set SetD SetNE SIA Repl Del Get GetWE Cnt Clr Swp Exp Rst Load
var wPlain = []int{12, 4, 4, 8, 8, 4, 6, 14, 6, 1, 8, 2, 2, 4}
var wChurn = []int{10, 3, 3, 6, 6, 12, 4, 10, 6, 5, 6, 2, 2, 3}
var wEdges = []int{8, 2, 2, 16, 16, 2, 4, 12, 4, 0, 6, 1, 1, 2}
var wLoad = []int{10, 2, 3, 5, 5, 2, 4, 14, 6, 1, 8, 4, 1, 12}

func makePlan(r *vhlib.Rng, idx int) plan {
	g := &gen{r: r}
	pl := plan{def: defAlphabet[r.Intn(len(defAlphabet))], capture: r.Intn(3)}
	if pl.def == 0 && r.Bool() {
		pl.noDefOpt = true // constructor default: no SetDefaultExpire option at all
	}
	n := r.Range(8, 25)
	if r.Intn(5) < 2 { // in every profile: DefaultExpire writes of every kind on this configuration
		g.defaultOps()
	}
	switch idx % 8 {
	case 0:
		pl.profile = "plain"
		for len(g.ops) < n {
			g.random(false, wPlain)
		}
	case 1: // D24 shape: timed store, re-store without expiry, wait past the old deadline, sweep, look
		pl.profile = "restore-without-expiry"
		if r.Bool() {
			pl.def = defNonPositive[r.Intn(len(defNonPositive))]
			pl.noDefOpt = false
		}
		for i := r.Intn(3); i > 0; i-- {
			g.random(false, wPlain)
		}
		k := g.key()
		ttl := pickTimed(r)
		g.add([]int{kSet, kSet, kSetIfAbsent}[r.Intn(3)], k, ttl, 0)
		if pl.def > 0 && r.Bool() {
			g.ops[len(g.ops)-1].kind = kSetDefault
			ttl = pl.def
		}
		for i := r.Intn(3); i > 0; i-- {
			g.add([]int{kGetWithExpire, kCount, kGet}[r.Intn(3)], g.key(), 0, 0)
		}
		switch r.Intn(5) {
		case 0:
			g.add(kSetNoExpire, k, 0, 0)
		case 1:
			g.add(kSet, k, bcache.NoExpire, 0)
		case 2:
			g.add(kReplace, k, bcache.NoExpire, 0)
		case 3:
			g.add(kSet, k, -5*ms, 0)
		case 4:
			if pl.def <= 0 { // SetDefault / Set(..., DefaultExpire) on a cache without a positive default: no expiry
				g.add([]int{kSetDefault, kSet, kReplace}[r.Intn(3)], k, bcache.DefaultExpire, 0)
			} else {
				g.add(kReplace, k, -5*ms, 0)
			}
		}
		past := 60 * ms
		if ttl > 40*ms {
			past = 150 * ms
		}
		g.add(kSweep, 0, 0, past)
		g.add(kGetWithExpire, k, 0, 0)
		g.add(kCount, 0, 0, 0)
		for len(g.ops) < n {
			g.random(false, wPlain)
		}
	case 2: // D3 shape: timed stores, wait past the deadlines, sweep, Count / Export / SetIfAbsent
		pl.profile = "expire-sweep-count"
		m := r.Range(1, 4)
		for i := 0; i < m; i++ {
			g.add([]int{kSet, kSetIfAbsent, kSet}[r.Intn(3)], g.key(), 40*ms, 0)
		}
		if r.Bool() {
			g.add(kSet, g.key(), 120*ms, 0)
		}
		if r.Bool() {
			g.add(kSetNoExpire, g.key(), 0, 0)
		}
		g.add(kSweep, 0, 0, 60*ms)
		g.add(kCount, 0, 0, 0)
		switch r.Intn(3) {
		case 0:
			g.add(kExport, 0, 0, 0)
		case 1:
			g.add(kSetIfAbsent, g.key(), pickTTL(r), 0)
		}
		for len(g.ops) < n {
			g.random(true, wPlain)
		}
	case 3:
		pl.profile = "ifabsent-replace-deadlines"
		if r.Bool() { // SetIfAbsent over an expired, not yet collected entry is blocked; after the lazy delete it succeeds
			k := g.key()
			g.add(kSet, k, 40*ms, 0)
			g.add(kSetIfAbsent, k, pickTTL(r), 60*ms)
			g.add([]int{kGetWithExpire, kReplace, kSweep}[r.Intn(3)], k, pickTTL(r), 0)
			g.add(kSetIfAbsent, k, pickTTL(r), 0)
			g.add(kReplace, k, bcache.DefaultExpire, 0)
			g.add(kGetWithExpire, k, 0, 0)
		}
		if r.Bool() { // Replace with the default TTL kind over an untimed entry; Delete of an absent key; Count
			k := g.key()
			g.add(kSetNoExpire, k, 0, 0)
			g.add(kReplace, k, bcache.DefaultExpire, 0)
			g.add(kGetWithExpire, k, 0, 0)
			g.add(kDelete, (k+1)%nKeys, 0, 0)
			g.add(kDelete, (k+1)%nKeys, 0, 0)
			g.add(kCount, 0, 0, 0)
		}
		for len(g.ops) < n {
			g.random(true, wEdges)
		}
	case 4: // export -> restore -> read everything back
		pl.profile = "export-restore"
		m := r.Range(2, 6)
		for i := 0; i < m; i++ {
			g.add([]int{kSet, kSet, kSetNoExpire, kSetIfAbsent, kReplace}[r.Intn(5)], g.key(), pickTTL(r), pickPause(r, false))
		}
		g.add(kExport, 0, 0, pickPause(r, false))
		for i := r.Intn(3); i > 0; i-- {
			g.random(false, wChurn)
		}
		op := planOp{kind: kRestore, pause: pickPause(r, true)}
		if r.Intn(3) == 0 {
			op.synth = g.synth()
		}
		g.ops = append(g.ops, op)
		for k := 0; k < nKeys; k++ {
			g.add(kGetWithExpire, k, 0, 0)
		}
		g.add(kCount, 0, 0, 0)
		if r.Bool() {
			g.add(kSweep, 0, 0, pickPause(r, true))
			g.add(kCount, 0, 0, 0)
			g.add(kExport, 0, 0, 0)
		}
		for len(g.ops) < n {
			g.random(false, wPlain)
		}
	case 6: // D32 shape: Load onto a cache that already holds entries
		pl.profile = "load-over-timed"
		for i := r.Intn(3); i > 0; i-- {
			g.random(false, wPlain)
		}
		k := g.key()
		load := func(fe synthEnt, pause time.Duration) {
			g.ops = append(g.ops, planOp{kind: kLoad, pause: pause, synth: g.synthWith(k, fe)})
		}
		switch r.Intn(4) {
		case 0, 1: // an entry WITHOUT expiry loaded over a timed one
			ttl := pickTimed(r)
			g.add([]int{kSet, kSet, kSetIfAbsent, kReplace}[r.Intn(4)], k, ttl, 0)
			if r.Bool() {
				g.add(kSet, g.key(), pickTTL(r), 0)
			}
			load(synthEnt{}, 0)
			if r.Bool() {
				g.add(kGetWithExpire, k, 0, 0)
			}
			past := 60 * ms
			if ttl > 40*ms {
				past = 150 * ms
			}
			g.add(kSweep, 0, 0, past)
			g.add(kGetWithExpire, k, 0, 0)
			g.add(kCount, 0, 0, 0)
			g.add(kExport, 0, 0, 0)
		case 2: // a timed entry loaded over an untimed one
			g.add(kSetNoExpire, k, 0, 0)
			load(synthEnt{rel: 40 * ms, timed: true}, 0)
			g.add(kGetWithExpire, k, 0, 0)
			g.add(kSweep, 0, 0, 60*ms)
			g.add(kGetWithExpire, k, 0, 0)
			g.add(kCount, 0, 0, 0)
		case 3: // load over an entry that may have expired already
			g.add(kSet, k, 40*ms, 0)
			fe := []synthEnt{{}, {rel: 120 * ms, timed: true}, {rel: -50 * ms, timed: true}, {rel: 40 * ms, timed: true}}[r.Intn(4)]
			load(fe, []time.Duration{25 * ms, 60 * ms}[r.Intn(2)])
			g.add(kGetWithExpire, k, 0, 0)
			g.add(kSweep, 0, 0, []time.Duration{25 * ms, 60 * ms, 150 * ms}[r.Intn(3)])
			g.add(kCount, 0, 0, 0)
			g.add(kGetWithExpire, k, 0, 0)
			g.add(kExport, 0, 0, 0)
		}
		for len(g.ops) < n {
			g.random(false, wLoad)
		}
	case 7: // long deadline-index histories: refresh in place, middle deletions, re-stores next to the neighbours' deadlines
		pl.profile = "index-neighbours"
		g.ops = nil
		g.nk = 10
		offs := []time.Duration{300, 1000, 5000, 200 * time.Microsecond, 2 * ms, 5 * ms}
		m := r.Range(6, 10)
		perm := r.Perm(10)
		step := time.Duration(r.Range(8, 14)) * ms
		for i := 0; i < m; i++ {
			g.add([]int{kSet, kSet, kSetIfAbsent}[r.Intn(3)], perm[i], 60*ms+time.Duration(i)*step+time.Duration(r.Intn(3000))*time.Microsecond, 0)
		}
		for i := m; i < 10 && r.Bool(); i++ {
			g.add(kSetNoExpire, perm[i], 0, 0)
		}
		lookAll := func() {
			g.add(kCount, 0, 0, 0)
			for k := 0; k < 10; k++ {
				if r.Intn(3) == 0 {
					g.add(kGetWithExpire, k, 0, 0)
				}
			}
			if r.Bool() {
				g.add(kExport, 0, 0, 0)
			}
		}
		nbrOp := func(kpos, nbr int, off time.Duration) *planOp {
			op := g.addPos([]int{kSet, kSet, kReplace, kSetIfAbsent}[r.Intn(4)], kpos, 60*ms, 0)
			op.nbr, op.nbrOff = nbr, off
			return op
		}
		directed := func() {
			// remove a MIDDLE node, refresh its old predecessor to just before the successor, re-store the successor
			// just before that predecessor, wait until the successor is due but the predecessor is not, sweep, look
			i := r.Range(1, m-2)
			switch r.Intn(4) {
			case 0:
				g.addPos(kDelete, i, 0, 0)
			case 1:
				g.addPos(kSetNoExpire, i, 0, 0)
			case 2:
				g.addPos(kSet, i, time.Hour, 0)
			case 3:
				g.addPos(kReplace, i, bcache.NoExpire, 0)
			}
			a := g.addPos([]int{kSet, kReplace}[r.Intn(2)], i-1, 60*ms, 0)
			a.nbr, a.nbrOff = 3, []time.Duration{3 * ms, 5 * ms}[r.Intn(2)]
			if r.Intn(3) == 0 {
				nbrOp(r.Intn(m), 1+r.Intn(7), offs[r.Intn(len(offs))])
			}
			c := g.addPos([]int{kSet, kReplace}[r.Intn(2)], i, 60*ms, 0)
			c.nbr, c.nbrOff, c.saveKey = 1, []time.Duration{2 * ms, 4 * ms}[r.Intn(2)], true
			sw := g.addPos(kSweep, -2, 0, 0)
			sw.alignOn, sw.align = true, int64(ms)
			g.add(kCount, 0, 0, 0)
			switch r.Intn(3) {
			case 0:
				g.addPos(kSetIfAbsent, -2, pickTimed(r), 0)
			case 1:
				g.add(kExport, 0, 0, 0)
			case 2:
				g.addPos(kGetWithExpire, -2, 0, 0)
				g.add(kExport, 0, 0, 0)
			}
		}
		for rounds := r.Range(6, 14); rounds > 0; rounds-- {
			switch r.Intn(12) {
			case 0, 1, 2, 3, 4:
				nbrOp(r.Intn(m), 1+r.Intn(7), offs[r.Intn(len(offs))])
			case 5:
				g.addPos(kDelete, r.Intn(m), 0, 0)
			case 6:
				g.addPos(kSetNoExpire, r.Intn(m), 0, 0)
			case 7:
				g.addPos([]int{kGet, kGetWithExpire}[r.Intn(2)], r.Intn(m), 0, time.Duration(r.Intn(40))*ms)
			case 8:
				g.add(kSweep, 0, 0, time.Duration(5+r.Intn(40))*ms)
				lookAll()
			case 9:
				g.add(kSet, g.key(), time.Duration(20+r.Intn(150))*ms, 0)
			case 10, 11:
				directed()
			}
		}
		if r.Bool() {
			directed()
		}
		g.add(kSweep, 0, 0, 150*ms)
		lookAll()
	case 5:
		pl.profile = "delete-clear-churn"
		for len(g.ops) < n {
			g.random(false, wChurn)
		}
	}
	// bound the time one trace sleeps
	var tot time.Duration
	for i := range g.ops {
		tot += g.ops[i].pause
		if tot > 700*ms {
			g.ops[i].pause = 0
		}
	}
	pl.ops = g.ops
	return pl
}

// ---------- execution ----------

func effTTL(def, ttl time.Duration) (time.Duration, bool) {
	switch ttl {
	case bcache.NoExpire:
		return 0, false
	case bcache.DefaultExpire:
		if def > 0 {
			return def, true
		}
		return 0, false
	default:
		if ttl > 0 {
			return ttl, true
		}
		return 0, false
	}
}

func durStr(d time.Duration) string {
	switch d {
	case bcache.NoExpire:
		return "NoExpire"
	case bcache.DefaultExpire:
		return "DefaultExpire"
	}
	return d.String()
}

// deadlines are written relative to the first clock reading of the trace (0 stays 0 = untimed)
// zsub: d - t0 as an exact integer (a wrapped deadline near MinInt64 minus t0 does not fit int64)
func zsub(d, t0 int64) *big.Int { return new(big.Int).Sub(big.NewInt(d), big.NewInt(t0)) }

func zstr(z *big.Int) string {
	if z.Sign() < 0 {
		return "(" + z.String() + ")"
	}
	return z.String()
}

// relZ: a deadline as written into the case (relative to t0; 0 stays 0 = untimed)
func relZ(d, t0 int64) string {
	if d == 0 {
		return "0"
	}
	return zstr(zsub(d, t0))
}

func scoreInt(f float64) *big.Int {
	z, _ := new(big.Float).SetFloat64(f).Int(nil)
	return z
}

func coqEntry(k int, e ent, t0 int64) string {
	return vhlib.Pair(vhlib.Z(int64(k)), vhlib.Pair(vhlib.Z(int64(e.Value)), relZ(e.Expire, t0)))
}

func coqMap(m map[int]ent, t0 int64) string {
	keys := make([]int, 0, len(m))
	for k := range m {
		keys = append(keys, k)
	}
	sort.Ints(keys)
	it := make([]string, len(keys))
	for i, k := range keys {
		it[i] = coqEntry(k, m[k], t0)
	}
	return vhlib.List(it)
}

func parseBlob(blob []byte) (map[int]ent, error) {
	raw := map[string]ent{}
	if err := json.Unmarshal(blob, &raw); err != nil {
		return nil, err
	}
	res := map[int]ent{}
	for ks, e := range raw {
		k, err := strconv.Atoi(ks)
		if err != nil {
			return nil, err
		}
		res[k] = e
	}
	return res, nil
}

func clamp(x, lo, hi int64) int64 {
	if x < lo {
		return lo
	}
	if x > hi {
		return hi
	}
	return x
}

func runTrace(pl plan) traceRes { return runTraceFrom(pl, nil) }

// runTraceFrom: initBlob, when not nil, plays the role of "the latest exported blob" for a Load / Restore step
// (the C15 round trip loads the export of ANOTHER cache into a fresh one).
func runTraceFrom(pl plan, initBlob []byte) (res traceRes) {
	captured := 0
	var capt func(int, int)
	switch pl.capture {
	case 0:
		capt = func(int, int) {}
	case 2:
		capt = func(int, int) { captured++ }
	}
	var c *bcache.BCache[int, int]
	if pl.noDefOpt {
		c = bcache.New[int, int](bcomparator.IntComparator(), bcache.SetCapture[int, int](capt))
	} else {
		c = bcache.New[int, int](bcomparator.IntComparator(),
			bcache.SetDefaultExpire[int, int](pl.def), bcache.SetCapture[int, int](capt))
	}
	base := time.Now()
	tBase := base.UnixNano()
	res.t0 = tBase
	last := tBase
	clockOK := func(t time.Time) bool {
		w := t.UnixNano() - base.UnixNano()
		m := int64(t.Sub(base)) // monotonic difference
		d := w - m
		if d < 0 {
			d = -d
		}
		ok := d <= int64(ms) && t.UnixNano() >= last && t.UnixNano() >= lo60 && t.UnixNano() < hi61
		last = t.UnixNano()
		return ok
	}
	blob := initBlob
	prevMem := map[int]ent{}
	var prevVisK []int
	lastKey := 0
	for _, op := range pl.ops {
		if op.pause > 0 {
			time.Sleep(op.pause)
		}
		if op.useKpos || op.nbr != 0 {
			memN, visN := c.VerifDump()
			if op.useKpos {
				if op.kpos == -2 {
					op.k = lastKey
				} else if len(visN) > 0 {
					p := op.kpos
					if p >= len(visN) {
						p = len(visN) - 1
					}
					op.k = visN[p].Key
				}
			}
			if op.nbr != 0 {
				idx := -1
				for i, n := range visN {
					if n.Key == op.k {
						idx = i
					}
				}
				var pred, succ int64 // deadlines of the neighbours (0 = none)
				if idx >= 0 {
					if idx > 0 {
						pred = memN[visN[idx-1].Key].Expire
					}
					if idx+1 < len(visN) {
						succ = memN[visN[idx+1].Key].Expire
					}
				} else if len(visN) > 0 {
					p := len(visN) / 2
					if p > 0 {
						pred = memN[visN[p-1].Key].Expire
					}
					succ = memN[visN[p].Key].Expire
				}
				var target int64
				off := int64(op.nbrOff)
				switch op.nbr {
				case 1:
					target = pred - off
				case 2:
					target = pred + off
				case 3:
					target = succ - off
				case 4:
					target = succ + off
				case 5:
					target = pred/2 + succ/2
				case 6:
					target = pred
				case 7:
					target = succ
				}
				if (op.nbr == 1 || op.nbr == 2 || op.nbr == 6 || op.nbr == 5) && pred == 0 {
					target = succ - off
				}
				if (op.nbr == 3 || op.nbr == 4 || op.nbr == 7 || op.nbr == 5) && succ == 0 {
					target = pred + off
				}
				op.ttl = time.Duration(target - time.Now().UnixNano())
				if op.ttl < time.Duration(200*time.Microsecond) {
					op.ttl = ms
				}
			}
		}
		if op.saveKey {
			lastKey = op.k
		}
		if op.alignOn {
			var target int64
			if e, ok := prevMem[op.k]; ok && e.Expire > 0 {
				target = e.Expire
			} else {
				for _, e := range prevMem {
					if e.Expire > 0 && (target == 0 || e.Expire < target) {
						target = e.Expire
					}
				}
			}
			if target != 0 {
				target += op.align
				if d := target - time.Now().UnixNano(); d > 0 && d < int64(200*ms) {
					if d > int64(1500*time.Microsecond) {
						time.Sleep(time.Duration(d) - 1500*time.Microsecond)
					}
					for time.Now().UnixNano() < target {
					}
				}
			}
		}
		if op.ttlWrap {
			op.ttl = time.Duration(math.MaxInt64 - time.Now().UnixNano() + op.wrapOff)
		}
		st := stepRec{label: kindName[op.kind]}
		k, v := op.k, op.v
		var t0, t1 time.Time
		var data map[int]ent
		hit, okb := false, false
		var gv int
		var gd int64
		var cnt int
		var exp map[int]ent
		panicked, pv := vhlib.Recover(func() {
			switch op.kind {
			case kSet:
				st.call = fmt.Sprintf("Set(%d,%d,%s)", k, v, durStr(op.ttl))
				st.op = fmt.Sprintf("OSet %d %d %s", k, v, vhlib.Z(int64(op.ttl)))
				t0 = time.Now()
				c.Set(k, v, op.ttl)
				t1 = time.Now()
			case kSetDefault:
				st.call = fmt.Sprintf("SetDefault(%d,%d)", k, v)
				st.op = fmt.Sprintf("OSet %d %d %s", k, v, vhlib.Z(int64(pl.def)))
				t0 = time.Now()
				c.SetDefault(k, v)
				t1 = time.Now()
			case kSetNoExpire:
				st.call = fmt.Sprintf("SetNoExpire(%d,%d)", k, v)
				st.op = fmt.Sprintf("OSet %d %d (-1)", k, v)
				t0 = time.Now()
				c.SetNoExpire(k, v)
				t1 = time.Now()
			case kSetIfAbsent:
				st.call = fmt.Sprintf("SetIfAbsent(%d,%d,%s)", k, v, durStr(op.ttl))
				st.op = fmt.Sprintf("OSetIfAbsent %d %d %s", k, v, vhlib.Z(int64(op.ttl)))
				t0 = time.Now()
				okb = c.SetIfAbsent(k, v, op.ttl)
				t1 = time.Now()
			case kReplace:
				st.call = fmt.Sprintf("Replace(%d,%d,%s)", k, v, durStr(op.ttl))
				st.op = fmt.Sprintf("OReplace %d %d %s", k, v, vhlib.Z(int64(op.ttl)))
				t0 = time.Now()
				okb = c.Replace(k, v, op.ttl)
				t1 = time.Now()
			case kDelete:
				st.call = fmt.Sprintf("Delete(%d)", k)
				st.op = fmt.Sprintf("ODelete %d", k)
				t0 = time.Now()
				c.Delete(k)
				t1 = time.Now()
			case kGet:
				st.call = fmt.Sprintf("Get(%d)", k)
				st.op = fmt.Sprintf("OGet %d", k)
				t0 = time.Now()
				gv, hit = c.Get(k)
				t1 = time.Now()
			case kGetWithExpire:
				st.call = fmt.Sprintf("GetWithExpire(%d)", k)
				st.op = fmt.Sprintf("OGet %d", k)
				var tt time.Time
				t0 = time.Now()
				gv, tt, hit = c.GetWithExpire(k)
				t1 = time.Now()
				if hit && !tt.IsZero() {
					gd = tt.UnixNano()
				}
			case kCount:
				st.call = "Count()"
				st.op = "OCount"
				t0 = time.Now()
				cnt = c.Count()
				t1 = time.Now()
			case kClear:
				st.call = "Clear()"
				st.op = "OClear"
				t0 = time.Now()
				c.Clear()
				t1 = time.Now()
			case kSweep:
				st.call = "VerifSweep()"
				st.op = "OSweep"
				t0 = time.Now()
				c.VerifSweep()
				t1 = time.Now()
			case kExport:
				st.call = "Export()"
				st.op = "OExport"
				t0 = time.Now()
				bl, err := c.Export()
				t1 = time.Now()
				if err != nil {
					panic(err)
				}
				blob = bl
				res.lastBlob = bl
				e, err := parseBlob(bl)
				if err != nil {
					panic(err)
				}
				exp = e
			case kRestore, kLoad:
				use := blob
				if op.synth != nil || use == nil {
					nowNs := time.Now().UnixNano()
					raw := map[string]ent{}
					for _, s := range op.synth {
						e := ent{Value: s.v}
						if s.timed {
							e.Expire = nowNs + int64(s.rel)
							if s.abs != 0 {
								e.Expire = s.abs
							}
						}
						raw[strconv.Itoa(s.k)] = e
					}
					use, _ = json.Marshal(raw)
				}
				d, err := parseBlob(use)
				if err != nil {
					panic(err)
				}
				data = d
				if op.kind == kLoad {
					st.call = fmt.Sprintf("Load(%s)", string(use))
					st.op = "OLoad " + coqMap(data, tBase)
					t0 = time.Now()
					err = c.Load(use)
					t1 = time.Now()
				} else {
					st.call = fmt.Sprintf("Clear();Load(%s)", string(use))
					st.op = "ORestore " + coqMap(data, tBase)
					t0 = time.Now()
					c.Clear()
					err = c.Load(use)
					t1 = time.Now()
				}
				if err != nil {
					panic(err)
				}
			}
		})
		if panicked {
			res.dropped = fmt.Sprintf("PANIC in %s: %v", st.call, pv)
			return
		}
		mem0, vis0 := c.VerifDump()
		if !clockOK(t0) || !clockOK(t1) {
			res.dropped = "clock"
			return
		}
		st.a, st.b = t0.UnixNano(), t1.UnixNano()
		st.mem = map[int]ent{}
		for kk, e := range mem0 {
			st.mem[kk] = ent{Value: e.Value, Expire: e.Expire}
		}
		for _, n := range vis0 {
			st.visK = append(st.visK, n.Key)
			st.visS = append(st.visS, scoreInt(n.Score))
		}
		// ----- observed output and witness instant -----
		st.tw = st.a
		inWin := func(d int64) bool { return d > 0 && d >= st.a-nearGran && d <= st.b+nearGran }
		storeTW := func() {
			if x, timed := effTTL(pl.def, op.ttl); timed {
				if e, ok := st.mem[k]; ok && e.Value == v {
					st.tw = e.Expire - int64(x) // the instant newIterator read
				}
			}
		}
		switch op.kind {
		case kSetNoExpire, kDelete, kClear:
			st.out = "OutUnit"
		case kSet:
			st.out = "OutUnit"
			storeTW()
		case kSetDefault:
			st.out = "OutUnit"
			if pl.def > 0 {
				if e, ok := st.mem[k]; ok && e.Value == v {
					st.tw = e.Expire - int64(pl.def)
				}
			}
		case kSetIfAbsent:
			st.out = "OutBool " + vhlib.Bool(okb)
			if okb {
				storeTW()
			}
		case kReplace:
			st.out = "OutBool " + vhlib.Bool(okb)
			if okb {
				storeTW()
			} else {
				st.tw = st.b
			}
			if e, ok := prevMem[k]; ok && inWin(e.Expire) {
				st.window = true
			}
		case kGet, kGetWithExpire:
			if hit {
				if op.kind == kGet { // Get shows no deadline: take the stored field as GetWithExpire would show it
					gd = st.mem[k].Expire
					if gd < 0 {
						gd = 0 // isVisit false: zero time
					}
				}
				st.out = "OutGet " + vhlib.Opt(true, vhlib.Pair(vhlib.Z(int64(gv)), relZ(gd, tBase)))
			} else {
				st.out = "OutGet None"
				st.tw = st.b
			}
			if e, ok := prevMem[k]; ok && inWin(e.Expire) {
				st.window = true
			}
		case kCount:
			st.out = "OutCount " + vhlib.Nat(cnt)
		case kSweep:
			st.out = "OutUnit"
			// any instant separating the collected deadlines from the kept ones
			now := map[int]bool{}
			for _, kk := range st.visK {
				now[kk] = true
			}
			var maxRemoved int64
			for _, kk := range prevVisK {
				if !now[kk] {
					if e, ok := prevMem[kk]; ok && e.Expire > maxRemoved {
						maxRemoved = e.Expire
					}
				}
			}
			if maxRemoved > 0 {
				st.tw = clamp(maxRemoved, st.a, st.b)
			}
			for _, e := range prevMem {
				if inWin(e.Expire) {
					st.window = true
				}
			}
		case kExport:
			st.out = "OutExport " + coqMap(exp, tBase)
		case kRestore, kLoad:
			st.out = "OutUnit"
			var maxSkipped int64
			minKept := int64(1) << 62
			for kk, e := range data {
				if e.Expire <= 0 {
					continue
				}
				if inWin(e.Expire) {
					st.window = true
				}
				if op.kind == kLoad && prevMem[kk] == e {
					continue // the cache already held exactly this entry: loaded or not makes no difference
				}
				if got, kept := st.mem[kk]; kept && got == e {
					if e.Expire < minKept {
						minKept = e.Expire
					}
				} else if e.Expire > maxSkipped {
					maxSkipped = e.Expire
				}
			}
			if maxSkipped > 0 {
				st.tw = clamp(maxSkipped+1, st.a, st.b)
			}
			if maxSkipped >= minKept && maxSkipped >= st.a && minKept <= st.b {
				// Unmarshal reads the clock once per entry; two deadlines inside the bracket were judged at
				// different instants: no single instant reproduces it. Not a property matter: drop the trace.
				res.dropped = "load-multi-instant"
				return
			}
		}
		for _, e := range st.mem {
			if e.Expire == tBase {
				res.dropped = "deadline-equals-t0"
				return
			}
		}
		for _, e := range data {
			if e.Expire == tBase {
				res.dropped = "deadline-equals-t0"
				return
			}
		}
		res.steps = append(res.steps, st)
		prevMem, prevVisK = st.mem, st.visK
	}
	return
}

func (s stepRec) coq(t0 int64) string {
	vis := make([]string, len(s.visK))
	for i := range s.visK {
		vis[i] = vhlib.Pair(zstr(new(big.Int).Sub(s.visS[i], big.NewInt(t0))), vhlib.Z(int64(s.visK[i])))
	}
	return fmt.Sprintf("{| s_op := %s; s_a := %s; s_b := %s; s_out := %s; s_tw := %s; s_mem := %s; s_vis := %s |}",
		s.op, vhlib.Z(s.a-t0), vhlib.Z(s.b-s.a), s.out, vhlib.Z(s.tw-s.a), coqMap(s.mem, t0), vhlib.List(vis))
}

func (s stepRec) describe(base int64) string {
	return fmt.Sprintf("%s @[%d,%d] -> %s ; tw=%d mem=%s vis=%v/%v", s.call, s.a-base, s.b-base, s.out, s.tw-base, coqMap(s.mem, base), s.visK, s.visS)
}

// ---------- real sentinel ticker ----------

type tickerRes struct {
	expected, observed, lost int
	detail                   map[string]interface{}
}

func runTicker(r *vhlib.Rng) tickerRes {
	const interval = 10 * ms
	def := defNonPositive[r.Intn(len(defNonPositive))]
	c := bcache.New[int, int](bcomparator.IntComparator(), bcache.SetDefaultExpire[int, int](def),
		bcache.SetInternal[int, int](interval), bcache.SetCapture[int, int](func(int, int) {}))
	live := map[int]int{}
	n := r.Range(6, 14)
	short := 0
	var calls []string
	for k := 0; k < n; k++ {
		v := 1000 + k
		switch r.Intn(8) {
		case 7: // a TTL so large that now + ttl overflows int64: the deadline wraps negative, the entry never expires
			d := []time.Duration{time.Duration(math.MaxInt64), year250}[r.Intn(2)]
			c.Set(k, v, d)
			live[k] = v
			calls = append(calls, fmt.Sprintf("Set(%d,%d,%s)", k, v, d))
		case 6: // default TTL kind on a cache without a positive default: stored without expiry
			switch r.Intn(3) {
			case 0:
				c.Set(k, v, bcache.DefaultExpire)
			case 1:
				c.SetDefault(k, v)
			case 2:
				c.SetIfAbsent(k, v, bcache.DefaultExpire)
			}
			live[k] = v
			calls = append(calls, fmt.Sprintf("Set/SetDefault/SetIfAbsent(%d,%d,DefaultExpire) on default %s", k, v, durStr(def)))
		case 5: // timed, then an entry without expiry LOADED over it
			c.Set(k, v, 40*ms)
			if err := c.Load([]byte(fmt.Sprintf(`{"%d":{"Value":%d,"Expire":0}}`, k, v+700))); err != nil {
				panic(err)
			}
			live[k] = v + 700
			calls = append(calls, fmt.Sprintf("Set(%d,%d,40ms);Load({%d:{%d,untimed}})", k, v, k, v+700))
		case 0, 1:
			c.Set(k, v, 40*ms)
			short++
			calls = append(calls, fmt.Sprintf("Set(%d,%d,40ms)", k, v))
		case 2:
			c.SetNoExpire(k, v)
			live[k] = v
			calls = append(calls, fmt.Sprintf("SetNoExpire(%d,%d)", k, v))
		case 3:
			c.Set(k, v, 10*time.Second)
			live[k] = v
			calls = append(calls, fmt.Sprintf("Set(%d,%d,10s)", k, v))
		case 4: // timed, then stored again without expiry
			c.Set(k, v, 40*ms)
			c.SetNoExpire(k, v+500)
			live[k] = v + 500
			calls = append(calls, fmt.Sprintf("Set(%d,%d,40ms);SetNoExpire(%d,%d)", k, v, k, v+500))
		}
	}
	stored := time.Now()
	for time.Since(stored) < 45*ms {
		time.Sleep(5 * ms)
	}
	// allowance: 10 intervals of a reference ticker of our own; a tick that arrives late (starvation) does not count
	tk := time.NewTicker(interval)
	good, total := 0, 0
	prev := time.Now()
	for good < 10 && total < 200 {
		t := <-tk.C
		total++
		if t.Sub(prev) < 2*interval+5*ms {
			good++
		}
		prev = t
	}
	tk.Stop()
	res := tickerRes{expected: len(live)}
	res.observed = c.Count()
	for k, v := range live {
		if got, ok := c.Get(k); !ok || got != v {
			res.lost++
		}
	}
	res.detail = map[string]interface{}{"interval": "10ms", "calls": calls, "short_lived": short, "expected_count": res.expected,
		"observed_count": res.observed, "live_entries_missing": res.lost, "reference_ticks": total}
	return res
}

// MainC12 is the whole C12 harness (cmd/c12).
func MainC12() {
	o := vhlib.ParseOpts()
	rng := vhlib.NewRng(o.Seed)
	w := vhlib.NewWriter(o.Out, "From VF Require Import Common.Base C12.Model C12.Race C12.Check.\nLocal Open Scope Z_scope.", "case", "mismatches", 150)

	nTraces, nTick, par := 2400, 32, 64
	if o.Thorough() {
		nTraces, nTick = 16000, 200
	}
	if o.Extra != "" {
		if n, err := strconv.Atoi(o.Extra); err == nil {
			nTraces = n
		}
	}
	plans := make([]plan, nTraces)
	for i := range plans {
		plans[i] = makePlan(rng.Fork(), i)
	}
	results := make([]traceRes, nTraces)
	var wg sync.WaitGroup
	next := make(chan int)
	for g := 0; g < par; g++ {
		wg.Add(1)
		go func() {
			defer wg.Done()
			for i := range next {
				results[i] = runTrace(plans[i])
			}
		}()
	}
	for i := range plans {
		next <- i
	}
	close(next)
	wg.Wait()

	dropped := map[string]int{}
	windowSteps, totalSteps, decidedTraces, kept := 0, 0, 0, 0
	for i, r := range results {
		if r.dropped != "" {
			if strings.HasPrefix(r.dropped, "PANIC") {
				w.Violation(plans[i].profile, "panic", r.dropped)
				dropped["panic"]++
			} else {
				dropped[r.dropped]++
			}
			continue
		}
		kept++
		steps := make([]string, len(r.steps))
		labels := make([]string, len(r.steps))
		desc := make([]string, len(r.steps))
		base := r.t0
		timed, dec := false, true
		for j, s := range r.steps {
			steps[j] = s.coq(r.t0)
			labels[j] = s.label
			desc[j] = s.describe(base)
			for _, e := range s.mem {
				if e.Expire != 0 {
					timed = true
				}
			}
			totalSteps++
			if s.window {
				windowSteps++
				dec = false
			}
		}
		if dec {
			decidedTraces++
		}
		term := fmt.Sprintf("CTrace %s %d %d %s", vhlib.Z(int64(plans[i].def)), gran, r.t0, vhlib.List(steps))
		w.Case(term, plans[i].profile, timed && len(r.steps) >= 8, labels,
			map[string]interface{}{"profile": plans[i].profile, "default_expire": plans[i].def.String(),
				"config":      fmt.Sprintf("SetDefaultExpire option given: %v; capture kind %d", !plans[i].noDefOpt, plans[i].capture),
				"t0_unixnano": base, "steps": desc})
	}
	// real ticker
	tres := make([]tickerRes, nTick)
	var wg2 sync.WaitGroup
	for i := 0; i < nTick; i++ {
		wg2.Add(1)
		tr := rng.Fork()
		go func(i int) {
			defer wg2.Done()
			tres[i] = runTicker(tr)
		}(i)
	}
	wg2.Wait()
	for _, t := range tres {
		w.Case(fmt.Sprintf("CTicker %s %s %s", vhlib.Nat(t.expected), vhlib.Nat(t.observed), vhlib.Nat(t.lost)),
			"ticker", true, []string{"Count-after-10-intervals"}, t.detail)
	}
	// concurrent race rounds (race.go)
	nBatches := 40
	if o.Thorough() {
		nBatches = 400
	}
	emitRaces(w, rng.Fork(), nBatches, 48)
	nLoop, nTickRace, sweepBudget := 60, 20, 4*time.Second
	if o.Thorough() {
		nLoop, nTickRace, sweepBudget = 600, 200, 40*time.Second
	}
	emitSweepRaces(w, rng.Fork(), nLoop, nTickRace, sweepBudget)
	defDist := map[string]int{}
	for _, pl := range plans {
		key := durStr(pl.def)
		if pl.def == 0 {
			key = "0"
			if pl.noDefOpt {
				key = "0 (no option)"
			}
		}
		defDist[key]++
	}
	w.Notes["default_expire_of_traces"] = defDist
	w.Notes["traces_run"] = nTraces
	w.Notes["traces_kept"] = kept
	w.Notes["traces_dropped"] = dropped
	w.Notes["steps_total"] = totalSteps
	w.Notes["steps_with_a_deadline_inside_the_call_bracket"] = windowSteps
	w.Notes["traces_with_no_deadline_inside_any_bracket(decided)"] = decidedTraces
	w.Close(o, "one case = one trace of 8..25 API calls on a fresh cache (keys 0..3, every stored value unique), each call bracketed by two wall-clock readings (validated against the monotonic clock; traces with a clock step are dropped and counted in notes) with the member map and deadline index dumped after it; distinct = distinct case terms (always, since instants differ); non-trivial = at least 8 steps and some timed entry was stored; plus one case per real-ticker run (10 ms sentinel); plus one CRace case per concurrent race round (one key of a shared cache: expired unevicted entry, getters and writers released together, epilogue read) and one Count/Export case per race batch")
}
