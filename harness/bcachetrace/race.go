package bcachetrace

// Concurrent stream for C12: race rounds on ONE shared cache (sweeper off, so the lazy path of get/replace is
// the only evictor). A batch stores a short-lived entry under every key, waits past the deadlines, and then
// runs one round per key: G getter goroutines calling GetWithExpire(k) repeatedly and W writer goroutines each
// storing once (SetNoExpire / Set with a long, wrapping or no TTL / SetDefault / SetIfAbsent / Replace, unique
// values), all released together from a spin barrier. After the join the epilogue reads the key. Nothing deletes
// (no Delete, no Clear, no sweep) and nothing stored in the round can expire, so every linearisation agrees on:
// a racing Get misses or returns a store of the round that took effect; the epilogue Get returns such a store
// and may miss only when no store took effect. Judged inside Coq: C12.Check.CRace (RaceProofs.race_complete).
// A batch-level case checks Count and Export against the epilogue reads.

import (
	"fmt"
	"math"
	"runtime"
	"runtime/debug"
	"sort"
	"strings"
	"sync"
	"sync/atomic"
	"time"

	"github.com/songzhibin97/go-baseutils/app/bcache"
	"github.com/songzhibin97/go-baseutils/base/bcomparator"

	"vh/vhlib"
)

type raceStore struct {
	kind string
	op   string // Coq op
	a, b int64
	ok   bool // unconditional, or the conditional store reported true
	desc string
}

type raceObs struct {
	hit bool
	v   int
	d   int64 // shown deadline (0 = zero time)
}

type raceRound struct {
	key    int
	stores []raceStore
	gets   []raceObs
	ngets  int
	final  raceObs
}

type raceBatch struct {
	t0       int64
	def      time.Duration
	rounds   []raceRound
	skipped  int
	count    int // Count() after all epilogues
	hits     int // keys whose epilogue read hit
	badExp   int // exported entries that disagree with the epilogue read of their key
	exported int
}

var raceDefaults = []time.Duration{0, bcache.NoExpire, -5 * ms, time.Hour, time.Duration(math.MaxInt64), 10 * time.Second}
var raceLong = []time.Duration{10 * time.Second, time.Hour, time.Duration(math.MaxInt64), year250, 10 * time.Second}

type wplan struct {
	kind  int
	ttl   time.Duration
	v     int
	yield int
}

func planWriter(r *vhlib.Rng, v int) wplan {
	p := wplan{kind: r.Intn(7), v: v, yield: r.Intn(3)}
	switch r.Intn(3) {
	case 0:
		p.ttl = bcache.NoExpire
	case 1:
		p.ttl = bcache.DefaultExpire
	case 2:
		p.ttl = raceLong[r.Intn(len(raceLong))]
	}
	return p
}

// raceStoreCall performs one writer call of a race round and records its bracket and outcome
func raceStoreCall(c *bcache.BCache[int, int], def time.Duration, k int, p wplan) raceStore {
	st := raceStore{ok: true}
	var t0, t1 time.Time
	switch p.kind {
	case 0, 1:
		st.kind, st.op = "SetNoExpire", fmt.Sprintf("OSet %d %d (-1)", k, p.v)
		st.desc = fmt.Sprintf("SetNoExpire(%d,%d)", k, p.v)
		t0 = time.Now()
		c.SetNoExpire(k, p.v)
		t1 = time.Now()
	case 2:
		st.kind, st.op = "Set", fmt.Sprintf("OSet %d %d %s", k, p.v, vhlib.Z(int64(p.ttl)))
		st.desc = fmt.Sprintf("Set(%d,%d,%s)", k, p.v, durStr(p.ttl))
		t0 = time.Now()
		c.Set(k, p.v, p.ttl)
		t1 = time.Now()
	case 3:
		st.kind, st.op = "SetDefault", fmt.Sprintf("OSet %d %d %s", k, p.v, vhlib.Z(int64(def)))
		st.desc = fmt.Sprintf("SetDefault(%d,%d)", k, p.v)
		t0 = time.Now()
		c.SetDefault(k, p.v)
		t1 = time.Now()
	case 4, 5:
		st.kind, st.op = "SetIfAbsent", fmt.Sprintf("OSetIfAbsent %d %d %s", k, p.v, vhlib.Z(int64(p.ttl)))
		t0 = time.Now()
		st.ok = c.SetIfAbsent(k, p.v, p.ttl)
		t1 = time.Now()
		st.desc = fmt.Sprintf("SetIfAbsent(%d,%d,%s)=%v", k, p.v, durStr(p.ttl), st.ok)
	case 6:
		st.kind, st.op = "Replace", fmt.Sprintf("OReplace %d %d %s", k, p.v, vhlib.Z(int64(p.ttl)))
		t0 = time.Now()
		st.ok = c.Replace(k, p.v, p.ttl)
		t1 = time.Now()
		st.desc = fmt.Sprintf("Replace(%d,%d,%s)=%v", k, p.v, durStr(p.ttl), st.ok)
	}
	st.a, st.b = t0.UnixNano(), t1.UnixNano()
	return st
}

// racePanic keeps the first panic of the code under test raised inside a race goroutine
var (
	racePanicMu sync.Mutex
	racePanic   string
)

// raceGuard: deferred in every race goroutine: a panic of the code under test is recorded (and reported as a
// violation) instead of killing the harness; writers are counted down even then so that nobody spins for ever
func raceGuard(wg *sync.WaitGroup, writersLeft *int32) {
	if r := recover(); r != nil {
		racePanicMu.Lock()
		if racePanic == "" {
			racePanic = fmt.Sprintf("%v\n%s", r, debug.Stack())
		}
		racePanicMu.Unlock()
	}
	if writersLeft != nil {
		atomic.AddInt32(writersLeft, -1)
	}
	wg.Done()
}

func reportRacePanics(w *vhlib.Writer, label string) {
	racePanicMu.Lock()
	p := racePanic
	racePanic = ""
	racePanicMu.Unlock()
	if p != "" {
		w.Violation(label, "panic", p)
	}
}

func obsCoq(o raceObs, t0 int64) string {
	if !o.hit {
		return "None"
	}
	return vhlib.Opt(true, vhlib.Pair(vhlib.Z(int64(o.v)), relZ(o.d, t0)))
}

func runRaceBatch(r *vhlib.Rng, nKeysBatch int, batchNo int) raceBatch {
	def := raceDefaults[r.Intn(len(raceDefaults))]
	var capt func(int, int)
	if r.Bool() {
		capt = func(int, int) {}
	}
	c := bcache.New[int, int](bcomparator.IntComparator(), bcache.SetDefaultExpire[int, int](def), bcache.SetCapture[int, int](capt))
	res := raceBatch{t0: time.Now().UnixNano(), def: def}
	shortTTL := time.Duration(1+r.Intn(3)) * ms
	for k := 0; k < nKeysBatch; k++ {
		c.Set(k, -(k + 1), shortTTL)
	}
	time.Sleep(shortTTL + 2*ms)
	mem, _ := c.VerifDump()
	val := 0
	for k := 0; k < nKeysBatch; k++ {
		e, ok := mem[k]
		if !ok || e.Value != -(k+1) || e.Expire <= 0 || time.Now().UnixNano() <= e.Expire {
			res.skipped++
			continue
		}
		nG, nW := 1+r.Intn(4), 1+r.Intn(3)
		rd := raceRound{key: k, stores: make([]raceStore, nW)}
		wp := make([]wplan, nW)
		for i := range wp {
			val++
			wp[i] = planWriter(r, batchNo*100000+val)
		}
		gyield := make([]int, nG)
		for i := range gyield {
			gyield[i] = r.Intn(2)
		}
		var gate, writersLeft int32
		writersLeft = int32(nW)
		var ready, wg sync.WaitGroup
		ready.Add(nG + nW)
		wg.Add(nG + nW)
		gobs := make([][]raceObs, nG)
		gcnt := make([]int, nG)
		for gi := 0; gi < nG; gi++ {
			go func(gi int) {
				defer raceGuard(&wg, nil)
				ready.Done()
				for atomic.LoadInt32(&gate) == 0 {
				}
				for y := 0; y < gyield[gi]; y++ {
					runtime.Gosched()
				}
				var local []raceObs
				for n := 0; n < 80; n++ {
					v, tt, ok := c.GetWithExpire(k)
					gcnt[gi]++
					o := raceObs{hit: ok, v: v}
					if ok && !tt.IsZero() {
						o.d = tt.UnixNano()
					}
					if len(local) < 3 || (len(local) < 12 && local[len(local)-1] != o) {
						local = append(local, o)
					}
					if atomic.LoadInt32(&writersLeft) == 0 && n >= 2 {
						break
					}
				}
				gobs[gi] = local
			}(gi)
		}
		for wi := 0; wi < nW; wi++ {
			go func(wi int) {
				defer raceGuard(&wg, &writersLeft)
				p := wp[wi]
				var st raceStore
				ready.Done()
				for atomic.LoadInt32(&gate) == 0 {
				}
				for y := 0; y < p.yield; y++ {
					runtime.Gosched()
				}
				st = raceStoreCall(c, def, k, p)
				rd.stores[wi] = st
			}(wi)
		}
		ready.Wait()
		atomic.StoreInt32(&gate, 1)
		wg.Wait()
		for gi := range gobs {
			rd.gets = append(rd.gets, gobs[gi]...)
			rd.ngets += gcnt[gi]
		}
		v, tt, ok := c.GetWithExpire(k)
		rd.final = raceObs{hit: ok, v: v}
		if ok && !tt.IsZero() {
			rd.final.d = tt.UnixNano()
		}
		res.rounds = append(res.rounds, rd)
	}
	// batch epilogue: every key read once more (evicts leftovers lazily), then Count and Export
	finals := map[int]raceObs{}
	for k := 0; k < nKeysBatch; k++ {
		v, _, ok := c.GetWithExpire(k)
		if ok {
			finals[k] = raceObs{hit: true, v: v}
			res.hits++
		}
	}
	res.count = c.Count()
	if blob, err := c.Export(); err == nil {
		if m, err := parseBlob(blob); err == nil {
			res.exported = len(m)
			for k, e := range m {
				if f, ok := finals[k]; !ok || f.v != e.Value {
					res.badExp++
				}
			}
			if len(m) != len(finals) {
				res.badExp++
			}
		} else {
			res.badExp++
		}
	} else {
		res.badExp++
	}
	return res
}

// emitRaces runs the batches and writes one CRace case per round and one CTicker-shaped case per batch.
func emitRaces(w *vhlib.Writer, rng *vhlib.Rng, nBatches, nKeysBatch int) {
	if runtime.GOMAXPROCS(0) < 4 {
		runtime.GOMAXPROCS(4)
	}
	start := time.Now()
	rounds, skipped, gets, missEpilogue := 0, 0, 0, 0
	budget := time.Duration(nBatches) * 250 * time.Millisecond // 10 s for the quick tier; a loaded machine runs fewer rounds
	batchesRun := 0
	for b := 0; b < nBatches; b++ {
		if time.Since(start) > budget {
			break
		}
		batchesRun++
		var br raceBatch
		if p, v := vhlib.Recover(func() { br = runRaceBatch(rng.Fork(), nKeysBatch, b+1) }); p {
			w.Violation("race expired-get vs store", "panic", fmt.Sprintf("%v\n%s", v, debug.Stack()))
			continue
		}
		reportRacePanics(w, "race expired-get vs store")
		skipped += br.skipped
		for _, rd := range br.rounds {
			rounds++
			gets += rd.ngets
			stores := make([]string, len(rd.stores))
			kinds := map[string]bool{}
			var desc []string
			for i, s := range rd.stores {
				stores[i] = fmt.Sprintf("{| r_op := %s; r_a := %s; r_b := %s; r_ok := %s |}", s.op, vhlib.Z(s.a-br.t0), vhlib.Z(s.b-s.a), vhlib.Bool(s.ok))
				kinds[s.kind] = true
				desc = append(desc, fmt.Sprintf("%s @[%d,%d]", s.desc, s.a-br.t0, s.b-br.t0))
			}
			var ks []string
			for k := range kinds {
				ks = append(ks, k)
			}
			sort.Strings(ks)
			gs := make([]string, len(rd.gets))
			var gdesc []string
			for i, o := range rd.gets {
				gs[i] = obsCoq(o, br.t0)
				gdesc = append(gdesc, fmt.Sprintf("%v", o))
			}
			if !rd.final.hit {
				missEpilogue++
			}
			term := fmt.Sprintf("CRace %s %d %s %s %s", vhlib.Z(int64(br.def)), br.t0, vhlib.List(stores), vhlib.List(gs), obsCoq(rd.final, br.t0))
			w.Case(term, "race expired-get vs store", true,
				[]string{"epilogue Get after " + strings.Join(ks, "+"), "racing Get"},
				map[string]interface{}{"default_expire": br.def.String(), "key": rd.key,
					"before":            fmt.Sprintf("Set(%d,%d,1-3ms) expired and not evicted (no sweeper)", rd.key, -(rd.key + 1)),
					"concurrent_stores": desc, "concurrent_GetWithExpire_calls": rd.ngets, "recorded_racing_gets{hit v d}": gdesc,
					"epilogue_GetWithExpire{hit v d}": fmt.Sprintf("%v", rd.final)})
		}
		w.Case(fmt.Sprintf("CTicker %s %s %s", vhlib.Nat(br.hits), vhlib.Nat(br.count), vhlib.Nat(br.badExp)),
			"race batch", true, []string{"Count/Export after the rounds"},
			map[string]interface{}{"keys_read_back": br.hits, "Count": br.count, "exported_entries": br.exported,
				"exported_entries_disagreeing_with_Get": br.badExp})
	}
	w.Notes["race_batches_run_of_planned"] = fmt.Sprintf("%d/%d", batchesRun, nBatches)
	w.Notes["race_rounds"] = rounds
	w.Notes["race_keys_skipped(old entry not expired in time)"] = skipped
	w.Notes["race_concurrent_get_calls"] = gets
	w.Notes["race_rounds_whose_epilogue_missed(no store took effect)"] = missEpilogue
	w.Notes["race_seconds"] = fmt.Sprintf("%.1f", time.Since(start).Seconds())
	w.Notes["race_gomaxprocs"] = runtime.GOMAXPROCS(0)
}
