#!/bin/bash
# usage: keep_seed.sh <delivered_dir> <name>   (verifies against the fully repaired reference tree, then stores under /verif/seeded/<name>)
D=$1; N=$2; BASE=$(cat /verif/tools/FINAL_TREE_COMMIT.txt)
out=$(/verif/tools/verify_seed.sh "$D" "$BASE" 2>&1); rc=$?
echo "$out" | tail -6
[ $rc = 0 ] || { echo "NOT KEPT: $N"; exit 1; }
mkdir -p /verif/seeded/$N; cp "$D"/patch.diff "$D"/demo_test.go "$D"/meta.json /verif/seeded/$N/
python3 - "$N" "$BASE" <<'PY'
import json,sys
p='/verif/seeded/%s/meta.json'%sys.argv[1]
m=json.load(open(p)); m['confirmed_by']='tools/verify_seed.sh (builds, baseline stable_pass all pass with the change, demo fails with / passes without)'; m['base_commit']=sys.argv[2]
json.dump(m,open(p,'w'),indent=1)
PY
echo "KEPT: $N"
