#!/bin/bash
# usage: run_seed_wt.sh <seed-name> [ID] [tier]
# Like run_seed.sh, but never touches /repo: the seeded change is applied to a scratch worktree of /repo's HEAD and the
# check runs against it through VERIF_REPO (own work directory per seed, so several can run side by side).
N=$1; ID=${2:-$(python3 -c "import json;print(json.load(open('/verif/seeded/$N/meta.json'))['property'])")}; T=${3:-quick}
WT=/tmp/seedrun_$N
git -C /repo worktree add --detach "$WT" HEAD >/dev/null 2>&1 || { echo "worktree failed"; exit 2; }
cleanup() { git -C /repo worktree remove --force "$WT" >/dev/null 2>&1; rm -rf "$WT" /verif/work_seed_$N; }
trap cleanup EXIT
git -C "$WT" apply /verif/seeded/$N/patch.diff || { echo "patch does not apply"; exit 2; }
cd /verif
cp evidence/$ID.json /tmp/evidence_keep_$N.json 2>/dev/null
VERIF_REPO="$WT" VERIF_WORK=/verif/work_seed_$N timeout 1500 bin/check $ID $T 2>&1 | tail -3 > /tmp/run_seed_$N.txt
cp /tmp/evidence_keep_$N.json evidence/$ID.json 2>/dev/null; rm -f /tmp/evidence_keep_$N.json
cat /tmp/run_seed_$N.txt
python3 - "$N" "$ID" "$T" <<'PY'
import json,sys,subprocess
n,i,t=sys.argv[1:4]
txt=open("/tmp/run_seed_%s.txt"%n).read()
res="MISSED"
if "VIOLATION" in txt: res="caught (no-failing-input-found)" if "no-failing-input-found" in txt else "caught (failing input replayed)"
open("/verif/seeded/results.jsonl","a").write(json.dumps({"seed":n,"check":i,"tier":t,"result":res,"summary":txt.strip().splitlines()[-1] if txt.strip() else "","repo_head":subprocess.check_output(["git","-C","/repo","rev-parse","--short","HEAD"],text=True).strip(),"via":"VERIF_REPO scratch worktree"})+"\n")
print("==>",n,res)
PY
