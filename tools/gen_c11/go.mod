module gen_c11

go 1.18
