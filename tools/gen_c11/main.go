// gen_c11: lock-table translator for property C11 (DESIGN.md §4 C11).
//
// Reads the Go sources of every type the library offers as concurrency-safe (structure/**/**_safe.go,
// base/bslice/*.go, base/bmap/*.go, structure/sets/zset/*.go, app/bcache/bcache.go,
// base/bobjectstorage/bobjectstorage.go) with go/parser + go/ast only (no type checker, no external
// dependency) and emits, for each method of each guarded type, one record
//
//	{type; method; exported; guard ∈ {Excl, Shared, NoLock, Irregular, Exposes}; delegate; calls; self; selfloop;
//	 mutates; touches; why; line}
//
// as a Coq list (coq/theories/C11/Gen/LockTables.v, re-checked by C11/Obligation.v : LockTables_ok) and as
// JSON for the Go harness ($VERIF_WORK/C11/locktables.json) together with the entries this program itself
// believes to be offending (a search hint for the harness; the authoritative decision is Coq's check_tables,
// and the two are compared on every run by a C11 case).
//
// Unverified glue (DESIGN.md §7). Everything is syntactic:
//   - guarded type      = struct with a sync.Mutex/sync.RWMutex field (named or embedded), or embedding such a struct;
//   - regular method    = `recv.<lock>.Lock()|RLock()` as a top-level statement, directly followed by the matching
//     `defer recv.<lock>.Unlock()|RUnlock()` (or released explicitly with no return in between), nothing that
//     touches mutable guarded state before it;
//   - guarded state     = every field of the type that some method writes or calls a method through
//     (fields only ever read, e.g. bCache.defaultExpire, are configuration and may be read without the lock);
//   - mutates           = assignment / ++ / delete / copy-into / address-of on guarded state or on a local alias of it;
//   - calls             = (kind, method) for every method called on a guarded field and every function that is
//     passed guarded state; whether a callee is read-only is decided in Coq (C11/Classify.v);
//   - unexported methods that take no lock are helpers and are inlined into their callers.
package main

import (
	"encoding/json"
	"flag"
	"fmt"
	"go/ast"
	"go/parser"
	"go/token"
	"os"
	"path/filepath"
	"regexp"
	"sort"
	"strings"
)

// ---------------------------------------------------------------------------------------------------------
// package model

type field struct {
	name     string
	typ      ast.Expr
	embedded bool
}

type structT struct {
	pkg    *pkgInfo
	name   string
	fields []field
	file   string
	target bool // declared in one of the files the property anchors
}

type pkgInfo struct {
	name    string
	dir     string
	fset    *token.FileSet
	files   map[string]*ast.File
	structs map[string]*structT
	types   map[string]bool                     // every declared type name
	methods map[string]map[string]*ast.FuncDecl // receiver type -> method -> decl
	funcs   map[string]*ast.FuncDecl
	declOf  map[*ast.FuncDecl]string // file
	imports map[string]bool
}

func baseType(e ast.Expr) ast.Expr {
	for {
		switch t := e.(type) {
		case *ast.StarExpr:
			e = t.X
		case *ast.ParenExpr:
			e = t.X
		case *ast.IndexExpr:
			e = t.X
		case *ast.IndexListExpr:
			e = t.X
		default:
			return e
		}
	}
}

func isMutexType(e ast.Expr) (bool, bool) { // (is mutex, is RW)
	if s, ok := baseType(e).(*ast.SelectorExpr); ok {
		if x, ok := s.X.(*ast.Ident); ok && x.Name == "sync" {
			switch s.Sel.Name {
			case "Mutex":
				return true, false
			case "RWMutex":
				return true, true
			}
		}
	}
	return false, false
}

func (p *pkgInfo) typeKey(e ast.Expr) string {
	switch t := baseType(e).(type) {
	case *ast.Ident:
		if p.types[t.Name] {
			return p.name + "." + t.Name
		}
		return "t:" + t.Name
	case *ast.SelectorExpr:
		if x, ok := t.X.(*ast.Ident); ok {
			return x.Name + "." + t.Sel.Name
		}
	case *ast.ArrayType:
		return "goslice"
	case *ast.MapType:
		return "gomap"
	case *ast.FuncType:
		return "gofunc"
	case *ast.InterfaceType:
		return "goiface"
	case *ast.ChanType:
		return "gochan"
	}
	return "?"
}

func (p *pkgInfo) localStruct(e ast.Expr) *structT {
	if id, ok := baseType(e).(*ast.Ident); ok {
		return p.structs[id.Name]
	}
	return nil
}

func loadPkg(dir string, targets map[string]bool) (*pkgInfo, error) {
	fset := token.NewFileSet()
	ents, err := os.ReadDir(dir)
	if err != nil {
		return nil, err
	}
	p := &pkgInfo{dir: dir, fset: fset, files: map[string]*ast.File{}, structs: map[string]*structT{}, types: map[string]bool{},
		methods: map[string]map[string]*ast.FuncDecl{}, funcs: map[string]*ast.FuncDecl{}, declOf: map[*ast.FuncDecl]string{}, imports: map[string]bool{}}
	for _, e := range ents {
		n := e.Name()
		if e.IsDir() || !strings.HasSuffix(n, ".go") || strings.HasSuffix(n, "_test.go") || strings.HasSuffix(n, "_verif.go") {
			continue
		}
		path := filepath.Join(dir, n)
		f, err := parser.ParseFile(fset, path, nil, parser.ParseComments)
		if err != nil {
			return nil, fmt.Errorf("%s: %v", path, err)
		}
		p.name = f.Name.Name
		p.files[path] = f
		for _, im := range f.Imports {
			nm := strings.Trim(im.Path.Value, `"`)
			if i := strings.LastIndex(nm, "/"); i >= 0 {
				nm = nm[i+1:]
			}
			if im.Name != nil {
				nm = im.Name.Name
			}
			p.imports[nm] = true
		}
		for _, d := range f.Decls {
			switch d := d.(type) {
			case *ast.GenDecl:
				for _, s := range d.Specs {
					ts, ok := s.(*ast.TypeSpec)
					if !ok {
						continue
					}
					p.types[ts.Name.Name] = true
					st, ok := ts.Type.(*ast.StructType)
					if !ok {
						continue
					}
					S := &structT{pkg: p, name: ts.Name.Name, file: path, target: targets[path]}
					for _, fl := range st.Fields.List {
						if len(fl.Names) == 0 {
							nm := "?"
							switch b := baseType(fl.Type).(type) {
							case *ast.Ident:
								nm = b.Name
							case *ast.SelectorExpr:
								nm = b.Sel.Name
							}
							S.fields = append(S.fields, field{name: nm, typ: fl.Type, embedded: true})
						}
						for _, nm := range fl.Names {
							S.fields = append(S.fields, field{name: nm.Name, typ: fl.Type})
						}
					}
					p.structs[S.name] = S
				}
			case *ast.FuncDecl:
				p.declOf[d] = path
				if d.Recv == nil || len(d.Recv.List) == 0 {
					p.funcs[d.Name.Name] = d
					continue
				}
				if id, ok := baseType(d.Recv.List[0].Type).(*ast.Ident); ok {
					if p.methods[id.Name] == nil {
						p.methods[id.Name] = map[string]*ast.FuncDecl{}
					}
					p.methods[id.Name][d.Name.Name] = d
				}
			}
		}
	}
	return p, nil
}

// hasLock: the struct owns a mutex, directly or through embedded local structs.
func (p *pkgInfo) hasLock(S *structT, seen map[*structT]bool) bool {
	if S == nil || seen[S] {
		return false
	}
	seen[S] = true
	for _, f := range S.fields {
		if m, _ := isMutexType(f.typ); m {
			return true
		}
		if f.embedded && p.hasLock(p.localStruct(f.typ), seen) {
			return true
		}
	}
	return false
}

// findField looks a field up in S or, through embedded local structs, in promoted position. viaEmb reports
// whether the field found is itself an embedded one.
func (p *pkgInfo) findField(S *structT, name string, depth int) (*field, *structT) {
	if S == nil || depth > 6 {
		return nil, nil
	}
	for i := range S.fields {
		if S.fields[i].name == name {
			return &S.fields[i], S
		}
	}
	for i := range S.fields {
		if S.fields[i].embedded {
			if f, o := p.findField(p.localStruct(S.fields[i].typ), name, depth+1); f != nil {
				return f, o
			}
		}
	}
	return nil, nil
}

// findMethod: the struct (S or one it embeds) that declares method name.
func (p *pkgInfo) findMethod(S *structT, name string, depth int) *structT {
	if S == nil || depth > 6 {
		return nil
	}
	if p.methods[S.name][name] != nil {
		return S
	}
	for i := range S.fields {
		if S.fields[i].embedded {
			if o := p.findMethod(p.localStruct(S.fields[i].typ), name, depth+1); o != nil {
				return o
			}
		}
	}
	return nil
}

func (p *pkgInfo) embedsMutex(S *structT, depth int) bool {
	if S == nil || depth > 6 {
		return false
	}
	for _, f := range S.fields {
		if !f.embedded {
			continue
		}
		if m, _ := isMutexType(f.typ); m {
			return true
		}
		if p.embedsMutex(p.localStruct(f.typ), depth+1) {
			return true
		}
	}
	return false
}

var lockNames = map[string]bool{"Lock": true, "Unlock": true, "RLock": true, "RUnlock": true}

type resolved struct {
	what   string // "lock" | "field" | "method" | "self"
	fid    string // id of the first non-embedded field on the path: "Owner.field"
	kind   string // type key of the object a method is called on
	name   string // method name / lock op
	declT  *structT
	fieldT ast.Expr
}

// resolve walks recv.n1.n2...nk through the package-local struct declarations.
func (p *pkgInfo) resolve(T *structT, names []string) resolved {
	cur := T
	curKey := p.name + "." + T.name
	fid := ""
	embOnly := true
	var lastT ast.Expr
	for i, n := range names {
		last := i == len(names)-1
		if cur != nil {
			if f, owner := p.findField(cur, n, 0); f != nil {
				if m, _ := isMutexType(f.typ); m {
					if !last && lockNames[names[i+1]] {
						return resolved{what: "lock", name: names[i+1]}
					}
					return resolved{what: "lock", name: "?" + strings.Join(names[i+1:], ".")}
				}
				if !f.embedded {
					embOnly = false
					if fid == "" {
						fid = owner.name + "." + f.name
					}
				}
				lastT = f.typ
				cur = p.localStruct(f.typ)
				curKey = p.typeKey(f.typ)
				continue
			}
			if lockNames[n] && p.embedsMutex(cur, 0) && embOnly {
				return resolved{what: "lock", name: n}
			}
			if embOnly {
				return resolved{what: "self", name: n, declT: p.findMethod(cur, n, 0)}
			}
			return resolved{what: "method", fid: fid, kind: curKey, name: n}
		}
		// foreign or non-struct type: the rest is a method (if last) or an unknown field path
		if last {
			return resolved{what: "method", fid: fid, kind: curKey, name: n}
		}
		curKey = curKey + "." + n
	}
	return resolved{what: "field", fid: fid, kind: curKey, fieldT: lastT}
}

// ---------------------------------------------------------------------------------------------------------
// body walker

type event struct {
	top    int    // index of the enclosing top-level statement
	depth  int    // 0 = the top-level statement itself
	what   string // lock | read | write | call | self | return
	fid    string
	kind   string
	name   string
	defer_ bool
	loop   bool
	declT  *structT
	pos    token.Pos
}

type walker struct {
	p       *pkgInfo
	T       *structT
	recv    string
	events  []event
	tainted map[*ast.Object]bool
	params  map[string]string // parameter name -> package-local type name
	top     int
	depth   int
	loop    bool
	inDefer bool
}

func unparen(e ast.Expr) ast.Expr {
	for {
		if p, ok := e.(*ast.ParenExpr); ok {
			e = p.X
		} else {
			return e
		}
	}
}

// chain decomposes a pure selector chain root.n1.n2...; index/star/paren in the middle are transparent.
func chain(e ast.Expr) (*ast.Ident, []string, bool) {
	switch t := e.(type) {
	case *ast.Ident:
		return t, nil, true
	case *ast.ParenExpr:
		return chain(t.X)
	case *ast.StarExpr:
		return chain(t.X)
	case *ast.IndexExpr:
		return chain(t.X)
	case *ast.SliceExpr:
		return chain(t.X)
	case *ast.SelectorExpr:
		r, ns, ok := chain(t.X)
		if !ok {
			return nil, nil, false
		}
		return r, append(ns, t.Sel.Name), true
	}
	return nil, nil, false
}

func (w *walker) emit(ev event) {
	ev.top, ev.depth, ev.loop = w.top, w.depth, w.loop
	w.events = append(w.events, ev)
}

func (w *walker) isRecv(id *ast.Ident) bool {
	return id != nil && id.Name == w.recv && w.recv != "" && w.recv != "_"
}
func (w *walker) isTainted(id *ast.Ident) bool {
	return id != nil && id.Obj != nil && w.tainted[id.Obj]
}

// guardedRef: e denotes (part of) guarded state: a chain rooted at the receiver (other than the receiver itself)
// or at a local alias of guarded state.
func (w *walker) guardedRef(e ast.Expr) (string, bool) {
	e = unparen(e)
	if u, ok := e.(*ast.UnaryExpr); ok && u.Op == token.AND {
		e = u.X
	}
	root, names, ok := chain(e)
	if !ok {
		return "", false
	}
	if w.isRecv(root) && len(names) > 0 {
		r := w.p.resolve(w.T, names)
		if r.what == "field" || r.what == "method" {
			return r.fid, r.fid != ""
		}
		return "", false
	}
	if w.isTainted(root) {
		return "alias", true
	}
	return "", false
}

func (w *walker) derives(e ast.Expr) bool {
	e = unparen(e)
	if _, ok := w.guardedRef(e); ok {
		return true
	}
	switch t := e.(type) {
	case *ast.CallExpr:
		fun := stripInst(t.Fun)
		if s, ok := fun.(*ast.SelectorExpr); ok {
			if root, names, ok := chain(s); ok {
				if w.isTainted(root) {
					return true
				}
				if w.isRecv(root) && len(names) > 0 {
					// results of methods of the wrapped object may alias it; results of the instance's own locked
					// methods are copies, except for the accessors documented as exposing storage
					r := w.p.resolve(w.T, names)
					return r.what == "method" || r.what == "self" && exposes[r.name]
				}
			}
		}
	case *ast.TypeAssertExpr:
		return w.derives(t.X)
	case *ast.UnaryExpr:
		return w.derives(t.X)
	}
	return false
}

func stripInst(e ast.Expr) ast.Expr {
	e = unparen(e)
	switch t := e.(type) {
	case *ast.IndexExpr:
		if _, ok := unparen(t.X).(*ast.Ident); ok {
			return unparen(t.X)
		}
		if s, ok := unparen(t.X).(*ast.SelectorExpr); ok {
			if id, ok := s.X.(*ast.Ident); ok && id.Obj == nil {
				return s
			}
		}
	case *ast.IndexListExpr:
		return unparen(t.X)
	}
	return e
}

func (w *walker) touchChain(root *ast.Ident, names []string, pos token.Pos) {
	if len(names) == 0 {
		return
	}
	r := w.p.resolve(w.T, names)
	switch r.what {
	case "field":
		if r.fid != "" {
			w.emit(event{what: "read", fid: r.fid, pos: pos})
		}
	case "method": // method value, not called: treat as a read of the object
		if r.fid != "" {
			w.emit(event{what: "read", fid: r.fid, pos: pos})
		}
	}
}

func (w *walker) expr(e ast.Expr) {
	switch t := e.(type) {
	case nil:
	case *ast.CallExpr:
		w.call(t)
	case *ast.SelectorExpr:
		if root, names, ok := chain(t); ok {
			if w.isRecv(root) {
				w.touchChain(root, names, t.Pos())
			} else if w.isTainted(root) {
				w.emit(event{what: "read", fid: "alias", pos: t.Pos()})
			}
			w.indexes(t)
			return
		}
		w.expr(t.X)
	case *ast.IndexExpr:
		w.expr(t.X)
		w.expr(t.Index)
	case *ast.IndexListExpr:
		w.expr(t.X)
	case *ast.SliceExpr:
		w.expr(t.X)
		w.expr(t.Low)
		w.expr(t.High)
		w.expr(t.Max)
	case *ast.StarExpr:
		w.expr(t.X)
	case *ast.ParenExpr:
		w.expr(t.X)
	case *ast.UnaryExpr:
		if t.Op == token.AND {
			if fid, ok := w.guardedRef(t.X); ok {
				w.emit(event{what: "write", fid: fid, name: "&", pos: t.Pos()})
			}
		}
		w.expr(t.X)
	case *ast.BinaryExpr:
		w.expr(t.X)
		w.expr(t.Y)
	case *ast.KeyValueExpr:
		w.expr(t.Key)
		w.expr(t.Value)
	case *ast.CompositeLit:
		for _, el := range t.Elts {
			w.expr(el)
		}
	case *ast.TypeAssertExpr:
		w.expr(t.X)
	case *ast.FuncLit:
		d := w.depth
		w.depth++
		w.block(t.Body.List)
		w.depth = d
	case *ast.Ident:
		if w.isTainted(t) {
			w.emit(event{what: "read", fid: "alias", pos: t.Pos()})
		}
	}
}

// indexes walks the index sub-expressions buried inside a chain (x.e[i].f -> i).
func (w *walker) indexes(e ast.Expr) {
	switch t := e.(type) {
	case *ast.SelectorExpr:
		w.indexes(t.X)
	case *ast.IndexExpr:
		w.indexes(t.X)
		w.expr(t.Index)
	case *ast.SliceExpr:
		w.indexes(t.X)
		w.expr(t.Low)
		w.expr(t.High)
		w.expr(t.Max)
	case *ast.ParenExpr:
		w.indexes(t.X)
	case *ast.StarExpr:
		w.indexes(t.X)
	}
}

func (w *walker) funcCall(pkg, name string, c *ast.CallExpr, builtin bool) {
	fid, any, argpos := "", false, 0
	if !builtin && (predeclared[name] && pkg == w.p.name || w.p.types[name] && pkg == w.p.name) {
		return // conversion
	}
	for i, a := range c.Args {
		if f, ok := w.guardedRef(a); ok {
			if !any {
				fid = f
				argpos = i + 1
			}
			any = true
			if builtin && (name == "delete" || name == "copy" || name == "clear") && i == 0 {
				w.emit(event{what: "write", fid: f, name: name, pos: c.Pos()})
			}
			if builtin && name == "append" && i == 0 {
				w.emit(event{what: "call", fid: f, kind: "builtin", name: "append", pos: c.Pos()})
			}
		}
	}
	if any && !builtin {
		w.emit(event{what: "call", fid: fid, kind: "func:" + pkg, name: fmt.Sprintf("%s#%d", name, argpos), pos: c.Pos()})
	}
}

var predeclared = map[string]bool{"int": true, "int8": true, "int16": true, "int32": true, "int64": true, "uint": true, "uint8": true,
	"uint16": true, "uint32": true, "uint64": true, "uintptr": true, "float32": true, "float64": true, "string": true, "bool": true,
	"byte": true, "rune": true, "any": true, "E": true, "K": true, "V": true, "T": true}

var builtins = map[string]bool{"len": true, "cap": true, "append": true, "copy": true, "delete": true, "make": true, "new": true,
	"panic": true, "print": true, "println": true, "min": true, "max": true, "clear": true, "recover": true, "close": true,
	"complex": true, "real": true, "imag": true}

func (w *walker) call(c *ast.CallExpr) {
	fun := stripInst(c.Fun)
	switch f := fun.(type) {
	case *ast.SelectorExpr:
		root, names, ok := chain(f)
		switch {
		case ok && w.isRecv(root):
			r := w.p.resolve(w.T, names)
			switch r.what {
			case "lock":
				w.emit(event{what: "lock", name: r.name, defer_: w.inDefer, pos: c.Pos()})
			case "self":
				w.emit(event{what: "self", name: r.name, declT: r.declT, pos: c.Pos()})
			case "method":
				w.emit(event{what: "call", fid: r.fid, kind: r.kind, name: r.name, pos: c.Pos()})
			case "field": // call of a func-typed field (callback)
				if r.fid != "" {
					w.emit(event{what: "read", fid: r.fid, pos: c.Pos()})
				}
			}
			w.indexes(f)
		case ok && w.isTainted(root):
			w.emit(event{what: "call", fid: "alias", kind: "alias", name: names[len(names)-1], pos: c.Pos()})
			w.indexes(f)
		case ok && len(names) == 1 && root.Obj != nil && w.params[root.Name] != "":
			// a method called on a parameter of a package-local type (possibly another guarded instance)
			w.emit(event{what: "argcall", kind: root.Name, name: names[0], pos: c.Pos()})
		case ok && root.Obj == nil && len(names) == 1 && w.p.imports[root.Name]:
			w.funcCall(root.Name, names[0], c, false)
		default:
			w.expr(f.X)
		}
	case *ast.Ident:
		if f.Obj == nil || f.Obj.Kind == ast.Fun {
			w.funcCall(w.p.name, f.Name, c, builtins[f.Name] && f.Obj == nil)
		}
	case *ast.FuncLit:
		w.expr(f)
	default:
		w.expr(fun)
	}
	for _, a := range c.Args {
		w.expr(a)
	}
}

func (w *walker) lhs(e ast.Expr) {
	e = unparen(e)
	if id, ok := e.(*ast.Ident); ok {
		_ = id
		return // plain local (re)binding
	}
	root, names, ok := chain(e)
	if ok && w.isRecv(root) && len(names) > 0 {
		r := w.p.resolve(w.T, names)
		fid := r.fid
		if r.what == "lock" {
			fid = "lock"
		}
		w.emit(event{what: "write", fid: fid, name: "=", pos: e.Pos()})
		w.indexes(e)
		return
	}
	if ok && w.isTainted(root) {
		w.emit(event{what: "write", fid: "alias", name: "=", pos: e.Pos()})
		w.indexes(e)
		return
	}
	w.expr(e)
}

func (w *walker) taint(lhs ast.Expr, rhs ast.Expr) {
	id, ok := unparen(lhs).(*ast.Ident)
	if !ok || id.Obj == nil || id.Name == "_" {
		return
	}
	if rhs != nil && w.derives(rhs) {
		w.tainted[id.Obj] = true
	}
}

func (w *walker) block(list []ast.Stmt) {
	for _, s := range list {
		w.stmt(s)
	}
}

func (w *walker) stmt(s ast.Stmt) {
	switch t := s.(type) {
	case nil:
	case *ast.ExprStmt:
		w.expr(t.X)
	case *ast.AssignStmt:
		for _, r := range t.Rhs {
			w.expr(r)
		}
		for i, l := range t.Lhs {
			w.lhs(l)
			var r ast.Expr
			if len(t.Rhs) == len(t.Lhs) {
				r = t.Rhs[i]
			} else if len(t.Rhs) == 1 && i == 0 {
				r = t.Rhs[0]
			}
			w.taint(l, r)
		}
	case *ast.IncDecStmt:
		w.lhs(t.X)
	case *ast.DeclStmt:
		if g, ok := t.Decl.(*ast.GenDecl); ok {
			for _, sp := range g.Specs {
				if vs, ok := sp.(*ast.ValueSpec); ok {
					for _, v := range vs.Values {
						w.expr(v)
					}
					for i, nm := range vs.Names {
						if i < len(vs.Values) {
							w.taint(nm, vs.Values[i])
						}
					}
				}
			}
		}
	case *ast.ReturnStmt:
		w.emit(event{what: "return", pos: t.Pos()})
		for _, r := range t.Results {
			w.expr(r)
		}
	case *ast.DeferStmt:
		w.inDefer = true
		w.call(t.Call)
		w.inDefer = false
	case *ast.GoStmt:
		d := w.depth
		w.depth++
		w.call(t.Call)
		w.depth = d
	case *ast.BlockStmt:
		d := w.depth
		w.depth++
		w.block(t.List)
		w.depth = d
	case *ast.IfStmt:
		d := w.depth
		w.depth++
		w.stmt(t.Init)
		w.expr(t.Cond)
		w.block(t.Body.List)
		w.stmt(t.Else)
		w.depth = d
	case *ast.ForStmt:
		d, l := w.depth, w.loop
		w.depth++
		w.stmt(t.Init)
		w.loop = true
		w.expr(t.Cond)
		w.stmt(t.Post)
		w.block(t.Body.List)
		w.depth, w.loop = d, l
	case *ast.RangeStmt:
		d, l := w.depth, w.loop
		w.depth++
		w.expr(t.X)
		if t.Key != nil {
			w.taint(t.Key, nil)
		}
		if t.Value != nil {
			w.taint(t.Value, t.X)
		}
		w.loop = true
		w.block(t.Body.List)
		w.depth, w.loop = d, l
	case *ast.SwitchStmt:
		d := w.depth
		w.depth++
		w.stmt(t.Init)
		w.expr(t.Tag)
		w.block(t.Body.List)
		w.depth = d
	case *ast.TypeSwitchStmt:
		d := w.depth
		w.depth++
		w.stmt(t.Init)
		w.stmt(t.Assign)
		w.block(t.Body.List)
		w.depth = d
	case *ast.SelectStmt:
		d := w.depth
		w.depth++
		w.block(t.Body.List)
		w.depth = d
	case *ast.CaseClause:
		for _, e := range t.List {
			w.expr(e)
		}
		w.block(t.Body)
	case *ast.CommClause:
		w.stmt(t.Comm)
		w.block(t.Body)
	case *ast.LabeledStmt:
		w.stmt(t.Stmt)
	case *ast.SendStmt:
		w.expr(t.Chan)
		w.expr(t.Value)
	}
}

// ---------------------------------------------------------------------------------------------------------
// per-method summary

type Call struct {
	Kind   string `json:"kind"`
	Method string `json:"method"`
}

type summary struct {
	p        *pkgInfo
	T        *structT
	decl     *ast.FuncDecl
	name     string
	events   []event
	guard    string
	why      string
	inLo     int // events with lo < top < hi are inside the critical section
	inHi     int
	done     bool
	busy     bool
	Calls    []Call
	Self     []Call
	SelfLoop bool
	Mutates  bool
	Touches  bool
	Acquires bool // calling it acquires the instance lock (itself or through forwards)
	Delegate *Call
}

func (p *pkgInfo) summarize(T *structT, d *ast.FuncDecl) *summary {
	s := &summary{p: p, T: T, decl: d, name: d.Name.Name}
	w := &walker{p: p, T: T, tainted: map[*ast.Object]bool{}, params: map[string]string{}}
	if d.Recv != nil && len(d.Recv.List) > 0 && len(d.Recv.List[0].Names) > 0 {
		w.recv = d.Recv.List[0].Names[0].Name
	}
	if d.Type.Params != nil { // parameters that may be another instance of a guarded type of this package
		for _, f := range d.Type.Params.List {
			if id, ok := baseType(f.Type).(*ast.Ident); ok && p.types[id.Name] {
				for _, n := range f.Names {
					w.params[n.Name] = id.Name
				}
			}
		}
	}
	if d.Body != nil {
		for i, st := range d.Body.List {
			w.top, w.depth, w.loop = i, 0, false
			w.stmt(st)
		}
	}
	s.events = w.events
	// lock structure
	var acq, rel []event
	for _, e := range s.events {
		if e.what != "lock" {
			continue
		}
		switch e.name {
		case "Lock", "RLock":
			acq = append(acq, e)
		default:
			rel = append(rel, e)
		}
	}
	s.inLo, s.inHi = -1, 1<<30
	switch {
	case len(acq) == 0 && len(rel) == 0:
		s.guard = "NoLock"
		s.inLo, s.inHi = 1<<30, 1<<30 // nothing is inside
	case len(acq) == 1 && acq[0].depth == 0 && !acq[0].defer_:
		a := acq[0]
		want := map[string]string{"Lock": "Unlock", "RLock": "RUnlock"}[a.name]
		mode := map[string]string{"Lock": "Excl", "RLock": "Shared"}[a.name]
		ok := false
		if len(rel) == 1 && rel[0].name == want && rel[0].depth == 0 {
			r := rel[0]
			if r.defer_ && r.top == a.top+1 {
				ok = true
				s.inLo = r.top
			} else if !r.defer_ && r.top > a.top {
				ok = true
				for _, e := range s.events {
					if e.what == "return" && e.top > a.top && e.top < r.top {
						ok = false
						s.why = "explicit release with a return before it"
					}
				}
				s.inLo, s.inHi = a.top, r.top
			}
		}
		if ok {
			s.guard = mode
			if s.inHi == 1<<30 {
				// deferred release: prefix = statements before the acquire
				s.inLo = a.top + 1
			}
			s.checkOutside(a.top)
		} else {
			s.guard = "Irregular"
			if leaks := p.lockLeaks(T, w.recv, d); len(leaks) > 0 {
				s.why = "lock released on some but not all return paths: " + strings.Join(leaks, "; ")
			} else if s.why == "" {
				s.why = fmt.Sprintf("%s() is not followed by the matching release (defer %s() expected as the next statement)", a.name, want)
			}
		}
	default:
		s.guard = "Irregular"
		if leaks := p.lockLeaks(T, w.recv, d); len(leaks) > 0 {
			s.why = "lock released on some but not all return paths: " + strings.Join(leaks, "; ")
		} else {
			s.why = "non-standard locking (several acquisitions or releases, acquisition in a nested block or in a defer); every path releases, but not in the acquire;defer-release shape the translator accepts"
		}
	}
	return s
}

// lockLeaks: path-sensitive scan of a method body for exits that are reached with the instance lock still held
// (a return, or the end of the function, after an acquisition that no release - explicit on that path, or deferred -
// matches). Structured control flow only; a loop body is scanned once.
func (p *pkgInfo) lockLeaks(T *structT, recv string, d *ast.FuncDecl) []string {
	if d.Body == nil {
		return nil
	}
	lockOp := func(c *ast.CallExpr) string {
		sel, ok := unparen(c.Fun).(*ast.SelectorExpr)
		if !ok {
			return ""
		}
		root, names, ok := chain(sel)
		if !ok || root.Name != recv || recv == "" {
			return ""
		}
		if r := p.resolve(T, names); r.what == "lock" {
			return r.name
		}
		return ""
	}
	const unheld, held = 1, 2
	var leaks []string
	deferred := false
	line := func(n ast.Node) int { return p.fset.Position(n.Pos()).Line }
	var flow func(list []ast.Stmt, st int) (int, bool)
	var one func(s ast.Stmt, st int) (int, bool)
	one = func(s ast.Stmt, st int) (int, bool) {
		switch t := s.(type) {
		case *ast.ExprStmt:
			if c, ok := t.X.(*ast.CallExpr); ok {
				switch lockOp(c) {
				case "Lock", "RLock":
					return held, false
				case "Unlock", "RUnlock":
					return unheld, false
				}
			}
		case *ast.DeferStmt:
			if n := lockOp(t.Call); n == "Unlock" || n == "RUnlock" {
				deferred = true
			}
		case *ast.ReturnStmt:
			if st&held != 0 && !deferred {
				leaks = append(leaks, fmt.Sprintf("the return at line %d is reached with the lock still held", line(t)))
			}
			return st, true
		case *ast.BlockStmt:
			return flow(t.List, st)
		case *ast.IfStmt:
			if t.Init != nil {
				st, _ = one(t.Init, st)
			}
			a, ta := flow(t.Body.List, st)
			b, tb := st, false
			if t.Else != nil {
				b, tb = one(t.Else, st)
			}
			switch {
			case ta && tb:
				return st, true
			case ta:
				return b, false
			case tb:
				return a, false
			}
			return a | b, false
		case *ast.ForStmt:
			a, _ := flow(t.Body.List, st)
			return st | a, false
		case *ast.RangeStmt:
			a, _ := flow(t.Body.List, st)
			return st | a, false
		case *ast.SwitchStmt:
			out, all, def := 0, true, false
			for _, c := range t.Body.List {
				cc := c.(*ast.CaseClause)
				if cc.List == nil {
					def = true
				}
				a, ta := flow(cc.Body, st)
				if !ta {
					out |= a
					all = false
				}
			}
			if !def {
				out |= st
				all = false
			}
			return out, all
		case *ast.TypeSwitchStmt:
			out := st
			for _, c := range t.Body.List {
				a, ta := flow(c.(*ast.CaseClause).Body, st)
				if !ta {
					out |= a
				}
			}
			return out, false
		case *ast.LabeledStmt:
			return one(t.Stmt, st)
		}
		return st, false
	}
	flow = func(list []ast.Stmt, st int) (int, bool) {
		for _, s := range list {
			var term bool
			st, term = one(s, st)
			if term {
				return st, true
			}
		}
		return st, false
	}
	st, term := flow(d.Body.List, unheld)
	if !term && st&held != 0 && !deferred {
		leaks = append(leaks, fmt.Sprintf("the end of the function (line %d) is reached with the lock still held", p.fset.Position(d.Body.Rbrace).Line))
	}
	return leaks
}

// checkOutside is refined later (needs the set of mutable fields); here only records the acquire position.
func (s *summary) checkOutside(acqTop int) {}

func (s *summary) inside(e event) bool { return e.top > s.inLo && e.top < s.inHi }

// ---------------------------------------------------------------------------------------------------------
// analysis of one package

type Entry struct {
	Type     string `json:"type"`
	Method   string `json:"method"`
	Exported bool   `json:"exported"`
	Guard    string `json:"guard"`
	Delegate *Call  `json:"delegate"`
	Calls    []Call `json:"calls"`
	Self     []Call `json:"self"`
	SelfLoop bool   `json:"selfloop"`
	Mutates  bool   `json:"mutates"`
	Touches  bool   `json:"touches"`
	Why      string `json:"why"`
	File     string `json:"file"`
	Line     int    `json:"line"`
	RW       bool   `json:"rw"` // the guard is a sync.RWMutex
}

type Inner struct {
	Kind   string `json:"kind"`
	Method string `json:"method"`
	Writes bool   `json:"writes"`
	Calls  []Call `json:"calls"`
	File   string `json:"file"`
	Line   int    `json:"line"`
}

var exposes = map[string]bool{"ToMetaSlice": true, "ToMetaMap": true, "GetByRange": true}

type analysis struct {
	p       *pkgInfo
	sums    map[string]*summary // "Type.Method"
	mutable map[string]bool     // field ids
}

func (a *analysis) family(T *structT, seen map[*structT]bool, out *[]*structT) {
	if T == nil || seen[T] {
		return
	}
	seen[T] = true
	*out = append(*out, T)
	for _, f := range T.fields {
		if f.embedded {
			a.family(a.p.localStruct(f.typ), seen, out)
		}
	}
}

func addCall(l []Call, c Call) []Call {
	for _, x := range l {
		if x == c {
			return l
		}
	}
	return append(l, c)
}

// finalize computes the closed summary of a method: helpers (NoLock methods touching state) are inlined,
// forwards are flattened.
func (a *analysis) finalize(s *summary) {
	if s.done || s.busy {
		return
	}
	s.busy = true
	defer func() { s.busy = false; s.done = true }()
	locked := s.guard == "Excl" || s.guard == "Shared"
	s.Acquires = locked || s.guard == "Irregular" && s.why != ""
	irregular := func(why string) {
		if s.guard != "Irregular" {
			s.guard, s.why = "Irregular", why
		}
	}
	nInsideCalls, nInsideOther := 0, 0
	var onlyCall Call
	for _, e := range s.events {
		in := s.inside(e)
		outsideLocked := locked && !in
		switch e.what {
		case "read":
			if a.mutable[e.fid] {
				s.Touches = true
				if outsideLocked {
					irregular("reads guarded state (" + e.fid + ") outside the critical section")
				}
			}
		case "write":
			if e.fid == "lock" {
				irregular("assigns the lock")
				continue
			}
			s.Touches, s.Mutates = true, true
			if in {
				nInsideOther++
			}
			if outsideLocked {
				irregular("writes guarded state (" + e.fid + ") outside the critical section")
			}
		case "call":
			s.Touches = true
			s.Calls = addCall(s.Calls, Call{e.kind, e.name})
			if in {
				nInsideCalls++
				onlyCall = Call{e.kind, e.name}
			}
			if outsideLocked {
				irregular("calls " + e.kind + "." + e.name + " on guarded state outside the critical section")
			}
		case "argcall":
			// the argument may be another instance of a guarded type (or the receiver itself): calling one of ITS locking
			// methods while holding our own lock is a nested acquisition (lock-order cycle between two instances;
			// self-deadlock of a re-entrant RLock once a writer is queued)
			if !in {
				continue
			}
			for _, k := range sortedKeys(a.sums) {
				ts := a.sums[k]
				if ts.name != e.name || ts == s || ts.busy || !a.p.hasLock(ts.T, map[*structT]bool{}) {
					continue
				}
				a.finalize(ts)
				if ts.Acquires {
					irregular("calls " + e.name + "() of its argument " + e.kind + " (which may be another " + ts.T.name + ", or the receiver itself, and takes that instance's lock) while holding its own lock: nested acquisition")
					break
				}
			}
		case "self":
			var ts *summary
			if e.declT != nil {
				ts = a.sums[e.declT.name+"."+e.name]
			}
			if ts == nil {
				continue // method of a foreign embedded type (e.g. sync.RWMutex.TryLock): not modelled
			}
			if ts == s || ts.busy {
				continue
			}
			a.finalize(ts)
			tq := Call{a.p.name + "." + ts.T.name, ts.name}
			if exposes[ts.name] && !in {
				irregular("uses the storage returned by " + ts.T.name + "." + ts.name + "() outside the lock")
				s.Self = addCall(s.Self, tq)
				continue
			}
			if ts.Acquires {
				if in {
					irregular("calls " + ts.name + "(), which acquires the same lock, while holding it (self-deadlock)")
					continue
				}
				if outsideLocked {
					irregular("calls the locked method " + ts.name + "() outside its own critical section (two critical sections in one call)")
					continue
				}
				if ts.guard == "NoLock" { // a forwarder: flatten
					for _, c := range ts.Self {
						s.Self = append(s.Self, c)
					}
					s.SelfLoop = s.SelfLoop || ts.SelfLoop || e.loop
				} else {
					s.Self = append(s.Self, tq)
					s.SelfLoop = s.SelfLoop || e.loop
				}
				s.Acquires = true
				continue
			}
			// helper or pure: inline
			if ts.Touches {
				s.Touches = true
				if in {
					nInsideOther++
				}
				if outsideLocked {
					irregular("calls the unlocked helper " + ts.name + "(), which touches guarded state, outside the critical section")
				}
			}
			s.Mutates = s.Mutates || ts.Mutates
			for _, c := range ts.Calls {
				s.Calls = addCall(s.Calls, c)
			}
		}
	}
	if locked && nInsideCalls == 1 && nInsideOther == 0 && len(s.Calls) == 1 {
		c := onlyCall
		s.Delegate = &c
	}
	if exposes[s.name] {
		s.guard = "Exposes"
	}
}

func sortedKeys(m map[string]*summary) []string {
	l := make([]string, 0, len(m))
	for k := range m {
		l = append(l, k)
	}
	sort.Strings(l)
	return l
}

func isExported(n string) bool { return n != "" && n[0] >= 'A' && n[0] <= 'Z' }

func (a *analysis) run(rel func(string) string) ([]Entry, []Inner) {
	p := a.p
	a.sums = map[string]*summary{}
	a.mutable = map[string]bool{"alias": true}
	// guarded structs declared in target files, plus their embedding families
	var guarded []*structT
	names := make([]string, 0, len(p.structs))
	for n := range p.structs {
		names = append(names, n)
	}
	sort.Strings(names)
	fam := map[*structT]bool{}
	for _, n := range names {
		S := p.structs[n]
		if S.target && p.hasLock(S, map[*structT]bool{}) {
			guarded = append(guarded, S)
			var l []*structT
			a.family(S, map[*structT]bool{}, &l)
			for _, x := range l {
				fam[x] = true
			}
		}
	}
	// summaries of every method of the family structs (analysed with the declaring struct as T)
	for _, n := range names {
		S := p.structs[n]
		if !fam[S] {
			continue
		}
		for mn, d := range p.methods[S.name] {
			a.sums[S.name+"."+mn] = p.summarize(S, d)
		}
	}
	// inner (wrapped, unguarded) structs of the package: the kinds that calls refer to
	innerKinds := map[string]*structT{}
	for _, s := range a.sums {
		for _, e := range s.events {
			if e.what == "call" && strings.HasPrefix(e.kind, p.name+".") {
				if S := p.structs[strings.TrimPrefix(e.kind, p.name+".")]; S != nil && !fam[S] {
					innerKinds[e.kind] = S
				}
			}
		}
	}
	innerSums := map[string]*summary{}
	ia := &analysis{p: p, sums: innerSums, mutable: map[string]bool{"alias": true}}
	var innerFam []*structT
	seen := map[*structT]bool{}
	for _, S := range innerKinds {
		ia.family(S, seen, &innerFam)
	}
	for _, S := range innerFam {
		for mn, d := range p.methods[S.name] {
			innerSums[S.name+"."+mn] = p.summarize(S, d)
		}
	}
	// mutable fields: written, or a method is called through them
	mark := func(sums map[string]*summary, mut map[string]bool) {
		for _, s := range sums {
			for _, e := range s.events {
				if (e.what == "write" || e.what == "call") && e.fid != "" {
					mut[e.fid] = true
				}
			}
		}
	}
	mark(a.sums, a.mutable)
	mark(innerSums, ia.mutable)
	for _, S := range innerFam { // every field of an unguarded inner object counts as its state
		for _, f := range S.fields {
			ia.mutable[S.name+"."+f.name] = true
		}
	}
	keys := func(m map[string]*summary) []string {
		l := make([]string, 0, len(m))
		for k := range m {
			l = append(l, k)
		}
		sort.Strings(l)
		return l
	}
	for _, k := range keys(a.sums) {
		a.finalize(a.sums[k])
	}
	for _, k := range keys(innerSums) {
		ia.finalize(innerSums[k])
	}
	var entries []Entry
	for _, k := range keys(a.sums) {
		s := a.sums[k]
		if !p.hasLock(s.T, map[*structT]bool{}) {
			continue
		}
		_, rw := lockKind(p, s.T, 0)
		pos := p.fset.Position(s.decl.Pos())
		e := Entry{Type: p.name + "." + s.T.name, Method: s.name, Exported: isExported(s.name), Guard: s.guard, Delegate: s.Delegate,
			Calls: s.Calls, Self: s.Self, SelfLoop: s.SelfLoop, Mutates: s.Mutates, Touches: s.Touches, Why: s.why,
			File: rel(pos.Filename), Line: pos.Line, RW: rw}
		if e.Guard != "NoLock" && e.Guard != "Irregular" {
			e.Self, e.SelfLoop = nil, false
		}
		entries = append(entries, e)
	}
	var inner []Inner
	for _, k := range keys(innerSums) {
		s := innerSums[k]
		pos := p.fset.Position(s.decl.Pos())
		// self-calls of inner methods are inlined by finalize (no locks there); record calls to functions only
		inner = append(inner, Inner{Kind: p.name + "." + s.T.name, Method: s.name, Writes: s.Mutates, Calls: s.Calls,
			File: rel(pos.Filename), Line: pos.Line})
	}
	return entries, inner
}

func lockKind(p *pkgInfo, S *structT, depth int) (bool, bool) {
	if S == nil || depth > 6 {
		return false, false
	}
	for _, f := range S.fields {
		if m, rw := isMutexType(f.typ); m {
			return true, rw
		}
	}
	for _, f := range S.fields {
		if f.embedded {
			if m, rw := lockKind(p, p.localStruct(f.typ), depth+1); m {
				return m, rw
			}
		}
	}
	return false, false
}

// package-level facade over a guarded object (bobjectstorage): functions calling methods of a package variable
// that holds a Safe* value.
func facade(p *pkgInfo, rel func(string) string) []Entry {
	vars := map[string]string{} // var name -> guarded type
	ctor := regexp.MustCompile(`^New(Safe[A-Za-z]+?)(By[A-Za-z]+)?$`)
	for _, f := range p.files {
		for _, d := range f.Decls {
			g, ok := d.(*ast.GenDecl)
			if !ok || g.Tok != token.VAR {
				continue
			}
			for _, sp := range g.Specs {
				vs := sp.(*ast.ValueSpec)
				for i, nm := range vs.Names {
					if i >= len(vs.Values) {
						continue
					}
					if c, ok := vs.Values[i].(*ast.CallExpr); ok {
						if s, ok := stripInst(c.Fun).(*ast.SelectorExpr); ok {
							if x, ok := s.X.(*ast.Ident); ok {
								if m := ctor.FindStringSubmatch(s.Sel.Name); m != nil {
									vars[nm.Name] = x.Name + "." + m[1]
								}
							}
						}
					}
				}
			}
		}
	}
	var out []Entry
	var fnames []string
	for n := range p.funcs {
		fnames = append(fnames, n)
	}
	sort.Strings(fnames)
	for _, n := range fnames {
		d := p.funcs[n]
		e := Entry{Type: p.name + ".pkg", Method: n, Exported: isExported(n), Guard: "NoLock"}
		pos := p.fset.Position(d.Pos())
		e.File, e.Line = rel(pos.Filename), pos.Line
		loopDepth := 0
		var visit func(n ast.Node) bool
		visit = func(n ast.Node) bool {
			switch t := n.(type) {
			case *ast.ForStmt, *ast.RangeStmt:
				loopDepth++
				ast.Inspect(childBody(t), visit)
				loopDepth--
				return false
			case *ast.CallExpr:
				if s, ok := stripInst(t.Fun).(*ast.SelectorExpr); ok {
					if x, ok := s.X.(*ast.Ident); ok && vars[x.Name] != "" {
						e.Self = append(e.Self, Call{vars[x.Name], s.Sel.Name})
						if loopDepth > 0 {
							e.SelfLoop = true
						}
					}
				}
			case *ast.AssignStmt:
				for _, l := range t.Lhs {
					if x, ok := l.(*ast.Ident); ok && vars[x.Name] != "" {
						e.Mutates, e.Touches = true, true
					}
				}
			}
			return true
		}
		if d.Body != nil {
			ast.Inspect(d.Body, visit)
		}
		if len(e.Self) > 0 || e.Touches {
			out = append(out, e)
		}
	}
	return out
}

func childBody(n ast.Node) ast.Node {
	switch t := n.(type) {
	case *ast.ForStmt:
		return t.Body
	case *ast.RangeStmt:
		return t.Body
	}
	return n
}

// ---------------------------------------------------------------------------------------------------------
// classification lists are hand-written in Coq (C11/Classify.v); parsed here only to compute the search hint

func parseClassify(path string) (map[string][]string, []Call, error) {
	b, err := os.ReadFile(path)
	if err != nil {
		return nil, nil, err
	}
	txt := regexp.MustCompile(`(?s)\(\*.*?\*\)`).ReplaceAllString(string(b), " ")
	ro := map[string][]string{}
	sect := func(name string) string {
		m := regexp.MustCompile(`(?s)Definition\s+` + name + `\b.*?:=(.*?)\]\s*\.`).FindStringSubmatch(txt)
		if m == nil {
			return ""
		}
		return m[1]
	}
	body := sect("ro_table")
	for _, m := range regexp.MustCompile(`(?s)\(\s*"([^"]+)"\s*,\s*\[(.*?)\]\s*\)`).FindAllStringSubmatch(body, -1) {
		var ms []string
		for _, q := range regexp.MustCompile(`"([^"]*)"`).FindAllStringSubmatch(m[2], -1) {
			ms = append(ms, q[1])
		}
		ro[m[1]] = append(ro[m[1]], ms...)
	}
	var comp []Call
	for _, m := range regexp.MustCompile(`\(\s*"([^"]+)"\s*,\s*"([^"]+)"\s*\)`).FindAllStringSubmatch(sect("compound_known"), -1) {
		comp = append(comp, Call{m[1], m[2]})
	}
	if len(ro) == 0 {
		return nil, nil, fmt.Errorf("%s: no ro_table entries parsed", path)
	}
	return ro, comp, nil
}

type Offender struct {
	Type   string `json:"type"`
	Method string `json:"method"`
	Reason string `json:"reason"`
	File   string `json:"file"`
	Line   int    `json:"line"`
}

// replica of C11/Tables.v entry_ok (hint only)
func offenders(entries []Entry, ro map[string][]string, comp []Call) []Offender {
	isRo := func(c Call) bool {
		for _, m := range ro[c.Kind] {
			if m == c.Method {
				return true
			}
		}
		return false
	}
	idx := map[Call]*Entry{}
	for i := range entries {
		idx[Call{entries[i].Type, entries[i].Method}] = &entries[i]
	}
	var atomic func(e *Entry, fuel int) (bool, string)
	lockedOK := func(e *Entry) (bool, string) {
		if e.Guard == "Excl" {
			return true, ""
		}
		if e.Mutates {
			return false, "writes guarded state while holding only the read lock"
		}
		for _, c := range e.Calls {
			if !isRo(c) {
				return false, "holds only the read lock but calls " + c.Kind + "." + c.Method + ", which is not classified read-only"
			}
		}
		return true, ""
	}
	atomic = func(e *Entry, fuel int) (bool, string) {
		switch e.Guard {
		case "Excl", "Shared":
			return lockedOK(e)
		case "NoLock":
			if e.Touches {
				return false, "takes no lock but touches guarded state"
			}
			if len(e.Self) == 0 {
				return true, ""
			}
			if len(e.Self) == 1 && !e.SelfLoop && fuel > 0 {
				t := idx[e.Self[0]]
				if t == nil {
					return false, "forwards to unknown method " + e.Self[0].Kind + "." + e.Self[0].Method
				}
				if ok, why := atomic(t, fuel-1); !ok {
					return false, "forwards to " + t.Type + "." + t.Method + ": " + why
				}
				return true, ""
			}
			return false, "compound"
		case "Exposes":
			return false, "exposes storage"
		}
		return false, e.Why
	}
	var out []Offender
	for i := range entries {
		e := &entries[i]
		ok, why := true, ""
		switch e.Guard {
		case "Exposes":
		case "Excl", "Shared":
			ok, why = lockedOK(e)
		case "Irregular":
			ok, why = false, e.Why
		case "NoLock":
			if e.Touches {
				if e.Exported {
					ok, why = false, "takes no lock but touches guarded state"
				}
			} else {
				ok, why = atomic(e, 8)
				if !ok && why == "compound" {
					ok = false
					why = "makes several separately locked calls (not atomic as a whole)"
					for _, c := range comp {
						if c.Kind == e.Type && c.Method == e.Method {
							ok = true
						}
					}
					if ok {
						for _, c := range e.Self {
							t := idx[c]
							if t == nil {
								ok, why = false, "calls unknown method "+c.Kind+"."+c.Method
							} else if o, w := atomic(t, 8); !o {
								ok, why = false, "calls "+t.Type+"."+t.Method+": "+w
							}
						}
					}
				}
			}
		}
		if !ok {
			out = append(out, Offender{e.Type, e.Method, why, e.File, e.Line})
		}
	}
	return out
}

// ---------------------------------------------------------------------------------------------------------
// output

func q(s string) string { return `"` + strings.ReplaceAll(s, `"`, `""`) + `"` }

func coqCalls(cs []Call) string {
	it := make([]string, len(cs))
	for i, c := range cs {
		it[i] = "(" + q(c.Kind) + ", " + q(c.Method) + ")"
	}
	return "[" + strings.Join(it, "; ") + "]"
}

func coqBool(b bool) string {
	if b {
		return "true"
	}
	return "false"
}

func coqFile(entries []Entry, inner []Inner) string {
	var b strings.Builder
	b.WriteString("(* GENERATED by tools/gen_c11 from the Go sources on every run of `bin/check C11` - do not edit.\n")
	b.WriteString("   One record per method of every type offered as concurrency-safe; re-checked by C11/Obligation.v. *)\n")
	b.WriteString("From Coq Require Import List String.\nFrom VF Require Import C11.Tables.\nImport ListNotations.\nLocal Open Scope string_scope.\n\n")
	b.WriteString("Definition tables : list entry := [\n")
	for i, e := range entries {
		del := "None"
		if e.Delegate != nil {
			del = "(Some (" + q(e.Delegate.Kind) + ", " + q(e.Delegate.Method) + "))"
		}
		fmt.Fprintf(&b, "  mkE %s %s %s %s %s %s %s %s %s %s %s %d%%nat", q(e.Type), q(e.Method), coqBool(e.Exported), e.Guard, del,
			coqCalls(e.Calls), coqCalls(e.Self), coqBool(e.SelfLoop), coqBool(e.Mutates), coqBool(e.Touches), q(e.Why), e.Line)
		if i < len(entries)-1 {
			b.WriteString(";")
		}
		b.WriteString("\n")
	}
	b.WriteString("].\n\nDefinition inner : list inner_entry := [\n")
	for i, e := range inner {
		fmt.Fprintf(&b, "  mkI %s %s %s %s", q(e.Kind), q(e.Method), coqBool(e.Writes), coqCalls(e.Calls))
		if i < len(inner)-1 {
			b.WriteString(";")
		}
		b.WriteString("\n")
	}
	b.WriteString("].\n")
	return b.String()
}

func writeIfChanged(path string, data []byte) (bool, error) {
	old, err := os.ReadFile(path)
	if err == nil && string(old) == string(data) {
		return false, nil
	}
	if err := os.MkdirAll(filepath.Dir(path), 0o755); err != nil {
		return false, err
	}
	tmp := path + ".tmp"
	if err := os.WriteFile(tmp, data, 0o644); err != nil {
		return false, err
	}
	return true, os.Rename(tmp, path)
}

func main() {
	repo := flag.String("repo", "", "repository under test (default $VERIF_REPO or /repo)")
	out := flag.String("out", "", "Coq file to write")
	classify := flag.String("classify", "", "C11/Classify.v (hand-written read-only lists)")
	jsonOut := flag.String("json", "", "JSON file for the harness (default $VERIF_WORK/C11/locktables.json)")
	dump := flag.Bool("dump", false, "print the table")
	flag.Parse()
	if *repo == "" {
		*repo = os.Getenv("VERIF_REPO")
	}
	if *repo == "" {
		*repo = "/repo"
	}
	if *jsonOut == "" {
		w := os.Getenv("VERIF_WORK")
		if w == "" {
			w = "/verif/work"
		}
		*jsonOut = filepath.Join(w, "C11", "locktables.json")
	}
	rel := func(p string) string {
		r, err := filepath.Rel(*repo, p)
		if err != nil {
			return p
		}
		return r
	}
	// target files
	targets := map[string]bool{}
	dirs := map[string]bool{}
	add := func(pattern string) {
		m, _ := filepath.Glob(filepath.Join(*repo, pattern))
		for _, f := range m {
			if strings.HasSuffix(f, "_test.go") || strings.HasSuffix(f, "_verif.go") {
				continue
			}
			targets[f] = true
			dirs[filepath.Dir(f)] = true
		}
	}
	add("structure/*/*/*_safe.go")
	add("base/bslice/*.go")
	add("base/bmap/*.go")
	add("structure/sets/zset/zset.go")
	add("app/bcache/bcache.go")
	add("base/bobjectstorage/bobjectstorage.go")
	if len(targets) == 0 {
		fmt.Fprintln(os.Stderr, "gen_c11: no source files under", *repo)
		os.Exit(1)
	}
	var dl []string
	for d := range dirs {
		dl = append(dl, d)
	}
	sort.Strings(dl)
	var entries []Entry
	var inner []Inner
	for _, d := range dl {
		p, err := loadPkg(d, targets)
		if err != nil {
			fmt.Fprintln(os.Stderr, "gen_c11:", err)
			os.Exit(1)
		}
		a := &analysis{p: p}
		es, in := a.run(rel)
		entries = append(entries, es...)
		inner = append(inner, in...)
		if p.name == "bobjectstorage" {
			entries = append(entries, facade(p, rel)...)
		}
	}
	sort.SliceStable(entries, func(i, j int) bool {
		if entries[i].Type != entries[j].Type {
			return entries[i].Type < entries[j].Type
		}
		return entries[i].Line < entries[j].Line
	})
	sort.SliceStable(inner, func(i, j int) bool {
		if inner[i].Kind != inner[j].Kind {
			return inner[i].Kind < inner[j].Kind
		}
		return inner[i].Method < inner[j].Method
	})
	types := map[string]int{}
	for _, e := range entries {
		types[e.Type]++
	}
	if *dump {
		for _, e := range entries {
			fmt.Printf("%-40s %-28s %-9s exp=%-5v mut=%-5v touch=%-5v calls=%v self=%v loop=%v %s:%d %s\n", e.Type, e.Method, e.Guard, e.Exported,
				e.Mutates, e.Touches, e.Calls, e.Self, e.SelfLoop, e.File, e.Line, e.Why)
		}
		for _, e := range inner {
			fmt.Printf("INNER %-40s %-28s writes=%-5v calls=%v\n", e.Kind, e.Method, e.Writes, e.Calls)
		}
	}
	if *out != "" {
		ch, err := writeIfChanged(*out, []byte(coqFile(entries, inner)))
		if err != nil {
			fmt.Fprintln(os.Stderr, "gen_c11:", err)
			os.Exit(1)
		}
		fmt.Printf("gen_c11: %d methods of %d guarded types, %d inner methods -> %s (%s)\n", len(entries), len(types), len(inner), *out,
			map[bool]string{true: "rewritten", false: "unchanged"}[ch])
	}
	var off []Offender
	ro := map[string][]string{}
	var comp []Call
	if *classify != "" {
		var err error
		ro, comp, err = parseClassify(*classify)
		if err != nil {
			fmt.Fprintln(os.Stderr, "gen_c11:", err)
			os.Exit(1)
		}
		off = offenders(entries, ro, comp)
		for _, o := range off {
			fmt.Printf("gen_c11: offending entry %s.%s (%s:%d): %s\n", o.Type, o.Method, o.File, o.Line, o.Reason)
		}
	}
	js, _ := json.MarshalIndent(map[string]interface{}{"repo": *repo, "entries": entries, "inner": inner, "ro": ro,
		"compound_known": comp, "offenders": off, "types": types}, "", " ")
	if _, err := writeIfChanged(*jsonOut, js); err != nil {
		fmt.Fprintln(os.Stderr, "gen_c11:", err)
		os.Exit(1)
	}
}
