#!/bin/bash
# usage: integrate_hooks.sh <worktree> "<commit message>"
# Copies the untracked add-only hook files (*_verif.go, verif_off.go ...) of a worker worktree into /repo and commits them.
set -e
WT=$1; MSG=$2
cd "$WT"
files=$(git status --short | awk '$1=="??"{print $2}')
[ -z "$files" ] && { echo "no hook files"; exit 0; }
for f in $files; do
  head -3 "$f" | grep -q "go:build" || { echo "WARNING: $f has no build constraint"; }
  mkdir -p "/repo/$(dirname $f)"; cp "$f" "/repo/$f"; git -C /repo add "$f"
done
git -C /repo commit -q -m "$MSG" && git -C /repo log --oneline | head -1 | tee -a /verif/HOOK_COMMITS.txt
