#!/bin/bash
# usage: run_seed.sh <seed-name> [ID] [tier]  — applies the seeded change to /repo, runs the property's check, undoes it
N=$1; ID=${2:-$(python3 -c "import json;print(json.load(open('/verif/seeded/$N/meta.json'))['property'])")}; T=${3:-quick}
cd /verif
git -C /repo apply /verif/seeded/$N/patch.diff || { echo "patch does not apply to /repo"; exit 2; }
VERIF_WORK=/verif/work_seed timeout 1500 bin/check $ID $T 2>&1 | tail -3 > /tmp/run_seed_$N.txt
git -C /repo checkout -- .
cat /tmp/run_seed_$N.txt
python3 - "$N" "$ID" "$T" <<'PY'
import json,sys,re,time
n,i,t=sys.argv[1:4]
txt=open("/tmp/run_seed_%s.txt"%n).read()
res="MISSED"
if "VIOLATION" in txt: res="caught (no-failing-input-found)" if "no-failing-input-found" in txt else "caught (failing input replayed)"
open("/verif/seeded/results.jsonl","a").write(json.dumps({"seed":n,"check":i,"tier":t,"result":res,"summary":txt.strip().splitlines()[-1] if txt.strip() else "","repo_head":__import__("subprocess").check_output(["git","-C","/repo","rev-parse","--short","HEAD"],text=True).strip()})+"\n")
print("==>",n,res)
PY
cp evidence/$ID.json /tmp/evidence_seed_$N.json; git checkout -q -- evidence/$ID.json 2>/dev/null
