#!/bin/bash
# usage: verify_seed.sh <seed_dir> [base_commit]
# Confirms a seeded change: applies patch.diff to a scratch worktree of /repo, checks that it builds and that the
# pinned baseline suite still passes, that the demonstration test FAILS with the change and PASSES without it.
set -u
SEED=$(realpath "$1"); BASE=${2:-$(git -C /repo rev-parse HEAD)}
export GOFLAGS=-mod=mod GOPROXY=off GOSUMDB=off GOTOOLCHAIN=local
WT=/tmp/seedwt_$$
git -C /repo worktree add --detach "$WT" "$BASE" >/dev/null 2>&1 || { echo "worktree failed"; exit 2; }
cleanup() { git -C /repo worktree remove --force "$WT" >/dev/null 2>&1; rm -rf "$WT"; }
trap cleanup EXIT
DDIR=$(python3 -c "import json;print(json.load(open('$SEED/meta.json'))['demo_dir'])")
DRUN=$(python3 -c "import json;print(json.load(open('$SEED/meta.json'))['demo_run'])")
DFILE=$(python3 -c "import json;print(json.load(open('$SEED/meta.json')).get('demo_file','demo_test.go'))")
cd "$WT"
git apply "$SEED/patch.diff" || { echo "RESULT: patch does not apply"; exit 1; }
go build ./... 2>&1 | tail -5; [ "${PIPESTATUS[0]}" = 0 ] || { echo "RESULT: does not build"; exit 1; }
go vet ./$DDIR >/dev/null 2>&1 || true
python3 /verif/tools/baseline.py "$WT" | tail -5; [ "${PIPESTATUS[0]}" = 0 ] || { echo "RESULT: baseline tests fail with the change"; exit 1; }
cp "$SEED/$DFILE" "$WT/$DDIR/zz_seed_demo_test.go"
timeout 600 go test -count=1 -vet=off -run "$DRUN" ./$DDIR > /tmp/seed_with_$$.log 2>&1; W=$?
git checkout -q -- . 
timeout 600 go test -count=1 -vet=off -run "$DRUN" ./$DDIR > /tmp/seed_without_$$.log 2>&1; WO=$?
echo "demo with change: exit $W ; without: exit $WO"
tail -5 /tmp/seed_with_$$.log
rm -f /tmp/seed_with_$$.log /tmp/seed_without_$$.log
if [ $W != 0 ] && [ $WO = 0 ]; then echo "RESULT: confirmed"; exit 0; fi
echo "RESULT: demonstration does not discriminate"; exit 1
