#!/usr/bin/env python3
"""Re-run the registered check of every kept seeded change against the current checks.
usage: regress_seeds.py [-j LANES] [seed ...]
Each lane owns a scratch clone of /repo under /tmp/rg/lane<k> (removed at the end) and its own work directory; a seed is
applied there, `VERIF_REPO=<clone> bin/check <ID> quick` runs, the clone is reset. Seeds of properties whose check
regenerates Coq sources from the tree under test (C11, C16) run afterwards one at a time, because they rewrite files of
the shared Coq project. Outcomes are appended to seeded/results.jsonl; /repo itself is never touched."""
import json, os, re, subprocess, sys, glob, threading, queue, shutil, time
V = "/verif"
SERIAL = {"C11", "C16"}
args = sys.argv[1:]
lanes = 4
if args[:1] == ["-j"]:
    lanes = int(args[1]); args = args[2:]


def key(n):
    m = re.match(r"C(\d+)-(\d+)", n)
    return (int(m.group(1)), int(m.group(2)))


seeds = args or sorted([os.path.basename(d) for d in glob.glob(V + "/seeded/C*-*") if os.path.isdir(d)], key=key)
head = subprocess.check_output(["git", "-C", "/repo", "rev-parse", "--short", "HEAD"], text=True).strip()
lock = threading.Lock()


OVERRIDE = {}
for a in list(args):
    if ":" in a:                      # seed:CHECK runs a sibling check instead of the seed's own
        sd, ck = a.split(":")
        OVERRIDE[sd + ":" + ck] = (sd, ck)


def prop(s):
    if s in OVERRIDE:
        return OVERRIDE[s][1]
    return json.load(open(f"{V}/seeded/{s}/meta.json"))["property"]


def sname(s):
    return OVERRIDE[s][0] if s in OVERRIDE else s


def run_one(lane, s, pid=None):
    clone = f"/tmp/rg/lane{lane}"
    if not os.path.isdir(clone):
        os.makedirs("/tmp/rg", exist_ok=True)
        subprocess.check_call(["git", "clone", "-q", "/repo", clone])
    subprocess.check_call(["git", "-C", clone, "checkout", "-q", "--", "."])
    subprocess.check_call(["git", "-C", clone, "clean", "-fdq"])
    pid = pid or prop(s)
    r = subprocess.run(["git", "-C", clone, "apply", f"{V}/seeded/{sname(s)}/patch.diff"], capture_output=True, text=True)
    if r.returncode != 0:
        res, summ = "PATCH-DOES-NOT-APPLY", r.stderr.strip()[:200]
    else:
        env = dict(os.environ, VERIF_REPO=clone, VERIF_WORK=f"{V}/work_seed/lane{lane}")
        try:
            p = subprocess.run(["bin/check", pid, "quick"], cwd=V, env=env, capture_output=True, text=True, timeout=1800)
            txt = p.stdout + p.stderr
        except subprocess.TimeoutExpired:
            txt = "TIMEOUT"
        tail = [l for l in txt.strip().splitlines() if l.strip()][-3:]
        if "VIOLATION" in txt:
            res = "caught (no-failing-input-found)" if re.search(r"VIOLATION.*no-failing-input-found", txt) and not re.search(r"VIOLATION property=\S+ replay=\S+\s*$", txt, re.M) else "caught (failing input replayed)"
        else:
            res = "MISSED"
        summ = tail[-1] if tail else ""
    subprocess.call(["git", "-C", clone, "checkout", "-q", "--", "."])
    subprocess.call(["git", "-C", clone, "clean", "-fdq"])
    with lock:
        open(f"{V}/seeded/results.jsonl", "a").write(json.dumps({"seed": sname(s), "check": pid, "tier": "quick", "result": res, "summary": summ, "repo_head": head, "regress": True}) + "\n")
        print(f"{time.strftime('%H:%M:%S')} {s} [{pid}] {res} :: {summ[:150]}", flush=True)


par = [s for s in seeds if prop(s) not in SERIAL]
ser = [s for s in seeds if prop(s) in SERIAL]
q = queue.Queue()
for s in par:
    q.put(s)


def worker(k):
    while True:
        try:
            s = q.get_nowait()
        except queue.Empty:
            return
        try:
            run_one(k, s)
        except Exception as e:
            print("ERROR", s, e, flush=True)


ts = [threading.Thread(target=worker, args=(k,)) for k in range(lanes)]
[t.start() for t in ts]
[t.join() for t in ts]
for s in ser:
    try:
        run_one(0, s)
    except Exception as e:
        print("ERROR", s, e, flush=True)
shutil.rmtree("/tmp/rg", ignore_errors=True)
shutil.rmtree(f"{V}/work_seed", ignore_errors=True)
subprocess.call(["git", "-C", V, "checkout", "-q", "--", "evidence"])
print("done")
