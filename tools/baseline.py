#!/usr/bin/env python3
"""Runs the repository's pinned test suite (guard OFF) in a tree and compares with /root/.vp/BASELINE.json.
usage: baseline.py <repo-dir>  ->  exit 0 iff every stable_pass test passed"""
import json, os, subprocess, sys
repo = sys.argv[1] if len(sys.argv) > 1 else "/repo"
base = json.load(open("/root/.vp/BASELINE.json"))
want = set(base["stable_pass"])
env = dict(os.environ, GOFLAGS="-mod=mod", GOPROXY="off", GOSUMDB="off", GOTOOLCHAIN="local")
p = subprocess.run(["go", "test", "-json", "-vet=off", "-count=1", "-timeout", "25m", "./..."], cwd=repo, env=env,
                   stdout=subprocess.PIPE, stderr=subprocess.STDOUT, text=True)
passed, failed = set(), set()
for line in p.stdout.splitlines():
    try:
        e = json.loads(line)
    except Exception:
        continue
    if e.get("Test") and e.get("Action") in ("pass", "fail"):
        (passed if e["Action"] == "pass" else failed).add("%s::%s" % (e["Package"], e["Test"]))
def parent_ok(t):
    pkg, name = t.split("::", 1)
    top = name.split("/")[0]
    return "%s::%s" % (pkg, top) in passed and t not in failed
# a stable-pass subtest with a randomly generated name (bmath TestAbs/<n>) may be absent from a run: it counts as
# missing only if it failed or its parent test did not pass
missing = sorted(t for t in want - passed if not ("/" in t and parent_ok(t)))
# timing-based tests (app/bconcurrent, app/bcache) flake on their own: re-run a missing test up to 3 times
still = []
for t in missing:
    pkg, name = t.split("::", 1)
    top = name.split("/")[0]
    ok = False
    for _ in range(3):
        r = subprocess.run(["go", "test", "-vet=off", "-count=1", "-run", "^%s$" % top, pkg], cwd=repo, env=env,
                           stdout=subprocess.PIPE, stderr=subprocess.STDOUT, text=True)
        if r.returncode == 0:
            ok = True
            break
    if not ok:
        still.append(t)
missing = still
print("stable_pass %d, passed now %d, missing %d, failed-now-in-baseline %d" % (len(want), len(passed), len(missing), len(want & failed)))
for m in missing[:40]:
    print("  MISSING", m)
sys.exit(1 if missing else 0)
