#!/usr/bin/env python3
"""Regenerates MANIFEST.json from lib/props/*.py (single source of truth for the check list)."""
import importlib, json, os, sys, glob
V = os.path.dirname(os.path.dirname(os.path.abspath(__file__)))
sys.path.insert(0, os.path.join(V, "lib"))
checks = []
na = []
ids = [json.loads(l)["id"] for l in open(os.path.join(V, "properties.jsonl"))]
integrated = set(open(os.path.join(V, "lib", "integrated.txt")).read().split())
for pid in ids:
    if pid not in integrated:
        na.append({"property_id": pid, "reason": "check under construction (model/harness being built; not yet run against /repo by the coordinator); see DESIGN.md"})
        continue
    if not os.path.exists(os.path.join(V, "lib", "props", pid + ".py")):
        na.append({"property_id": pid, "reason": "check not built yet (work in progress; see DESIGN.md)"})
        continue
    cfg = importlib.import_module("props." + pid).CFG
    if not all(k in cfg for k in ("level_text", "level_note", "theorems")) or cfg.get("wip") or not os.path.exists(os.path.join(V, "evidence", pid + ".json")):
        na.append({"property_id": pid, "reason": "check under construction (model/harness exist, not yet registered); see DESIGN.md"})
        continue
    if cfg.get("not_applicable"):
        na.append({"property_id": pid, "reason": cfg["not_applicable"]})
        continue
    checks.append({
        "property_id": pid,
        "quick_cmd": "bin/check %s quick" % pid,
        "thorough_cmd": "bin/check %s thorough" % pid,
        "evidence_file": "/verif/evidence/%s.json" % pid,
        "replay_cmd_template": "bin/check %s --replay {path}" % pid,
        "engine": "coq-model+correspondence",
        "level_claimed": {"category": cfg.get("level", "proof"), "text": cfg["level_text"], "design_ref": cfg.get("design_ref", "DESIGN.md §4 " + pid)},
        "level_note": cfg["level_note"],
        "technique": cfg.get("technique", "Coq theorems over a hand-written Gallina model + differential correspondence (vm_compute) against the Go code"),
    })
m = {
    "version": 1,
    "setup_cmd": "bin/setup",
    "hooks": {
        "guard": "verif",
        "enable": "go build -tags verif (harness module /verif/harness, replace => /repo)",
        "baseline_off_cmd": "cd /repo && go test -mod=mod -json -vet=off -count=1 -timeout 25m ./...",
        "source_commits": [l.strip() for l in open(os.path.join(V, "HOOK_COMMITS.txt")) if l.strip() and not l.startswith("#")] if os.path.exists(os.path.join(V, "HOOK_COMMITS.txt")) else [],
        "add_only": True,
    },
    "engines": [{"name": "coq-model+correspondence", "path": "/verif/bin/check",
                 "serves_properties": [c["property_id"] for c in checks],
                 "kind_free_text": "Coq 8.16.1 library (coq/theories) of models, proofs and property theorems; Go harness (harness/) run against /repo with -tags verif; the cases it records are evaluated inside Coq by vm_compute against model and property predicate"}],
    "checks": checks,
    "not_applicable": na,
    "notes": "See DESIGN.md. KNOWN_FINDINGS.txt lists recorded findings and fixed defects.",
}
json.dump(m, open(os.path.join(V, "MANIFEST.json"), "w"), indent=1)
print("checks:", [c["property_id"] for c in checks], "na:", len(na))
