import os, sys, glob
sys.path.insert(0, os.path.dirname(os.path.abspath(__file__)))
import vcheck
rc, out = vcheck.coq_make()
print(out[-3000:])
print("coq make rc", rc)
bad = 0
for d in sorted(glob.glob(os.path.join(vcheck.HARNESS, "cmd", "*"))):
    n = os.path.basename(d)
    r, o = vcheck.build_harness(n)
    print("harness", n, "rc", r, o[-500:] if r else "")
sys.exit(0)  # a file that does not compile is reported by the check of the property that needs it
