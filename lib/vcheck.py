#!/usr/bin/env python3
"""Orchestrator for one property check:  bin/check <ID> quick|thorough

Steps (DESIGN.md §2.1): regenerate Gen/*.v from /repo, make the Coq library, re-print the
assumptions of the property's theorems, rebuild the Go harness against /repo's working tree with
-tags verif, run it, evaluate the case files it wrote inside Coq (vm_compute), apply the verdict
logic of §2.4, write evidence/<ID>.json.
"""
import concurrent.futures as cf
import fcntl
import glob
import hashlib
import importlib
import json
import os
import re
import shutil
import subprocess
import sys
import time

VERIF = os.path.dirname(os.path.dirname(os.path.abspath(__file__)))
REPO = os.environ.get("VERIF_REPO", "/repo")
COQ = os.path.join(VERIF, "coq")
WORK = os.environ.get("VERIF_WORK", os.path.join(VERIF, "work"))
REPO_TAG = hashlib.sha256(REPO.encode()).hexdigest()[:8]
BIN = os.path.join(WORK, "bin", REPO_TAG)
HARNESS = os.path.join(VERIF, "harness")
GOENV = dict(os.environ, GOFLAGS="-mod=mod", GOPROXY="off", GOSUMDB="off", GOTOOLCHAIN="local",
             CGO_ENABLED=os.environ.get("CGO_ENABLED", "0"))
GOENV["VERIF_REPO"] = REPO
GOENV["VERIF_WORK"] = WORK
FORBIDDEN = re.compile(r"\b(Admitted|admit|Axiom|Axioms|Parameter|Parameters|Conjecture|Conjectures|Abort All|"
                       r"Unset Guard Checking|Unset Positivity Checking|Unset Universe Checking|bypass_check|"
                       r"type-in-type|impredicative-set|Admit Obligations|native_compute)\b")
# standard-library axioms that a theorem may depend on (must be named in the trusted base)
STD_AXIOMS = {
    "functional_extensionality_dep", "FunctionalExtensionality.functional_extensionality_dep",
    "proof_irrelevance", "ProofIrrelevance.proof_irrelevance", "classic", "Classical_Prop.classic",
    "JMeq_eq", "JMeq.JMeq_eq", "Eqdep.Eq_rect_eq.eq_rect_eq", "eq_rect_eq",
    "ClassicalDedekindReals.sig_forall_dec", "ClassicalDedekindReals.sig_not_dec",
}
BASE_TRUSTED = [
    "Coq 8.16.1 kernel (coqc; vm_compute used for evaluating case files and reflective steps; no native_compute)",
    "hand-written Gallina model of the anchored Go code, tied to /repo by the correspondence run of this check",
    "Go harness (generators, recorders, verif-tagged accessors), Python orchestrator bin/check, case-file printer",
    "Go toolchain/runtime/stdlib as used by the harness",
]


def log(*a):
    print(*a, flush=True)


def sh(cmd, cwd=None, env=None, timeout=None, capture=True):
    try:
        p = subprocess.run(cmd, cwd=cwd, env=env, timeout=timeout, shell=isinstance(cmd, str),
                           stdout=subprocess.PIPE if capture else None,
                           stderr=subprocess.STDOUT if capture else None, text=True)
        return p.returncode, p.stdout or ""
    except subprocess.TimeoutExpired as e:
        out = e.stdout or ""
        if isinstance(out, bytes):
            out = out.decode("utf-8", "replace")
        return 124, out + "\n[timeout after %ss]" % timeout


class Lock:
    def __init__(self, name, base=None):
        base = base or WORK
        os.makedirs(base, exist_ok=True)
        self.path = os.path.join(base, name)

    def __enter__(self):
        self.f = open(self.path, "w")
        fcntl.flock(self.f, fcntl.LOCK_EX)

    def __exit__(self, *a):
        fcntl.flock(self.f, fcntl.LOCK_UN)
        self.f.close()


def write_if_changed(path, text):
    old = None
    if os.path.exists(path):
        old = open(path).read()
    if old != text:
        os.makedirs(os.path.dirname(path), exist_ok=True)
        open(path, "w").write(text)
        return True
    return False


def coq_project_text():
    files = sorted(os.path.relpath(f, COQ) for f in glob.glob(os.path.join(COQ, "theories", "**", "*.v"), recursive=True))
    return "-R theories VF\n" + "\n".join(files) + "\n"


def coq_make(targets=None):
    """Full .vo build of the library (no-op when up to date). _CoqProject lists every .v under theories/. Returns (rc, log)."""
    with Lock(".coq.lock", COQ):
        changed = write_if_changed(os.path.join(COQ, "_CoqProject"), coq_project_text())
        if changed or not os.path.exists(os.path.join(COQ, "Makefile")):
            rc, out = sh("coq_makefile -f _CoqProject -o Makefile", cwd=COQ, timeout=120)
            if rc != 0:
                return rc, out
        cmd = "make -k -j%d" % (os.cpu_count() or 4)
        if targets:
            cmd += " " + " ".join(targets)
        rc, out = sh("timeout 7000 " + cmd, cwd=COQ, timeout=7100)
        return rc, out


def coq_stale(modules):
    """Modules (e.g. 'C20.Props') whose .vo is missing or out of date after the build (stale .vo files must not count)."""
    bad = []
    with Lock(".coq.lock", COQ):
        for m in modules:
            tgt = "theories/" + m.replace(".", "/") + ".vo"
            rc, out = sh("make -q %s" % tgt, cwd=COQ, timeout=300)
            if rc != 0 or not os.path.exists(os.path.join(COQ, tgt)):
                bad.append(m)
    return bad


def forbidden_scan():
    hits = []
    for f in glob.glob(os.path.join(COQ, "theories", "**", "*.v"), recursive=True):
        txt = open(f).read()
        # strip comments (non-nested approximation is enough: nested comments only widen the scan)
        code = re.sub(r"\(\*.*?\*\)", " ", txt, flags=re.S)
        for m in FORBIDDEN.finditer(code):
            hits.append("%s: %s" % (os.path.relpath(f, VERIF), m.group(0)))
    return hits


def _pa_chunk(pid, idx, chunk, workdir):
    """Print Assumptions for one chunk [(module, name)] in one coqc run; falls back to one run per theorem."""
    mods = []
    for mod, _ in chunk:
        if mod not in mods:
            mods.append(mod)
    lines = ["From VF Require %s." % m for m in mods] + ["Print Assumptions %s.%s." % mn for mn in chunk]
    path = os.path.join(workdir, "assume_%s_%d.v" % (pid, idx))
    open(path, "w").write("\n".join(lines) + "\n")
    rc, out = sh(["coqc", "-R", os.path.join(COQ, "theories"), "VF", path], cwd=workdir, timeout=600)
    res = []
    if rc != 0:
        # find out which theorem is missing: try them one by one
        for k, (mod, n) in enumerate(chunk):
            p1 = os.path.join(workdir, "assume1_%s_%d_%d.v" % (pid, idx, k))
            open(p1, "w").write("From VF Require %s.\nPrint Assumptions %s.%s.\n" % (mod, mod, n))
            rc1, out1 = sh(["coqc", "-R", os.path.join(COQ, "theories"), "VF", p1], cwd=workdir, timeout=600)
            res.append(parse_one_assumption(mod, n, out1) if rc1 == 0 else
                       {"name": n, "module": mod, "ok": False, "assumptions": ["<does not check: %s>" % out1.strip()[-300:]]})
        return res
    # split the output into one block per Print Assumptions
    blocks = re.split(r"(?m)^(?=Closed under the global context|Axioms:)", out)
    blocks = [b for b in blocks if b.strip()]
    for (mod, n), b in zip(chunk, blocks):
        res.append(parse_one_assumption(mod, n, b))
    if len(blocks) != len(chunk):
        for mod, n in chunk[len(blocks):]:
            res.append({"name": n, "module": mod, "ok": False, "assumptions": ["<no Print Assumptions output>"]})
    return res


def print_assumptions(pid, theorems, workdir):
    """theorems: list of (module, [names]). Returns list of dicts {name, module, ok, assumptions}, in order.
    Print Assumptions walks the whole dependency cone of a theorem (seconds each on the deep developments), so the
    list is cut into chunks that are checked side by side."""
    flat = [(mod, n) for mod, names in theorems for n in names]
    size = 4
    chunks = [flat[k:k + size] for k in range(0, len(flat), size)]
    with cf.ThreadPoolExecutor(max_workers=min(len(chunks), os.cpu_count() or 4) or 1) as ex:
        parts = list(ex.map(lambda ic: _pa_chunk(pid, ic[0], ic[1], workdir), enumerate(chunks)))
    return [r for part in parts for r in part]


def parse_one_assumption(mod, n, out):
    if "Closed under the global context" in out and "Axioms:" not in out:
        return {"name": n, "module": mod, "ok": True, "assumptions": []}
    ax = re.findall(r"(?m)^([A-Za-z_][\w.']*)\s*:", out.split("Axioms:", 1)[-1])
    bad = [a for a in ax if a not in STD_AXIOMS and a.split(".")[-1] not in STD_AXIOMS]
    return {"name": n, "module": mod, "ok": not bad and bool(ax), "assumptions": ax}


def build_harness(name, flags=None, outname=None, env=None):
    """go build -tags verif against REPO's working tree, through a per-REPO -modfile so that several
    trees (scratch worktrees for seeded changes) can be checked side by side."""
    os.makedirs(BIN, exist_ok=True)
    moddir = os.path.join(WORK, "gomod", REPO_TAG)
    os.makedirs(moddir, exist_ok=True)
    gomod = open(os.path.join(HARNESS, "go.mod")).read()
    want = re.sub(r"(replace github.com/songzhibin97/go-baseutils => ).*", r"\g<1>" + REPO, gomod)
    for extra in ("require", ):
        pass
    # carry over the repository's own requirements so that its dependencies resolve offline
    repo_mod = open(os.path.join(REPO, "go.mod")).read()
    reqs = re.findall(r"(?m)^\s*([\w./\-]+\.[\w./\-]+)\s+(v[\w.\-+]+)(?:\s*//.*)?$", repo_mod)
    want += "\nrequire (\n" + "".join("\t%s %s\n" % r for r in reqs if r[0] != "github.com/songzhibin97/go-baseutils") + ")\n"
    with Lock(".go.lock"):
        write_if_changed(os.path.join(moddir, "go.mod"), want)
        try:
            shutil.copy(os.path.join(REPO, "go.sum"), os.path.join(moddir, "go.sum"))
        except OSError:
            pass
        e = dict(GOENV)
        e.update(env or {})
        rc, out = sh(["go", "build", "-modfile", os.path.join(moddir, "go.mod"), "-tags", "verif"] + list(flags or []) +
                     ["-o", os.path.join(BIN, outname or name), "./cmd/" + name], cwd=HARNESS, env=e, timeout=1800)
    return rc, out


def parse_M(out):
    """Parse 'M = [(1, 2); (3, 1)] : list (nat * nat)' (numbers may carry %nat)."""
    flat = " ".join(out.split())
    m = re.search(r"M = (\[.*?\])\s*:\s*list", flat)
    if not m:
        return None
    body = m.group(1)
    pairs = [(int(a), int(b)) for a, b in re.findall(r"\(\s*(\d+)(?:%nat)?\s*,\s*(\d+)(?:%nat)?\s*\)", body)]
    if len(pairs) != body.count("(") or (not pairs and body.replace(" ", "") != "[]"):
        return None      # unparsed content: treated as an evaluation error, never as "no mismatch"
    return pairs


CUR_TIER = "quick"


def eval_shard(path):
    t = time.time()
    # a shard takes seconds on a tree where the property holds; on a broken tree the model may be evaluated on shapes far
    # outside its normal domain (a degenerate search structure, say): bound it (memory too: 12 GB of address space) so
    # that it ends as an evaluation error (= broken correspondence) instead of occupying the machine
    lim = 1800 if CUR_TIER == "thorough" else 600
    rc, out = sh("ulimit -v 12582912; exec coqc -R %s VF %s" % (os.path.join(COQ, "theories"), path),
                 cwd=os.path.dirname(path), timeout=lim)
    base = path[:-2]
    for ext in (".vo", ".vok", ".vos", ".glob"):
        try:
            os.remove(base + ext)
        except OSError:
            pass
    try:
        os.remove(os.path.join(os.path.dirname(path), "." + os.path.basename(base) + ".aux"))
    except OSError:
        pass
    if rc != 0:
        return path, None, out[-2000:], time.time() - t
    M = parse_M(out)
    if M == [] and os.path.getsize(path) > 2000000:
        os.remove(path)        # a large shard with nothing to report is not kept (disk)
    return path, M, out[-500:], time.time() - t


def crash_in_repo(out):
    """If the harness died with a Go fatal error / panic whose innermost non-runtime frame is in the repository under
    test, return that frame's function name; else None."""
    if not re.search(r"(?m)^(panic:|fatal error:|SIGSEGV|\[signal |unexpected fault address)", out) and "SIGSEGV" not in out:
        return None
    m = re.search(r"(?m)^goroutine \d+ .*\[running\]:\n((?:.*\n)*?)(?:\n|\Z)", out)
    if not m:
        return None
    lines = m.group(1).splitlines()
    for i in range(0, len(lines) - 1):
        fn, loc = lines[i], lines[i + 1].strip()
        if not lines[i + 1].startswith("\t"):
            continue
        if "/src/runtime/" in loc or "/src/testing/" in loc or "/src/reflect/" in loc:
            continue
        if loc.startswith(REPO + "/"):
            return fn.split("(")[0].strip()
        return None      # innermost user frame is harness code: not attributed to the library
    return None


def load_known(pid):
    """KNOWN_FINDINGS.txt lines:  finding: property=C15 match=<regex> :: text     (fixed: lines suppress nothing)"""
    res = []
    p = os.path.join(VERIF, "KNOWN_FINDINGS.txt")
    if os.path.exists(p):
        for line in open(p):
            m = re.match(r"finding:\s*property=(\S+)\s+match=(.*?)\s+::\s*(.*)", line.strip())
            if m and m.group(1) == pid:
                res.append((re.compile(m.group(2)), m.group(3)))
    return res


class Ctx:
    pass


def runs_of(cfg):
    """A check consists of one or more harness runs (e.g. a plain one and a -race one)."""
    rs = cfg.get("runs")
    if not rs:
        rs = [{"harness": cfg["harness"]}]
    out = []
    for i, r in enumerate(rs):
        r = dict(r)
        r.setdefault("name", r["harness"] + ("" if i == 0 else "_%d" % i))
        r.setdefault("subdir", "" if i == 0 else "run%d" % i)
        out.append(r)
    return out


def run_harness(cfg, run, tier, seed, outdir, timeout=None):
    os.makedirs(outdir, exist_ok=True)
    for f in glob.glob(os.path.join(outdir, "cases_*")) + glob.glob(os.path.join(outdir, "meta.json")):
        os.remove(f)
    cmd = [os.path.join(BIN, run["name"]), "-seed", str(seed), "-tier", tier, "-out", outdir]
    if run.get("extra"):
        cmd += ["-extra", run["extra"]]
    env = dict(GOENV)
    env["VERIF_REPO"] = REPO
    env.update(cfg.get("env", {}))
    env.update(run.get("env", {}))
    rc, out = sh(cmd, cwd=HARNESS, env=env, timeout=timeout or run.get("timeout") or cfg.get("harness_timeout", 1500))
    return rc, out


def evaluate_cases(outdir):
    """Returns (failures, errors, n_shards, coq_seconds): failures = list of dicts for every non-zero case."""
    metap = os.path.join(outdir, "meta.json")
    meta = json.load(open(metap))
    shards = sorted(glob.glob(os.path.join(outdir, "cases_*.v")))
    bymeta = {}
    for c in meta.get("cases", []):
        bymeta[(c["shard"], c["idx"])] = c
    failures, errors = [], []
    t = time.time()
    with cf.ThreadPoolExecutor(max_workers=os.cpu_count() or 4) as ex:
        for path, M, tail, dt in ex.map(eval_shard, shards):
            sh_i = int(re.search(r"cases_(\d+)\.v", path).group(1))
            if M is None:
                errors.append({"shard": path, "output": tail})
                continue
            for idx, code in M:
                c = bymeta.get((sh_i, idx), {"label": "?", "replay": None})
                kind, step = code % 4, code // 4
                steps = c.get("steps") or []
                term, header, fn = case_term(path, idx)
                failures.append({"coq_case": term, "coq_header": header, "coq_fn": fn, "shard": sh_i, "idx": idx, "kind": kind, "step": step,
                                 "label": c.get("label"), "step_label": steps[step] if step < len(steps) else None,
                                 "replay": c.get("replay"), "file": path})
    return meta, failures, errors, len(shards), time.time() - t


def merge_metas(metas):
    if not metas:
        return {}
    if len(metas) == 1:
        return metas[0]
    m = dict(metas[0])
    m["cases"] = []
    for k in ("evaluations", "distinct_nontrivial", "distinct"):
        m[k] = sum(x.get(k, 0) for x in metas)
    m["samples"] = sum((x.get("samples", [])[:3] for x in metas), [])
    d = {}
    for x in metas:
        for k, v in (x.get("distribution") or {}).items():
            d[k] = d.get(k, 0) + v
    m["distribution"] = d
    notes = {}
    dv = []
    for i, x in enumerate(metas):
        for k, v in (x.get("notes") or {}).items():
            if k == "direct_violations":
                dv += v or []
            else:
                notes["%s#%d" % (k, i) if k in notes else k] = v
    notes["direct_violations"] = dv
    m["notes"] = notes
    return m


def case_term(path, idx):
    """The idx-th case term of a shard file (terms are joined by ';\\n'), its header and the checking function."""
    try:
        txt = open(path).read()
        m = re.search(r"(?s)^(.*?)\nDefinition cases : list \((.*?)\) := \[\n(.*)\n\]\.\nDefinition M := Eval vm_compute in \((\S+) cases\)", txt)
        if not m:
            return None, None, None
        terms = m.group(3).split(";\n")
        t = terms[idx] if idx < len(terms) else None
        if t and len(t) > 200000:
            t = None
        return t, m.group(1) + "\n(* case type: " + m.group(2) + " *)", m.group(4)
    except OSError:
        return None, None, None


def replay(pid, path):
    """Re-evaluates the failing case of a replay file inside Coq (check_case on the single recorded case) and prints it."""
    r = json.load(open(path))
    c = r.get("case") or {}
    print(json.dumps({k: v for k, v in r.items() if k not in ("case",)}, indent=1, default=str)[:3000])
    print("signature:", r.get("signature"))
    print("implementation-side replay data:", json.dumps(c.get("replay"), default=str)[:3000])
    if c.get("coq_case") and c.get("coq_header"):
        d = os.path.join(WORK, pid + "_replay")
        os.makedirs(d, exist_ok=True)
        f = os.path.join(d, "replay_case.v")
        ctype = re.search(r"case type: (.*?) \*\)", c["coq_header"]).group(1)
        open(f, "w").write(c["coq_header"] + "\nDefinition cases : list (%s) := [\n%s\n].\nDefinition M := Eval vm_compute in (%s cases).\nPrint M.\n" % (
            ctype, c["coq_case"], c.get("coq_fn") or "mismatches"))
        rc, out = sh(["coqc", "-R", os.path.join(COQ, "theories"), "VF", f], cwd=d, timeout=900)
        print("Coq re-evaluation of the recorded case (code = step*4 + kind; kind 2 = property violated, 1 = model differs):")
        print(out[-1500:])
        return 0 if rc == 0 else 2
    print("(no Coq case recorded in this replay file: the finding was decided outside Coq or names a broken obligation)")
    return 0


def signature(f):
    return "%s | %s" % (f.get("label"), f.get("step_label") or "")


def write_replay(pid, payload):
    os.makedirs(os.path.join(VERIF, "replays"), exist_ok=True)
    h = hashlib.sha256(json.dumps(payload, sort_keys=True, default=str).encode()).hexdigest()[:12]
    path = os.path.join(VERIF, "replays", "%s-%s.json" % (pid, h))
    json.dump(payload, open(path, "w"), indent=1, default=str)
    return path


def main(argv):
    if len(argv) < 3:
        print("usage: check <ID> quick|thorough")
        return 2
    pid, tier = argv[1], argv[2]
    if tier == "--replay":
        return replay(pid, argv[3])
    tier = os.environ.get("VERIF_TIER", tier) if tier not in ("quick", "thorough") else tier
    global CUR_TIER
    CUR_TIER = tier
    seed = int(os.environ.get("VERIF_SEED", "1") or "1")
    t0 = time.time()
    sys.path.insert(0, os.path.join(VERIF, "lib"))
    cfg = importlib.import_module("props." + pid).CFG
    workdir = os.path.join(WORK, pid)
    os.makedirs(workdir, exist_ok=True)
    os.makedirs(os.path.join(VERIF, "evidence"), exist_ok=True)
    evpath = os.path.join(VERIF, "evidence", pid + ".json")

    broken = []       # proof obligations / correspondence items that no longer check (names)
    violations = []   # concrete failing inputs
    known_hits = {}
    notes = {}

    # 1. regenerate model inputs from the source (translator), then build the library
    for g in cfg.get("gen", []):
        rc, out = sh(g, cwd=VERIF, env=GOENV, timeout=600)
        if rc != 0:
            broken.append({"what": "generator `%s` failed" % g, "detail": out[-1500:]})
    rc, mout = coq_make()
    if rc != 0:
        notes["coq_make_rc"] = rc
        notes["coq_make_tail"] = mout[-3000:]
    hits = forbidden_scan()
    if hits:
        broken.append({"what": "forbidden construct in the Coq development", "detail": hits[:20]})
    # 2. obligations: the property theorems and their assumptions, re-checked from the compiled library
    mods = [m for m, _ in cfg["theorems"]] + list(cfg.get("check_modules", []))
    stale = coq_stale(mods)
    for m in stale:
        broken.append({"what": "Coq module %s (or something it depends on) does not compile any more" % m,
                       "detail": [l for l in mout.splitlines() if "Error" in l or l.startswith("File ")][-20:]})
    thms = print_assumptions(pid, cfg["theorems"], workdir)
    for t in thms:
        if t["module"] in stale:
            t["ok"] = False
    for t in thms:
        if not t["ok"]:
            broken.append({"what": "theorem %s.%s does not check or depends on a non-allowed axiom" % (t["module"], t["name"]),
                           "detail": t["assumptions"]})
    obligations = len(thms)
    discharged = sum(1 for t in thms if t["ok"])

    # 3. correspondence: harness on /repo's working tree
    meta, failures, errors = {}, [], []
    nshards = 0
    coq_s = 0.0
    harness_ok = True
    metas = []
    for run in runs_of(cfg):
        rc, bout = build_harness(run["harness"], run.get("build_flags"), run["name"], run.get("build_env"))
        if rc != 0:
            harness_ok = False
            broken.append({"what": "correspondence: harness does not build against %s (go build -tags verif %s ./cmd/%s)" % (
                REPO, " ".join(run.get("build_flags") or []), run["harness"]), "detail": bout[-3000:]})
            continue
        rdir = os.path.join(workdir, run["subdir"]) if run["subdir"] else workdir
        rc, hout = run_harness(cfg, run, tier, seed, rdir)
        notes["harness_tail_" + run["name"]] = hout[-1500:]
        if rc != 0 or not os.path.exists(os.path.join(rdir, "meta.json")):
            harness_ok = False
            crash = crash_in_repo(hout)
            if crash:
                # the process died inside the library's own code (fatal signal / unrecovered panic): a concrete failure
                failures.append({"kind": 2, "label": "crash", "step_label": crash, "shard": -1, "idx": -1, "step": 0,
                                 "replay": {"what": "the code under test crashed the harness process", "top_library_frame": crash,
                                            "trace": hout[-4000:], "seed": seed, "tier": tier, "run": run["name"]}})
            else:
                broken.append({"what": "correspondence: harness run %s failed (exit %s)" % (run["name"], rc), "detail": hout[-3000:]})
            continue
        m1, f1, e1, n1, c1 = evaluate_cases(rdir)
        metas.append(m1)
        failures += f1
        errors += e1
        nshards += n1
        coq_s += c1
        for e in e1:
            broken.append({"what": "correspondence: case file does not evaluate", "detail": e})
    meta = merge_metas(metas)
    # harness-level findings (things decided outside Coq, e.g. race detector reports): meta["direct_violations"]
    for dv in (meta.get("notes", {}) or {}).get("direct_violations", []) or []:
        failures.append({"kind": 2, "label": dv.get("label"), "step_label": dv.get("what"), "replay": dv, "shard": -1, "idx": -1, "step": 0})

    known = load_known(pid)

    def classify(fs):
        viol, mism = [], []
        for f in fs:
            if f["kind"] >= 2:
                sig = signature(f)
                hit = None
                for rx, text in known:
                    if rx.search(sig):
                        hit = text
                        break
                if hit:
                    known_hits.setdefault(hit, 0)
                    known_hits[hit] += 1
                else:
                    viol.append(f)
            else:
                mism.append(f)
        return viol, mism

    viol, mism = classify(failures)
    widened = None
    if not viol and (mism or broken) and harness_ok and tier == "quick" and not os.environ.get("VERIF_NO_WIDEN"):
        # an obligation or the tie broke but nothing explored violates the property: widen the search
        wdir = os.path.join(WORK, pid + "_widen")
        widened = {"runs": 0, "evaluations": 0}
        for k in range(int(cfg.get("widen_runs", 2))):
            rc, hout = run_harness(cfg, runs_of(cfg)[0], cfg.get("widen_tier", "thorough"), seed + 1000 + k, wdir,
                                   timeout=cfg.get("widen_timeout", 900))
            if rc != 0 or not os.path.exists(os.path.join(wdir, "meta.json")):
                break
            m2, f2, e2, _, _ = evaluate_cases(wdir)
            widened["runs"] += 1
            widened["evaluations"] += m2.get("evaluations", 0)
            v2, _ = classify(f2)
            if v2:
                viol = v2
                break
    rcode = 0
    out_lines = []
    for text, n in known_hits.items():
        out_lines.append("KNOWN-FINDING: property=%s %s (%d case(s) this run)" % (pid, text, n))
    if viol:
        first = sorted(viol, key=lambda f: len(json.dumps(f.get("replay"), default=str)))[0]
        path = write_replay(pid, {"property": pid, "kind": "property violated on the implementation's own output",
                                  "signature": signature(first), "case": first, "others": [signature(f) for f in viol[:50]],
                                  "seed": seed, "tier": tier, "broken_obligations": broken})
        out_lines.append("VIOLATION property=%s replay=%s" % (pid, path))
        rcode = 1
    elif mism or broken:
        path = write_replay(pid, {"property": pid,
                                  "kind": "proof obligation or model/implementation correspondence no longer checks; no failing input found",
                                  "broken": broken, "first_model_mismatches": mism[:10], "widened": widened, "seed": seed, "tier": tier})
        out_lines.append("VIOLATION property=%s replay=%s no-failing-input-found" % (pid, path))
        rcode = 1

    wall = time.time() - t0
    samples = meta.get("samples") or []
    if not samples:
        samples = [{"obligation": "%s.%s" % (t["module"], t["name"])} for t in thms[:3]]
    ev = {
        "property_id": pid, "tier": tier, "seed": seed, "level": cfg.get("level", "proof"),
        "coverage": {
            "obligations": obligations, "discharged": discharged,
            "checker_cmd": "make -C coq (coqc 8.16.1, full .vo build) ; coqc work/%s/assume_%s_*.v (Print Assumptions, in chunks) ; coqc work/%s/cases_*.v (vm_compute)" % (pid, pid, pid),
            "trusted_base": BASE_TRUSTED + cfg.get("trusted", []),
            "theorems": [{"name": "%s.%s" % (t["module"], t["name"]), "checked": t["ok"],
                          "assumptions": t["assumptions"] or "Closed under the global context"} for t in thms],
            "evaluations": meta.get("evaluations", 0),
            "distinct_nontrivial": meta.get("distinct_nontrivial", 0),
            "distinct": meta.get("distinct", 0),
            "rule": meta.get("rule", ""),
            "samples": samples,
            "traces_validated_against_impl": meta.get("evaluations", 0) - len([f for f in failures if f["kind"] == 1]),
            "distribution": meta.get("distribution", {}),
            "case_shards": nshards, "coq_eval_s": round(coq_s, 1),
            "model_mismatches": len(mism), "property_failures_unlisted": len(viol),
            "known_finding_hits": known_hits, "broken_obligations": broken, "widened_search": widened,
            "harness_notes": {k: v for k, v in (meta.get("notes") or {}).items() if k != "direct_violations"},
            "modelled_not_verified": cfg.get("modelled", []),
            "run_notes": notes,
        },
        "assumptions": cfg.get("assumptions", []),
        "wall_s": round(wall, 1),
        "violations": len(viol) + (1 if (rcode and not viol) else 0),
    }
    json.dump(ev, open(evpath, "w"), indent=1, default=str)
    for l in out_lines:
        log(l)
    log("%s %s: obligations %d/%d, cases %d (distinct non-trivial %d), model mismatches %d, violations %d, %.1fs -> exit %d" % (
        pid, tier, discharged, obligations, meta.get("evaluations", 0), meta.get("distinct_nontrivial", 0), len(mism), len(viol), wall, rcode))
    return rcode


if __name__ == "__main__":
    sys.exit(main(sys.argv))
