CFG = {
    "id": "C12",
    "level_text": "Proof for the model, the reference semantics and the interval checker, for all operation lists and all instants: "
                  "the Gallina model of app/bcache (member map + deadline index, explicit clock, repairs D3/D24/D32) returns what the "
                  "index-free reference map returns (C12_refines) and keeps 'index = exactly the timed keys' (C12_index); Get returns the "
                  "entry last stored and not deleted/cleared since, never past its deadline and always while now + 1024 < deadline, or for ever when the stored deadline is <= 0 "
                  "(C12_get_live; 1024 = largest float64 spacing on int64, the spacing at today's UnixNano is 256 ns); untimed entries survive every sweep and a sweep removes "
                  "exactly the timed entries with score in [0, fl now] (C12_untimed_survive, C12_sweep_exact, C12_count); SetIfAbsent / Replace "
                  "conditions (C12_setifabsent, C12_replace); Export then Clear+Load reproduces the non-expired entries with deadlines and a "
                  "rebuilt index (C12_roundtrip); Load onto an ARBITRARY cache stores exactly the data entries not expired at the load instant, "
                  "leaves every other key unchanged and keeps the index invariant (C12_load; D32 repaired by notes/fixes/0041); the interval checker that judges recorded traces never rejects observations the reference "
                  "semantics can produce for some instants inside the recorded clock brackets (C12_admissible_complete, "
                  "C12_kind2_iff_inadmissible; Load reading the clock once per entry is covered by C12_load_multi_instant). PARTIAL for wall-clock behaviour: the real time.Now readings, ticker latency and scheduling "
                  "are sampled, not proved: every run executes ~2400 short traces of the real package (each call bracketed by clock readings, "
                  "member map and zset index dumped after it and compared with the model run inside Coq) and 32 real-ticker runs "
                  "(10 ms sentinel, Count after an allowance of 10 intervals).",
    "level_note": "PARTIAL: (1) soundness of the interval checker is proved only for decided traces and only up to the exact deadline "
                  "values (C12_decided_sound_partial: if the strict interpretation decided_b accepts, the reference semantics gives the observed "
                  "booleans/hits/misses/values/counts/exported keys for every choice of instants; DESIGN's admissible_sound_decided with literal "
                  "equality of outputs is false, because an observed deadline fixes the instant its store read); for undecided traces acceptance is "
                  "complete (no false alarm) but only per-entry explainable. check_case uses admissible_b; how many traces had no deadline inside "
                  "any call bracket is counted by the harness (notes), not inside Coq. (2) 'within a few intervals' is only exercised by the "
                  "real-ticker runs. (3) In the window deadline-g <= now <= deadline the repaired code may already have swept an entry (the sweeper "
                  "compares float64-rounded scores, Get compares integers): the theorems state exactly that window instead of hiding it. "
                  "(4) A Load entry whose deadline falls inside the Load's own clock bracket, over a key that already has an abstract entry, makes "
                  "that key 'Wild' in the interval checker (every observation on it is accepted until the next definite store/hit/export): "
                  "sound for no-false-alarm, blind for that key in that rare window; decided_b rejects such traces as undecided. "
                  "(7) CONCURRENT calls are only sampled (PARTIAL): every run executes ~1900 race rounds on shared caches (sweeper off): a key holds an entry "
                  "that has expired but was not evicted, then 1-4 goroutines call GetWithExpire(k) repeatedly while 1-3 goroutines each store once "
                  "(SetNoExpire / Set with a long, wrapping or no TTL / SetDefault / SetIfAbsent / Replace, unique values), all released from a spin barrier; "
                  "after the join the key is read again. The calls overlap, so no sequential trace exists; Check.CRace judges what every linearisation has "
                  "in common: a racing Get misses or returns a store of the round that took effect, the epilogue Get returns such a store and may miss only "
                  "when no store took effect (nothing deletes, nothing stored can expire): 'a value stored without expiry disappears without Delete/Clear' "
                  "is kind 2. C12_race_complete proves that this judgement never rejects a round that some linearisation through the reference semantics "
                  "explains (no false alarm), C12_race_ok_perm that the listing order is irrelevant; it is NOT a proof about the Go locking (that is C11's "
                  "subject) and says nothing about schedules that were not sampled. Count and Export after each batch are compared with the epilogue reads. "
                  "The same rule judges ~3700 SWEEPER-vs-store rounds per run: keys whose entries have just expired are refreshed by 1-2 writers each while "
                  "the sweeper runs (1-2 goroutines looping VerifSweep = deleteExpire, or the cache's own 1 ms sentinel), optionally with a getter: the sweeper "
                  "may remove only the old expired entry, a store that took effect must be readable after the join; C12_race_complete covers sweeps among "
                  "the round's steps (nothing stored in the round is due). "
                  "(8) Profile 'index-neighbours' (300 traces per run, ~40 steps, keys 0..9): 6-10 timed keys alive at once with deadlines 8-14 ms apart, "
                  "middle deletions of the deadline index in four ways (Delete, SetNoExpire / Replace(NoExpire) over a timed key, Set with a far deadline, lazy "
                  "eviction), refreshes and re-stores whose TTL is computed at run time from the NEIGHBOURS' deadlines in the index dump (0.3 us .. 5 ms "
                  "before / after / equal to the predecessor's or successor's, midway between them), sweeps aligned between two deadlines, Count / "
                  "GetWithExpire / Export after each sweep: the kind-1 dump comparison sees an unsorted index at once, the aligned sweep makes it kind 2. "
                  "No backward (prev-pointer) listing of the index is taken: that would need a new accessor. "
                  "(6) int64 overflow of the deadline is modelled as the runtime does it (observed on Go 1.23: time.Now().Add(d).UnixNano() wraps, "
                  "Time.Add does not saturate for these d): a TTL with now + TTL >= 2^63 (more than ~235 years today) stores a NEGATIVE Expire; the code "
                  "treats it as never expiring (isVisit = Expire > 0 is false, the negative score sits in the index below the sweep range [0, now], "
                  "GetWithExpire shows the zero time, Export/Load carry the negative value). That is not a defect - the property demands the entry for the "
                  "next centuries anyway - and is proved as C12_wrap_negative / C12_wrapped_never_expires; changing isVisit to Expire != 0 loses such live "
                  "entries and is reported as kind 2. In the interval checker a store whose clock bracket straddles the overflow point makes the key Wild. "
                  "(5) Sampled configurations: default expiry per trace from {40ms, 120ms, 0, 0 without the option, NoExpire, -5ms, -1h, MaxInt64, 250 years}, capture "
                  "callback no-op / nil / recording, every TTL kind (NoExpire, DefaultExpire via Set(k,v,0) and via SetDefault, 40ms/120ms/1h/1y, MaxInt64, 250 years, TTLs within 1 s / 1 ms / 3 us / 400 ns / 1 ns of the overflow point MaxInt64 - now, "
                  "negatives; synthetic Load/Restore blobs with negative and near-MaxInt64 deadlines) with Set/SetDefault/SetIfAbsent/Replace in every profile; NOT varied: a custom SetSentinelFn (VerifSweep would "
                  "call it instead of deleteExpire) and a running ticker inside trace runs (background sweeps are not trace steps; the ticker "
                  "is sampled by separate runs); the API has no way to change the default expiry after New.",
    "harness": "c12",
    "theorems": [("C12.Props", [
        "C12_refines", "C12_index", "C12_get_live_generic", "C12_get_live", "C12_untimed_survive", "C12_sweep_exact",
        "C12_setifabsent", "C12_replace", "C12_count", "C12_roundtrip", "C12_load", "C12_load_multi_instant", "C12_f64_round", "C12_wrap_negative", "C12_wrapped_never_expires", "C12_admissible_complete",
        "C12_kind2_iff_inadmissible", "C12_decided_sound_partial", "C12_race_complete", "C12_race_ok_perm"])],
    "trusted": [
        "every call of one goroutine reads the clock inside the two wall-clock readings recorded around it (traces whose wall clock "
        "disagrees with the monotonic clock by > 1 ms or steps backwards are dropped and counted, never judged)",
        "witness instants proposed by the harness (deadline - ttl for stores, bracket ends for hits/misses, a separating instant for "
        "sweeps and loads) are only checked inside Coq, not trusted",
        "Get (which shows no deadline) is recorded with the Expire field read through the verif accessor; GetWithExpire uses its own result",
    ],
    "modelled": [
        "zset skip list + dict abstracted to one list sorted by (score, key) (levels, spans, heights are C03/C17's subject)",
        "float64(int64) score conversion as f64 = exact below 2^53, else nearest multiple of 2^(e-52) with ties to even for 2^e <= |x| < 2^(e+1) "
        "(all of int64; the index dump is compared with f64 on every step); int64 wrap-around of now + TTL as wrap64",
        "time.Now: one instant per call as an explicit input (Replace and Load read the clock more than once; one instant suffices, see Model.v; "
        "for the model run at one witness instant a Load whose entries straddle its own bracket inconsistently is dropped and counted; "
        "the interval checker itself handles one instant per entry)",
        "sentinel ticker: sweeps are explicit trace steps through VerifSweep; the real ticker is only sampled",
        "encoding/json as a codec of map[K]Iterator (Export output parsed by the harness)",
    ],
    "assumptions": ["recorded clock readings in [2^60, 2^61) (years 2006-2043; only a harness sanity check, the model covers all of int64)", "restore/load data: unique keys (op_wf; not needed by C12_admissible_complete)",
                    "non-decreasing instants (times_ok) for the declarative theorems"],
    "harness_timeout": 600,
}
