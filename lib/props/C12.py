CFG = {
    "id": "C12",
    "level_text": "placeholder",
    "harness": "c12",
    "theorems": [],
}
