CFG = {
    "id": "C11",
    "level": "proof",
    "technique": "Coq proof of lock-discipline => atomicity + table regenerated from Go source by go/ast translator and "
                 "re-checked by vm_compute + race-detector stress",
    "level_text": "PARTIAL. Proved in Coq for every schedule, any number of threads and any family of calls (C11/Proofs.v): if every "
                  "method that takes the guard in Shared mode is read-only (mutators therefore hold Excl) then the ghost commit log is a "
                  "sequential run that explains every return value and the final state (discipline_atomic), and two critical sections "
                  "overlap only if both are read-only (discipline_no_overlap); a mutator under the read lock loses an update "
                  "(shared_mutator_refuted). The hypothesis is discharged for THIS source tree by a translation-validation step: on every "
                  "run tools/gen_c11 (go/parser+go/ast) re-derives from the Go sources one record per method of every guarded type "
                  "(35 types, ~500 methods: guard mode, callees on guarded state, direct writes, forwards) and Coq re-checks "
                  "LockTables_ok : check_tables Gen.tables Gen.inner = true by vm_compute; check_tables_sound / tables_atomic connect the "
                  "decision procedure to the protocol theorem. What the model cannot express - the Go memory model, the completeness of "
                  "the race detector, the scheduler - is sampled: every usable exported method of every guarded type is called "
                  "concurrently by 8-12 goroutines under `go build -race` with GOMAXPROCS 2/4/16, with a deadlock watchdog, panic capture "
                  "and a serial-outcome detector (final state and return values of small concurrent histories must be among the outcomes "
                  "of the same calls run sequentially in some order on the same code).",
    "level_note": "Trusted/unverified: tools/gen_c11 (syntactic: no type checker, lock idiom = Lock();defer Unlock() as first statements, "
                  "aliases tracked only through local variables), the hand classification C11/Classify.v of read-only callees (premise "
                  "ro_sound of the theorems; cross-checked statically against the parsed bodies of bslice/bmap/zset callees and dynamically "
                  "against the unguarded containers), the Go harness. Not covered by any theorem: data-race freedom in the sense of the Go "
                  "memory model (race detector only, sampled schedules), deadlock freedom beyond 'every method releases what it acquires and "
                  "never re-acquires' (watchdog), absence of panics (sampled). A method that is a sequence of separately locked calls (per variadic element) is rejected by check_tables (Classify.compound_known is empty; zset.Set.Add/Remove/Contains were of that shape and are repaired by fix 0040). Excluded as the property says: ToMetaSlice, ToMetaMap, GetByRange, callbacks that "
                  "re-enter the instance. (De)serialisation methods are exercised with valid documents (produced by the type itself), invalid ones (truncated, wrong element type, garbage) and empty ones; after every failing call the instance must still answer (a call blocking > 4 s in a run without concurrency = lock left held on an error path). Weakened on purpose: a panic under concurrency is reported only if the same operation mix issued by one goroutine never panics (failed loads leave arraylist-backed containers and bmap in an inconsistent state, a functional defect that then panics everywhere); document-loading methods of containers that decode through a Go map are left out of the serial-outcome scenarios (run-dependent tree shapes). bcache instances hold expired-but-still-stored entries (1ns TTL, sweeper off) under the even keys; same-key scenarios (every sampled pair of methods on ONE key/index, also negative ones) and, for every offending entry of the table, targeted same-key/negative-argument/random scenarios against each writer are judged by the serial-outcome oracle. A Safe wrapper that disagrees with the container it wraps on a sequential trace is a violation (kind 2: the wrapped method of the same name is the sequential meaning of a wrapper call). Results handed out by methods must be private: in the stress every caller keeps the slices/maps it was returned, keeps reading and sometimes writes them while others mutate the instance (race detector), and sequentially a retained result must survive later mutations and writes into it must not reach the instance, in the states where a no-copy fast path could apply (empty, one element, exactly full after a load, after shrinking removals): CRetained, kind 2. Nested acquisition: methods accepting another instance of their own type are called with the receiver itself (one writer queued) and with a pair in both orders (a writer queued on each; separate child whose only verdict is the watchdog, because bmap's *ByBMap methods access the ARGUMENT's raw map without its lock - the known unrepaired note - and race with the argument's writers by construction); the translator flags 'calls a locking method of its argument while holding its own lock' as Irregular. Not exercised: lscq.QueueSafe methods that are unimplemented stubs.",
    "harness": "c11",
    "gen": [
        "cd tools/gen_c11 && go run . -out ../../coq/theories/C11/Gen/LockTables.v -classify ../../coq/theories/C11/Classify.v",
    ],
    "runs": [
        {"harness": "c11", "name": "c11_race", "build_flags": ["-race"], "build_env": {"CGO_ENABLED": "1"},
         "env": {"GORACE": "halt_on_error=0 exitcode=0"}, "timeout": 1500},
    ],
    "check_modules": ["C11.Check", "C11.Gen.LockTables"],
    "widen_runs": 1,
    "widen_tier": "widen",      # intermediate intensity (harness/cmd/c11): a quick check never exceeds ~150 s
    "widen_timeout": 85,
    "theorems": [
        ("C11.Props", [
            "C11_discipline_atomic", "C11_discipline_no_overlap", "C11_shared_mutator_refuted", "C11_check_tables_sound",
            "C11_tables_atomic", "C11_check_tables_callable", "C11_serial_case_sound"]),
        ("C11.Obligation", ["LockTables_ok", "LockTables_atomic"]),
    ],
    "trusted": [
        "tools/gen_c11: go/ast translator from the Go sources to C11/Gen/LockTables.v (rerun on every check; unverified)",
        "C11/Classify.v: hand-written list of read-only callees per container kind = hypothesis ro_sound of check_tables_sound "
        "(cross-checked on every run: statically for callees whose source is parsed, dynamically by CReadOnly cases)",
        "Go race detector (ThreadSanitizer runtime, needs cgo), sync.Mutex/sync.RWMutex implement the abstract lock of C11/RWProto.v",
    ],
    "modelled": [
        "sync.RWMutex as an abstract readers/writer lock (no fairness, no writer preference, no starvation)",
        "a method call as acquire . snapshot . commit . release on an abstract state; memory model, word tearing, scheduler not modelled",
        "callee semantics are parameters of the theorems (only 'classified read-only => read-only' is assumed)",
    ],
    "assumptions": [
        "every guarded method has the shape the translator recognises or is reported Irregular (conservative)",
        "amd64/linux race detector; goroutine schedules are sampled, not enumerated",
    ],
}
