CFG = {
    "id": "C09",
    "level_text": "Proof over an executable Gallina model of hashmap, linkedhashmap, hashset, linkedhashset, hashbidimap as the Go code is written and, for "
                  "treeset and treebidimap, over the red-black-tree model of C01 (C01/RB.v, C01/Containers.v: the same model C01/C02 verify and tie to the code), "
                  "spoken to in C09's operation vocabulary (C09/TreeModel.v) "
                  "(Go's built-in map = duplicate-free association list whose insertion place is a parameter, so every iteration order is covered; "
                  "linked containers = table + ordering list with Remove going through an index search; bidi-map = two tables updated in the code's order; "
                  "set algebra = the code's loops). Theorems for every operation list, key/value type with a deciding == and every insertion place: refinement of "
                  "hashmap/hashset to the reference map/set (Keys/Values up to order), EQUAL outputs of linkedhashmap/linkedhashset and the insertion-ordered "
                  "reference (first-insertion order, re-put keeps position, remove+re-add goes last) with NoDup ordering and table keys = ordering list, "
                  "bidi-map always a bijection with the answers of the reference partial bijection, Union/Intersection/Difference = the mathematical result "
                  "and a well-formed result set. treeset / treebidimap (C09_treeset, C09_treebidimap, C09_algebra_tree; premises: C01's comparator laws and "
                  "cmp a b = 0 -> a = b, true of the built-in int/string comparators): for every operation list the red-black containers give the reference "
                  "set's / partial bijection's answers, Values()/Keys() strictly ascending and duplicate free, the two trees inverse of each other, and "
                  "Union/Intersection/Difference written as the code's loops over the tree iterator give the mathematical result in a sorted tree set - corollaries of "
                  "C01's refinement theorems through a bridge lemma (on sorted lists C01's reference sorted map IS the Go-map-like table with sorted insertion; "
                  "C09_tree_abstract_agrees: those tables answer exactly as the red-black models). The pre-repair Remove (ordering list searched with a coarser equality, D21) is proved to break the table/list "
                  "agreement. The model is tied to the code on every run by replaying operation sequences on the real containers (int, string and pointer "
                  "keys, plain and Safe variants) and evaluating model and specification on the same sequences inside Coq.",
    "level_note": "UnmarshalJSON into a USED container is exercised as an operation of the sequences (one step in ten, int / string keys, maps, sets and bidi-maps, plain and Safe): the code decodes, "
                  "calls Clear() and re-inserts, so on model and reference it is the operation list Clear; Put... / Clear; Add... (mact_ops / sact_ops / bact_ops in Check.v) that the theorems already "
                  "cover; a decoder that merges into the used container is a kind-2 disagreement with the reference map. The harness writes those documents itself, independently of MarshalJSON (C15), and as no MarshalJSON would: members in any "
                  "order, distinct member names, repeated values (a bidi-map document in which several keys carry one value: UnmarshalJSON ranges over a Go map, so any order of the Puts is a "
                  "legal execution and per value any one carrier may survive - bload_order in Check.v puts the members the snapshot still reports last, which reproduces every legal result and "
                  "makes every other snapshot a kind-2 disagreement), set documents with repeated and unsorted elements, {} / [] / null. Documents with a repeated member NAME are not generated. "
                  "treeset / treebidimap: the correspondence check (C09/Check.v) now evaluates the red-black models themselves (rb_set_step, rb_bidi_step, ts_union / "
                  "ts_inter / ts_diff) against the recorded snapshots, with the comparator shape the container was built with: the built-in -1/0/+1 comparator or a user "
                  "comparator a-b, b-a, (b-a)*7, (a-b)*3, k*strings.Compare, a struct field of a pointer key (cmpsel / cmp_of in Check.v: k*(a-b) on the key numbers, which has "
                  "the sign of the real comparator on the real keys - magnitudes are not modelled, correct tree code only looks at the sign; C09_comparator_shapes proves "
                  "every evaluated shape satisfies the comparator laws the tree theorems assume; Keys()/Values() are judged in the comparator's order); the shapes of the trees inside treeset / treebidimap are not compared here (the red-black code itself is tied shape-for-shape by C02's check of redblacktree). treeset's "
                  "Intersection/Union return the empty set when the two operands carry different comparators (a reflect pointer test): the model has one comparator, "
                  "the branch is not modelled. The ordering list is modelled at the level of its element "
                  "sequence (Append, first-index search, Remove(index), Values); the pointer structure of doublylinkedlist is C07's. 'Operands are not modified' "
                  "and 'the result is a new set' cannot be stated in a functional model without a heap: the model's algebra functions only read their operands; "
                  "the clause is checked on the real code (operands and results re-read after mutating the other side). Keys for which == is not an "
                  "equivalence that decides identity (NaN floats, interface keys holding them) are outside the premise eqb_spec.",
    "harness": "c09",
    "theorems": [("C09.Props", [
        "C09_hashmap", "C09_hashset", "C09_linked", "C09_linked_set", "C09_linked_deepequal_refuted", "C09_bidi",
        "C09_algebra", "C09_algebra_linked", "C09_linked_set_inv", "C09_tree_sorted",
        "C09_treeset", "C09_treebidimap", "C09_algebra_tree", "C09_tree_abstract_agrees", "C09_comparator_shapes"])],
    "trusted": [
        "Go's built-in map behaves as a finite map under == (premises eqb_spec, ins_ok of the theorems); its iteration order is arbitrary",
        "verif accessors VerifTableKeys/VerifRevKeys of linkedhashmap and linkedhashset, VerifNewSafe of hashset (add-only files, build tag verif)",
        "the numbering of keys by the harness (ordered key types are numbered in key order; two pointers to equal structs get two numbers)",
        "the red-black-tree model of C01 (C01/RB.v, C01/Containers.v) and its refinement theorems, which C09_treeset / C09_treebidimap / C09_algebra_tree compose with "
        "(the red-black code is tied to that model shape-for-shape by C02's check of redblacktree; here only the observable answers of treeset / treebidimap are compared)",
    ],
    "modelled": ["treeset.Intersection/Union with operands of different comparators (returns the empty set; reflect pointer comparison of the comparators)",
                 "doublylinkedlist behind the linked containers (element sequence only; see C07)",
                 "sync.Mutex of the Safe* wrappers (sequential delegation only; atomicity is C11)"],
    "assumptions": ["key and value types whose == decides equality (ints, strings, pointers; not NaN)"],
    "widen_runs": 1,
}
