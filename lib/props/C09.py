CFG = {
    "id": "C09",
    "level_text": "Proof over an executable Gallina model of hashmap, linkedhashmap, hashset, linkedhashset and hashbidimap as the Go code is written "
                  "(Go's built-in map = duplicate-free association list whose insertion place is a parameter, so every iteration order is covered; "
                  "linked containers = table + ordering list with Remove going through an index search; bidi-map = two tables updated in the code's order; "
                  "set algebra = the code's loops). Theorems for every operation list, key/value type with a deciding == and every insertion place: refinement of "
                  "hashmap/hashset to the reference map/set (Keys/Values up to order), EQUAL outputs of linkedhashmap/linkedhashset and the insertion-ordered "
                  "reference (first-insertion order, re-put keeps position, remove+re-add goes last) with NoDup ordering and table keys = ordering list, "
                  "bidi-map always a bijection with the answers of the reference partial bijection, Union/Intersection/Difference = the mathematical result "
                  "and a well-formed result set. The pre-repair Remove (ordering list searched with a coarser equality, D21) is proved to break the table/list "
                  "agreement. The model is tied to the code on every run by replaying operation sequences on the real containers (int, string and pointer "
                  "keys, plain and Safe variants) and evaluating model and specification on the same sequences inside Coq.",
    "level_note": "treebidimap and treeset sit on the red-black tree, which is modelled and proved by C01; for C09 they are modelled ABSTRACTLY as association "
                  "lists with sorted insertion (the same theorems as the hash variants plus: tables stay strictly sorted) - that the real tree behaves like a "
                  "sorted association list is C01's theorem, here it is only exercised by the harness. The ordering list is modelled at the level of its element "
                  "sequence (Append, first-index search, Remove(index), Values); the pointer structure of doublylinkedlist is C07's. 'Operands are not modified' "
                  "and 'the result is a new set' cannot be stated in a functional model without a heap: the model's algebra functions only read their operands; "
                  "the clause is checked on the real code (operands and results re-read after mutating the other side). Keys for which == is not an "
                  "equivalence that decides identity (NaN floats, interface keys holding them) are outside the premise eqb_spec.",
    "harness": "c09",
    "theorems": [("C09.Props", [
        "C09_hashmap", "C09_hashset", "C09_linked", "C09_linked_set", "C09_linked_deepequal_refuted", "C09_bidi",
        "C09_algebra", "C09_algebra_linked", "C09_linked_set_inv", "C09_tree_sorted"])],
    "trusted": [
        "Go's built-in map behaves as a finite map under == (premises eqb_spec, ins_ok of the theorems); its iteration order is arbitrary",
        "verif accessors VerifTableKeys/VerifRevKeys of linkedhashmap and linkedhashset, VerifNewSafe of hashset (add-only files, build tag verif)",
        "the numbering of keys by the harness (ordered key types are numbered in key order; two pointers to equal structs get two numbers)",
    ],
    "modelled": ["red-black tree behind treebidimap/treeset (abstract sorted association list; see C01)",
                 "doublylinkedlist behind the linked containers (element sequence only; see C07)",
                 "sync.Mutex of the Safe* wrappers (sequential delegation only; atomicity is C11)"],
    "assumptions": ["key and value types whose == decides equality (ints, strings, pointers; not NaN)"],
    "widen_runs": 1,
}
