CFG = {
    "id": "C19",
    "level_text": "Proof over an executable Gallina transcription of sys/stringx/{stringx.go,is.go} on valid UTF-8 strings "
                  "represented as rune lists (with bytelen for byte quantities): for every rune list and every Z argument "
                  "the pads equal the input extended on the stated side to exactly max(size, rune length) runes (centre: "
                  "floor on the left, extra rune on the right), Sub/SubStart equal the clamped rune range with negatives "
                  "from the end, Rotate equals the cyclic shift by shift mod rune length, Reverse equals rev without error "
                  "and is an involution (MustReverse never panics), RemoveChar equals filter, RemoveString satisfies (and is "
                  "determined by) the leftmost-non-overlapping-deletion relation, Shuffle is a Permutation for every draw "
                  "stream and never indexes out of range, Is* = non-empty and all runes in the class for arbitrary class "
                  "predicates. The transcription is tied to the code on every run: ~9 000 calls (bounded-exhaustive over "
                  "{a, 日, U+FFFD}^<=3 plus profiled random strings of length 0..64 over 1-4-byte runes, U+FFFD, combining "
                  "marks, integer arguments in [-2n-2, 2n+2] and int64 extremes) are evaluated inside Coq against the "
                  "rune-level Spec (kind 2) and against the transcribed Model (kind 1); Shuffle is replayed from the recorded "
                  "fastrand.Uint32 draws.",
    "level_note": "The theorems are about the code after the repairs D25 (Rotate modulus, fixes/0028) and D26 (Reverse and an "
                  "encoded U+FFFD, fixes/0029); the pre-repair transcriptions are refuted in Coq "
                  "(C19_rotate_prerepair_refuted, C19_reverse_prerepair_refuted) with the witnesses the check found. "
                  "No theorem for: ContainsAnySubstrings (not in the property); behaviour on malformed UTF-8 input (outside "
                  "the property's quantifier); allocation failure for huge positive pad sizes. 'No panic' is a theorem for the "
                  "functions that contain index expressions (Reverse, MustReverse, Shuffle); the other functions are total "
                  "Gallina functions with no panic outcome because their Go text has only range loops, builder writes and a "
                  "guarded `%`. C19_substart / C19_rotate assume rune length <= MaxInt64 (true of every Go string). "
                  "Trusted: Coq kernel, the hand transcription and its correspondence run, the Go harness, Go's unicode/utf8 "
                  "(encoding, DecodeLastRune, RuneCountInString, range), strings.Builder, strings.ReplaceAll and the unicode tables.",
    "harness": "c19",
    "theorems": [("C19.Props", [
        "C19_pad_left", "C19_pad_right", "C19_pad_center", "C19_pad_space", "C19_pad_lengths", "C19_repeat_char",
        "C19_sub", "C19_substart", "C19_rotate", "C19_rotate_empty", "C19_rotate_prerepair_refuted",
        "C19_reverse", "C19_reverse_prerepair_refuted", "C19_remove_char", "C19_remove_string",
        "C19_shuffle_perm", "C19_is_classes", "C19_no_panic", "C19_perm_checker", "C19_class_checker"])],
    "trusted": [
        "Go's unicode/utf8 and the string<->[]rune conversions: a valid UTF-8 string is identified with its rune list; "
        "range/RuneCountInString/WriteRune/EncodeRune/DecodeLastRune are the list primitives of C19/Model.v "
        "(DecodeLastRune returns (RuneError, 3) for an encoded U+FFFD and (RuneError, <=1) only for malformed or empty input)",
        "strings.ReplaceAll(s, old, \"\") deletes the leftmost non-overlapping occurrences (modelled by replace_all; on valid "
        "UTF-8 byte matches are rune matches)",
        "unicode.IsLetter / unicode.IsDigit: arbitrary predicates in the theorems; the harness sends their values for the runes "
        "of each case, computed with the same library the code calls",
        "fastrand.Intn below 2^31 is C20's intn on the recorded fastrand.Uint32 draws (draws are uint32: src_ok)",
        "the check's verdict for RemoveString compares with the transcribed function, which is equivalent to the relation "
        "RemAll by the theorem C19_remove_string (existence and uniqueness)",
    ],
    "modelled": [
        "internal/hack StringToBytes/BytesToString (unsafe header casts): modelled as the identity between a string and its bytes",
        "strings.Builder Grow/WriteRune/WriteString: a write-only buffer; Grow has no observable effect",
        "the zero-filled tail of dst that Reverse returns on its error path (NUL runes)",
    ],
    "assumptions": [
        "termination of the Go functions is observed, not proved: every call runs under a 5 s watchdog and a call that does not "
        "return is reported as a violation (the Gallina models are total by construction)",
        "input strings are valid UTF-8 (valid_string); rune length <= MaxInt64",
        "Shuffle: the recorded stream does not run out (fuel = draws + 1) and n < 2^31 so that Intn uses the injectable source",
    ],
    "widen_runs": 1,
}
