CFG = {
    "id": "C01",
    "level_text": "Proof over executable Gallina models of the red-black tree (gods delete variant), the AVL tree, the B-tree of any "
                  "order m >= 3 and of treemap / treeset / treebidimap: for EVERY list of Put/Remove/Clear/Get/Size/Empty/Keys/Values/"
                  "Left/Right/Floor/Ceiling (and GetKey, Add/Remove/Contains batches) calls, every key/value type and every comparator "
                  "satisfying the three order laws, each call on the model returns exactly what the same call on the reference sorted "
                  "association list returns (C01_rb, C01_avl, C01_bt for all m >= 3, C01_tmap, C01_tset, C01_bidi_refines); the bidi-map's "
                  "forward and inverse trees stay mutually inverse through every overwrite pattern (C01_bidi_bijection). The reference "
                  "map keeps its keys strictly ascending (hence unique), binds each key to the last value put, is unchanged by removing an "
                  "absent key and changes only the bound value on re-putting a present key (C01_spec_*). The models are tied to the code "
                  "on every run: the harness drives the REAL containers (plain and Safe* wrappers) with bounded-exhaustive (every distinct "
                  "reachable state x every next operation) and profiled random call sequences, records everything every query returned, "
                  "and Coq replays each sequence through the model (kind 1) and through the reference map (kind 2).",
    "level_note": "All clauses have a theorem. C01_bt quantifies over operation lists without Floor/Ceiling (the B-tree has no such "
                  "methods). C01_bidi_bijection is stated for comparators that separate keys (cmp a b = 0 -> a = b: true of the built-in "
                  "int/string comparators), so that 'GetKey v = k' is an equality of keys; the call-by-call refinement C01_bidi_refines "
                  "needs no such premise. Min/Max/Floor/Ceiling of treemap return zero key/value when absent (modelled and proved so). "
                  "The AVL refinement carries the balance invariant in its relation (without it the fix-ups would dereference a missing "
                  "child: avl_refine_needs_ok_* witnesses).",
    "widen_runs": 1,
    "harness": "c01",
    "theorems": [("C01.Props", [
        "C01_rb", "C01_avl", "C01_bt", "C01_tmap", "C01_tset", "C01_bidi_refines", "C01_bidi_bijection",
        "C01_spec_sorted", "C01_spec_last_value_put", "C01_spec_get_after_remove", "C01_spec_remove_absent",
        "C01_spec_reput_present", "C01_int_comparator_laws", "C01_comparator_shapes_laws", "C01_comparator_shapes_separate"])],
    "trusted": [
        "comparator: theorems assume antisymmetry of sign, cmp a b = 0 <-> cmp b a = 0 and transitivity of <= 0 (premise CmpLaws, "
        "proved for every comparator shape of the correspondence run: C01_comparator_shapes_laws); the harness builds the real containers "
        "(NewWith...) over Go int keys with IntComparator, a-b, b-a, (a-b)*7, (b-a)*1000003 and a-b clamped to [-3,3], on key universes "
        "whose differences cross 127/128, 255/256, 32767/32768 and 2^31 (|keys| < 2^40: no int overflow); each case file names its shape",
        "Keys()/Values() are modelled as the in-order walk of the tree; the iterator that produces them (parent-pointer walking) is "
        "property C14's subject and is exercised here only through the recorded Keys/Values results",
    ],
    "modelled": ["String() printers, JSON (C15), iterators (C14) are not part of this model",
                 "B-tree: sibling lookup by search(parent, deletedKey) is modelled by the child index (equal under search-tree order)"],
    "assumptions": ["keys and values are Go int in the correspondence run (theorems: any type)", "sequential use (C11 covers the Safe* locks)"],
}
