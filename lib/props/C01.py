CFG = {
    "id": "C01",
    "level_text": "WORK IN PROGRESS",
    "level_note": "",
    "harness": "c01",
    "theorems": [("C01.Props", ["C01_int_comparator_laws"])],
    "trusted": [],
    "modelled": [],
    "assumptions": [],
}
