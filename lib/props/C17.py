CFG = {
    "id": "C17",
    "harness": "c17",
    "theorems": [("C17.Props", ["C17_rb_cost", "C17_avl_cost", "C17_bt_get_cost", "C17_rb_after_any_history",
                                "C17_avl_after_any_history", "C17_bt_after_any_history", "C17_bsearch_cost"]),
                 ("C17.PropsSkip", ["C17_zset_lanes"])],
    "check_modules": ["C17.Check"],
    "level_text": "Proof (trees) / partial (skip lists). The number of comparator calls of Get/Floor/Ceiling/Remove and of the Put descent is defined as a function (Cost.path_cost, get_cost, bsearch_cost) of the C01 model tree and proved <= 2*log2(n+1)+1 for red-black and AVL trees and <= log2(n+1)*(log2(m-1)+1) for B-tree Get of every order m >= 3, under the C02 shape invariants — hence after ANY history of insertions and deletions (C17_*_after_any_history, via C02's preservation theorems), not only on freshly built trees. On every run the harness counts the real comparator invocations (counting comparator through the public constructors) on trees built ascending/descending/zig-zag/random and after churn: counts on dumped shapes must EQUAL the cost function (kind 1) and obey the proved bound (kind 2); operations on trees of 2^8..2^12 keys (2^16 thorough) are judged against the bound. Skip lists (zset, skipmap, skipset): the lane invariant is a theorem for zset (C03) and is checked on every dump; the expected O(log n) of randomized heights is the textbook argument, NOT proved: batch averages of 256 operations are judged against 4*log2(n+2)+16.",
    "level_note": "No theorem: B-tree Put/Remove cost (they re-search the parent once per split / up to four times per rebalanced level; judged against 2x / 6x the Get bound plus log2 m + 1), treemap/treeset (red-black underneath: judged with the red-black bound), skipmap/skipset lanes (checked on dumps only), expected cost of skip lists (statistical). Trusted: Coq kernel, C01 tree models (tied to the code by C01/C02's shape correspondence and here by exact cost equality on dumped shapes), the counting comparator, the harness.",
    "trusted": ["counting comparator wraps the int order; a comparator call inside the library that bypasses tree.Comparator would be invisible"],
    "modelled": ["skip-list search cost (not modelled: only lane structure and observed averages)", "B-tree Put/Remove extra parent searches"],
    "assumptions": ["element heights of the skip lists are independent geometric(1/4) draws (fastrand) for the average-cost clause"],
}
