CFG = {
    "id": "C20",
    "level_text": "Proof over an executable Gallina model of sys/fastrand on explicit draw streams: range, non-negativity, panic-iff-nonpositive, Perm is a permutation, Shuffle indexes/permutation and Read touching exactly its slice are theorems for every n, stream and length. The model is tied to the code on every run by replaying recorded draws (fastrand.Uint32 is reassignable) through the model inside Coq; the frequency clause is backed by theorems: Uint32n maps the 2^32 draws to each residue floor or ceil(2^32/n) times, and Int31n's rejection test accepts exactly floor(2^32/n) draws per residue (exact uniformity given a uniform source); functions that draw from the runtime directly and concurrent callers are observed and judged by the Coq predicate only (partial there).",
    "level_note": "Trusted: Coq kernel, the hand-written model and its correspondence run, the Go harness; runtime.fastrand itself, the unsafe []byte->[]uint64 view (modelled as little-endian stores), uniformity beyond a far-tail frequency test are not proved.",
    "harness": "c20",
    "theorems": [("C20.Props", [
        "C20_int31n_range", "C20_int63n_range", "C20_intn_range", "C20_uint32n_range", "C20_uint64n_range",
        "C20_panic_iff_nonpositive", "C20_nonneg", "C20_float32_unit", "C20_float64_unit", "C20_perm",
        "C20_shuffle_indexes", "C20_shuffle_permutes", "C20_read_exact", "C20_perm_checker_sound",
        "C20_uint32n_preimage", "C20_uint32n_even", "C20_int31n_first_draw", "C20_int31n_accepted_preimage", "C20_int31n_exactly_uniform"])],
    "trusted": [
        "draw streams are Section-free premises (src_ok): every draw is a uint32; runtime.fastrand itself is the Go runtime's",
        "Uint64-based functions (Int63, Int63n, Int, Float64, Uint64n, Intn above 2^31) cannot be fed recorded draws "
        "(runtimex.Fastrand is linknamed): the model's theorem characterises their range and the harness checks membership only",
    ],
    "modelled": ["runtime.fastrand and its per-M state", "unsafe reinterpretation of []byte as []uint64 in Read (modelled as 8 little-endian byte stores)"],
    "assumptions": ["little-endian amd64 (Read's word stores)", "rejection loops terminate on the recorded stream (fuel = draws + 1)"],
}
