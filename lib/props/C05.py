CFG = {
    "id": "C05",
    "level_text": "PARTIAL. Proved (Coq, all inputs): (a) an executable Gallina model of structure/queues/lscq (SCQ ring with safe/empty/cycle entries, head, tail+closed bit, threshold, fixstate, cacheRemap16Byte; linked list of rings with close / allocate / head advance) run by ONE thread is a FIFO queue for EVERY ring size n >= 1, every payload type and every operation list - nothing lost, duplicated or invented across full ring -> close -> new ring -> drain -> head advance, no false empty answer from the threshold, no loop runs out of fuel (C05_seq); cacheRemap16Byte permutes the slots for the real constants and for every n, cl | n (C05_remap_bij); (b) the history checker aspects_b decides exactly the four conditions of the statement (no fresh value, no repeat, real-time enqueue order kept by dequeues incl. 'b dequeued => earlier-enqueued a dequeued', empty answer only with an instant at which no value is definitely inside) and the near-linear checks used on long histories follow from them (C05_aspects_b_ok, C05_lin_follows, C05_drained_noloss, C05_program_order). Sampled, NOT proved: the behaviour of the lock-free code under real concurrency - every run records timed histories of the real queue (P,C in 1..16, bursty/alternating/drain-refill, unique values, stamps from one atomic counter; small contended histories and value-projections of 10^5-event segment-crossing runs decided by aspects_b inside Coq, whole long histories by the Go twin of lin_b which is compared with the Coq checker on every small history and on deliberately corrupted ones). The model is tied to the code on every run at the REAL ring size 65536 inside Coq (results, head/tail/closed/threshold of first and last ring, number of rings, probed ring slots) for New[int64], NewPointer, NewUint64, including bursts over 65536 and 131072 items and threshold exhaustion.",
    "level_note": "No theorem covers concurrent executions of the algorithm: linearizability of the lock-free SCQ/LSCQ protocol is not proved (only checked on recorded histories); the 128-bit CAS, BTS and the 16-byte atomic load (asm.s) and the CAS-retry paths (goto eqretry/dqretry, fixstate retry, tail-helping and lost link CAS incl. pointerSCQPool reuse) are modelled as atomic steps that always succeed for one thread and are never exercised by a theorem. 'Aspects => linearizable' (Henzinger et al.) is not proved here; the statement's four conditions are what is decided. Counter wrap-around (2^62 cycles, 2^63 tickets) is outside the model (unbounded Z). uint.go is the same text as point.go up to the payload type; both are run against the one model.",
    "harness": "c05",
    "harness_timeout": 900,
    "theorems": [("C05.Props", [
        "C05_remap_bij", "C05_remap_inj_all", "C05_seq", "C05_seq_real", "C05_ring_enq", "C05_ring_deq", "C05_checker_spec",
        "C05_aspects_b_ok", "C05_unique_b_ok", "C05_lin_follows", "C05_drained_noloss", "C05_program_order", "C05_lin_sound"])],
    "trusted": [
        "history recording in the Go harness: invocation stamped before the call, response after it, one atomic counter; unique values per run",
        "Go twin of lin_b + the empty-answer rule used alone on whole long (segment-crossing) histories; it is compared with the Coq checker on every small and projected history and on corrupted histories (CTwin cases)",
        "value projection of long histories (keeps every event of the sampled values and sampled empty answers): sound for all four conditions, not complete",
        "verif-tagged read-only accessors structure/queues/lscq/lscq_verif.go (VerifSnap, VerifEntry, VerifCacheRemap, constants)",
    ],
    "modelled": [
        "CMPXCHG16B compare-and-swap of (flags,data), LOCK BTS on tail / flags, 16-byte atomic load (asm.s): atomic steps",
        "sync/atomic fetch-add, load, store, CAS on head/tail/threshold/next: atomic steps; with one thread every CAS succeeds",
        "pointerSCQPool / uint64SCQPool (sync.Pool): every allocation is a fresh ring (Put is reachable only after a lost link CAS)",
        "write barrier calls (runtime.atomicwb) and the escape of generic values (fmt.Sprintf) have no model counterpart",
    ],
    "assumptions": ["fewer than 2^62 ring cycles / 2^63 tickets per ring (no counter wrap-around)", "amd64: lscqcacheLineSize = 64 (compared each run)"],
}
