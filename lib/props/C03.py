CFG = {
    "id": "C03",
    "level_text": "WORK IN PROGRESS",
    "level_note": "",
    "harness": "c03",
    "theorems": [],
    "trusted": [],
    "modelled": [],
    "assumptions": [],
    "widen_runs": 1,
}
