CFG = {
    "id": "C03",
    "level_text": "Proof over an executable Gallina model of structure/sets/zset (zset.go, skiplist.go; oparry.go/opt.go only store what the model derives) as repaired by fixes 0002-0005, 0007, 0030-0032. Two layers as in the code: the skip list is its level-0 node sequence with oracle heights, forward pointers and spans are derived (level-i successor = next node of height > i, span = level-0 distance) and every search walks those derived chains level by level accumulating spans; the zset layer is dict + list with every public method, its negative-index conversion, clamping and loop bounds. Theorems, for ALL operation lists and ALL height oracles (by induction, no bound): every return value equals the one computed on the reference sorted list (C03_refines, C03_step from any state satisfying the invariant), the representation invariant is preserved (C03_inv: sorted by (score, member), members unique, dict = member->score map, length cached), RevRank = Len-1-Rank, Range/RevRange = the clamped Redis slice and never contain a non-member, score ranges/Count with all bound-exclusivity combinations, removed-element lists, Union = score-summing merge and Inter = score-summing intersection (for every oracle), the span lemmas (a search ends on the threshold position with rank = position; Rank from spans = level-0 position; GetNodeByRank; one Go loop iteration = one derived-chain step; Insert/deleteNode update equations hold between derived spans) and the lanes invariant (every node's height <= highestLevel, highestLevel tight and <= 32). The model is tied to the code on every run: every public method's return value after every step against Spec (kind 2) and Model (kind 1), plus the verif dump of the real skip list (per node score, member, level, per-level successor and stored span, prev; header levels; highestLevel, length, tail) against the pointers and spans derived from the model state (kind 1).",
    "level_note": "Proved for int members with bcomparator.IntComparator and integer scores (exactly representable float64; IncrBy sums are exact); not parametric in the comparator or the member type. float64 effects (NaN, +-Inf, rounding in IncrBy, scores equal to the header sentinel -MaxFloat64) are not modelled. The model's spans and pointers are derived, not stored: that the code's stored spans equal them is established by the dump comparison on every run (correspondence), not by a theorem; the update equations the code applies are theorems about the derived spans (C03_span_insert, C03_span_delete). SetSafe (zset_safe.go) and the locking of Set (D6, property C11) are outside this check. Heights are injected through fastrand.Uint32 (reassignable package variable) and cross-checked by the node levels in the dump.",
    "harness": "c03",
    "theorems": [("C03.Props", [
        "C03_refines", "C03_inv", "C03_inv_meaning", "C03_abs", "C03_step", "C03_latest_score", "C03_revrank",
        "C03_range_slice", "C03_revrange_slice", "C03_range_members", "C03_range_by_score", "C03_revrange_by_score",
        "C03_count", "C03_remove_range_by_rank", "C03_remove_range_by_score", "C03_union", "C03_inter",
        "C03_merge_sum_meaning", "C03_inter_sum_meaning", "C03_search_position", "C03_rank_by_spans",
        "C03_get_node_by_rank", "C03_walk_step", "C03_span_insert", "C03_span_delete", "C03_lanes", "C03_lanes_chain"])],
    "trusted": [
        "the abstraction of the Go skip list as (level-0 sequence, heights, highestLevel, length): pointers/spans/prev/tail are derived in the model and compared with the real ones through the verif accessor Set.VerifDump on every mutating step of the small cases and periodically in the large ones",
        "heights: randomLevel = 1 + number of consecutive zero draws of fastrand.Uint32n(4), capped at 32; the harness injects the draws through fastrand.Uint32 and the dump confirms the node levels",
        "members are Go ints compared by bcomparator.IntComparator; scores are small integers stored as float64",
    ],
    "modelled": ["float64 scores as Z (exact on the harness alphabet)", "Go map dict as an association list",
                 "unsafe.Pointer/optionalArray storage of next/span (oparry.go) as derived functions of the level-0 sequence",
                 "the header sentinel (score -MaxFloat64, zero value) as 'below every score / equal to no element'"],
    "assumptions": ["scores are integers of magnitude < 2^50 (exact float64 arithmetic)", "single-threaded use (locking is C11)"],
    "widen_runs": 1,
    "widen_timeout": 1200,
}
