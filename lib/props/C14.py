CFG = {
    "id": "C14",
    "harness": "c14",
    "theorems": [("C14.Props", [
        "C14_index_cursor", "C14_linked_cursor", "C14_linkedkv_cursor", "C14_tree_cursor", "C14_treeset_cursor",
        "C14_each_visits_reported", "C14_past_end_idempotent", "C14_heap_root_first", "C14_heap_cursor", "C14_heap_each_permutation"])],
    "check_modules": ["C14.Check"],
    "level_text": "Proof: each iterator is transcribed into Gallina as the code is written (index machine; index + element pointer with nil dereference as Panic; red-black/AVL node pointers as paths with Parent = drop last step; treeset's index counter beside the tree iterator; B-tree node path + entry relocated by key search; heap level sort) and proved, for every content, every tree shape and EVERY command word over Next/Prev/First/Last/Begin/End/NextTo/PrevTo, to produce exactly the outputs of the specification cursor over the reported sequence, never panicking; Each-style enumeration visits exactly that sequence. The theorems are stated on Check.model_run, the very function evaluated (vm_compute) against what the Go iterators returned on every run, together with the specification cursor itself (kind 2). Heap/priority-queue iterators are proved to be a cursor over their own level-sorted enumeration, which is a permutation of the heap array with the root first. Partial: the B-tree iterator has no theorem yet (correspondence + spec judgement only).",
    "level_note": "Trusted: Coq kernel; hand-written models tied by the differential run (containers built by random operation sequences, shapes dumped through exported fields; wrappers whose tree is unexported are modelled on a spine carrying the reported sequence, justified by C14_tree_cursor holding for every shape); Go harness. Any/All/Find/Select/Map are judged against list functions of the reported sequence (Map only for lists). Iterator behaviour under concurrent modification is out of scope of the property.",
    "trusted": ["linkedhashmap Value() = table[key] is modelled as the value aligned with the key's position (unique keys: C09)"],
    "modelled": ["B-tree iterator: modelled and tied, not proved", "binaryheap.Iterator.Value level sort modelled by insertion sort of the level slice"],
    "assumptions": ["container not modified while iterating"],
}
