CFG = {
    "id": "C07",
    "level_text": "Proof over executable Gallina models of arraylist (backing array with slack, growBy/shrink/resize arithmetic, "
                  "stale cells, every index and slice bounds-checked), doublylinkedlist and singlylinkedlist (chain + cached size, "
                  "nil-able cursors, the traversal loops step by step incl. the direction choice size-index < index): for EVERY "
                  "list of Add/Append/Prepend/Insert(any batch)/Remove/Set/Swap/Sort/Clear/Get/Contains/IndexOf/Values/Size/Empty "
                  "calls with any indexes and values, each model returns call by call exactly what the abstract sequence returns "
                  "(C07_array, C07_dlist, C07_slist), which includes: no panic, nothing written to stdout, out-of-range operations "
                  "are the identity (C07_spec_*). The models are tied to the code on every run: every call's result and the bytes "
                  "it wrote to stdout, the observables after every mutator and the array list's whole backing array are compared "
                  "with the model inside Coq (kind 1) and with the abstract sequence (kind 2). Aliasing is judged too: every slice a "
                  "Values() call returned is kept and read again at the end of the trace (it must still hold the recorded result), and some "
                  "traces overwrite a returned slice with a never-stored value before the observers run (kind 2 if the list notices).",
    "level_note": "The model is the model of the code with the repairs 0015 (D14), 0017 (D16), 0018 (D17), 0019/0020 (D18) applied. "
                  "Sort is modelled by insertion sort (the code delegates to sort.Sort/pdqsort through bcomparator.Sort; C10): with the "
                  "int comparator the ascending permutation is unique (C07_spec_sort). Element type int only; reflect.DeepEqual is "
                  "modelled as integer equality. float32 growth factors are exact below 2^24 elements. arraylist has no Append/Prepend: "
                  "the model maps them to Add / Insert(0,...) and the harness calls those.",
    "harness": "c07",
    "theorems": [("C07.Props", [
        "C07_array", "C07_dlist", "C07_slist", "C07_spec_quiet", "C07_no_panic_no_output", "C07_spec_out_of_range", "C07_spec_index_of", "C07_spec_sort"])],
    "trusted": [
        "stdout capture: os.Stdout is replaced by a scratch file for the whole harness run and the file offset is read around every call "
        "(writes that bypass os.Stdout, e.g. direct syscalls on fd 1, would not be seen)",
        "linked lists are modelled as the chain sequence + cached size with positional cursors: pointer-level states in which first/last "
        "disagree with the chain are not representable; the tie (Values/Get/backward traversals after every mutator) is what detects them",
    ],
    "modelled": ["user callbacks watching the list mid-operation (Sort comparators, Each/Map/Select/Any/All/Find) and comparators that panic: "
                 "judged in Coq against the documented behaviour of the unmodified code (Check.v SDuring/SSeen/SSortPanic: linked-list Sort works on a copy, "
                 "array-list Sort permutes in place, iterations are read-only), no theorem",
                 "a call that does not return (watchdog, 10 s) is a violation decided by the harness",
                 "bcomparator.Sort / sort.Sort (as insertion sort)", "reflect.DeepEqual on int (as =)", "Go append/make zero-filling (repeat 0)"],
    "assumptions": ["element type int with the built-in int comparator", "fewer than 2^24 elements (float32 capacity arithmetic exact)"],
}
