CFG = {
    "id": "C02",
    "level_text": "Proof over the same executable models as C01: after EVERY list of operations the red-black tree has a black root, "
                  "no red node with a red child, one black height on all paths, search-tree order and size = number of keys (C02_rb); "
                  "the AVL tree stores at every node the true height difference, which lies in {-1,0,1}, with search-tree order and exact "
                  "size (C02_avl); the B-tree of every order m >= 3 has all leaves at one depth, between ceil(m/2)-1 and m-1 entries in every "
                  "non-root node (root >= 1), 0 or k+1 children for k entries, entries sorted and separating the children, exact size, and "
                  "the model never runs out of fuel or indexes out of range (C02_bt). The boolean twins evaluated on the implementation's dumps are proved equivalent "
                  "to the invariants (C02_*_inv_b_ok); the parent-link predicate holds of every dump that is the pointer layout of a model "
                  "tree (C02_parent_ok, C02_parent_ok_bt). Extra: height <= 2 log2(n+1) (RB), 2^(h/2) <= n+1 (AVL), levels <= log2(n+1) (B-tree). The models are tied to the code on every run: after every operation the harness dumps the REAL "
                  "tree in pre-order through Root/Left/Right/Children/Entries/Parent and the verif accessors (colour, balance factor); Coq "
                  "compares the dump with the model tree exactly (kind 1) and evaluates invariant twin + parent links + Size() on the dump "
                  "alone (kind 2). Both tiers explore every reachable shape over a small key universe x every next Put/Remove.",
    "level_note": "All clauses have a theorem. Search-tree order is stated as: the in-order walk is strictly ascending. Parent links exist only "
                  "in dumps (the functional model has no parent field).",
    "widen_runs": 1,
    "harness": "c01",
    "runs": [{"harness": "c01", "extra": "c02"}],
    "theorems": [("C02.Props", [
        "C02_comparator_shapes_laws", "C02_rb", "C02_avl", "C02_bt", "C02_rb_inv_b_ok", "C02_avl_inv_b_ok", "C02_bt_inv_b_ok", "C02_parent_ok", "C02_parent_ok_bt",
        "C02_rb_height_log", "C02_avl_height_log", "C02_bt_height_log"])],
    "trusted": [
        "comparator laws are a premise (CmpLaws), proved for every comparator shape used in the correspondence run (C02_comparator_shapes_laws): "
        "IntComparator, a-b, b-a, (a-b)*7, (b-a)*1000003, a-b clamped to [-3,3], over spread key universes (|keys| < 2^40)",
        "parent pointers and in-place mutation have no counterpart in the functional model: the clause 'every child's parent link points to "
        "its actual parent' is a predicate on dumps, proved for the model's layout and evaluated on the implementation's dump",
        "verif-tagged read-only accessors VerifColor / VerifBalance (add-only files in the repository)",
    ],
    "modelled": ["values are not part of a shape dump (C01 compares values)"],
    "assumptions": ["keys are Go int in the correspondence run (theorems: any type)", "sequential use"],
}
