CFG = {
    "id": "C02",
    "level_text": "WORK IN PROGRESS",
    "level_note": "",
    "harness": "c01",
    "runs": [{"harness": "c01", "extra": "c02"}],
    "theorems": [("C02.Props", ["C02_int_comparator_laws"])],
    "trusted": [],
    "modelled": [],
    "assumptions": [],
}
