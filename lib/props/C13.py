CFG = {
    "id": "C13",
    "level_text": "PARTIAL. Proved (Coq, all inputs): (a) syncx.RWMutex protocol model - k shards, writers acquire/release shard by shard in index order, a reader takes one arbitrary shard - for every k >= 1, every number of threads and every schedule: no state has a writer past its last acquire together with a reader holding a read lock (C13_rw_exclusion), and two writers inside Lock() never wait for each other (C13_rw_writers_no_cycle); (b) syncx.Pool protocol model - per-P private block, shared and unused chains of blocks, a Get/Put is one atomic step whose steal victim is chosen by an oracle, gc steps drop a P's chains, a re-allocation step replaces the local array - for every block size, number of Ps and schedule in which each Put x is issued by the current owner of x: stored plus outstanding objects are pairwise distinct, every Get result was put before or is fresh from New, Get is never nil when New is set (C13_pool_ownership); (c) the history checker pool_hist_b decides exactly the three clauses over timed histories (C13_pool_hist_b_ok). Sampled, NOT proved: the real lock-free code under real concurrency - every run records complete Get/Put histories of real Pools (tagged objects, ownership flag CAS at Get/Put, more goroutines than Ps, bursts beyond 256 that overflow into the shared chains and force stealing, >= 8 forced runtime.GC() per run, GOMAXPROCS changes; built without -race) decided by pool_hist_b inside Coq, RWMutex occupancy counters under reader/writer storms with GOMAXPROCS changes, and a single-P sequential tie of Get/Put results and P-local counters (pidx, private, chain sizes) against PoolModel.",
    "level_note": "No theorem covers the implementation's concurrency: poolDequeue's head/tail CAS protocol (pushHead/popHead/popTail), the chain links, procPin/procUnpin pinning, the stop-the-world assumption of gc() and the interplay of pinSlow with callers still holding the old local array are modelled as atomic per-P steps, not verified; sync.RWMutex itself (the shard) is an abstract reader/writer lock, Go's writer preference and starvation are not modelled; liveness beyond 'writers do not wait for each other cyclically' is not proved. gc()'s policy (which Ps are dropped, every 4 of 8 cycles) is over-approximated by arbitrary GC steps. pool_race.go (the -race replacement) is outside the claim.",
    "harness": "c13",
    "harness_timeout": 900,
    "theorems": [("C13.Props", ["C13_rw_exclusion", "C13_rw_writers_no_cycle", "C13_pool_ownership", "C13_pool_hist_b_ok", "C13_stamps_distinct_b_ok"])],
    "trusted": [
        "history recording in the Go harness (invocation stamped before the call, response after it, birth stamp inside New, one atomic counter); owner discipline of the harness (only the goroutine that got an object puts it back)",
        "storms run in child processes of the harness binary; a crash, fatal error or 60 s watchdog expiry of a child is reported as a violation",
        "verif-tagged read-only accessors sys/syncx/pool_verif.go (VerifLocals, VerifBlockSize, VerifShards)",
    ],
    "modelled": [
        "runtime.procPin/procUnpin (exclusive per-P sections): a Get/Put is one atomic step",
        "poolDequeue/poolChain lock-free deque (headTail CAS, slot typ publication, prev/next links): atomic list operations",
        "sync.RWMutex shards: abstract reader/writer locks; runtime_registerPoolCleanup / STW gc: atomic GC steps on arbitrary Ps",
        "assembly / linkname glue (asm.s, linkname.go)",
    ],
    "assumptions": ["Put(x) is only called by the current owner of x (the statement's premise)", "built without -race (pool_race.go replaces the implementation under -race)"],
}
