CFG = {
    "id": "C08",
    "level_text": "Proof over executable Gallina models: circularbuffer exactly as the code (values/start/end/full/size/maxSize, "
                  "bounds-checked) refines 'the last cap elements, oldest first' for EVERY capacity >= 1 and every interleaving of "
                  "Enqueue/Dequeue/Peek/Clear/Values/Size/Empty/Full (C08_circ); arrayqueue and linkedlistqueue refine the FIFO list, "
                  "arraystack and linkedliststack the LIFO list (thin layers over the C07 list models, C08_arrayqueue ... "
                  "C08_linkedliststack); binaryheap (= priorityqueue) on the array-list model with bubbleUp, bubbleDownIndex and the bulk "
                  "heapify keeps the heap order after every operation, never panics, Pop/Peek return a minimum under ANY total "
                  "transitive comparator, Pop removes exactly one occurrence (multiset/Permutation), Values() (through the model of the "
                  "iterator's per-level temporary heaps) is a permutation of the contents, Size/Empty are exact "
                  "(C08_heap, for every operation list), Peek = next Pop (C08_heap_peek_is_next_pop). Tied to the code on every run: every result, and "
                  "after every mutator Peek/Values/Size/Empty(/Full) plus ring cursors and the heap's whole backing array through "
                  "verif accessors, are compared with the model (kind 1) and judged by the abstract discipline (kind 2) inside Coq.",
    "level_note": "The model is the model of the code with repair 0021 (D19) applied. Element type int; comparators exercised (cmpsel, premises proved per shape: "
                  "C08_cmpsel_orders): IntComparator, its ReverseComparator, a-b, b-a, (a-b)*7 and a.prio-b.prio on struct elements; the heap theorems hold for any total transitive comparator. The heap's "
                  "discipline is a relation (Pop returns *a* minimum), decided by bag_accept; FIFO/LIFO/ring results are compared "
                  "with = against the reference.",
    "harness": "c08",
    "theorems": [("C08.Props", [
        "C08_circ", "C08_arrayqueue", "C08_linkedlistqueue", "C08_arraystack", "C08_linkedliststack",
        "C08_heap", "C08_heap_peek_is_next_pop", "C08_heap_root_is_min", "C08_perm_b", "C08_spec_lastn", "C08_int_comparators", "C08_cmpsel_orders"])],
    "trusted": [
        "comparator enters the heap model only as le a b := (Comparator(a,b) <= 0); theorems assume it total and transitive (premises, "
        "proved for the two int comparators used)",
    ],
    "modelled": ["a call that does not return (watchdog, 10 s) is a violation decided by the harness",
                 "Size() seen by a user comparator during Push/Pop/Values (Check.v SCmpSizes: the size after the call), judged in Coq, no theorem",
                 "circularbuffer.New panics for maxSize < 1 (outside the property: capacity >= 1)",
                 "reflect.DeepEqual is gone from circularbuffer after the repair; Go make() zero-filling as repeat 0"],
    "assumptions": ["element type int", "capacities 1..5 exercised, theorem for every capacity >= 1"],
}
