CFG = {
    "id": "C18",
    "level_text": "Proof over executable transition systems of every app/bconcurrent goroutine (program counter + loop variables; labels recv/recv_closed/send/ctx_done/close_out/spawn/exit/tau; a select = the set of enabled labels; unconstrained environment): for EVERY trace the per-channel projections satisfy the relation stage_rel / fanin_rel / fanout_rel / orderly_rel (sent values are a prefix of the combinator's list function of the received values, equal to it once closed without cancellation; firstn, filter, find-first, skipn, dropWhile, map proved equal to the transducers; fan-in = merge of the sources; fan-out = every input to every output, in order when synchronous; Orderly strictly alternating; ReduceChan = fold_left), exactly one close_out as the last act before exit, ctx_done enabled in every blocked state of a ctx-aware stage and exit two forced steps later; each relation has a boolean twin proved equivalent. PARTIAL for the real runtime: goroutine scheduling, select fairness, channel buffering and promptness are sampled, not proved: every recorded run of the real combinators (randomised producers, consumers, buffers, cancellation points; lengths 0..8, 0..3 sources/outputs) is decided inside Coq by the boolean twins, and goroutine leaks by runtime.NumGoroutine settling.",
    "level_note": "Proved for all traces of the models; the link from a Go goroutine to its transition system is by reading (model mirrors each select/loop of stream.go, fan_in.go, fan_out.go, map_reduce.go, orderly.go, pipeline.go) plus the recorded runs. Go channel semantics (FIFO, a close is seen after the buffered values, a buffered input may hold handed-over values the stage never consumed: parameter incap of stage_rel) are assumed, not modelled. Liveness (the output IS closed, Orderly/ReduceChan return) and 'promptly' are judged on the recorded runs with a 6 s deadline; 'no goroutine left behind' by NumGoroutine returning to its level within 3 s after each batch. No theorem: fairness of select (a stage whose input and consumer are always ready may keep working after cancel for a while: probabilistic), OrDone (not named by the property), nil inputs to Pipeline/FanInRec/FanOut (block for ever by construction).",
    "harness": "c18",
    "theorems": [("C18.Props", [
        "C18_stage_safe", "C18_stage_function", "C18_stage_close_cause", "C18_stage_close", "C18_stage_cancel",
        "C18_unaware_no_ctx", "C18_stage_rel_b_ok", "C18_stream_safe", "C18_stream_close_cancel",
        "C18_fanin_safe", "C18_fanin_close", "C18_fanin_rel_b_ok",
        "C18_fanout_safe", "C18_fanout_close", "C18_fanout_perm", "C18_fanout_rel_b_ok",
        "C18_orderly", "C18_orderly_rel_b_ok", "C18_reduce_fold", "C18_check_spec"])],
    "trusted": [
        "each goroutine of app/bconcurrent is represented by a hand-written transition system (C18/Stage.v); the correspondence is by construction from the source plus the recorded runs, there is no kind-1 replay for the concurrent part",
        "Go channel semantics (FIFO delivery, close observed after buffered values, select choosing among ready cases) and context cancellation are assumed",
        "the harness's own producers/consumers/recorders (what 'handed over' and 'received' mean) and runtime.NumGoroutine as leak detector",
    ],
    "modelled": ["goroutine scheduling and select fairness (sampled by randomised runs)", "channel buffers (capacity appears only as the slack parameter incap)",
                 "reflect.Select in FanInRec (modelled as a select over the open sources)", "sync.WaitGroup in FanOut/Orderly (modelled as the set of pending children / the running task)"],
    "assumptions": ["values are compared with a decidable equality (premise Teqb_ok of every theorem; Z.eqb in the checker)",
                    "the environment may do anything the labels allow; ctx_done may fire at any time (= cancel was called)"],
    "harness_timeout": 900,
}
