CFG = {
    "id": "C15",
    "level_text": "Proof over an executable Gallina model of every MarshalJSON/UnmarshalJSON in the repository as functions to and from an abstract JSON value "
                  "(ordered object members; a member name must be a string for the value to be JSON). Theorems, for every content and every behaviour of the "
                  "encoding/json parameters allowed by their premises: the marshalled value is well formed, unmarshalling it into a fresh container succeeds and "
                  "gives the same abstract contents (same sequence for lists / queues / stacks / ring buffer / linkedhashset / linkedhashmap, same bindings "
                  "for hash, tree and bidi maps and sets), and the restored state satisfies the invariant the container's own property needs (arraylist: "
                  "len = cap and size <= len, hence Add cannot index out of range; ring buffer: cursor/size relation; linked containers: table = ordering, "
                  "no duplicates; bidi maps: bijection; tree-backed: sorted). The four defects are proved as _refuted statements about the pre-repair code "
                  "(D15 unclipped slice, D20 ring encoding, D22 unquoted member names, D23 byte-offset order recovery). Partial where stated in the note. "
                  "Model and code are tied on every run: real bytes (json.Valid, parsed), a fresh and a non-empty decode target, representation details "
                  "through verif accessors, and 3-8 further operations on the restored container judged against a reference inside Coq.",
    "level_note": "encoding/json (text <-> value: escaping, number formatting, map-key ordering, slice growth) and banytostring are NOT modelled: they are parameters "
                  "of the model, premises of the theorems (codec laws, permutation laws, grow n >= n) and are recorded from the real library for every case. "
                  "Containers owned by other properties are modelled abstractly by their contents plus the representation detail the JSON code touches: "
                  "red-black / AVL / B-tree, treemap, treeset, treebidimap as sorted association lists (C01), linked lists and the list-backed queues/stacks as "
                  "sequences (C07/C08), binary heap and priority queue as the array list they wrap (heap order of the restored array follows from the array "
                  "being identical; it is exercised by the Pops of the suffix, not proved here). 'Obeys its own property under further operations' is proved "
                  "only as 'the restored state satisfies the invariant from which the other properties' theorems start' (plus Add-does-not-panic for "
                  "arraylist); the further operations themselves are exercised by the harness. Ring buffers are exercised without zero-valued elements "
                  "(D19, property C08, is not repaired in this tree). bslice / bmap / bcache Marshal/Unmarshal are one-line delegations to encoding/json and "
                  "are only exercised (bcache values appear wrapped in its Iterator struct). Strings that are not valid UTF-8 are outside the codec premise "
                  "(encoding/json replaces the bytes).",
    "harness": "c15",
    "theorems": [("C15.Props", [
        "C15_linked_lists", "C15_arraylist", "C15_arraylist_usable", "C15_arraylist_unclipped_refuted", "C15_ring", "C15_ring_backing_refuted",
        "C15_sets", "C15_linked_set", "C15_maps", "C15_tree_sorted", "C15_bidi", "C15_linkedmap",
        "C15_linkedmap_unquoted_refuted", "C15_linkedmap_bytesindex_refuted"])],
    "trusted": [
        "encoding/json and banytostring as a codec: dec (enc x) = Some x, member-name text decodes back to the key, a Go map is written / ranged over in some "
        "permutation, a decoded slice has capacity >= its length, bcomparator.Sort returns a sorted permutation (premises of the theorems; the harness records the "
        "codec's actual outputs per case and Check.v verifies that the recorded tables are injective)",
        "verif accessors VerifLenCap (arraylist), VerifRing (circularbuffer), VerifNewSafe (hashset) - add-only files, build tag verif",
        "the C09 models of hash / linked / bidi containers, which this property reuses",
    ],
    "modelled": ["red-black tree, AVL tree, B-tree (abstract sorted association list; C01)", "doubly / singly linked list pointer structure (C07)",
                 "heap order inside binaryheap / priorityqueue (C08)", "sync.Mutex of the Safe* wrappers", "bcache expiry (entries are stored without deadline)"],
    "assumptions": ["element / key / value types int and string with valid UTF-8", "decode target of the same type; a fresh one for the property, a non-empty one for the model tie"],
    "widen_runs": 1,
}
