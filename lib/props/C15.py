CFG = {
    "id": "C15",
    "level_text": "Proof over an executable Gallina model of every MarshalJSON/UnmarshalJSON in the repository as functions to and from an abstract JSON value "
                  "(ordered object members; a member name must be a string for the value to be JSON). Theorems, for every content and every behaviour of the "
                  "encoding/json parameters allowed by their premises: the marshalled value is well formed, unmarshalling it into a fresh container succeeds and "
                  "gives the same abstract contents (same sequence for lists / queues / stacks / ring buffer / linkedhashset / linkedhashmap, same bindings "
                  "for hash, tree and bidi maps and sets), and the restored container OBEYS ITS OWN PROPERTY UNDER EVERY FURTHER OPERATION LIST "
                  "(C15_restored_obeys_<family>, 19 theorems): for every content reached by any operation list of the container's own model - C07 array list, doubly / "
                  "singly linked list; C08 array / linked queue and stack, binary heap = priority queue, circular buffer; C09 hashmap, hashset, linkedhashmap, "
                  "linkedhashset, hashbidimap; C01 red-black tree, AVL tree, B-tree of every order >= 3, treemap, treeset, treebidimap (the real tree models) - the state "
                  "that UnmarshalJSON builds from MarshalJSON's output is in that property's refinement relation with the source's abstract contents, so every further "
                  "operation list gives the outputs of the reference specification started from those contents (composition of the C15 round trip with the step-refinement "
                  "lemmas of C07/C08/C09/C01; for the heap: the decoded array satisfies C08's heap order because it is the encoded array, every further run is accepted by "
                  "the multiset discipline and keeps the heap order; the tree decoders re-insert through Put, so the restored tree is a state C01/C02 speak about; "
                  "C15_restored_tree_invariants: the restored red-black / AVL / B-tree is literally a reachable state - target's operations, Clear, the Puts - so C02's shape invariants hold of it; "
                  "C15_tree_decoders_agree: on every document the tree-level decoders and the sorted-insertion-table decoder that the correspondence check evaluates agree). "
                  "The four defects are proved as _refuted statements about the pre-repair code (D15 unclipped slice, D20 ring encoding, D22 unquoted member names, "
                  "D23 byte-offset order recovery). Model and code are tied on every run: real bytes (json.Valid, parsed), a fresh and a non-empty decode target, "
                  "representation details through verif accessors, and 3-8 further operations on the restored container judged against a reference inside Coq. "
                  "app/bcache (Export/Load = Marshal/Unmarshal of the member map, deadlines included) is judged by the C12 development: on every run ~600 round trips "
                  "(source cache built by random Set/SetDefault/SetNoExpire/SetIfAbsent/Replace/Delete with the C12 TTL and default-expiry alphabets, Export, json.Valid, "
                  "Load into a FRESH cache, GetWithExpire/Count/Export right away, pauses, sweeps through VerifSweep, further operations) are written as C12 traces "
                  "whose first step on the fresh cache is the Load of the exported data, and evaluated by C12.Check inside Coq: the restored cache must hold exactly the "
                  "exported entries not expired at the load, with their deadlines, and obey C12 afterwards (kind 2 otherwise; theorems C12_roundtrip, C12_load, C12_refines, "
                  "C12_index, C12_admissible_complete = no false alarm from timing); member map and deadline index are compared with the model after every step (kind 1); "
                  "24 round trips run the restored cache with its real 10 ms sentinel (Count after 10 intervals, no live entry lost). PARTIAL there exactly as C12 is: "
                  "real clock readings, ticker latency and scheduling are sampled.",
    "level_note": "encoding/json (text <-> value: escaping, number formatting, map-key ordering, slice growth) and banytostring are NOT modelled: they are parameters "
                  "of the model, premises of the theorems (codec laws, permutation laws, grow n >= n) and are recorded from the real library for every case. "
                  "The composition theorems are stated on the other properties' models and inherit their trust: element type int for C07/C08 (the JSON model itself is "
                  "polymorphic), comparator laws plus cmp a b = 0 -> a = b for the tree-backed containers (the JSON object is keyed by the key's text), the ring as "
                  "repaired by 0021 (no zero-value test in Dequeue) decoded into a FRESH buffer (UnmarshalJSON enqueues, it does not clear) - of the same capacity "
                  "(C15_ring, C15_restored_obeys_ring) or of ANY capacity >= 1 from a document of ANY length written by a ring of another capacity or by an array list "
                  "(C15_ring_any_length / _any_source, C15_restored_obeys_ring_any_capacity / _from_arraylist: the last min(capacity, n) values, oldest first), the "
                  "B-tree on operation lists without Floor/Ceiling. The bridges between the JSON view and those models are field renamings (al_json/al_of_json, "
                  "cb_json/cb_of_json) or the code path itself (Clear(); Add / Put of the decoded values on the C07 / C01 model). The correspondence check still evaluates "
                  "the per-container abstractions of C15/Model.v (tree-backed containers as sorted-insertion tables - proved to agree with the tree-level decoders on every "
                  "document, C15_tree_decoders_agree, and with the red-black treeset / treebidimap on every operation list, C09_tree_abstract_agrees) and judges the suffix "
                  "operations against the reference containers of C15/Spec.v. Ring buffers are exercised with zero-valued elements too (an empty slot and a zero element carry the same number), and are also fed "
                  "documents longer than, as long as and shorter than their capacity (written by a ring of another capacity or by an array list). bslice / bmap Marshal/Unmarshal are one-line delegations to encoding/json and are only exercised by the first harness run (so is the bcache member map "
                  "WITHOUT deadlines there, values wrapped in its Iterator struct); bcache with deadlines, the rebuilt expiry index and the behaviour of the restored cache "
                  "are judged by the second run (c15bc) through C12.Check, whose theorems are C12's (lib/props/C12.py), not repeated in this property's theorem list. Strings that are not valid UTF-8 are outside the codec premise (encoding/json replaces the bytes). "
                  "Foreign documents: besides its own output every array-like container except the heaps (which adopt a non-heap array as it is) also decodes documents written by an array list (unsorted, repeated elements) and null, judged against the document (sets: each element once, first-occurrence order for the linked set); rings also documents of another length. String universes (keys, values, elements of every stream) have a hostile share: every C0 control character, DEL, U+0085, U+2028/2029, U+FFFD, U+E0001, U+10FFFF, next to quotes, backslashes, non-ASCII and JSON-looking text; all valid UTF-8 (invalid bytes are replaced by U+FFFD by encoding/json itself, so no JSON encoder can round-trip them: left out). Decoding into a target that already held something is compared by the model tie only (kind 1: the property speaks about fresh targets; C09 judges UnmarshalJSON into a used map or set against its reference) with the same reference (every UnmarshalJSON given such a target clears first; ring, bmap, bcache and array-backed targets with composite elements get none). The bcache run with deadlines (c15bc) has int keys only; string-keyed bcache documents are in the first run. Element and value types: int and string, and (exercised, numbered by deep content so the Coq side is unchanged) struct with omitempty fields, []int, *int and map[string]int for every container class whose element / value type is free (lists, stacks, queues, ring, heaps with a content comparator, tree set, hashset/linkedhashset/hashbidimap for the comparable struct, hash / linked / tree maps, trees, treebidimap, bslice, bmap, bcache): a decoder that recycles its variables or decodes into live elements restores stale / merged / aliased values, which get another number. Observation outside the property (fresh targets): arraylist.UnmarshalJSON (hence array stack / queue, heap, priority queue) and bslice.Unmarshal decode INTO the old elements of a non-fresh target (json.Unmarshal(bytes, &l.elements)): structs and maps are merged with the stale element, pointers are written through; the non-fresh-target run therefore skips those kinds for non-scalar element types.",
    "harness": "c15",
    "runs": [
        {"harness": "c15"},
        # app/bcache round trips (Export -> json.Valid -> Load into a fresh cache -> further operations), written as C12-style
        # traces and judged by C12.Check (own case type and header; shared trace machinery: harness/bcachetrace)
        {"harness": "c15bc", "name": "c15bc"},
    ],
    "theorems": [("C15.Props", [
        "C15_linked_lists", "C15_arraylist", "C15_arraylist_usable", "C15_arraylist_unclipped_refuted", "C15_ring", "C15_ring_any_length", "C15_ring_any_source", "C15_ring_backing_refuted",
        "C15_sets", "C15_linked_set", "C15_maps", "C15_tree_sorted", "C15_bidi", "C15_linkedmap",
        "C15_linkedmap_unquoted_refuted", "C15_linkedmap_bytesindex_refuted"]),
        ("C15.PropsComposeSeq", [
        "C15_restored_obeys_arraylist", "C15_restored_obeys_arrayqueue", "C15_restored_obeys_arraystack", "C15_restored_obeys_heap",
        "C15_restored_obeys_linkedlist", "C15_restored_obeys_linkedlistqueue", "C15_restored_obeys_linkedliststack", "C15_restored_obeys_ring",
        "C15_restored_obeys_ring_any_capacity", "C15_restored_obeys_ring_from_arraylist"]),
        ("C15.PropsComposeMap", [
        "C15_restored_obeys_hashset", "C15_restored_obeys_linkedhashset", "C15_restored_obeys_hashmap", "C15_restored_obeys_hashbidimap",
        "C15_restored_obeys_linkedhashmap", "C15_restored_obeys_rbtree", "C15_restored_obeys_treemap", "C15_restored_obeys_avltree",
        "C15_restored_obeys_btree", "C15_tree_decoders_agree", "C15_restored_tree_invariants", "C15_restored_obeys_treeset", "C15_restored_obeys_treebidimap"])],
    "trusted": [
        "encoding/json and banytostring as a codec: dec (enc x) = Some x, member-name text decodes back to the key, a Go map is written / ranged over in some "
        "permutation, a decoded slice has capacity >= its length, bcomparator.Sort returns a sorted permutation (premises of the theorems; the harness records the "
        "codec's actual outputs per case and Check.v verifies that the recorded tables are injective)",
        "verif accessors VerifLenCap (arraylist), VerifRing (circularbuffer), VerifNewSafe (hashset) - add-only files, build tag verif",
        "the C09 models of hash / linked / bidi containers, which this property reuses",
        "the C12 model, interval checker and theorems (C12_roundtrip, C12_load, C12_admissible_complete, ...) for the bcache round trips; verif accessors "
        "VerifSweep / VerifDump of app/bcache",
        "the models and refinement lemmas of C07 (lists), C08 (queues, stacks, heap, ring), C09 and C01 (red-black / AVL / B-tree, treemap, treeset, treebidimap) that the "
        "C15_restored_obeys_* theorems compose with; those models are tied to the code by their own properties' checks",
    ],
    "modelled": ["sync.Mutex of the Safe* wrappers",
                 "bcache in the first run: entries stored without deadline; in the bcache run: everything C12 models (zset index as a sorted list, float64 score "
                 "rounding f64r, time.Now as an explicit instant per call, ticker sampled), encoding/json parsed by the harness into the OLoad data",
                 "the iterator walk of the tree MarshalJSON methods (taken to be the in-order enumeration that Keys()/Values() return; iterators are C14)"],
    "assumptions": ["element / key / value types int and string with valid UTF-8", "decode target of the same type; a fresh one for the property, a non-empty one for the model tie"],
    "widen_runs": 1,
}
