CFG = {
    "id": "C15",
    "level_text": "wip",
    "level_note": "wip",
    "harness": "c15",
    "theorems": [],
    "trusted": [],
    "modelled": [],
    "assumptions": [],
    "widen_runs": 1,
}
