CFG = {
    "id": "C04",
    "harness": "c04",
    "runs": [
        {"harness": "c04"},
        # the same concurrent harness once more under the race detector (needs cgo; works in this sandbox)
        {"harness": "c04", "name": "c04_race", "build_flags": ["-race"], "build_env": {"CGO_ENABLED": "1"}, "extra": "race"},
    ],
    "level_text": "draft",
    "level_note": "draft",
    "theorems": [("C04.Props", ["C04_seq_map", "C04_seq_set", "C04_seq_map_state", "C04_seq_set_state", "C04_len_after_clear",
                                "C04_lazy_once", "C04_spec_map_laws", "C04_lin_check_map", "C04_lin_check_set",
                                "C04_lin_segments", "C04_range_ok_b"])],
}
