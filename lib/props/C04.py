CFG = {
    "id": "C04",
    "harness": "c04",
    "runs": [
        {"harness": "c04"},
        # the same concurrent harness once more under the race detector (needs cgo: CGO_ENABLED=1 works in this sandbox);
        # race reports become direct violations; the slowdown also widens the link -> fullyLinked windows (that is how D31 surfaced)
        {"harness": "c04", "name": "c04_race", "build_flags": ["-race"], "build_env": {"CGO_ENABLED": "1"}, "extra": "race"},
    ],
    "widen_runs": 1,
    "widen_timeout": 1500,
    "level_text": (
        "Partial. Proved in Coq for all inputs: (1) the sequential model of skipmap/skipset (lane-0 chain with oracle node "
        "heights, cached length, highestLevel; Store/Load/LoadOrStore/LoadOrStoreLazy/LoadAndDelete/Delete/Range/Len/Clear/"
        "Keys/Values/Size/Empty/Put/Get/Remove and AddB/Add/ContainsB/Contains/RemoveB/Remove/...) refines a finite map / "
        "finite set for every operation list and every height oracle >= 1 (C04_seq_map, C04_seq_set): Len = size, Len after "
        "Clear = 0, keys strictly ascending so Range/Keys ascend, the lazy constructor runs exactly once per successful insert "
        "and never otherwise; (2) the history checker lin_check (DFS over minimal pending operations with a dead-configuration "
        "cache) is sound and complete for linearizability w.r.t. the map and set specs, cutting at quiescent points is exact "
        "(lin_segments), and range_ok_b decides the Range clause; (3) for an executable small-step PROTOCOL MODEL of the optimistic "
        "bottom-lane algorithm (LazySkip.v: find, lock pred, validate, link, fullyLinked; mark under lock, unlink; contains reads "
        "flags), for all programs and ALL schedules of its atomic steps: (a) next pointers always lead to strictly larger keys, so "
        "the reachable chain is strictly sorted with at most one node per key, and the abstract set {key | fullyLinked, not marked} "
        "changes only at the fullyLinked := true step of an Add and the marked := true step of a Remove; (b) lock discipline: a "
        "locked node is locked by exactly the thread whose program counter holds it, a lock is only released by its holder, no step "
        "writes a node's next pointer without holding that node's lock (and the node is unmarked), facts validated under a lock stay "
        "true while it is held, every unmarked node is reachable from the header (C04_lazyskip_inv2 ..), and the system never "
        "deadlocks: in every reachable state all threads have finished or an unfinished thread has a state-changing step (lock "
        "waits descend strictly in key order; spinning Adds wait for a creator / remover that can move); (c) a successful Add takes "
        "effect at its fullyLinked step with the key absent just before, a failing Add reads the key present, a successful Remove "
        "takes effect at its marking step, and every unsuccessful Remove / Contains had the key absent at some moment inside its "
        "interval (hindsight lemma), so every completed operation has a linearization point inside its interval "
        "(C04_lazyskip_lin_points); (d) LINEARIZABILITY OF THE MODEL: the recorded history (invocation/response = scheduler step "
        "indices) of every complete execution, any programs over any keys, any schedule, is linearizable w.r.t. the set "
        "specification in exactly the sense of Common/Hist.v that the verified checker decides on the real histories "
        "(C04_lazyskip_linearizable), hence exactly one of several racing Adds of one key reports success and exactly one of several "
        "racing Removes of a key added before reports success (C04_lazyskip_one_add_wins / _one_remove_wins); (4) for the protocol "
        "model extended with the VALUE field (LazyMap.v: Store on an existing key locks the node, tests marked, waits for fullyLinked, "
        "writes; LoadAndDelete marks under the node lock and reads the value after unlocking; Load): the value of a node is written "
        "only under its lock while it is linked and unmarked, is frozen once the node is marked, a LoadAndDelete returns the value its "
        "victim had when it marked it (the last value stored: no lost update), a Store's pair is in the abstract map right after its "
        "write, and LINEARIZABILITY OF THE VALUE MODEL: the recorded history of every complete execution of Store/Load/LoadAndDelete/"
        "LoadOrStore/LoadOrStoreLazy/Delete programs (LoadOrStore's found path reads marked and the value without the node lock "
        "after waiting for fullyLinked; the lazy constructor is a ghost counter: once per insert, never when found: "
        "C04_lazymap_lazy_once)  (any keys, values, schedule) is linearizable w.r.t. the finite-map specification Spec.fmap_step, with the final "
        "specification state equal to the final abstract map (C04_lazymap_linearizable; linearization points: fullyLinked step / "
        "value write under the node lock / marking step; failing LoadAndDelete and Load by hindsight; a successful Load at its value "
        "read or, if the node was marked in between, at the moment before the marking); and the PRE-REPAIR Store (no node lock) is refuted: a concrete schedule stores into a marked node and the resulting "
        "complete history is rejected by the verified checker (C04_lazymap_prerepair_refuted / _history_rejected). NOT proved: that "
        "the concurrent GO CODE is linearizable -- the protocol models are hand-written from the code and not tied to it by any "
        "theorem. Real interleavings are sampled: every check run records small concurrent histories of the real code (2-8 "
        "goroutines, 1-3 keys, 4-8 operations each, fresh structure per round, quiescent Len/Keys/Values/Empty appended) and "
        "each recorded history is decided inside Coq by the verified lin_check / range_ok_b; the sequential model is tied to "
        "the code on every run by traces compared result-by-result with the Spec (kind 2) and result+lane/level/highestLevel/"
        "length dump with the Model (kind 1)."
    ),
    "level_note": (
        "Concurrency of the Go code is PARTIAL: histories are samples of the Go scheduler. The protocol theorems are about the "
        "models LazySkip.v / LazyMap.v, which have no run-time tie to the code (beyond the histories): one atomic model step = one "
        "shared-memory access, EXCEPT that reading a next pointer, the key of the node it leads to and (Contains, the found-node test "
        "of Add) that node's flags is one step; only lane 0 is modelled (no upper-lane linking order, no highestLevel CAS, no length "
        "counter, no Range), sequentially consistent memory, a lock acquisition that fails is a no-op step. The model's Remove "
        "re-searches from the header when its marked victim is not found where expected; the progress proof shows that this "
        "defensive branch is never taken. Linearizability is proved for the SET operations Add/Remove/Contains of LazySkip and for "
        "Store/Load/LoadAndDelete/LoadOrStore/LoadOrStoreLazy/Delete of LazyMap (all keys); Range/Len/Clear are in neither model. The "
        "model's Delete runs LoadAndDelete's steps including its final value read (a stutter read the Go Delete does not have). "
        "C04_lazyskip_one_remove_wins assumes the key is added by the only Add of that key, which responds before every Remove of it is "
        "invoked. In-code yield points ARE present since round 5: add-only lines `verifYield(k)` (k = 1..8; empty function without the "
        "build tag, VerifYieldHook with it) after a remover's marking, after an adder's validation, before fullyLinked, in randomLevel "
        "between load and CAS, on the found-node paths of readers and updaters, and (7, 8, added in round 7 after seed C04-16 was missed) between an insert's publication / a delete's unlinking and the update of the atomic length counter, i.e. the window in which the counter lags the contents. The harness uses them for SCRIPTED schedules (an "
        "operation parked inside a window while the others run against it: 17 map + 11 set scenarios x 4 comparator variants, each a "
        "tiny history judged by lin_check/range_ok_b -- deterministic; plus, per variant, one map and one set script that SAMPLE Len() and the number of keys Range reports while calls are parked at points 7 / 8, judged against the counter protocol model C04/LenCounter.v: counter = keys - published-not-counted + removed-not-discounted in every reachable state (C04_len_counter_invariant), hence Len = number of keys when nothing is in flight (C04_len_quiescent), while in flight it reads 0 with a key present and can be negative (C04_len_zero_not_empty_refuted: why a reader must not consult it, seed C04-16)) and, in a quarter of the random rounds, to reschedule at one "
        "point in eight. The random rounds are additionally perturbed from outside (GOMAXPROCS cycling "
        "1/2/4/16, a spinning per-operation barrier that releases all goroutines together in 3 of 4 rounds, seeded "
        "runtime.Gosched()/busy spins between operations, busy co-runners, and a second run of the concurrent harness built with "
        "-race whose slowdown widens the windows). Stamps: invocation before the call, response after it, one atomic counter, so a "
        "linearizable execution is never rejected. Clear is not concurrency-safe by construction (plain stores to header/"
        "highestLevel) and is exercised sequentially only (incl. the deterministic clear-tall sequences: Clear, then inserts with "
        "towers up to maxLevel). Range under concurrency is judged by RangeOK (strictly ascending, no "
        "repeat, every key with an insert/observation completed before the call and no overlapping removal is visited, every "
        "visited key was inserted by an operation invoked before the response); visited values are not judged. The sequential "
        "model keeps lane 0 only (a node of height h is on lanes 0..h-1 by construction; the harness checks the real lanes "
        "against the level field) and does not model the `level > hl` retry of LoadOrStore(Lazy), locks, flags or retries. "
        "The lazy-constructor clause is additionally judged PER CALL on large histories (no search): rounds on a map pre-filled with 24-300 keys (towers differ per lane), 2-5 goroutines calling LoadOrStoreLazy on fresh keys adjacent to keys that 2-5 other goroutines Delete/Store/LoadAndDelete/LoadOrStore concurrently; every call carries a closure counter and Check.lazy_call_ok_b (C04_lazy_calls_b) requires calls <= 1, = 1 with the constructed value returned iff the call reports stored, = 0 when it reports loaded. "
        "User comparators returning magnitudes (a-b, b-a, (a-b)*7, struct-field subtraction; key encodings with gaps 1,1,5 / 2,4,6,.. / 3, plus a slow yielding a-b comparator) are exercised on skipmap, skipset and the Safe wrappers in the sequential stream and in the concurrent rounds; the cases carry the keys' RANKS under the comparator (order isomorphism enc/dec in the harness), so Spec/Model/case types are unchanged. Rounds with a Range goroutine pre-store anchor keys below and above the contended ones (present for the whole of every Range call); half of the map rounds run a slow LoadOrStoreLazy constructor (user code under the predecessor locks). "
        "Typed variants (Int64Map, StringMap, ...) do not exist in this fork: the generic comparator-based Map/Set are "
        "instantiated with int64, string, int under a reversed comparator, a struct key under a hand-written comparator, and the "
        "mutex wrappers MapSafe/SetSafe. Defects: D8 repaired by patches 0008/0009; two further defects found by the concurrent "
        "tie (D30 Store lost update vs LoadAndDelete, D31 half-linked node visible to Store/LoadOrStore but not to Load/Delete) "
        "are repaired by the proposed patches 0033/0034; the check exits 0 only with all four applied."
    ),
    "theorems": [("C04.Props", ["C04_seq_map", "C04_seq_set", "C04_seq_map_state", "C04_seq_set_state", "C04_len_after_clear",
                                "C04_lazy_once", "C04_spec_map_laws", "C04_lin_check_map", "C04_lin_check_set",
                                "C04_lin_segments", "C04_range_ok_b", "C04_lazy_calls_b",
                                "C04_lazyskip_inv", "C04_lazyskip_sorted", "C04_lazyskip_abs_frame",
                                "C04_lazyskip_inv2", "C04_lazyskip_lock_holder", "C04_lazyskip_lock_release",
                                "C04_lazyskip_next_under_lock", "C04_lazyskip_no_deadlock",
                                "C04_lazyskip_add_effect", "C04_lazyskip_add_fail", "C04_lazyskip_remove_effect",
                                "C04_lazyskip_lin_points", "C04_lazyskip_linearizable",
                                "C04_lazyskip_one_add_wins", "C04_lazyskip_one_remove_wins",
                                "C04_lazymap_lock_owner", "C04_lazymap_value_write", "C04_lazymap_marked_frozen",
                                "C04_lazymap_lad_returns_marked_value", "C04_lazymap_store_visible",
                                "C04_lazymap_prerepair_refuted", "C04_lazymap_prerepair_history_rejected",
                                "C04_lazymap_linearizable", "C04_lazymap_lazy_once"]),
                 ("C04.PropsLen", ["C04_len_counter_invariant", "C04_len_quiescent", "C04_len_lag_bounds",
                                   "C04_len_zero_not_empty_refuted", "C04_len_lag_code"])],
    "trusted": [
        "height oracle: node heights are premises of the refinement theorems (>= 1, what randomLevel() returns); the harness "
        "injects them through the reassignable fastrand.Uint32 and reads them back through the verif accessor VerifShape",
        "order isomorphisms between the int64 key codes of the cases and the Go key types/comparators used (harness glue)",
        "history recording (atomic stamp counter, per-goroutine logs) and the derivation of key events for the Range clause "
        "(Check.map_events/set_events) are unverified glue; the decision on each history is the verified lin_check",
        "race detector (second run) and the 20 s per-round deadlock watchdog decide outside Coq",
    ],
    "modelled": [
        "Go scheduler, memory model, sync.Mutex, sync/atomic: exercised, not modelled",
        "optimistic find/lock/validate/link protocol, marked/fullyLinked flags: protocol models LazySkip.v / LazyMap.v (bottom lane, "
        "hand-written, theorems over all schedules of the MODEL); the Go code itself, upper lanes and the highestLevel CAS are "
        "exercised by the concurrent histories only",
        "runtime.fastrand behind randomLevel(): replaced by an oracle in sequential traces, left alone in concurrent rounds",
    ],
    "assumptions": [
        "comparators used are strict total orders consistent with the key encoding",
        "a recorded concurrent history has at most 8 goroutines x 8 operations + 4 quiescent observations (small by construction)",
    ],
}
