CFG = {
    "id": "C04",
    "harness": "c04",
    "runs": [
        {"harness": "c04"},
        # the same concurrent harness once more under the race detector (needs cgo: CGO_ENABLED=1 works in this sandbox);
        # race reports become direct violations; the slowdown also widens the link -> fullyLinked windows (that is how D31 surfaced)
        {"harness": "c04", "name": "c04_race", "build_flags": ["-race"], "build_env": {"CGO_ENABLED": "1"}, "extra": "race"},
    ],
    "widen_runs": 1,
    "widen_timeout": 1500,
    "level_text": (
        "Partial. Proved in Coq for all inputs: (1) the sequential model of skipmap/skipset (lane-0 chain with oracle node "
        "heights, cached length, highestLevel; Store/Load/LoadOrStore/LoadOrStoreLazy/LoadAndDelete/Delete/Range/Len/Clear/"
        "Keys/Values/Size/Empty/Put/Get/Remove and AddB/Add/ContainsB/Contains/RemoveB/Remove/...) refines a finite map / "
        "finite set for every operation list and every height oracle >= 1 (C04_seq_map, C04_seq_set): Len = size, Len after "
        "Clear = 0, keys strictly ascending so Range/Keys ascend, the lazy constructor runs exactly once per successful insert "
        "and never otherwise; (2) the history checker lin_check (DFS over minimal pending operations with a dead-configuration "
        "cache) is sound and complete for linearizability w.r.t. the map and set specs, cutting at quiescent points is exact "
        "(lin_segments), and range_ok_b decides the Range clause; (3) for an executable small-step model of the optimistic bottom-lane "
        "algorithm (LazySkip.v: find, lock pred, validate, link, fullyLinked; mark under lock, unlink; contains reads flags), for all "
        "programs and ALL schedules of its atomic steps: next pointers always lead to strictly larger keys, so the reachable chain is "
        "strictly sorted with at most one node per key, and the abstract set {key | fullyLinked, not marked} changes only at the "
        "fullyLinked := true step of an Add and the marked := true step of a Remove. NOT proved: that the concurrent Go code is linearizable. Real "
        "interleavings are sampled, not proved: every check run records small concurrent histories of the real code (2-8 "
        "goroutines, 1-3 keys, 4-8 operations each, fresh structure per round, quiescent Len/Keys/Values/Empty appended) and "
        "each recorded history is decided inside Coq by the verified lin_check / range_ok_b; the sequential model is tied to "
        "the code on every run by traces compared result-by-result with the Spec (kind 2) and result+lane/level/highestLevel/"
        "length dump with the Model (kind 1)."
    ),
    "level_note": (
        "Concurrency is PARTIAL: histories are samples of the Go scheduler, no theorem covers the optimistic find/lock/validate/"
        "link protocol of the Go code itself: LazySkip.v is a hand-written protocol model with no run-time tie to the code (beyond the "
        "histories), and for it only sortedness/uniqueness and the abs-set frame are proved -- NOT that a successful Add found the key "
        "absent, that exactly one of several racing same-key Adds/Removes succeeds, lock ownership, or that linearization points lie "
        "inside the intervals (those need the full lazy-list argument). Also not covered: upper-lane linking order, the highestLevel CAS, "
        "or the memory model. Seeded in-code yield points were NOT added: a `verifYield(k)` line inside Store/Delete/... would "
        "touch existing lines, which hooks must not do; scheduling is perturbed from outside instead (GOMAXPROCS cycling "
        "1/2/4/16, a spinning per-operation barrier that releases all goroutines together in 3 of 4 rounds, seeded "
        "runtime.Gosched()/busy spins between operations, busy co-runners, and a second run of the concurrent harness built with "
        "-race whose slowdown widens the windows). Stamps: invocation before the call, response after it, one atomic counter, so a "
        "linearizable execution is never rejected. Clear is not concurrency-safe by construction (plain stores to header/"
        "highestLevel) and is exercised sequentially only. Range under concurrency is judged by RangeOK (strictly ascending, no "
        "repeat, every key with an insert/observation completed before the call and no overlapping removal is visited, every "
        "visited key was inserted by an operation invoked before the response); visited values are not judged. The sequential "
        "model keeps lane 0 only (a node of height h is on lanes 0..h-1 by construction; the harness checks the real lanes "
        "against the level field) and does not model the `level > hl` retry of LoadOrStore(Lazy), locks, flags or retries. "
        "Typed variants (Int64Map, StringMap, ...) do not exist in this fork: the generic comparator-based Map/Set are "
        "instantiated with int64, string, int under a reversed comparator, a struct key under a hand-written comparator, and the "
        "mutex wrappers MapSafe/SetSafe. Defects: D8 repaired by patches 0008/0009; two further defects found by the concurrent "
        "tie (D30 Store lost update vs LoadAndDelete, D31 half-linked node visible to Store/LoadOrStore but not to Load/Delete) "
        "are repaired by the proposed patches 0033/0034; the check exits 0 only with all four applied."
    ),
    "theorems": [("C04.Props", ["C04_seq_map", "C04_seq_set", "C04_seq_map_state", "C04_seq_set_state", "C04_len_after_clear",
                                "C04_lazy_once", "C04_spec_map_laws", "C04_lin_check_map", "C04_lin_check_set",
                                "C04_lin_segments", "C04_range_ok_b",
                                "C04_lazyskip_inv", "C04_lazyskip_sorted", "C04_lazyskip_abs_frame"])],
    "trusted": [
        "height oracle: node heights are premises of the refinement theorems (>= 1, what randomLevel() returns); the harness "
        "injects them through the reassignable fastrand.Uint32 and reads them back through the verif accessor VerifShape",
        "order isomorphisms between the int64 key codes of the cases and the Go key types/comparators used (harness glue)",
        "history recording (atomic stamp counter, per-goroutine logs) and the derivation of key events for the Range clause "
        "(Check.map_events/set_events) are unverified glue; the decision on each history is the verified lin_check",
        "race detector (second run) and the 20 s per-round deadlock watchdog decide outside Coq",
    ],
    "modelled": [
        "Go scheduler, memory model, sync.Mutex, sync/atomic: exercised, not modelled",
        "optimistic find/lock/validate/link protocol, marked/fullyLinked flags, upper lanes, highestLevel CAS: exercised by the "
        "concurrent histories only (no protocol theorem)",
        "runtime.fastrand behind randomLevel(): replaced by an oracle in sequential traces, left alone in concurrent rounds",
    ],
    "assumptions": [
        "comparators used are strict total orders consistent with the key encoding",
        "a recorded concurrent history has at most 8 goroutines x 8 operations + 4 quiescent observations (small by construction)",
    ],
}
