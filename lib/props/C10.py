CFG = {
    "id": "C10",
    "level_text": "placeholder",
    "level_note": "placeholder",
    "harness": "c10",
    "theorems": [("C10.Props", [
        "C10_cmp_int", "C10_cmp_int_laws", "C10_cmp_string", "C10_cmp_string_laws", "C10_cmp_bool", "C10_cmp_reverse",
        "C10_cmp_float", "C10_binary_search", "C10_binary_search_func", "C10_is_sorted", "C10_compare_equal",
        "C10_index_contains", "C10_sort_perm", "C10_insertion_sorted", "C10_sort_sorted_partial",
        "C10_sorted_perm_checker", "C10_checker_orders", "C10_stable_checker"])],
    "trusted": [], "modelled": [], "assumptions": [],
    "widen_runs": 1,
}
