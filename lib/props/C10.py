CFG = {
    "id": "C10",
    "level_text": "Proof over executable Gallina transcriptions of base/bcomparator/comparator.go, base/bslice/sort.go, "
                  "zsortfunc.go (= zsortordered.go up to `less`, re-diffed mechanically every run) and the comparison helpers "
                  "of bslice.go. Theorems for all inputs: every integer/string/bool comparator returns exactly the sign of the "
                  "native order and is a total preorder (zero only for equal), ReverseComparator negates and keeps the laws, the "
                  "float comparators return the native sign whenever |a-b| > tolerance and 0 whenever |a-b| is below a "
                  "representable bound under the tolerance (for any monotone, odd rounding that fixes representables); "
                  "BinarySearch(Func) = (lowest insertion position, found) on sorted input without midpoint overflow below 2^63; "
                  "IsSorted(Func), Compare(Func), Equal(Func), Index, Contains equal their definitions; CompareFunc returns exactly the first non-zero result of an ARBITRARY cmp (else the comparison of the lengths) and EqualFunc = same length and eq on every pair, both calling the user function on (s1[i], s2[i]) in that argument order, in increasing i, up to the deciding pair (C10_compare_func_spec, C10_equal_func_spec; the runs hand the real code comparison functions of non-unit magnitude and asymmetric predicates with recorded calls, C10_cmpsel_laws); Index = number of leading elements not == v (or -1) and Contains = existsb for an ARBITRARY element equality (C10_element_relations); Equal / Compare / Index / Contains / IsSorted are also run on float and float-struct elements with NaN (class codes; NaN unequal to itself and incomparable) and on aliased operands (same slice, views of one array); pdqsort and the stable sort "
                  "return a Permutation of the input for every input and every less (every write is an in-range swap); "
                  "insertionSort and heapSort (siftDown invariant) sort their range, touch nothing else and never index out of "
                  "range for every strict weak order; partition and partitionEqual satisfy their post-conditions (left part < pivot "
                  "<= right part, resp. <= pivot < right part, pivot in place, nothing outside [a,b) touched, no index panic) for "
                  "any less. FULL sortedness theorems, for every strict weak order (irreflexive, transitive, incomparability "
                  "transitive) and EVERY input: C10_sort_sorted - the pdqsort model (SortFunc / Sort) ends without index panic with "
                  "its own fuel S n, the result is sorted (no inversion) and a permutation (loop invariant data[a-1] <= data[a:b]; "
                  "covers insertionSort, the heapsort fallback, breakPatterns, choosePivot / median / ninther, reverseRange, "
                  "partialInsertionSort, partition and partitionEqual for every limit / wasBalanced / wasPartitioned: "
                  "C10_pdqsort_range); C10_stable_sorted - the stable sort model (insertionSort blocks of 20, symMerge rounds, "
                  "rotate / swapRange) ends without panic for every input shorter than 2^63, sorted, a permutation and STABLE "
                  "(every class of mutually incomparable elements keeps its input order); C10_stable_key restates that as "
                  "Spec.Stable, the conclusion of the verified checker; C10_symmerge, C10_rotate, C10_partial_insertion and "
                  "C10_pivot_in_range are the component specifications. The output checkers sorted_perm_b and stable_sorted_b are "
                  "proved to decide Sorted /\\ Permutation and stability; they still judge every observed run of the real "
                  "code. The transcriptions are tied to the code on every run: ~5 000 calls, the sorts replayed through the "
                  "Coq model with the sequence of less(x, y) calls compared (count and rolling hash), 14 input generators plus "
                  "adversary-built killer inputs (four freezing rules, sizes 50..2000, generated against the real SortFunc each run and replayed as values through Sort on five element types, SortFunc, SortStableFunc and the BSlice methods; the evidence counts the cases reaching each model branch and the run fails its coverage case if the heapsort fallback, breakPatterns, partitionEqual, partialInsertionSort true/false or reverseRange is not reached, "
                  "incl. the heapsort fallback, breakPatterns, partialInsertionSort, partitionEqual, ninther, symMerge rotation).",
    "level_note": "Sortedness of pdqsort and of the stable sort is a theorem of the transcribed models for all inputs "
                  "(C10_sort_sorted, C10_stable_sorted); C10_sort_sorted_partial (n <= 12) is kept but subsumed. Premises: less is a "
                  "strict weak order; for the stable sort additionally len < 2^63 (Go int: the model bounds the block-size "
                  "doublings and the symMerge recursion depth by 64, exhausted only beyond 20 * 2^63 elements). "
                  "partialInsertionSort's shift-left loop runs down to index 1, not to a: it stays inside data[a:b] only because of "
                  "the pdqsort invariant data[a-1] <= data[a:b] (premise Pre of C10_partial_insertion / C10_pdqsort_range; shown to "
                  "hold at every call inside C10_sort_sorted). NOT covered by theorems: the tie between the models and the Go "
                  "code is by replay, not by proof; bcomparator.Sort, SortComparator, list.Sort and "
                  "GetSortedValues delegate to the standard library's sort.Sort: no model, output checker only. Float comparators (not Equal/Index/Contains/Compare over float slices, which ARE covered with NaN): "
                  "NaN and infinities are outside the theorem and the generators; between tol/2 and tol the result depends on the "
                  "rounding and either 0 or the sign is accepted by the model tie. The less-call sequence is compared through a "
                  "31-bit rolling hash plus the call count, not element by element. Sort (zsortordered.go) cannot be given a "
                  "recording less: its tie is the mechanical diff against zsortfunc.go plus equal outputs.",
    "harness": "c10",
    "theorems": [("C10.Props", [
        "C10_cmp_int", "C10_cmp_int_laws", "C10_cmp_string", "C10_cmp_string_laws", "C10_cmp_bool", "C10_cmp_reverse",
        "C10_cmp_float", "C10_binary_search", "C10_binary_search_func", "C10_is_sorted", "C10_compare_equal",
        "C10_index_contains", "C10_sort_perm", "C10_insertion_sorted", "C10_heapsort_sorted", "C10_partition_post", "C10_partition_equal_post",
        "C10_sort_sorted_partial", "C10_sort_sorted", "C10_pdqsort_range", "C10_partial_insertion", "C10_pivot_in_range",
        "C10_stable_sorted", "C10_stable_key", "C10_symmerge", "C10_rotate",
        "C10_sorted_perm_checker", "C10_checker_orders", "C10_stable_checker",
        "C10_compare_func_spec", "C10_equal_func_spec", "C10_cmpsel_laws", "C10_element_relations"])],
    "trusted": [
        "IEEE-754 subtraction of the float comparators = a rounding of the exact difference that is monotone, odd and the "
        "identity on representable values; 0.0000001 denotes a representable positive double (premises of C10_cmp_float)",
        "Go's ==, <, > on integers, bool and strings (bytewise lexicographic) and strings.Compare are the Z / byte-list "
        "comparisons of C10/Model.v",
        "standard library sort.Sort behind bcomparator.Sort / SortComparator / list.Sort / GetSortedValues (observed, judged by "
        "the verified checker)",
        "the harness's recording less, its rolling hash, the float -> (mantissa, exponent) decomposition (math.Frexp) and the "
        "textual diff zsortordered.go vs zsortfunc.go",
        "Coq.Sorting.Mergesort (used inside the permutation / stability checkers; its correctness lemmas are used, not assumed)",
    ],
    "modelled": [
        "Go slices as lists with nth/swap; an out-of-range index sets a sticky flag (the model's panic)",
        "xorshift / bits.Len / nextPowerOfTwo of breakPatterns as Z arithmetic mod 2^64",
        "generic element type instantiated with int64 (tagged pairs encoded as key * 2^20 + index)",
    ],
    "assumptions": [
        "less is a strict weak order for the sortedness theorems (irreflexive, transitive, incomparability transitive; "
        "equivalently asymmetric and negatively transitive); none for Permutation",
        "slice length < 2^63 for the stable sort (the model's fuel 64)",
        "slice length < 2^63 for BinarySearch's midpoint",
    ],
    # when only the tie / an obligation breaks: one more quick-sized run with another seed (keeps a quick check under ~150 s)
    "widen_runs": 1, "widen_tier": "quick", "widen_timeout": 120,
}
