CFG = {
    "id": "C10",
    "level_text": "Proof over executable Gallina transcriptions of base/bcomparator/comparator.go, base/bslice/sort.go, "
                  "zsortfunc.go (= zsortordered.go up to `less`, re-diffed mechanically every run) and the comparison helpers "
                  "of bslice.go. Theorems for all inputs: every integer/string/bool comparator returns exactly the sign of the "
                  "native order and is a total preorder (zero only for equal), ReverseComparator negates and keeps the laws, the "
                  "float comparators return the native sign whenever |a-b| > tolerance and 0 whenever |a-b| is below a "
                  "representable bound under the tolerance (for any monotone, odd rounding that fixes representables); "
                  "BinarySearch(Func) = (lowest insertion position, found) on sorted input without midpoint overflow below 2^63; "
                  "IsSorted(Func), Compare(Func), Equal(Func), Index, Contains equal their definitions; pdqsort and the stable sort "
                  "return a Permutation of the input for every input and every less (every write is an in-range swap); "
                  "insertionSort and heapSort (siftDown invariant) sort their range, touch nothing else and never index out of "
                  "range for every strict weak order; partition and partitionEqual satisfy their post-conditions (left part < pivot "
                  "<= right part, resp. <= pivot < right part, pivot in place, nothing outside [a,b) touched, no index panic) for "
                  "any less; the output checkers sorted_perm_b and stable_sorted_b are proved to decide "
                  "Sorted /\\ Permutation and stability. PARTIAL: sortedness of the full pdqsort composition and of the stable sort "
                  "(insertion blocks + symMerge + rotate) is not a theorem; it is decided per run by the verified checkers on the "
                  "real outputs. The transcriptions are tied to the code on every run: ~5 000 calls, the sorts replayed through the "
                  "Coq model with the sequence of less(x, y) calls compared (count and rolling hash), 14 input generators plus "
                  "McIlroy's anti-quicksort adversary run against the real SortFunc (the evidence lists the model branches hit, "
                  "incl. the heapsort fallback, breakPatterns, partialInsertionSort, partitionEqual, ninther, symMerge rotation).",
    "level_note": "C10_sort_sorted_partial covers exactly the inputs pdqsort hands straight to insertion sort (n <= 12): sorted and "
                  "no index panic. For n > 12 the proved pieces are: Permutation (C10_sort_perm, all paths), insertionSort "
                  "(C10_insertion_sorted) and heapSort (C10_heapsort_sorted) as stand-alone range sorts, partition / partitionEqual "
                  "post-conditions (C10_partition_post, C10_partition_equal_post). NOT proved: partialInsertionSort returning true only on a sorted range, "
                  "choosePivot/breakPatterns/reverseRange index bounds, hence neither `pdqsort sorted` nor `pdqsort never panics` "
                  "for n > 12; symMerge/rotate/stable (only Permutation). bcomparator.Sort, SortComparator, list.Sort and "
                  "GetSortedValues delegate to the standard library's sort.Sort: no model, output checker only. Float comparators: "
                  "NaN and infinities are outside the theorem and the generators; between tol/2 and tol the result depends on the "
                  "rounding and either 0 or the sign is accepted by the model tie. The less-call sequence is compared through a "
                  "31-bit rolling hash plus the call count, not element by element. Sort (zsortordered.go) cannot be given a "
                  "recording less: its tie is the mechanical diff against zsortfunc.go plus equal outputs.",
    "harness": "c10",
    "theorems": [("C10.Props", [
        "C10_cmp_int", "C10_cmp_int_laws", "C10_cmp_string", "C10_cmp_string_laws", "C10_cmp_bool", "C10_cmp_reverse",
        "C10_cmp_float", "C10_binary_search", "C10_binary_search_func", "C10_is_sorted", "C10_compare_equal",
        "C10_index_contains", "C10_sort_perm", "C10_insertion_sorted", "C10_heapsort_sorted", "C10_partition_post", "C10_partition_equal_post",
        "C10_sort_sorted_partial",
        "C10_sorted_perm_checker", "C10_checker_orders", "C10_stable_checker"])],
    "trusted": [
        "IEEE-754 subtraction of the float comparators = a rounding of the exact difference that is monotone, odd and the "
        "identity on representable values; 0.0000001 denotes a representable positive double (premises of C10_cmp_float)",
        "Go's ==, <, > on integers, bool and strings (bytewise lexicographic) and strings.Compare are the Z / byte-list "
        "comparisons of C10/Model.v",
        "standard library sort.Sort behind bcomparator.Sort / SortComparator / list.Sort / GetSortedValues (observed, judged by "
        "the verified checker)",
        "the harness's recording less, its rolling hash, the float -> (mantissa, exponent) decomposition (math.Frexp) and the "
        "textual diff zsortordered.go vs zsortfunc.go",
        "Coq.Sorting.Mergesort (used inside the permutation / stability checkers; its correctness lemmas are used, not assumed)",
    ],
    "modelled": [
        "Go slices as lists with nth/swap; an out-of-range index sets a sticky flag (the model's panic)",
        "xorshift / bits.Len / nextPowerOfTwo of breakPatterns as Z arithmetic mod 2^64",
        "generic element type instantiated with int64 (tagged pairs encoded as key * 2^20 + index)",
    ],
    "assumptions": [
        "less is a strict weak order for the sortedness theorems (asymmetric, negatively transitive); none for Permutation",
        "slice length < 2^63 for BinarySearch's midpoint",
    ],
    "widen_runs": 1,
}
