CFG = {
    "id": "C16",
    "level_text": "TODO",
    "level_note": "TODO",
    "harness": "c16",
    "gen": ["go run tools/gen_c16/main.go"],
    "theorems": [],
    "trusted": [],
    "modelled": [],
    "assumptions": [],
}
