CFG = {
    "id": "C16",
    "level_text": "Proof, full strength for the Go-level code: for EVERY byte list, Model.hash data = Some (Spec.xxh3_64 data) and "
                  "Model.hash128 data = Some (Spec.xxh3_128 data), where Model is the Go code of hash.go / hash128.go / accum_scalar.go / util.go as "
                  "written (length-class dispatch, unrolled loads at fixed offsets, the named constants of consts.go, the 129..240 loops with secret "
                  "offsets i-125/i-117/i-109/i-101, accumScalar's block and stripe loops with (l-1)/1024, (l-1)/64, xinput-(64-l) and secret offset 121, "
                  "scramble, the xacc merge) with every load bounds-checked (Some = no load outside the slice), and Spec is XXH3 (seed 0, default secret) "
                  "in loop form over byte lists. All seven length classes (0, 1-3, 4-8, 9-16, 17-128, 129-240, >240) are proved for both digests; "
                  "index arithmetic by lia, loops by induction. The constants are regenerated from consts.go on every run (tools/gen_c16) and "
                  "Consts_ok (each xsecret_NNN = little-endian read of XXH3's kSecret at NNN, secret table = kSecret, primes) is re-proved by computation: "
                  "a changed constant breaks it and every theorem. Tie on every run: real Hash/Hash128/HashString/Hash128String on every length of the tier, "
                  "random and structured data, all three back ends forced through the verif hook, sub-slice offsets 0..63, exact and extra capacity, "
                  "compared with Spec and Model evaluated inside Coq (vm_compute) and with the in-tree independent port internal/xxh3_raw; "
                  "guard pages (PROT_NONE before/after, data read-only) for out-of-bounds loads and writes, all back ends. "
                  "Besides random/structured data the tie runs a SECRET-RELATIVE stream (harness secretrel.go, ~11 700 inputs per quick run, ~500 of them through Coq, "
                  "every disagreeing one added): for lengths of every class and every window XXH3 reads (8-byte words, the 4-byte words and single bytes of the short paths, "
                  "stripe lanes of the long path) the window is set to (the secret word the SPEC pairs it with) XOR d, d in {0, 1, 0xff, 2^31, 2^32-1, 2^32, 2^63, all ones, "
                  "small, high half zero, low half zero}, plus both operands of a fold special and every window secret-like; pairing and kSecret come from Spec.v, "
                  "not from the code under test. This reaches operand values (0, < 2^32, multiples of 2^32 ...) that random data hits with probability ~2^-31.",
    "level_note": "No length class is left unproved for the Go-level code. NOT proved: the assembly back ends avx2_amd64.s / sse2_amd64.s are MODELLED as equal to "
                  "accumScalar and only tested to be so (every run: three-way differential on all lengths of the tier + guard pages); 'never modifies the bytes' has no "
                  "theorem beyond the model being a pure function (tested: read-only mapping + before/after comparison); alignment/capacity independence is by "
                  "construction in the model (a byte list has neither) and tested on the real code. The Spec is a hand transcription of XXH3 validated against "
                  "internal/xxh3_raw and digests printed by the Go code, not against the C reference (not available offline). Go ints are modelled as UNBOUNDED Z: the small/large dispatch "
                  "`len(data) > 16`, the length classes and all index arithmetic are exact in the model, so an int/uint32 truncation or a sign trick that misroutes "
                  "very long inputs is invisible to the theorems and to the Coq-evaluated cases (which stop at ~20 KB). What ties the large-length behaviour to the "
                  "property is the harness stream 'len-class >2GiB/sparse' (every run, child process): sparse MAP_NORESERVE mappings of 2^31+17 and 2^32+17 bytes "
                  "(thorough: also 2^31+16, 2^31+1MiB, 2^32+16), zero pages plus a few non-zero bytes at the start, stripe/block boundaries, around 2^31 and at the end, "
                  "hashed by all three back ends through Hash/HashString/Hash128/Hash128String and judged (kind 2) by back-end/entry-point agreement, equality with "
                  "internal/xxh3_raw on the same memory, and Hash = low64(Hash128) (theorem C16_long_low64: a Spec identity for every input > 240 bytes; the Spec "
                  "itself cannot be evaluated on 2 GiB). Lengths between ~20 KB and 2^31, and above 2^32+17, are tied only by the harness-only differential up to ~1 MiB. consts.go naming quirk (no functional effect): xsecret32_000/004 and "
                  "008/012 hold the other half of their 64-bit word (offset xor 4); stated as such in Consts_ok.",
    "harness": "c16",
    "gen": ["go run tools/gen_c16/main.go"],
    "theorems": [("C16.Props", [
        "C16_Consts_ok", "C16_impl_eq_spec64", "C16_impl_eq_spec128", "C16_hash_total", "C16_read_outside",
        "C16_hashString", "C16_xxh64Avalanche_below_2_33", "C16_long_low64"])],
    "trusted": [
        "tools/gen_c16 (go/types evaluation of consts.go -> coq/theories/C16/Consts.v); its output is checked by C16_Consts_ok against the Spec's own kSecret",
        "the hand-written Spec (XXH3 from the algorithm description), cross-checked on every run against internal/xxh3_raw inside the Coq case files (step 0 of every case)",
        "verif hook sys/xxhash3/hooks_verif.go (back-end switch with restore, re-export of internal/xxh3_raw)",
        "little-endian amd64: ReadUnaligned64/32/16 are little-endian byte compositions (Word.rd)",
    ],
    "modelled": [
        "accumAVX2 / accumSSE2 (avx2_amd64.s, sse2_amd64.s): modelled as accumScalar; tested equal on every run, never proved",
        "unsafe.Pointer arithmetic and hack.StringToBytes: a slice/string is its byte list, xinput+k is byte offset k",
        "CPU feature detection (sys/cpu) selecting the back end: the harness forces each supported back end instead",
    ],
    "assumptions": ["Go int / uintptr arithmetic on lengths and offsets is modelled on unbounded Z (no wrap, no truncation); tied for lengths > 2 GiB by the huge-input stream only", "amd64 little-endian loads"],
    "widen_runs": 1,
    "widen_timeout": 1200,
}
