CFG = {
    "id": "C06",
    "level_text": "Proof over an executable Gallina model of base/bslice on a Go slice MEMORY model (heap of backing arrays, headers "
                  "{array, offset, len, cap, nil}): for every method (all of UnsafeAnyBSlice plus the Comparable/Ordered/Calculable additions, "
                  "E and non-E, ToSlice and ToBSlice variants), every heap, header, argument (negative, = len, > len, empty, nil) and every capacity "
                  "oracle of append, the call never panics, receiver contents / returned value / error flag equal the one-line pure list function "
                  "of Spec.v (C06_pure, C06_errors), copying methods leave every old array untouched, keep the receiver header and return storage "
                  "disjoint from it (C06_copy), and the observables depend on the contents only, not on array, offset, capacity or nil-ness (C06_cap). "
                  "bmap: every method equals its finite-map meaning for every operation list from every canonical map, nil included (C06_bmap). "
                  "The model is tied to the code on every run: every method x every index in [-1,len+1] x contents over {0,1,2} x 3-4 capacity variants "
                  "x the 8 wrappers, random contents and call sequences are executed on the real package; Coq evaluates model and Spec on each recorded call "
                  "and compares nil-ness, len, cap, every cell of the capacity window (stale cells included), array identity and the alias probe.",
    "level_note": "All bslice methods have theorems (none is covered by correspondence only). Modelled, not verified here: pdqsort / sort.Sort / the stable sort are "
                  "a stable insertion sort in the model (correct where the comparison is a strict total order, or any strict weak order for the stable sort; "
                  "sorting itself is C10), json.Marshal/Unmarshal act on decoded data (C15), Go's append growth policy is an oracle (any capacity >= needed; "
                  "the check feeds the observed capacity back and compares capacities exactly wherever the code does not append/grow), int is unbounded Z "
                  "(no wrap-around in Sum/Avg; the harness stays far below 2^63), float instantiations are exercised against a Go-computed reference only (see FLOATS below), BinarySearch(Func) is specified only on receivers on "
                  "which the comparison is monotone (elsewhere only capacity independence and model agreement). The Safe* wrappers are the same functions (locking is C11); "
                  "they are exercised by the tie with identical expected output. bmap: a Go map is a key-sorted association list, `range` runs in key order "
                  "(results that depend on Go's iteration order are compared as sorted collections; order independence of Merge/Copy/DeleteFunc under other iteration orders is "
                  "exercised on the real map, not proved); a write through a nil map panics in model and Spec exactly as an ordinary Go map does "
                  "(reachable only through NewUnsafeComparableBMapByMap(nil) / Comparable receivers - reported as a remark, not judged a violation). "
                  "Further defects found by this check and repaired (patches notes/fixes/0035-0038, evidence findings/C06-N*.json; the Spec judges them by the property text, "
                  "the pre-repair code paths are kept in Defects.v with C06_N1..N4_unrepaired_refuted): N1 the Delete family reported no error for an invalid range on an EMPTY receiver; "
                  "N2 SetByRange(E) appended es at the end whatever the index when index+len(es) > len (Spec reading: overwrite from the index, extend past the end; an index beyond len "
                  "is clamped to len, NOT an error, because the package's own test table TestUnsafeAnyBSlice_SetByRange expects index 2 on an empty receiver to append without error); "
                  "N3 NewUnsafeComparableBMapByMap(nil) kept the nil map so Put panicked (the constructor is step 0 of every bmap case, ONew); "
                  "N4 GrowE panicked when the runtime refuses the amount: Spec.alloc_limit = 2^45 ints (runtime maxAlloc), growing to len+n >= alloc_limit must be an error; "
                  "amounts below the limit are assumed allocatable (no out-of-memory in the model; the harness uses amounts <= len+10 or >= 2^46). Theorems carry the premise "
                  "fits s (cap below alloc_limit), true of every real slice. "
                  "Cross-method state: every slice handed over (the constructor argument, every returned slice) is re-read after every later call of a case; the model must reproduce it exactly (kind 1) "
                  "and a slice that is no longer linked to the receiver - the result of a copying method, or anything handed over before a detaching method (Clear, Filter: Spec.detaches, theorem C06_detach) - "
                  "must never change again (kind 2). Capacity is judged kind 2 only where the contents determine it (Spec.pure_cap: Clear -> 0, Clip -> len; theorem C06_certain_cap), elsewhere kind 1. "
                  "N5 (found while adding struct elements, patch notes/fixes/0042): Unmarshal decoded documents past len into elements lying in the spare capacity (removed elements reappear, result depends on spare capacity); "
                  "Spec: document i merges with element i of the CONTENTS only (merge_all); struct elements are exercised as codes ID*16+nameIndex on Unsafe/SafeAny[struct] (harness recs.go). "
                  "Callbacks that look at the receiver mid-call: bslice - a share of the cases wraps the user function so that it reads the receiver (live ToMetaSlice on unsafe wrappers, the captured underlying slice on safe ones); for every callback-taking method except the in-place ones (CompactFunc, in-place sorts) it must see the receiver as it was before the call (Spec.sees_unchanged, judged on the implementation only, kind 2; the call-level model has no intermediate states, and the ORDER/number of callback calls is not judged). bmap - DeleteFunc with callbacks on the live size (len(m) > keep, parity ...): which pairs go depends on the iteration order of the Go map, so the checker judges what holds for every order (sizes seen by the callback, number of pairs left, left pairs are old pairs, each key visited once) and continues from the observed map; C06_live_delete proves these figures for the model loop, C06_bmap covers the op. FLOATS: the Ordered/Calculable wrappers are also run over float64 and float32 (NaN, +0/-0, +-Inf, subnormals, MaxFloat) for Min/Max/Sum/Avg/Sort/IsSorted/BinarySearch/Contains/IndexFunc/Compare/Equal/Compact; the float REFERENCE (pure left fold / plain loop with the same bmath function) is computed in Go by the harness, NOT in Coq: Coq only checks bit-pattern equality with that reference, unsafe-vs-safe agreement and capacity independence (every disagreement is kind 2; there is no Coq model or theorem for float arithmetic; Sort is run only on NaN-free contents without mixed zeros). "
                  "C06_D9/D10/D11_unrepaired_refuted show that the pre-repair code paths violate C06_copy / C06_cap.",
    "harness": "c06",
    "theorems": [("C06.Props", [
        "C06_pure", "C06_errors", "C06_copy", "C06_cap", "C06_search", "C06_bmap", "C06_fmap_laws",
        "C06_D9_unrepaired_refuted", "C06_D10_unrepaired_refuted", "C06_D11_unrepaired_refuted",
        "C06_N1_unrepaired_refuted", "C06_N2_unrepaired_refuted", "C06_N3_unrepaired_refuted", "C06_N4_unrepaired_refuted",
        "C06_certain_cap", "C06_detach", "C06_N5_unrepaired_refuted", "C06_live_delete"])],
    "trusted": [
        "capacity oracle of append/Grow/Clone/Filter/Unmarshal: universally quantified in the theorems (any oc); in the tie it is instantiated with the capacity the Go runtime chose",
        "sorting and JSON codecs are modelled abstractly (stable insertion sort on the loaded window; decoded JSON data)",
        "the alias probe (sentinel written through every cell of the returned storage, receiver windows re-read) and the window dump of the Go harness",
    ],
    "modelled": ["pdqsortLessFunc / pdqsortOrdered / stableLessFunc / sort.Sort (as a stable insertion sort)", "encoding/json for []int and map[int]int",
                 "runtime.growslice capacity policy (oracle)", "Go built-in map (key-sorted association list, key-order iteration)", "int arithmetic as Z"],
    "assumptions": ["element type int for bslice, map[int]int for bmap", "comparison callbacks passed to the sorts by the harness are strict total orders (lt_half only for the stable sort)"],
    "widen_runs": 1,
    "widen_tier": "quick",
    "widen_timeout": 150,
}
