(* C15 model, bridges to the list / queue models of C07 and C08.  No proofs in this file.
   The JSON model of C15/Model.v is polymorphic in the element type and carries the capacity of the array list
   explicitly; the C07 / C08 models have element type Z and len = cap.  al_json / al_of_json and cb_json / cb_of_json are
   the field renamings between the two views.  Linked lists have no representation detail in C15/Model.v
   (json.Marshal(list.Values()) / Clear(); Add(elements...)): ll_marshal7 / ll_unmarshal7 are that code on the
   pointer-structure model of C07 (the restored list is [ll_add decoded ll_clear]). *)
From VF Require Import C07.Model C08.Model.
From VF Require C15.Model.
Local Open Scope nat_scope.

Module J := VF.C15.Model.
Notation jval := J.jval.

(* ---------- bridges ---------- *)
Definition al_json (a : al) : J.al (E:=Z) :=
  {| J.al_elems := al_e a; J.al_size := al_n a; J.al_cap := length (al_e a) |}.
Definition al_of_json (a : J.al (E:=Z)) : al := {| al_e := J.al_elems a; al_n := J.al_size a |}.

Definition cb_json (q : cb) : J.cb (E:=Z) :=
  {| J.cb_vals := cb_v q; J.cb_start := cb_s q; J.cb_end := cb_e q; J.cb_full := cb_f q; J.cb_size := cb_n q; J.cb_max := cb_max q |}.
Definition cb_of_json (q : J.cb (E:=Z)) : cb :=
  {| cb_v := J.cb_vals q; cb_s := J.cb_start q; cb_e := J.cb_end q; cb_f := J.cb_full q; cb_n := J.cb_size q; cb_max := J.cb_max q |}.
(* the repaired Dequeue (0021) has no zero-value test *)
Definition no_zero_test (v : Z) : bool := false.

(* linked lists on the C07 model: json.Marshal(list.Values());  Clear(); Add(elements...) *)
Definition ll_marshal7 (enc : Z -> jval) (s : ll) : M jval := bind (ll_values s) (fun l => Ok (J.ll_marshal enc l)).
Definition ll_unmarshal7 (dec : jval -> option Z) (j : jval) (old : ll) : option (M ll) :=
  match J.ll_unmarshal dec j (ll_e old) with Some l => Some (ll_add l ll_clear) | None => None end.
