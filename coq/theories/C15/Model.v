(* C15 model: MarshalJSON / UnmarshalJSON of the containers, as functions to / from an abstract JSON value.
   No proofs in this file.

   encoding/json itself is NOT modelled: it is a trusted codec between Go values and [jval]
   ([enc]/[dec] for elements and values, [kname]/[kofname] for the text that becomes an object member name,
   [jsort] for the order in which a Go map is written, [iter] for the order in which a Go map is ranged over,
   [grow] for the capacity a decoded slice ends up with).  These are parameters here, premises of the theorems,
   and recorded from the real encoding/json by the harness for every case.

   Each container is modelled by its abstract contents plus exactly the representation detail its JSON code
   touches: arraylist (and the array stack / array queue / binary heap / priority queue that delegate to it):
   backing slice, size and capacity; circular buffer: ring, cursors, full flag; linkedhashmap: the hand-written
   member writer and the recovery of the key order; hash / tree / bidi maps and sets: the tables of C09
   (tree-backed containers abstractly, as sorted association lists - the trees themselves are C01's). *)
From VF Require Import Common.Base C09.Model.

Definition str := list Z.        (* bytes of a Go string *)

Inductive jval :=
| JNull | JBool (b : bool) | JNum (z : Z) | JStr (s : str)
| JArr (l : list jval)
| JObj (m : list (jval * jval)).   (* ordered members; a member NAME must be a string for the value to be JSON *)

Fixpoint wellformed (j : jval) : bool :=
  match j with
  | JArr l => forallb wellformed l
  | JObj m => forallb (fun p => match p with
                                | (JStr _, v) => wellformed v
                                | _ => false
                                end) m
  | _ => true
  end.

Fixpoint traverse {A B} (f : A -> option B) (l : list A) : option (list B) :=
  match l with
  | [] => Some []
  | a :: t => match f a, traverse f t with
              | Some b, Some r => Some (b :: r)
              | _, _ => None
              end
  end.

(* ================= containers that are written as a JSON array ================= *)
Section Seq.
  Context {E : Type}.
  Variable enc : E -> jval.              (* json.Marshal of one element *)
  Variable dec : jval -> option E.       (* json.Unmarshal into an E *)

  Definition seq_marshal (l : list E) : jval := JArr (map enc l).
  (* json.Unmarshal into a slice: an array of decodable elements; null gives the nil slice *)
  Definition seq_decode (j : jval) : option (list E) :=
    match j with JArr l => traverse dec l | JNull => Some [] | _ => None end.

  (* ----- doubly / singly linked list, linked-list queue and stack:  Values()  /  Clear(); Add(elements...) ----- *)
  Definition ll_marshal (l : list E) : jval := seq_marshal l.
  Definition ll_unmarshal (j : jval) (old : list E) : option (list E) :=
    match seq_decode j with Some l => Some ([] ++ l) | None => None end.

  (* ----- arraylist (array stack, array queue, binary heap, priority queue delegate to it) ----- *)
  Record al := { al_elems : list E;     (* l.elements, len(l.elements) = length *)
                 al_size : nat;         (* l.size *)
                 al_cap : nat }.        (* cap(l.elements) *)
  Definition al_abs (a : al) : list E := firstn (al_size a) (al_elems a).
  (* json.Marshal(l.elements[:l.size]); a list that never allocated has the nil slice there, which encoding/json
     writes as null ([isnil]: whether l.elements is nil - only possible when the list is empty) *)
  Definition al_marshal_with (isnil : bool) (a : al) : jval :=
    if isnil && Nat.eqb (al_size a) 0 then JNull else seq_marshal (al_abs a).
  Definition al_marshal := al_marshal_with false.
  (* json.Unmarshal(bytes, &l.elements): the slice becomes the decoded values; the old backing array is reused
     when it is large enough, otherwise the capacity is whatever encoding/json grew it to ([grow n >= n]);
     then l.size = len(l.elements); the repair (0016) clips: l.elements = l.elements[:size:size] *)
  Definition al_unmarshal_with (clip : bool) (grow : nat -> nat) (j : jval) (a : al) : option al :=
    match seq_decode j with
    | Some l => let n := length l in
                let c := if n <=? al_cap a then al_cap a else grow n in
                Some {| al_elems := l; al_size := n; al_cap := if clip then n else c |}
    | None => None
    end.
  Definition al_unmarshal := al_unmarshal_with true.
  Definition al_fresh : al := {| al_elems := []; al_size := 0; al_cap := 0 |}.

  (* Add(x): growBy(1); l.elements[l.size] = x; l.size++   (None = index out of range panic) *)
  Definition al_add1 (zero x : E) (a : al) : option al :=
    let a1 := if al_cap a <=? al_size a + 1
              then let c := 2 * (al_cap a + 1) in
                   {| al_elems := firstn c (al_elems a) ++ repeat zero (c - length (al_elems a));
                      al_size := al_size a; al_cap := c |}
              else a in
    if al_size a1 <? length (al_elems a1)
    then Some {| al_elems := upd (al_elems a1) (al_size a1) x; al_size := S (al_size a1); al_cap := al_cap a1 |}
    else None.

  (* ----- circular buffer ----- *)
  Record cb := { cb_vals : list E; cb_start : nat; cb_end : nat; cb_full : bool; cb_size : nat; cb_max : nat }.
  Variable zero : E.
  Variable is_zero : E -> bool.          (* the zero-value test Dequeue had before repair 0021 (D19); the repaired code: fun _ => false *)
  Definition cb_fresh (mx : nat) : cb :=
    {| cb_vals := repeat zero mx; cb_start := 0; cb_end := 0; cb_full := false; cb_size := 0; cb_max := mx |}.
  Definition cb_calc (mx s e : nat) (f : bool) : nat :=
    if e <? s then mx - s + e else if e =? s then (if f then mx else 0) else e - s.
  Definition cb_dequeue (q : cb) : cb :=
    if cb_size q =? 0 then q else
    let v := nth (cb_start q) (cb_vals q) zero in
    if is_zero v
    then {| cb_vals := cb_vals q; cb_start := cb_start q; cb_end := cb_end q; cb_full := cb_full q;
            cb_size := cb_size q - 1; cb_max := cb_max q |}
    else let s1 := cb_start q + 1 in
         {| cb_vals := upd (cb_vals q) (cb_start q) zero; cb_start := if cb_max q <=? s1 then 0 else s1;
            cb_end := cb_end q; cb_full := false; cb_size := cb_size q - 1; cb_max := cb_max q |}.
  Definition cb_enqueue (q : cb) (v : E) : cb :=
    let q1 := if cb_size q =? cb_max q then cb_dequeue q else q in
    let e1 := cb_end q1 + 1 in
    let e2 := if cb_max q1 <=? e1 then 0 else e1 in
    let f2 := if e2 =? cb_start q1 then true else cb_full q1 in
    {| cb_vals := upd (cb_vals q1) (cb_end q1) v; cb_start := cb_start q1; cb_end := e2; cb_full := f2;
       cb_size := cb_calc (cb_max q1) (cb_start q1) e2 f2; cb_max := cb_max q1 |}.
  Definition cb_values (q : cb) : list E :=
    map (fun i => nth ((cb_start q + i) mod cb_max q) (cb_vals q) zero) (seq 0 (cb_size q)).
  (* repaired (0022): json.Marshal(queue.Values());  before: json.Marshal(queue.values[:queue.maxSize]) *)
  Definition cb_marshal_with (ring : bool) (q : cb) : jval :=
    if ring then seq_marshal (firstn (cb_max q) (cb_vals q)) else seq_marshal (cb_values q).
  Definition cb_marshal := cb_marshal_with false.
  Definition cb_unmarshal (j : jval) (q : cb) : option cb :=
    match seq_decode j with Some l => Some (fold_left cb_enqueue l q) | None => None end.

  (* ----- sets: json.Marshal(set.Values())  /  Clear(); Add(elements...) ----- *)
  Variable eqb : E -> E -> bool.
  Variable ins : E -> unit -> list (E * unit) -> list (E * unit).
  Definition gs_marshal (s : list (E * unit)) : jval := seq_marshal (gs_values s).
  Definition gs_unmarshal (j : jval) (old : list (E * unit)) : option (list (E * unit)) :=
    match seq_decode j with Some l => Some (gs_add eqb ins l []) | None => None end.
  Definition ls_marshal (s : lset E) : jval := seq_marshal (sordering s).
  Definition ls_unmarshal (j : jval) (old : lset E) : option (lset E) :=
    match seq_decode j with Some l => Some (ls_add eqb ins l ls0) | None => None end.
End Seq.

(* ================= containers that are written as a JSON object ================= *)
Section Obj.
  Context {K V : Type}.
  Variable keqb : K -> K -> bool.
  Variable kname : K -> str.              (* the member name a key is written under *)
  Variable kofname : str -> option K.     (* and the way back *)
  Variable encv : V -> jval.
  Variable decv : jval -> option V.
  Variable jsort : list (jval * jval) -> list (jval * jval).   (* order in which encoding/json writes a Go map *)
  Variable iter : list (K * V) -> list (K * V).                 (* order in which a Go map is ranged over *)
  Variable gins : K -> V -> list (K * V) -> list (K * V).       (* the temporary Go map `elements` *)

  Definition member (kv : K * V) : jval * jval := (JStr (kname (fst kv)), encv (snd kv)).
  Definition obj_marshal (m : list (K * V)) : jval := JObj (jsort (map member m)).
  Definition dec_member (p : jval * jval) : option (K * V) :=
    match p with
    | (JStr s, jv) => match kofname s, decv jv with
                      | Some k, Some v => Some (k, v)
                      | _, _ => None
                      end
    | _ => None
    end.
  Definition obj_decode (j : jval) : option (list (K * V)) :=
    match j with JObj ms => traverse dec_member ms | _ => None end.
  (* json.Unmarshal into a Go map: members are assigned in document order, a repeated name overwrites *)
  Definition put_all (ins : K -> V -> list (K * V) -> list (K * V)) (l : list (K * V)) (m : list (K * V)) :=
    fold_left (fun m kv => gput keqb ins (fst kv) (snd kv) m) l m.
  Definition to_gomap (l : list (K * V)) : list (K * V) := put_all gins l [].

  (* ----- hashmap; the trees, treemap (abstractly: [ins] = sorted insertion) -----
     Marshal: copy into a map[string]V keyed by the key's text, json.Marshal of that.
     Unmarshal: decode into a Go map, Clear(), Put every binding in range order. *)
  Variable ins : K -> V -> list (K * V) -> list (K * V).
  Definition gm_marshal (m : list (K * V)) : jval := obj_marshal m.
  Definition gm_unmarshal (j : jval) (old : list (K * V)) : option (list (K * V)) :=
    match obj_decode j with
    | Some l => Some (put_all ins (iter (to_gomap l)) [])
    | None => None
    end.

  (* ----- hashbidimap / treebidimap: forward table written like a map; Unmarshal: Clear(); Put every binding ----- *)
  Variable veqb : V -> V -> bool.
  Variable vins : V -> K -> list (V * K) -> list (V * K).
  Definition hb_marshal (s : bidi K V) : jval := obj_marshal (fwd s).
  Definition hb_unmarshal (j : jval) (old : bidi K V) : option (bidi K V) :=
    match obj_decode j with
    | Some l => Some (fold_left (fun s kv => hb_put keqb veqb ins vins (fst kv) (snd kv) s) (iter (to_gomap l)) hb0)
    | None => None
    end.

  (* ----- linkedhashmap: hand-written member writer, key order recovered from the member names ----- *)
  Variable kjson : K -> jval.             (* json.Marshal(key) *)
  Variable ktext : K -> str.              (* the same, as text *)
  Variable zeroV : V.
  Variable seqb : str -> str -> bool.
  Variable sortk : (K -> nat) -> list K -> list K.     (* bcomparator.Sort(keys, byIndex) *)

  (* repaired (0025): a key whose JSON is not a string is written as the string of its JSON text;
     before: written as it is *)
  Definition lhm_member_name (quote : bool) (k : K) : jval :=
    match kjson k with
    | JStr x => JStr x
    | j => if quote then JStr (ktext k) else j
    end.
  Definition lhm_marshal_with (quote : bool) (s : lhm K V) : jval :=
    JObj (map (fun k => (lhm_member_name quote k,
                         encv (match gget keqb k (table s) with Some v => v | None => zeroV end))) (ordering s)).
  Definition lhm_marshal := lhm_marshal_with true.

  (* name under which Unmarshal looks a key up: the string it decodes to, else its JSON text *)
  Definition lhm_lookup_name (k : K) : str := match kjson k with JStr x => x | _ => ktext k end.
  (* position[name] = len(position), for every member name in order of appearance *)
  Definition positions (names : list str) : list (str * nat) :=
    fold_left (fun tab s => gput seqb (fun k v m => m ++ [(k, v)]) s (glen tab) tab) names [].
  Definition member_names (ms : list (jval * jval)) : list str :=
    flat_map (fun p => match fst p with JStr s => [s] | _ => [] end) ms.
  Definition lhm_unmarshal (j : jval) (old : lhm K V) : option (lhm K V) :=
    match j, obj_decode j with
    | JObj ms, Some l =>
        let elements := to_gomap l in
        let pos := positions (member_names ms) in
        let index k := match gget seqb (lhm_lookup_name k) pos with Some i => i | None => 0 end in
        let keys := sortk index (map fst (iter elements)) in
        Some (fold_left (fun s k => lhm_put keqb ins k (match gget keqb k elements with Some v => v | None => zeroV end) s)
                        keys lhm0)
    | _, _ => None
    end.

  (* the code before 0026: index[key] = bytes.Index(data, json.Marshal(key)), here at the granularity of whole
     tokens: position of the first token (member name or scalar value) whose text is the key's text *)
  Variable jtext : jval -> str.
  Definition tokens (ms : list (jval * jval)) : list str := flat_map (fun p => [jtext (fst p); jtext (snd p)]) ms.
  Fixpoint first_index (s : str) (l : list str) (i : nat) : option nat :=
    match l with [] => None | x :: t => if seqb s x then Some i else first_index s t (S i) end.
  Definition lhm_unmarshal_bytesindex (j : jval) (old : lhm K V) : option (lhm K V) :=
    match j, obj_decode j with
    | JObj ms, Some l =>
        let elements := to_gomap l in
        let index k := match first_index (ktext k) (tokens ms) 0 with Some i => i | None => 0 end in
        let keys := sortk index (map fst (iter elements)) in
        Some (fold_left (fun s k => lhm_put keqb ins k (match gget keqb k elements with Some v => v | None => zeroV end) s)
                        keys lhm0)
    | _, _ => None
    end.
End Obj.
