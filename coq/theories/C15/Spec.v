(* C15 specification: what "the same abstract contents" means for each container family, and the reference
   behaviour the restored container must show under further operations.  Elements, keys and values are
   integers here (the harness numbers the elements of its universes in element order, so comparators agree). *)
From VF Require Import Common.Base C09.Model C09.Spec C09.Check.
Local Open Scope Z_scope.

(* ----- containers whose abstract contents are a sequence / bag / set: abs = what Values() returns ----- *)
Inductive disc :=
| DList                (* array / doubly / singly linked list: Add appends, Remove(i) deletes position i *)
| DStack               (* Values() is top first: Push conses, Pop takes the head *)
| DQueue               (* Enqueue appends, Dequeue takes the head *)
| DRing (cap : nat)    (* bounded queue: the last [cap] enqueued, oldest first *)
| DHeap                (* bag; Pop returns a minimum *)
| DSetHash | DSetLinked | DSetTree.

Inductive qop := QIns (v : Z) | QDel | QDelAt (i : Z) | QDelVal (v : Z).

Fixpoint remove_nth (i : nat) (l : list Z) : list Z :=
  match l, i with [], _ => [] | _ :: t, O => t | x :: t, S i' => x :: remove_nth i' t end.
Fixpoint remove_one (x : Z) (l : list Z) : list Z :=
  match l with [] => [] | y :: t => if x =? y then t else y :: remove_one x t end.
Definition min_list (l : list Z) : option Z :=
  match l with [] => None | x :: t => Some (fold_left Z.min t x) end.

Definition seq_ref (d : disc) (abs : list Z) (o : qop) : list Z * option Z :=
  match d, o with
  | DList, QIns v => (abs ++ [v], None)
  | DList, QDelAt i => (if (0 <=? i) && (i <? Z.of_nat (length abs)) then remove_nth (Z.to_nat i) abs else abs, None)
  | DStack, QIns v => (v :: abs, None)
  | (DStack | DQueue | DRing _), QDel => (tl abs, hd_error abs)
  | DQueue, QIns v => (abs ++ [v], None)
  | DRing cap, QIns v => (if Nat.eqb (length abs) cap then tl abs ++ [v] else abs ++ [v], None)
  | DHeap, QIns v => (v :: abs, None)
  | DHeap, QDel => match min_list abs with Some m => (remove_one m abs, Some m) | None => (abs, None) end
  | (DSetHash | DSetLinked | DSetTree), QIns v => (if memZ v abs then abs else abs ++ [v], None)
  | (DSetHash | DSetLinked | DSetTree), QDelVal v => (filter (fun y => negb (v =? y)) abs, None)
  | _, _ => (abs, None)      (* operation the family does not have: never sent *)
  end.

(* "same abstract contents": observed [a] against reference [b] *)
Definition abs_eqb (d : disc) (a b : list Z) : bool :=
  match d with
  | DHeap | DSetHash => perm_eqb a b
  | DSetTree => zlist_eqb a (sortZ b)
  | _ => zlist_eqb a b
  end.

(* what a fresh container of the family must hold after decoding a document whose array is [src] (its own output, or a
   document written by someone else): the same contents - for the bounded queue, whose capacity may be smaller than
   the document, the LAST cap values in order; for a set, whose document may repeat elements, each element once, in
   the order of first occurrence (compared as a bag / sorted for the unordered / tree set) *)
Definition dedup_first (l : list Z) : list Z := fold_left (fun acc x => if memZ x acc then acc else acc ++ [x]) l [].
Definition restored_ref (d : disc) (src : list Z) : list Z :=
  match d with
  | DRing cap => skipn (length src - cap) src
  | DSetHash | DSetLinked | DSetTree => dedup_first src
  | _ => src
  end.

(* ----- containers whose abstract contents are a finite map / bijection: abs = list of (key, value) ----- *)
Inductive mdisc := MHash | MLinked | MTree | MBidiHash | MBidiTree.
Inductive pop := PPut (k v : Z) | PDel (k : Z).

Definition map_ref (d : mdisc) (abs : list (Z * Z)) (o : pop) : list (Z * Z) :=
  match d, o with
  | (MBidiHash | MBidiTree), PPut k v => b_put Z.eqb Z.eqb k v abs
  | (MBidiHash | MBidiTree), PDel k => b_remove Z.eqb k abs
  | _, PPut k v => o_put Z.eqb k v abs
  | _, PDel k => o_remove Z.eqb k abs
  end.

Definition pair_eqb (a b : Z * Z) : bool := (fst a =? fst b) && (snd a =? snd b).
Fixpoint ins_pair (x : Z * Z) (l : list (Z * Z)) : list (Z * Z) :=
  match l with
  | [] => [x]
  | y :: t => if (fst x <? fst y) || ((fst x =? fst y) && (snd x <=? snd y)) then x :: l else y :: ins_pair x t
  end.
Definition sort_pairs (l : list (Z * Z)) : list (Z * Z) := fold_right ins_pair [] l.
Definition pairs_eqb := list_eqb pair_eqb.

Definition mabs_eqb (d : mdisc) (a b : list (Z * Z)) : bool :=
  match d with
  | MHash | MBidiHash => pairs_eqb (sort_pairs a) (sort_pairs b)
  | MTree | MBidiTree => pairs_eqb a (sort_pairs b)        (* enumerated in key order *)
  | MLinked => pairs_eqb a b                               (* enumerated in insertion order *)
  end.
