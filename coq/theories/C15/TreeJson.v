(* C15 model, tree-backed containers on the REAL tree models of C01 (red-black tree, AVL tree, B-tree; treemap,
   treeset and treebidimap on the red-black model of C01/Containers.v).  No proofs in this file.

   MarshalJSON of the trees walks the iterator (= the in-order walk, which is what Keys() / Values() return) and
   writes a Go map keyed by the comparator's text of the key; UnmarshalJSON decodes into a Go map, Clear()s and
   Put()s every binding in range order: the restored tree is the state reached by those Puts.
   The encoding/json parameters (kname / kofname / encv / decv / jsort / iter / gins) are those of C15/Model.v. *)
From VF Require Import Common.Base C09.Model C15.Model.
From VF Require C01.SortedMap C01.BinTree C01.RB C01.Containers.

Module SM1 := VF.C01.SortedMap.
Module TC1 := VF.C01.Containers.

Section TreeJson.
  Context {K V S : Type}.
  Variable step : S -> SM1.op K V -> S * SM1.out K V.      (* RB.step / AVL.step / BTree.step *)
  Variable keqb : K -> K -> bool.
  Variable kname : K -> str.
  Variable kofname : str -> option K.
  Variable encv : V -> jval.
  Variable decv : jval -> option V.
  Variable jsort : list (jval * jval) -> list (jval * jval).
  Variable iter : list (K * V) -> list (K * V).
  Variable gins : K -> V -> list (K * V) -> list (K * V).

  (* for it := tree.Iterator(); it.Next(); { ... it.Key() ... it.Value() ... } *)
  Definition tree_entries (s : S) : list (K * V) :=
    match snd (step s SM1.Keys), snd (step s SM1.Values) with
    | SM1.OKeys ks, SM1.OVals vs => combine ks vs
    | _, _ => []
    end.
  Definition tree_marshal (s : S) : jval := obj_marshal kname encv jsort (tree_entries s).
  Definition tree_put_all (l : list (K * V)) (s : S) : S :=
    fold_left (fun s kv => fst (step s (SM1.Put (fst kv) (snd kv)))) l s.
  Definition tree_unmarshal (j : jval) (old : S) : option S :=
    match obj_decode kofname decv j with
    | Some l => Some (tree_put_all (iter (to_gomap keqb gins l)) (fst (step old SM1.Clear)))
    | None => None
    end.
End TreeJson.

(* treeset: json.Marshal(set.Values());  Clear(); Add(elements...) *)
Section TreeSetJson.
  Context {K : Type}.
  Variable cmp : K -> K -> Z.
  Variable enc : K -> jval.
  Variable dec : jval -> option K.
  Definition tset_marshal (s : TC1.ts_state K) : jval :=
    seq_marshal enc (match snd (TC1.treeset_step K cmp s SM1.SValues) with SM1.SOVals ks => ks | _ => [] end).
  Definition tset_unmarshal (j : jval) (old : TC1.ts_state K) : option (TC1.ts_state K) :=
    match seq_decode dec j with
    | Some l => Some (fst (TC1.treeset_step K cmp (fst (TC1.treeset_step K cmp old SM1.SClear)) (SM1.SAdd l)))
    | None => None
    end.
End TreeSetJson.

(* treebidimap: the forward tree's iterator, values written as the string of the value comparator's text (that is
   [encv] / [decv] here);  Clear(); Put(k, v) for every decoded binding *)
Section TreeBidiJson.
  Context {K V : Type}.
  Variable cmpK : K -> K -> Z.
  Variable cmpV : V -> V -> Z.
  Variable zeroK : K.
  Variable zeroV : V.
  Variable keqb : K -> K -> bool.
  Variable kname : K -> str.
  Variable kofname : str -> option K.
  Variable encv : V -> jval.
  Variable decv : jval -> option V.
  Variable jsort : list (jval * jval) -> list (jval * jval).
  Variable iter : list (K * V) -> list (K * V).
  Variable gins : K -> V -> list (K * V) -> list (K * V).

  Definition tb_entries (s : TC1.tb_state K V) : list (K * V) := VF.C01.BinTree.elements (VF.C01.RB.root (TC1.fwd s)).
  Definition tb_marshal (s : TC1.tb_state K V) : jval := obj_marshal kname encv jsort (tb_entries s).
  Definition tb_put_all (l : list (K * V)) (s : TC1.tb_state K V) : TC1.tb_state K V :=
    fold_left (fun s kv => TC1.tb_put K V cmpK cmpV zeroK zeroV (fst kv) (snd kv) s) l s.
  Definition tb_unmarshal (j : jval) (old : TC1.tb_state K V) : option (TC1.tb_state K V) :=
    match obj_decode kofname decv j with
    | Some l => Some (tb_put_all (iter (to_gomap keqb gins l))
                        (fst (TC1.tbidi_step K V cmpK cmpV zeroK zeroV old SM1.BClear)))
    | None => None
    end.
End TreeBidiJson.
