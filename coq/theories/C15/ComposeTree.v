(* C15 composition, part 3: the tree-backed containers on the real tree models of C01.
   UnmarshalJSON of a tree = Clear() + Put of every decoded binding, so the restored tree is the state reached by
   those Puts from the empty tree: the refinement relation of C01 (Rrb / Ravl / Rbt, which contain the C02 shape
   invariants where the code needs them) holds of it by the step lemmas of C01, and it relates the restored tree to
   the SAME sorted association list as the source tree (C15's round trip on the sorted-insertion table + the bridge
   C09/TreeBridge.v: sorted map of C01 = sorted-insertion table).  Hence every further operation list answers as
   the reference sorted map / set / bijection started from the source's contents.
   Premise on the comparator: the comparator laws and cmp a b = 0 -> a = b (true of the built-in int / string
   comparators) - the JSON object is keyed by the key's text, so keys the comparator identifies must be identical. *)
From VF Require Import Common.Base C09.Model C09.Spec C09.Proofs C09.Proofs2 C09.TreeModel C09.TreeBridge
  C15.Model C15.Proofs C15.Proofs2 C15.TreeJson.
From VF Require C01.Order C01.SortedMap C01.SpecProofs C01.BinTree C01.BinTreeProofs C01.RB C01.RBProofs
  C01.AVL C01.AVLRefine C01.BTree C01.BTProofs C01.Containers C01.ContainersProofs C01.BidiProofs.
From Coq Require Import Sorted.
Local Open Scope Z_scope.

Module AVLR1 := VF.C01.AVLRefine.
Module BTP1 := VF.C01.BTProofs.

(* two strictly sorted association lists with the same bindings are equal *)
Section SortedUnique.
  Context {K V : Type} {cmp : K -> K -> Z} (O : O1.CmpLaws cmp).
  Notation sorted := (S1.sorted K V cmp).

  Lemma ltk_asym (a b : K * V) : S1.ltk K V cmp a b -> S1.ltk K V cmp b a -> False.
  Proof. unfold S1.ltk. intros H1 H2. apply (O1.cmp_antisym_lt cmp O) in H1. lia. Qed.

  Lemma sorted_perm_eq (a : list (K * V)) : forall b, sorted a -> sorted b -> Permutation a b -> a = b.
  Proof.
    induction a as [|x a IH]; intros b Sa Sb HP.
    - apply Permutation_nil in HP. now subst.
    - destruct b as [|y b]; [apply Permutation_sym, Permutation_nil in HP; discriminate|].
      inversion Sa as [|? ? Sa' Fa]; inversion Sb as [|? ? Sb' Fb]; subst.
      assert (E : x = y).
      { assert (Ix : In x (y :: b)) by (eapply Permutation_in; [exact HP|now left]).
        assert (Iy : In y (x :: a)) by (eapply Permutation_in; [apply Permutation_sym; exact HP|now left]).
        destruct Ix as [->|Ix]; [reflexivity|]. destruct Iy as [->|Iy]; [reflexivity|].
        rewrite Forall_forall in Fa, Fb. exfalso. exact (ltk_asym x y (Fa _ Iy) (Fb _ Ix)). }
      subst y. f_equal. apply IH; auto. eapply Permutation_cons_inv; exact HP.
  Qed.
End SortedUnique.

Lemma combine_fst_snd {A B} (l : list (A * B)) : combine (map fst l) (map snd l) = l.
Proof. induction l as [|[a b] l IH]; cbn; [reflexivity|]. now rewrite IH. Qed.

(* ================= red-black tree, AVL tree, B-tree (and treemap through the red-black tree) ================= *)
Section Generic.
  Context {K V S : Type} {cmp : K -> K -> Z} (O : O1.CmpLaws cmp).
  Hypothesis sep : forall a b, cmp a b = 0 -> a = b.
  Variable zeroV : V.
  Variable step : S -> S1.op K V -> S * S1.out K V.
  Variable R : S -> list (K * V) -> Prop.
  Variable P : S1.op K V -> Prop.
  Hypothesis Hstep : forall s l o, P o -> R s l ->
    R (fst (step s o)) (fst (S1.sm_step K V cmp zeroV l o)) /\ snd (step s o) = snd (S1.sm_step K V cmp zeroV l o).
  Hypothesis P_put : forall k v, P (S1.Put k v).
  Hypothesis P_clear : P S1.Clear.
  Hypothesis P_keys : P S1.Keys.
  Hypothesis P_values : P S1.Values.
  Hypothesis R_sorted : forall s l, R s l -> S1.sorted K V cmp l.

  Notation eqb := (cmp_eqb cmp).
  Notation ltb := (cmp_ltb cmp).
  Notation sins := (@ins_sorted K V ltb).

  Variable kname : K -> str.
  Variable kofname : str -> option K.
  Hypothesis kofname_kname : forall k, kofname (kname k) = Some k.
  Variable encv : V -> jval.
  Variable decv : jval -> option V.
  Hypothesis decv_encv : forall v, decv (encv v) = Some v.
  Hypothesis encv_wf : forall v, wellformed (encv v) = true.
  Variable jsort : list (jval * jval) -> list (jval * jval).
  Hypothesis jsort_perm : forall l, Permutation (jsort l) l.
  Variable iter : list (K * V) -> list (K * V).
  Hypothesis iter_perm : forall l, Permutation (iter l) l.
  Variable gins : K -> V -> list (K * V) -> list (K * V).
  Hypothesis gins_ok : ins_ok gins.

  Lemma tree_entries_R s l : R s l -> tree_entries step s = l.
  Proof.
    intros HR. unfold tree_entries.
    rewrite (proj2 (Hstep s l S1.Keys P_keys HR)), (proj2 (Hstep s l S1.Values P_values HR)).
    cbn [S1.sm_step snd]. apply combine_fst_snd.
  Qed.

  Lemma fold_sm_put_put_all l2 : forall m, S1.sorted K V cmp m ->
    fold_left (fun m kv => S1.sm_put K V cmp (fst kv) (snd kv) m) l2 m = put_all eqb sins l2 m.
  Proof.
    unfold put_all. induction l2 as [|[k v] t IH]; intros m HS; cbn [fold_left fst snd]; [reflexivity|].
    rewrite <- (sm_put_gput O sep k v m HS). apply IH. now apply (SP1.sm_put_sorted O).
  Qed.

  Lemma tree_put_all_R l2 : forall s m, R s m ->
    R (tree_put_all step l2 s) (fold_left (fun m kv => S1.sm_put K V cmp (fst kv) (snd kv) m) l2 m).
  Proof.
    unfold tree_put_all. induction l2 as [|[k v] t IH]; intros s m HR; cbn [fold_left fst snd]; [exact HR|].
    apply IH. exact (proj1 (Hstep s m (S1.Put k v) (P_put k v) HR)).
  Qed.

  (* the round trip on the tree: what comes back is related to the SAME sorted list; the abstract (sorted-insertion
     table) decoder of C15/Model.v, which the correspondence check evaluates, returns exactly that list *)
  Lemma tree_roundtrip c l old lold oldl : R c l -> R old lold ->
    wellformed (tree_marshal step kname encv jsort c) = true /\
    exists c', tree_unmarshal step eqb kofname decv iter gins (tree_marshal step kname encv jsort c) old = Some c' /\
      R c' l /\ tree_entries step c' = tree_entries step c /\
      gm_unmarshal eqb kofname decv iter gins sins (gm_marshal kname encv jsort l) oldl = Some l.
  Proof.
    intros HR HRo. pose proof (R_sorted c l HR) as HS.
    assert (HN : NoDup (gkeys l)).
    { apply sorted_SortedKeys in HS. unfold SortedKeys in HS. clear - HS O. induction HS as [|a t HS IH HF]; constructor; [|exact IH].
      intros Hin. rewrite Forall_forall in HF. specialize (HF a Hin). unfold lt, cmp_ltb in HF.
      rewrite (O1.cmp_refl O) in HF. discriminate. }
    pose proof (ceqb_spec O sep) as He.
    destruct (gm_roundtrip eqb He kname kofname kofname_kname encv decv decv_encv encv_wf jsort jsort_perm iter iter_perm
                gins gins_ok sins (ins_sorted_ok ltb) l oldl HN) as (W & m' & E' & P' & N').
    assert (Em : m' = l).
    { apply (sorted_perm_eq O); [|exact HS|exact P']. apply sorted_SortedKeys.
      exact (gm_unmarshal_sorted eqb He ltb (cltb_trans O) (cltb_total O sep) kofname decv iter gins _ oldl m' E'). }
    subst m'. unfold tree_marshal. rewrite (tree_entries_R c l HR). split; [exact W|].
    unfold tree_unmarshal. pose proof E' as E2. unfold gm_unmarshal, gm_marshal in E2.
    destruct (obj_decode kofname decv (obj_marshal kname encv jsort l)) as [l1|]; [|discriminate].
    eexists. split; [reflexivity|]. injection E2 as E2.
    pose proof (proj1 (Hstep old lold S1.Clear P_clear HRo)) as HR0. cbn [S1.sm_step fst] in HR0.
    pose proof (tree_put_all_R (iter (to_gomap eqb gins l1)) _ _ HR0) as HR'.
    rewrite (fold_sm_put_put_all _ [] (SP1.sorted_nil (cmp := cmp))), E2 in HR'.
    split; [exact HR'|]. split; [|exact E']. now rewrite (tree_entries_R _ l HR').
  Qed.

  (* on EVERY document: the tree-level decoder (Clear + Puts on the tree) and the sorted-insertion-table decoder of
     C15/Model.v (the one the correspondence check evaluates) succeed together, and the restored tree is related to -
     its iterator enumerates - exactly the table the latter returns *)
  Lemma tree_decoder_agrees j old lold oldl : R old lold ->
    match tree_unmarshal step eqb kofname decv iter gins j old, gm_unmarshal eqb kofname decv iter gins sins j oldl with
    | Some c', Some m' => R c' m' /\ tree_entries step c' = m'
    | None, None => True
    | _, _ => False
    end.
  Proof.
    intros HRo. unfold tree_unmarshal, gm_unmarshal. destruct (obj_decode kofname decv j) as [l1|]; [|exact I].
    pose proof (proj1 (Hstep old lold S1.Clear P_clear HRo)) as HR0. cbn [S1.sm_step fst] in HR0.
    pose proof (tree_put_all_R (iter (to_gomap eqb gins l1)) _ _ HR0) as HR'.
    rewrite (fold_sm_put_put_all _ [] (SP1.sorted_nil (cmp := cmp))) in HR'. split; [exact HR'|].
    now apply tree_entries_R.
  Qed.

  (* ... and every further operation list (of operations the container has) answers as the reference sorted map *)
  Lemma tree_obeys c' l ops : R c' l -> Forall P ops ->
    snd (S1.run step c' ops) = snd (S1.run (S1.sm_step K V cmp zeroV) l ops).
  Proof. intros HR HP. exact (proj2 (SP1.run_refines step (S1.sm_step K V cmp zeroV) R P Hstep ops c' l HP HR)). Qed.
End Generic.

Section Families.
  Context {K V : Type} {cmp : K -> K -> Z} (O : O1.CmpLaws cmp).
  Hypothesis sep : forall a b, cmp a b = 0 -> a = b.
  Variables (zeroK : K) (zeroV : V).
  Notation eqb := (cmp_eqb cmp).
  Notation ltb := (cmp_ltb cmp).
  Variable kname : K -> str.
  Variable kofname : str -> option K.
  Hypothesis kofname_kname : forall k, kofname (kname k) = Some k.
  Variable encv : V -> jval.
  Variable decv : jval -> option V.
  Hypothesis decv_encv : forall v, decv (encv v) = Some v.
  Hypothesis encv_wf : forall v, wellformed (encv v) = true.
  Variable jsort : list (jval * jval) -> list (jval * jval).
  Hypothesis jsort_perm : forall l, Permutation (jsort l) l.
  Variable iter : list (K * V) -> list (K * V).
  Hypothesis iter_perm : forall l, Permutation (iter l) l.
  Variable gins : K -> V -> list (K * V) -> list (K * V).
  Hypothesis gins_ok : ins_ok gins.

  Notation sm := (S1.sm_step K V cmp zeroV).
  Notation all_ops := (fun _ : S1.op K V => True).
  Lemma Forall_all (ops : list (S1.op K V)) : Forall all_ops ops.
  Proof. apply Forall_forall. auto. Qed.

  (* ----- red-black tree (source and decode target: any reachable trees) ----- *)
  Notation rbstep := (RB1.step K V cmp zeroV).
  Lemma rb_Hstep : forall s l o, all_ops o -> RBP1.Rrb (cmp := cmp) s l ->
    RBP1.Rrb (cmp := cmp) (fst (rbstep s o)) (fst (sm l o)) /\ snd (rbstep s o) = snd (sm l o).
  Proof. intros s l o _ HR. now apply (RBP1.rb_step_refines O). Qed.
  Lemma rb_sorted : forall (s : RB1.state K V) l, RBP1.Rrb (cmp := cmp) s l -> S1.sorted K V cmp l.
  Proof. intros s l (H & _). exact H. Qed.

  Theorem rb_restored_obeys ops0 opsd :
    let c := fst (S1.run rbstep (RB1.empty K V) ops0) in
    let l := fst (S1.run sm [] ops0) in
    let old := fst (S1.run rbstep (RB1.empty K V) opsd) in
    wellformed (tree_marshal rbstep kname encv jsort c) = true /\
    exists c', tree_unmarshal rbstep eqb kofname decv iter gins (tree_marshal rbstep kname encv jsort c) old = Some c' /\
      tree_entries rbstep c' = tree_entries rbstep c /\ tree_entries rbstep c' = l /\
      forall ops, snd (S1.run rbstep c' ops) = snd (S1.run sm l ops).
  Proof.
    intros c l old. pose proof (RBP1.rb_run_related O zeroV ops0) as HR. pose proof (RBP1.rb_run_related O zeroV opsd) as HRo.
    fold c l in HR. fold old in HRo.
    destruct (tree_roundtrip O sep zeroV rbstep _ all_ops rb_Hstep (fun _ _ => I) I I I rb_sorted kname kofname kofname_kname
                encv decv decv_encv encv_wf jsort jsort_perm iter iter_perm gins gins_ok c l old _ [] HR HRo) as (W & c' & E & HR' & A & _).
    split; [exact W|]. exists c'. split; [exact E|]. split; [exact A|].
    split; [exact (tree_entries_R zeroV rbstep _ all_ops rb_Hstep I I c' l HR')|].
    intros ops. exact (tree_obeys zeroV rbstep _ all_ops rb_Hstep c' l ops HR' (Forall_all ops)).
  Qed.

  Theorem rb_decoder_agrees j opsd oldl :
    let old := fst (S1.run rbstep (RB1.empty K V) opsd) in
    match tree_unmarshal rbstep eqb kofname decv iter gins j old,
          gm_unmarshal eqb kofname decv iter gins (ins_sorted ltb) j oldl with
    | Some c', Some m' => tree_entries rbstep c' = m' | None, None => True | _, _ => False
    end.
  Proof.
    intros old. pose proof (RBP1.rb_run_related O zeroV opsd) as HRo. fold old in HRo.
    pose proof (tree_decoder_agrees O sep zeroV rbstep _ all_ops rb_Hstep (fun _ _ => I) I I I kofname decv iter gins j old _ oldl HRo) as H.
    destruct (tree_unmarshal rbstep eqb kofname decv iter gins j old), (gm_unmarshal eqb kofname decv iter gins (ins_sorted ltb) j oldl); tauto.
  Qed.

  (* ----- treemap: the same tree, operated through the treemap wrapper ----- *)
  Notation tmstep := (T1.treemap_step K V cmp zeroK zeroV).
  Notation smx := (S1.smx_step K V cmp zeroV zeroK).
  Theorem tmap_restored_obeys ops0 opsd :
    let c := fst (S1.run tmstep (RB1.empty K V) ops0) in
    let l := fst (S1.run smx [] ops0) in
    let old := fst (S1.run tmstep (RB1.empty K V) opsd) in
    wellformed (tree_marshal rbstep kname encv jsort c) = true /\
    exists c', tree_unmarshal rbstep eqb kofname decv iter gins (tree_marshal rbstep kname encv jsort c) old = Some c' /\
      tree_entries rbstep c' = tree_entries rbstep c /\ tree_entries rbstep c' = l /\
      forall ops, snd (S1.run tmstep c' ops) = snd (S1.run smx l ops).
  Proof.
    intros c l old.
    assert (Hrun : forall ops s m, RBP1.Rrb (cmp := cmp) s m ->
              RBP1.Rrb (cmp := cmp) (fst (S1.run tmstep s ops)) (fst (S1.run smx m ops)) /\
              snd (S1.run tmstep s ops) = snd (S1.run smx m ops)).
    { intros ops s m HR. apply (SP1.run_refines tmstep smx (RBP1.Rrb (cmp := cmp)) all_ops); [|apply Forall_all|exact HR].
      intros s1 s2 o _ H. now apply (CP1.tmap_step_refines O). }
    pose proof (proj1 (Hrun ops0 _ _ (RBP1.Rrb_empty (cmp := cmp)))) as HR.
    pose proof (proj1 (Hrun opsd _ _ (RBP1.Rrb_empty (cmp := cmp)))) as HRo. fold c l in HR. fold old in HRo.
    destruct (tree_roundtrip O sep zeroV rbstep _ all_ops rb_Hstep (fun _ _ => I) I I I rb_sorted kname kofname kofname_kname
                encv decv decv_encv encv_wf jsort jsort_perm iter iter_perm gins gins_ok c l old _ [] HR HRo) as (W & c' & E & HR' & A & _).
    split; [exact W|]. exists c'. split; [exact E|]. split; [exact A|].
    split; [exact (tree_entries_R zeroV rbstep _ all_ops rb_Hstep I I c' l HR')|].
    intros ops. exact (proj2 (Hrun ops c' l HR')).
  Qed.

  (* ----- AVL tree ----- *)
  Notation avlstep := (VF.C01.AVL.step K V cmp zeroV).
  Notation avlempty := (VF.C01.AVL.empty K V).
  Lemma avl_Hstep : forall s l o, all_ops o -> AVLR1.Ravl (cmp := cmp) s l ->
    AVLR1.Ravl (cmp := cmp) (fst (avlstep s o)) (fst (sm l o)) /\ snd (avlstep s o) = snd (sm l o).
  Proof. intros s l o _ HR. now apply (AVLR1.avl_step_refines O). Qed.
  Lemma avl_sorted : forall s l, AVLR1.Ravl (cmp := cmp) (K := K) (V := V) s l -> S1.sorted K V cmp l.
  Proof. intros s l (_ & H & _). exact H. Qed.

  Theorem avl_restored_obeys ops0 opsd :
    let c := fst (S1.run avlstep avlempty ops0) in
    let l := fst (S1.run sm [] ops0) in
    let old := fst (S1.run avlstep avlempty opsd) in
    wellformed (tree_marshal avlstep kname encv jsort c) = true /\
    exists c', tree_unmarshal avlstep eqb kofname decv iter gins (tree_marshal avlstep kname encv jsort c) old = Some c' /\
      tree_entries avlstep c' = tree_entries avlstep c /\ tree_entries avlstep c' = l /\
      forall ops, snd (S1.run avlstep c' ops) = snd (S1.run sm l ops).
  Proof.
    intros c l old. pose proof (AVLR1.avl_run_related O zeroV ops0) as HR. pose proof (AVLR1.avl_run_related O zeroV opsd) as HRo.
    fold c l in HR. fold old in HRo.
    destruct (tree_roundtrip O sep zeroV avlstep _ all_ops avl_Hstep (fun _ _ => I) I I I avl_sorted kname kofname kofname_kname
                encv decv decv_encv encv_wf jsort jsort_perm iter iter_perm gins gins_ok c l old _ [] HR HRo) as (W & c' & E & HR' & A & _).
    split; [exact W|]. exists c'. split; [exact E|]. split; [exact A|].
    split; [exact (tree_entries_R zeroV avlstep _ all_ops avl_Hstep I I c' l HR')|].
    intros ops. exact (tree_obeys zeroV avlstep _ all_ops avl_Hstep c' l ops HR' (Forall_all ops)).
  Qed.

  Theorem avl_decoder_agrees j opsd oldl :
    let old := fst (S1.run avlstep avlempty opsd) in
    match tree_unmarshal avlstep eqb kofname decv iter gins j old,
          gm_unmarshal eqb kofname decv iter gins (ins_sorted ltb) j oldl with
    | Some c', Some m' => tree_entries avlstep c' = m' | None, None => True | _, _ => False
    end.
  Proof.
    intros old. pose proof (AVLR1.avl_run_related O zeroV opsd) as HRo. fold old in HRo.
    pose proof (tree_decoder_agrees O sep zeroV avlstep _ all_ops avl_Hstep (fun _ _ => I) I I I kofname decv iter gins j old _ oldl HRo) as H.
    destruct (tree_unmarshal avlstep eqb kofname decv iter gins j old), (gm_unmarshal eqb kofname decv iter gins (ins_sorted ltb) j oldl); tauto.
  Qed.

  (* ----- B-tree of every order m >= 3 (operations the B-tree has: no Floor / Ceiling) ----- *)
  Section BT.
  Variable m : nat.
  Hypothesis m_ge_3 : (3 <= m)%nat.
  Notation btstep := (VF.C01.BTree.step K V cmp zeroV m).
  Notation btempty := (VF.C01.BTree.empty K V).
  Notation Rbt := (BTP1.Rbt (cmp := cmp) m).
  Lemma bt_Hstep : forall s l o, S1.bt_op o -> Rbt s l -> Rbt (fst (btstep s o)) (fst (sm l o)) /\ snd (btstep s o) = snd (sm l o).
  Proof. intros s l o Ho HR. now apply (BTP1.bt_step_refines O zeroV m m_ge_3). Qed.
  Lemma bt_sorted : forall s l, Rbt s l -> S1.sorted K V cmp l.
  Proof. intros s l (_ & H & _). exact H. Qed.

  Theorem bt_restored_obeys ops0 opsd : Forall S1.bt_op ops0 -> Forall S1.bt_op opsd ->
    let c := fst (S1.run btstep btempty ops0) in
    let l := fst (S1.run sm [] ops0) in
    let old := fst (S1.run btstep btempty opsd) in
    wellformed (tree_marshal btstep kname encv jsort c) = true /\
    exists c', tree_unmarshal btstep eqb kofname decv iter gins (tree_marshal btstep kname encv jsort c) old = Some c' /\
      tree_entries btstep c' = tree_entries btstep c /\ tree_entries btstep c' = l /\
      forall ops, Forall S1.bt_op ops -> snd (S1.run btstep c' ops) = snd (S1.run sm l ops).
  Proof.
    intros H0 Hd c l old.
    pose proof (proj1 (SP1.run_refines btstep sm Rbt S1.bt_op bt_Hstep ops0 _ _ H0 (BTP1.Rbt_empty (cmp := cmp) m))) as HR.
    pose proof (proj1 (SP1.run_refines btstep sm Rbt S1.bt_op bt_Hstep opsd _ _ Hd (BTP1.Rbt_empty (cmp := cmp) m))) as HRo.
    fold c l in HR. fold old in HRo.
    destruct (tree_roundtrip O sep zeroV btstep _ S1.bt_op bt_Hstep (fun _ _ => I) I I I bt_sorted kname kofname kofname_kname
                encv decv decv_encv encv_wf jsort jsort_perm iter iter_perm gins gins_ok c l old _ [] HR HRo) as (W & c' & E & HR' & A & _).
    split; [exact W|]. exists c'. split; [exact E|]. split; [exact A|].
    split; [exact (tree_entries_R zeroV btstep _ S1.bt_op bt_Hstep I I c' l HR')|].
    intros ops Hops. exact (tree_obeys zeroV btstep _ S1.bt_op bt_Hstep c' l ops HR' Hops).
  Qed.
  Theorem bt_decoder_agrees j opsd oldl : Forall S1.bt_op opsd ->
    let old := fst (S1.run btstep btempty opsd) in
    match tree_unmarshal btstep eqb kofname decv iter gins j old,
          gm_unmarshal eqb kofname decv iter gins (ins_sorted ltb) j oldl with
    | Some c', Some m' => tree_entries btstep c' = m' | None, None => True | _, _ => False
    end.
  Proof.
    intros Hd old.
    pose proof (proj1 (SP1.run_refines btstep sm Rbt S1.bt_op bt_Hstep opsd _ _ Hd (BTP1.Rbt_empty (cmp := cmp) m))) as HRo. fold old in HRo.
    pose proof (tree_decoder_agrees O sep zeroV btstep _ S1.bt_op bt_Hstep (fun _ _ => I) I I I kofname decv iter gins j old _ oldl HRo) as H.
    destruct (tree_unmarshal btstep eqb kofname decv iter gins j old), (gm_unmarshal eqb kofname decv iter gins (ins_sorted ltb) j oldl); tauto.
  Qed.
  End BT.
End Families.

(* ================= treeset (red-black model of C01/Containers.v) ================= *)
Section TreeSet.
  Context {K : Type} {cmp : K -> K -> Z} (O : O1.CmpLaws cmp).
  Variable enc : K -> jval.
  Variable dec : jval -> option K.
  Hypothesis dec_enc : forall e, dec (enc e) = Some e.
  Hypothesis enc_wf : forall e, wellformed (enc e) = true.
  Notation tsstep := (T1.treeset_step K cmp).
  Notation sset := (S1.sset_step K cmp).
  Notation Rts := (RBP1.Rrb (K := K) (V := unit) (cmp := cmp)).
  Notation all_sops := (fun _ : S1.sop K => True).

  (* adding the elements of a sorted set in ascending order rebuilds it *)
  Lemma fold_keys_id (l : list (K * unit)) : forall acc, S1.sorted K unit cmp (acc ++ l) ->
    fold_left (fun m k => S1.sm_put K unit cmp k tt m) (map fst l) acc = acc ++ l.
  Proof.
    induction l as [|[k []] t IH]; intros acc HS; cbn [map fst fold_left]; [now rewrite app_nil_r|].
    destruct (SP1.sorted_app_inv (cmp := cmp) acc (k, tt) t HS) as (_ & _ & HF & _).
    rewrite (SP1.sm_put_last O k tt acc HF). rewrite IH; rewrite <- app_assoc; [reflexivity|exact HS].
  Qed.

  Lemma tset_run ops : forall s m, Rts s m ->
    Rts (fst (S1.run tsstep s ops)) (fst (S1.run sset m ops)) /\ snd (S1.run tsstep s ops) = snd (S1.run sset m ops).
  Proof.
    intros s m HR. apply (SP1.run_refines tsstep sset Rts all_sops); [|apply Forall_forall; auto|exact HR].
    intros s1 s2 o _ H. now apply (CP1.tset_step_refines O).
  Qed.

  Theorem tset_restored_obeys ops0 old :
    let c := fst (S1.run tsstep (RB1.empty K unit) ops0) in
    let l := fst (S1.run sset [] ops0) in
    wellformed (tset_marshal cmp enc c) = true /\
    exists c', tset_unmarshal cmp dec (tset_marshal cmp enc c) old = Some c' /\
      ts_values c' = ts_values c /\ ts_values c' = map fst l /\
      forall ops, snd (S1.run tsstep c' ops) = snd (S1.run sset l ops).
  Proof.
    intros c l. pose proof (proj1 (tset_run ops0 _ _ (RBP1.Rrb_empty (cmp := cmp)))) as HR. fold c l in HR.
    pose proof HR as (HS & He & _).
    assert (Em : tset_marshal cmp enc c = seq_marshal enc (map fst l)).
    { unfold tset_marshal. cbn [T1.treeset_step snd]. now rewrite He. }
    rewrite Em. split; [apply (seq_marshal_wf enc enc_wf)|].
    unfold tset_unmarshal. rewrite (seq_decode_marshal enc dec dec_enc). eexists. split; [reflexivity|].
    cbn [T1.treeset_step fst].
    pose proof (CP1.fold_put_refines O (map fst l) _ _ (RBP1.Rrb_empty (cmp := cmp))) as HR'.
    rewrite (fold_keys_id l [] HS) in HR'. cbn [app] in HR'.
    rewrite (Rts_values _ _ HR'), (Rts_values _ _ HR). split; [reflexivity|]. split; [reflexivity|].
    intros ops. exact (proj2 (tset_run ops _ _ HR')).
  Qed.
End TreeSet.

(* ================= treebidimap (two red-black trees, C01/Containers.v) ================= *)
Lemma run_S1_run {S O X} (step : S -> O -> S * X) ops : forall s, S1.run step s ops = run step s ops.
Proof. induction ops as [|o t IH]; intros s; cbn [S1.run run]; [reflexivity|]. destruct (step s o) as [s1 x]. now rewrite IH. Qed.

Section TreeBidi.
  Context {K V : Type} {cmpK : K -> K -> Z} {cmpV : V -> V -> Z} (OK : O1.CmpLaws cmpK) (OV : O1.CmpLaws cmpV).
  Hypothesis sepK : forall a b, cmpK a b = 0 -> a = b.
  Hypothesis sepV : forall a b, cmpV a b = 0 -> a = b.
  Variables (zeroK : K) (zeroV : V).
  Notation keqb := (cmp_eqb cmpK).
  Notation veqb := (cmp_eqb cmpV).
  Notation kltb := (cmp_ltb cmpK).
  Notation vltb := (cmp_ltb cmpV).
  Notation kins := (@ins_sorted K V kltb).
  Notation vins := (@ins_sorted V K vltb).
  Variable kname : K -> str.
  Variable kofname : str -> option K.
  Hypothesis kofname_kname : forall k, kofname (kname k) = Some k.
  Variable encv : V -> jval.
  Variable decv : jval -> option V.
  Hypothesis decv_encv : forall v, decv (encv v) = Some v.
  Hypothesis encv_wf : forall v, wellformed (encv v) = true.
  Variable jsort : list (jval * jval) -> list (jval * jval).
  Hypothesis jsort_perm : forall l, Permutation (jsort l) l.
  Variable iter : list (K * V) -> list (K * V).
  Hypothesis iter_perm : forall l, Permutation (iter l) l.
  Variable gins : K -> V -> list (K * V) -> list (K * V).
  Hypothesis gins_ok : ins_ok gins.

  Notation tbstep := (T1.tbidi_step K V cmpK cmpV zeroK zeroV).
  Notation bij1 := (S1.bij_step K V cmpK cmpV zeroK zeroV).
  Notation rbb := (rb_bidi_step cmpK cmpV zeroK zeroV).
  Notation Rbd := (CP1.Rbd (cmpK := cmpK) (cmpV := cmpV)).
  Notation all_bops := (fun _ : S1.bop K V => True).

  Definition of1_bop (o : S1.bop K V) : bop K V :=
    match o with
    | S1.BPut k v => BPut k v | S1.BRemove k => BRemove k | S1.BClear => BClear | S1.BGet k => BGet k
    | S1.BGetKey v => BGetKey v | S1.BSize => BSize | S1.BEmpty => BEmpty | S1.BKeys => BKeys | S1.BValues => BValues
    end.
  Lemma to1_of1 o : to1_bop (of1_bop o) = o.
  Proof. destruct o; reflexivity. Qed.
  (* the same states are reached whichever vocabulary the operations are written in *)
  Lemma rb_bidi_state ops1 : forall s, fst (S1.run tbstep s ops1) = fst (run rbb s (map of1_bop ops1)).
  Proof.
    induction ops1 as [|o t IH]; intros s; cbn [S1.run run map]; [reflexivity|].
    unfold rb_bidi_step at 1. rewrite to1_of1. destruct (tbstep s o) as [s1 x]. specialize (IH s1).
    destruct (S1.run tbstep s1 t) as [s2 xs]. destruct (run rbb s1 (map of1_bop t)) as [s3 ys]. exact IH.
  Qed.

  Lemma bidi_run ops : forall s b, Rbd s b ->
    Rbd (fst (S1.run tbstep s ops)) (fst (S1.run bij1 b ops)) /\ snd (S1.run tbstep s ops) = snd (S1.run bij1 b ops).
  Proof.
    intros s b HR. apply (SP1.run_refines tbstep bij1 Rbd all_bops); [|apply Forall_forall; auto|exact HR].
    intros s1 s2 o _ H. now apply (CP1.bidi_step_refines OK OV).
  Qed.

  Lemma Rrb_fun {A B} {cmp : A -> A -> Z} (s : RB1.state A B) l1 l2 :
    RBP1.Rrb (cmp := cmp) s l1 -> RBP1.Rrb (cmp := cmp) s l2 -> l1 = l2.
  Proof. intros (_ & E1 & _) (_ & E2 & _). congruence. Qed.

  Definition TBS (s : bidi K V) : Prop := S1.sorted K V cmpK (fwd s) /\ S1.sorted V K cmpV (inv s).

  Lemma hb_put_TBS k v s : TBS s -> TBS (hb_put keqb veqb kins vins k v s).
  Proof.
    intros [HF HI]. apply sorted_SortedKeys in HF. apply sorted_SortedKeys in HI.
    pose proof (tb_step_sorted keqb veqb (ceqb_spec OK sepK) (ceqb_spec OV sepV) kltb vltb
                  (cltb_trans OK) (cltb_total OK sepK) (cltb_trans OV) (cltb_total OV sepV) s (BPut k v) (conj HF HI)) as [H1 H2].
    cbn [tb_step hb_step fst] in H1, H2. split; now apply sorted_SortedKeys.
  Qed.

  Lemma fold_bij_put_hb l2 : forall s, TBS s ->
    fold_left (fun b kv => S1.bij_put K V cmpK cmpV (fst kv) (snd kv) b) l2 (pair_of s) =
    pair_of (fold_left (fun s kv => hb_put keqb veqb kins vins (fst kv) (snd kv) s) l2 s) /\
    TBS (fold_left (fun s kv => hb_put keqb veqb kins vins (fst kv) (snd kv) s) l2 s).
  Proof.
    induction l2 as [|[k v] t IH]; intros s HS; cbn [fold_left fst snd]; [split; [reflexivity|exact HS]|].
    destruct HS as [HF HI]. unfold pair_of at 1.
    replace (S1.bij_put K V cmpK cmpV k v (fwd s, inv s)) with (pair_of (hb_put keqb veqb kins vins k v s)).
    2:{ symmetry. replace s with (tb_of (fwd s) (inv s)) at 3 by (destruct s; reflexivity).
        exact (bij_put_hb OK OV sepK sepV k v _ _ HF HI). }
    apply IH. now apply hb_put_TBS.
  Qed.

  Lemma tb_put_all_R l2 : forall s b, Rbd s b ->
    Rbd (tb_put_all cmpK cmpV zeroK zeroV l2 s) (fold_left (fun b kv => S1.bij_put K V cmpK cmpV (fst kv) (snd kv) b) l2 b).
  Proof.
    unfold tb_put_all. induction l2 as [|[k v] t IH]; intros s b HR; cbn [fold_left fst snd]; [exact HR|].
    apply IH. now apply (CP1.tb_put_refines OK OV).
  Qed.

  Theorem tbidi_restored_obeys ops0 old :
    let c := fst (S1.run tbstep (T1.tb_empty K V) ops0) in
    let b := fst (S1.run bij1 ([], []) ops0) in
    wellformed (tb_marshal kname encv jsort c) = true /\
    exists c', tb_unmarshal cmpK cmpV zeroK zeroV keqb kofname decv iter gins (tb_marshal kname encv jsort c) old = Some c' /\
      tb_entries c' = tb_entries c /\ tb_entries c' = fst b /\ Rbd c' b /\
      forall ops, snd (S1.run tbstep c' ops) = snd (S1.run bij1 b ops).
  Proof.
    intros c b. pose proof (proj1 (bidi_run ops0 _ _ (CP1.Rbd_empty (cmpK := cmpK) (cmpV := cmpV)))) as HR. fold c b in HR.
    (* the C09 view of the same state *)
    destruct (proj1 (run_rel (Rtbo (cmpK := cmpK) (cmpV := cmpV)) bout_equiv rbb (bij_step keqb veqb)
                       (rb_bidi_step_refines OK OV sepK sepV zeroK zeroV) (map of1_bop ops0) _ _ (Rtbo_nil (cmpK := cmpK) (cmpV := cmpV))))
      as (t & HRt & HRb).
    rewrite <- rb_bidi_state in HRt. fold c in HRt. unfold Rtb in HRt.
    assert (Eb : b = (fwd t, inv t)).
    { destruct b as [fw bw]. destruct HR as [H1 H2]. destruct HRt as [H3 H4]. cbn [fst snd] in *.
      now rewrite (Rrb_fun _ _ _ H1 H3), (Rrb_fun _ _ _ H2 H4). }
    assert (HSt : TBS t).
    { destruct HRt as [(H1 & _) (H2 & _)]. split; assumption. }
    assert (Ec : tb_entries c = fwd t).
    { unfold tb_entries. destruct HRt as [(_ & H1 & _) _]. exact H1. }
    destruct (hb_roundtrip keqb (ceqb_spec OK sepK) kname kofname kofname_kname encv decv decv_encv encv_wf jsort jsort_perm
                iter iter_perm gins gins_ok kins (ins_sorted_ok kltb) veqb (ceqb_spec OV sepV) vins (ins_sorted_ok vltb)
                t _ hb0 HRb) as (W & s' & E' & _ & PF & PI).
    unfold tb_marshal. rewrite Ec. unfold hb_marshal in W, E'. split; [exact W|].
    unfold tb_unmarshal. unfold hb_unmarshal in E'.
    destruct (obj_decode kofname decv (obj_marshal kname encv jsort (fwd t))) as [l1|]; [|discriminate].
    eexists. split; [reflexivity|]. injection E' as E'. cbn [T1.tbidi_step fst].
    pose proof (tb_put_all_R (iter (to_gomap keqb gins l1)) _ _ (CP1.Rbd_empty (cmpK := cmpK) (cmpV := cmpV))) as HR'.
    assert (H0 : TBS hb0) by (split; cbn; constructor).
    destruct (fold_bij_put_hb (iter (to_gomap keqb gins l1)) hb0 H0) as [Ef HS'].
    change (pair_of hb0) with (([], []) : S1.bimap K V) in Ef. rewrite Ef, E' in HR'. rewrite E' in HS'.
    destruct HS' as [SF' SI']. destruct HSt as [SF SI].
    pose proof (sorted_perm_eq OK _ _ SF' SF PF) as E1. pose proof (sorted_perm_eq OV _ _ SI' SI PI) as E2.
    unfold pair_of in HR'. rewrite E1, E2, <- Eb in HR'.
    assert (Ec' : tb_entries (tb_put_all cmpK cmpV zeroK zeroV (iter (to_gomap keqb gins l1)) (T1.tb_empty K V)) = fst b).
    { unfold tb_entries. destruct HR' as [(_ & H1 & _) _]. exact H1. }
    split; [now rewrite Ec', Eb|]. split; [exact Ec'|]. split; [exact HR'|].
    intros ops. exact (proj2 (bidi_run ops _ _ HR')).
  Qed.
End TreeBidi.

(* ================= the restored tree is a reachable state ================= *)
Section Reach.
  Context {K V S : Type}.
  Variable step : S -> S1.op K V -> S * S1.out K V.
  Variable empty : S.
  Definition puts_of (l : list (K * V)) : list (S1.op K V) := map (fun kv => S1.Put (fst kv) (snd kv)) l.

  Lemma tree_put_all_run l : forall s, tree_put_all step l s = fst (S1.run step s (puts_of l)).
  Proof.
    unfold tree_put_all, puts_of. induction l as [|kv t IH]; intros s; cbn [fold_left map S1.run]; [reflexivity|].
    rewrite IH. destruct (step s (S1.Put (fst kv) (snd kv))) as [s1 x]. cbn [fst].
    destruct (S1.run step s1 (map (fun kv0 => S1.Put (fst kv0) (snd kv0)) t)) as [s2 xs]. reflexivity.
  Qed.

  (* UnmarshalJSON into the tree reached by opsd leaves the tree reached by  opsd ++ Clear :: Put ... Put *)
  Lemma tree_unmarshal_reachable keqb kofname decv iter gins j opsd c' :
    tree_unmarshal step keqb kofname decv iter gins j (fst (S1.run step empty opsd)) = Some c' ->
    exists l2, c' = fst (S1.run step empty (opsd ++ S1.Clear :: puts_of l2)).
  Proof.
    unfold tree_unmarshal. destruct (obj_decode kofname decv j) as [l1|]; [|discriminate]. intros H. injection H as <-.
    exists (iter (to_gomap keqb gins l1)). rewrite tree_put_all_run, SP1.run_app.
    destruct (S1.run step empty opsd) as [s1 x1]. cbn [fst S1.run]. destruct (step s1 S1.Clear) as [s2 x2]. cbn [fst].
    destruct (S1.run step s2 (puts_of (iter (to_gomap keqb gins l1)))) as [s3 x3]. reflexivity.
  Qed.
End Reach.
