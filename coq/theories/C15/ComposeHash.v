(* C15 composition, part 2: hash / linked maps and sets, hash bidi-map (and every container that is one or two
   Go-map-like tables with an arbitrary insertion place [ins], which includes the sorted-insertion abstraction).
   The round-trip lemmas of C15 (Proofs.v, Proofs2.v, Proofs3.v) are composed with the step-refinement lemmas of C09
   (hm_step_refines, gs_step_refines, lhm_step_refines, ls_step_refines, hb_step_refines + run_rel): the container
   restored from the JSON of ANY reachable container is related, by C09's own refinement relation, to the reference
   container the source was related to; hence every further operation list gives the reference's outputs
   (equal for the linked containers, up to the order of Keys() / Values() for the unordered ones). *)
From VF Require Import Common.Base C09.Model C09.Spec C09.Proofs C09.Proofs2 C15.Model C15.Proofs C15.Proofs2 C15.Proofs3.

Lemma lift_gkeys {K} (s : list (K * unit)) : lift (gkeys s) = s.
Proof. unfold lift, gkeys. rewrite map_map. rewrite <- (map_id s) at 2. apply map_ext. now intros [x []]. Qed.

Section Sets.
  Context {E : Type}.
  Variable enc : E -> jval.
  Variable dec : jval -> option E.
  Hypothesis dec_enc : forall e, dec (enc e) = Some e.
  Hypothesis enc_wf : forall e, wellformed (enc e) = true.
  Variable eqb : E -> E -> bool.
  Hypothesis eqb_spec : forall a b, eqb a b = true <-> a = b.
  Variable ins : E -> unit -> list (E * unit) -> list (E * unit).
  Hypothesis ins_is_ok : ins_ok ins.

  (* hashset (and any one-table set) *)
  Theorem gs_restored_obeys ops0 old :
    let c := fst (run (gs_step eqb ins) [] ops0) in
    let o := fst (run (oset_step eqb) [] ops0) in
    wellformed (gs_marshal enc c) = true /\
    exists c', gs_unmarshal dec eqb ins (gs_marshal enc c) old = Some c' /\
      Permutation (gs_values c') (gs_values c) /\ Permutation (gs_values c') o /\ NoDup (gs_values c') /\
      forall ops, Forall2 (sout_equiv (K:=E)) (snd (run (gs_step eqb ins) c' ops)) (snd (run (oset_step eqb) o ops)).
  Proof.
    intros c o. assert (H0 : Rs (K:=E) [] []) by (unfold Rs; cbn; apply Rh_nil).
    destruct (run_rel (Rs (K:=E)) sout_equiv (gs_step eqb ins) (oset_step eqb) (gs_step_refines eqb eqb_spec ins ins_is_ok) ops0 [] [] H0)
      as [HR _]. destruct HR as [HP HN]. fold c in HP, HN. fold o in HP.
    destruct (gs_roundtrip enc dec dec_enc enc_wf eqb eqb_spec ins ins_is_ok c old HN) as (W & c' & E' & P' & N').
    split; [exact W|]. exists c'. split; [exact E'|]. split; [exact P'|].
    assert (HPo : Permutation (gs_values c') o).
    { eapply perm_trans; [exact P'|]. apply (Permutation_map fst) in HP.
      exact (eq_ind (map fst (lift o)) (fun x => Permutation (gkeys c) x) HP o (gkeys_lift o)). }
    split; [exact HPo|]. split; [exact N'|].
    assert (HR' : Rs c' o).
    { split; [|exact N']. rewrite <- (lift_gkeys c'). unfold lift. now apply Permutation_map. }
    intros ops. exact (proj2 (run_rel (Rs (K:=E)) sout_equiv (gs_step eqb ins) (oset_step eqb) (gs_step_refines eqb eqb_spec ins ins_is_ok) ops c' o HR')).
  Qed.

  (* linkedhashset: same order, equal outputs *)
  Theorem ls_restored_obeys ops0 old :
    let c := fst (run (ls_step eqb ins) ls0 ops0) in
    let o := fst (run (oset_step eqb) [] ops0) in
    wellformed (ls_marshal enc c) = true /\
    exists c', ls_unmarshal dec eqb ins (ls_marshal enc c) old = Some c' /\
      sordering c' = sordering c /\ sordering c' = o /\ LInv c' /\
      forall ops, snd (run (ls_step eqb ins) c' ops) = snd (run (oset_step eqb) o ops).
  Proof.
    intros c o.
    destruct (run_rel (Rls (K:=E)) eq (ls_step eqb ins) (oset_step eqb) (ls_step_refines eqb eqb_spec ins ins_is_ok) ops0 ls0 []
                (Rls_nil (K:=E))) as [HR _]. fold c o in HR.
    destruct (Rls_LInv _ _ HR) as [HI HO].
    destruct (ls_roundtrip enc dec dec_enc enc_wf eqb eqb_spec ins ins_is_ok c old HI) as (W & c' & E' & O' & I').
    split; [exact W|]. exists c'. split; [exact E'|]. split; [exact O'|]. split; [exact (eq_trans O' HO)|]. split; [exact I'|].
    assert (HR' : Rls c' o).
    { pose proof I' as I2. apply LInv_Rls in I2. exact (eq_ind _ (fun x => Rls c' x) I2 _ (eq_trans O' HO)). }
    intros ops. apply Forall2_eq.
    exact (proj2 (run_rel (Rls (K:=E)) eq (ls_step eqb ins) (oset_step eqb) (ls_step_refines eqb eqb_spec ins ins_is_ok) ops c' o HR')).
  Qed.
End Sets.

Section Maps.
  Context {K V : Type}.
  Variable keqb : K -> K -> bool.
  Hypothesis keqb_spec : forall a b, keqb a b = true <-> a = b.
  Variable kname : K -> str.
  Variable kofname : str -> option K.
  Hypothesis kofname_kname : forall k, kofname (kname k) = Some k.
  Variable encv : V -> jval.
  Variable decv : jval -> option V.
  Hypothesis decv_encv : forall v, decv (encv v) = Some v.
  Hypothesis encv_wf : forall v, wellformed (encv v) = true.
  Variable jsort : list (jval * jval) -> list (jval * jval).
  Hypothesis jsort_perm : forall l, Permutation (jsort l) l.
  Variable iter : list (K * V) -> list (K * V).
  Hypothesis iter_perm : forall l, Permutation (iter l) l.
  Variable gins : K -> V -> list (K * V) -> list (K * V).
  Hypothesis gins_ok : ins_ok gins.
  Variable ins : K -> V -> list (K * V) -> list (K * V).
  Hypothesis ins_is_ok : ins_ok ins.

  (* hashmap (and any one-table map) *)
  Theorem gm_restored_obeys ops0 old :
    let c := fst (run (hm_step keqb ins) [] ops0) in
    let o := fst (run (omap_step keqb) [] ops0) in
    wellformed (gm_marshal kname encv jsort c) = true /\
    exists c', gm_unmarshal keqb kofname decv iter gins ins (gm_marshal kname encv jsort c) old = Some c' /\
      Permutation c' c /\ Permutation c' o /\ NoDup (gkeys c') /\
      forall ops, Forall2 (mout_equiv (K:=K) (V:=V)) (snd (run (hm_step keqb ins) c' ops)) (snd (run (omap_step keqb) o ops)).
  Proof.
    intros c o.
    destruct (run_rel (Rh (K:=K) (V:=V)) mout_equiv (hm_step keqb ins) (omap_step keqb) (hm_step_refines keqb keqb_spec ins ins_is_ok)
                ops0 [] [] (Rh_nil (K:=K) (V:=V))) as [[HP HN] _]. fold c o in HP, HN.
    destruct (gm_roundtrip keqb keqb_spec kname kofname kofname_kname encv decv decv_encv encv_wf jsort jsort_perm iter iter_perm
                gins gins_ok ins ins_is_ok c old HN) as (W & c' & E' & P' & N').
    split; [exact W|]. exists c'. split; [exact E'|]. split; [exact P'|].
    assert (HPo : Permutation c' o) by (eapply perm_trans; eassumption).
    split; [exact HPo|]. split; [exact N'|].
    intros ops. exact (proj2 (run_rel (Rh (K:=K) (V:=V)) mout_equiv (hm_step keqb ins) (omap_step keqb)
                                (hm_step_refines keqb keqb_spec ins ins_is_ok) ops c' o (conj HPo N'))).
  Qed.

  (* hashbidimap (and any two-table bidi-map) *)
  Variable veqb : V -> V -> bool.
  Hypothesis veqb_spec : forall a b, veqb a b = true <-> a = b.
  Variable vins : V -> K -> list (V * K) -> list (V * K).
  Hypothesis vins_ok : ins_ok vins.

  Theorem hb_restored_obeys ops0 old :
    let c := fst (run (hb_step keqb veqb ins vins) hb0 ops0) in
    let b := fst (run (bij_step keqb veqb) [] ops0) in
    wellformed (hb_marshal kname encv jsort c) = true /\
    exists c', hb_unmarshal keqb kofname decv iter gins ins veqb vins (hb_marshal kname encv jsort c) old = Some c' /\
      Permutation (fwd c') (fwd c) /\ Permutation (inv c') (inv c) /\ Permutation (fwd c') b /\ Bijection keqb veqb c' /\
      forall ops, Bijection keqb veqb (fst (run (hb_step keqb veqb ins vins) c' ops)) /\
                  Forall2 (bout_equiv (K:=K) (V:=V)) (snd (run (hb_step keqb veqb ins vins) c' ops)) (snd (run (bij_step keqb veqb) b ops)).
  Proof.
    intros c b.
    pose proof (hb_step_refines keqb veqb keqb_spec veqb_spec ins vins ins_is_ok vins_ok) as Hstep.
    destruct (run_rel (Rb (K:=K) (V:=V)) bout_equiv (hb_step keqb veqb ins vins) (bij_step keqb veqb) Hstep ops0 hb0 []
                (Rb_nil (K:=K) (V:=V))) as [HR _]. fold c b in HR.
    destruct (hb_roundtrip keqb keqb_spec kname kofname kofname_kname encv decv decv_encv encv_wf jsort jsort_perm iter iter_perm
                gins gins_ok ins ins_is_ok veqb veqb_spec vins vins_ok c b old HR) as (W & c' & E' & B' & PF & PI).
    split; [exact W|]. exists c'. split; [exact E'|]. split; [exact PF|]. split; [exact PI|].
    pose proof HR as (HF & HI & HK & HV).
    assert (HR' : Rb c' b).
    { split; [eapply perm_trans; eassumption|]. split; [eapply perm_trans; eassumption|]. split; assumption. }
    split; [apply HR'|]. split; [exact B'|]. intros ops.
    destruct (run_rel (Rb (K:=K) (V:=V)) bout_equiv (hb_step keqb veqb ins vins) (bij_step keqb veqb) Hstep ops c' b HR') as [HR2 HF2].
    split; [eapply (Rb_bijection keqb veqb keqb_spec veqb_spec); exact HR2|exact HF2].
  Qed.
End Maps.

(* linkedhashmap *)
Section Linked.
  Context {K V : Type}.
  Variable keqb : K -> K -> bool.
  Hypothesis keqb_spec : forall a b, keqb a b = true <-> a = b.
  Variable kofname : str -> option K.
  Variable encv : V -> jval.
  Variable decv : jval -> option V.
  Hypothesis decv_encv : forall v, decv (encv v) = Some v.
  Hypothesis encv_wf : forall v, wellformed (encv v) = true.
  Variable iter : list (K * V) -> list (K * V).
  Hypothesis iter_perm : forall l, Permutation (iter l) l.
  Variable gins : K -> V -> list (K * V) -> list (K * V).
  Hypothesis gins_ok : ins_ok gins.
  Variable ins : K -> V -> list (K * V) -> list (K * V).
  Hypothesis ins_is_ok : ins_ok ins.
  Variable kjson : K -> jval.
  Variable ktext : K -> str.
  Variable zeroV : V.
  Variable seqb : str -> str -> bool.
  Hypothesis seqb_spec : forall a b, seqb a b = true <-> a = b.
  Variable sortk : (K -> nat) -> list K -> list K.
  Hypothesis sortk_perm : forall f l, Permutation (sortk f l) l.
  Hypothesis sortk_sorted : forall f l, Sorted.StronglySorted (fun a b : K => f a <= f b) (sortk f l).
  Hypothesis name_ok : forall k, kofname (lhm_lookup_name kjson ktext k) = Some k.

  Theorem lhm_restored_obeys ops0 old :
    let c := fst (run (lhm_step keqb ins zeroV) lhm0 ops0) in
    let o := fst (run (omap_step keqb) [] ops0) in
    wellformed (lhm_marshal keqb encv kjson ktext zeroV c) = true /\
    exists c', lhm_unmarshal keqb kofname decv iter gins ins kjson ktext zeroV seqb sortk
                 (lhm_marshal keqb encv kjson ktext zeroV c) old = Some c' /\
      ordering c' = ordering c /\ Rl c' o /\
      forall ops, snd (run (lhm_step keqb ins zeroV) c' ops) = snd (run (omap_step keqb) o ops).
  Proof.
    intros c o.
    pose proof (lhm_step_refines keqb keqb_spec zeroV ins ins_is_ok) as Hstep.
    destruct (run_rel (Rl (K:=K) (V:=V)) eq (lhm_step keqb ins zeroV) (omap_step keqb) Hstep ops0 lhm0 [] (Rl_nil (K:=K) (V:=V))) as [HR _].
    fold c o in HR.
    destruct (lhm_roundtrip keqb keqb_spec kofname encv decv decv_encv encv_wf iter iter_perm gins gins_ok ins ins_is_ok
                kjson ktext zeroV seqb seqb_spec sortk sortk_perm sortk_sorted name_ok c o old HR) as (W & c' & E' & HR').
    split; [exact W|]. exists c'. split; [exact E'|]. split; [destruct HR as [-> _]; destruct HR' as [-> _]; reflexivity|].
    split; [exact HR'|]. intros ops. apply Forall2_eq.
    exact (proj2 (run_rel (Rl (K:=K) (V:=V)) eq (lhm_step keqb ins zeroV) (omap_step keqb) Hstep ops c' o HR')).
  Qed.
End Linked.
