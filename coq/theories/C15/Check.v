(* C15 correspondence checker.  One case = one container that was built by an operation sequence, marshalled by
   the real MarshalJSON, decoded by the real UnmarshalJSON into a fresh container of the same type, and then
   driven by further operations.  The harness records: the abstract contents before (src) and after (dst),
   json.Valid of the bytes and the bytes parsed to a [jval], error flags, representation details through
   verif accessors, and for every further operation its result and the contents afterwards.
   Elements / keys / values are numbered; the codec tables give, for every number, what the REAL encoding/json
   and banytostring produced for it (that codec is trusted, not modelled).
     kind 2: invalid JSON, an error, different abstract contents, or a further operation that panics or
             disagrees with the reference container of Spec.v;
     kind 1: the property holds on what was observed, but the bytes / the restored representation differ
             from what the model of the Marshal / Unmarshal code computes. *)
From VF Require Import Common.Base C09.Model C09.Spec C09.Check C15.Model C15.Spec.
Local Open Scope Z_scope.

Fixpoint jeqb (a b : jval) : bool :=
  match a, b with
  | JNull, JNull => true
  | JBool x, JBool y => Bool.eqb x y
  | JNum x, JNum y => x =? y
  | JStr x, JStr y => zlist_eqb x y
  | JArr x, JArr y =>
      (fix go (l1 l2 : list jval) : bool :=
         match l1, l2 with
         | [], [] => true
         | p :: t1, q :: t2 => jeqb p q && go t1 t2
         | _, _ => false
         end) x y
  | JObj x, JObj y =>
      (fix go (l1 l2 : list (jval * jval)) : bool :=
         match l1, l2 with
         | [], [] => true
         | (n1, v1) :: t1, (n2, v2) :: t2 => jeqb n1 n2 && jeqb v1 v2 && go t1 t2
         | _, _ => false
         end) x y
  | _, _ => false
  end.
Definition member_eqb (a b : jval * jval) : bool := jeqb (fst a) (fst b) && jeqb (snd a) (snd b).
(* same members, any order *)
Definition members_perm_eqb (a b : list (jval * jval)) : bool :=
  Nat.eqb (length a) (length b) && forallb (fun m => existsb (member_eqb m) b) a && forallb (fun m => existsb (member_eqb m) a) b.

(* ----- the recorded codec: entry i is what the real code produced for element number i ----- *)
Record codec := { cj : list jval;     (* json.Marshal(x), parsed *)
                  ct : list str;      (* json.Marshal(x), as text (Comparator.Marshal) *)
                  cs : list str }.    (* banytostring.ToString(x) *)
Definition enc_of (c : codec) (x : Z) : jval := if x <? 0 then JNull else nth (Z.to_nat x) (cj c) JNull.
Fixpoint index_of {A} (eqb : A -> A -> bool) (x : A) (l : list A) (i : Z) : option Z :=
  match l with [] => None | y :: t => if eqb x y then Some i else index_of eqb x t (i + 1) end.
Definition dec_of (c : codec) (j : jval) : option Z := index_of jeqb j (cj c) 0.
Definition text_of (c : codec) (x : Z) : str := if x <? 0 then [] else nth (Z.to_nat x) (ct c) [].
Definition tostr_of (c : codec) (x : Z) : str := if x <? 0 then [] else nth (Z.to_nat x) (cs c) [].
Definition of_text (c : codec) (s : str) : option Z := index_of zlist_eqb s (ct c) 0.
Definition of_tostr (c : codec) (s : str) : option Z := index_of zlist_eqb s (cs c) 0.
(* the tables are injective: the premises dec (enc x) = Some x etc. of the theorems hold on this universe *)
Fixpoint nodup_by {A} (eqb : A -> A -> bool) (l : list A) : bool :=
  match l with [] => true | x :: t => negb (existsb (eqb x) t) && nodup_by eqb t end.
Definition codec_ok (c : codec) : bool :=
  nodup_by jeqb (cj c) && nodup_by zlist_eqb (ct c) && nodup_by zlist_eqb (cs c)
  && Nat.eqb (length (cj c)) (length (ct c)) && Nat.eqb (length (cj c)) (length (cs c)).

Definition first_bad (ks : list nat) : nat :=
  (fix go (l : list nat) (i : nat) : nat :=
     match l with [] => 0%nat | k :: t => if Nat.eqb k 0 then go t (S i) else (i * 4 + k)%nat end) ks 0%nat.

(* ================= array-like JSON ================= *)
Inductive path := PArray | PLinked | PRing | PSetHash | PSetLinked | PSetTree.
Inductive srep :=
| RNone
| RArr (len cap size : nat)                                         (* arraylist: len(elements), cap(elements), size *)
| RRing (vals : list Z) (st en : nat) (full : bool) (size mx : nat).  (* circular buffer *)

Definition srep_eqb (a b : srep) : bool :=
  match a, b with
  | RNone, _ | _, RNone => true        (* nothing recorded for this container *)
  | RArr l1 c1 s1, RArr l2 c2 s2 => Nat.eqb l1 l2 && Nat.eqb c1 c2 && Nat.eqb s1 s2
  | RRing v1 s1 e1 f1 n1 m1, RRing v2 s2 e2 f2 n2 m2 =>
      zlist_eqb v1 v2 && Nat.eqb s1 s2 && Nat.eqb e1 e2 && Bool.eqb f1 f2 && Nat.eqb n1 n2 && Nat.eqb m1 m2
  | _, _ => false
  end.

Record sstep := SStep { q_op : qop; q_res : option Z; q_abs : list Z; q_panic : bool }.

(* the number of the Go zero value (what an empty ring slot holds): its place in the universe when it is an element,
   -1 (the harness's number for a zero value that is not an element) otherwise.  A universe holds values of ONE Go type
   (and the harness's pointer universes have no pointer to 0, its map universes no empty non-nil map), so the first
   candidate found is that type's zero value. *)
Definition zero_of (ec : codec) : Z :=
  (fix first (cands : list jval) : Z :=
     match cands with
     | [] => -1
     | c :: t => match index_of jeqb c (cj ec) 0 with Some i => i | None => first t end
     end) [JNum 0; JStr []; JNull; JObj []].     (* int, string, nil slice / pointer / map, struct with every field omitted *)
(* Dequeue as repaired by 0021: no zero-value test *)
Definition no_zero (v : Z) : bool := false.

(* what the model of UnmarshalJSON makes of the observed document, into a fresh container *)
Definition seq_model_restore (p : path) (d : disc) (jrev : bool) (ec : codec) (j : jval) : option (list Z * srep) :=
  match seq_decode (dec_of ec) j with
  | None => None
  | Some l =>
      match p with
      | PArray =>
          match al_unmarshal (dec_of ec) (fun n => n) j al_fresh with
          | Some a => Some ((if jrev then rev (al_abs a) else al_abs a),
                            RArr (length (al_elems a)) (al_cap a) (al_size a))
          | None => None
          end
      | PLinked => match ll_unmarshal (dec_of ec) j [] with Some r => Some (r, RNone) | None => None end
      | PRing =>
          let mx := match d with DRing c => c | _ => 1%nat end in
          match cb_unmarshal (dec_of ec) (zero_of ec) no_zero j (cb_fresh (zero_of ec) mx) with
          | Some q => Some (cb_values (zero_of ec) q,
                            RRing (cb_vals q) (cb_start q) (cb_end q) (cb_full q) (cb_size q) (cb_max q))
          | None => None
          end
      | PSetHash => match gs_unmarshal (dec_of ec) Z.eqb (@ins_front Z unit) j [] with
                    | Some s => Some (gs_values s, RNone) | None => None end
      | PSetTree => match gs_unmarshal (dec_of ec) Z.eqb (@ins_sorted Z unit Z.ltb) j [] with
                    | Some s => Some (gs_values s, RNone) | None => None end
      | PSetLinked => match ls_unmarshal (dec_of ec) Z.eqb (@ins_front Z unit) j ls0 with
                      | Some s => Some (sordering s, RNone) | None => None end
      end
  end.

Definition seq_model_ok (p : path) (d : disc) (jrev : bool) (ec : codec) (src : list Z) (j : jval)
           (dst : list Z) (dst_rep : srep) (dirty : option (list Z)) : bool :=
  (* hashset: Values() follows Go's map order, different at every call; heaps: Values() walks the heap through its
     iterator, the JSON is the backing array - both compared as bags (the heap order shows in the later Pops) *)
  let unordered := match p, d with PSetHash, _ => true | _, DHeap => true | _, _ => false end in
  codec_ok ec
  (* Marshal: the array of the encoded elements, in the order the container stores them *)
  && match j with
     | JArr items =>
         let expect := map (enc_of ec) (if jrev then rev src else src) in
         if unordered
         then Nat.eqb (length items) (length expect) && forallb (fun x => existsb (jeqb x) expect) items
              && forallb (fun x => existsb (jeqb x) items) expect
         else jeqb (JArr items) (JArr expect)
     | JNull => match src with [] => true | _ => false end    (* nil backing slice of a never-used array list; a foreign null document *)
     | _ => false
     end
  (* Unmarshal *)
  && match seq_model_restore p d jrev ec j with
     | Some (r, rep) =>
         (if unordered then perm_eqb dst r else zlist_eqb dst r) && srep_eqb dst_rep rep
         (* decoding into a container that already held something: Unmarshal clears first, same result *)
         && match dirty with
            | Some dd => if unordered then perm_eqb dd r else zlist_eqb dd r
            | None => true
            end
     | None => false
     end.

Fixpoint seq_suffix (d : disc) (abs : list Z) (steps : list sstep) : list nat :=
  match steps with
  | [] => []
  | s :: t =>
      let '(abs', res) := seq_ref d abs (q_op s) in
      let ok := negb (q_panic s) && abs_eqb d (q_abs s) abs' && oz_eqb (q_res s) res in
      kind_of true ok :: (if ok then seq_suffix d abs' t else [])
  end.

(* ================= object-like JSON ================= *)
Record mstep := MStep { p_op : pop; p_abs : list (Z * Z); p_panic : bool }.

Definition name_of (d : mdisc) (kc : codec) (k : Z) : str :=
  match d with
  | MHash | MBidiHash => tostr_of kc k
  | MTree | MBidiTree => text_of kc k
  | MLinked => match enc_of kc k with JStr x => x | _ => text_of kc k end
  end.
Definition key_of (d : mdisc) (kc : codec) (s : str) : option Z :=
  match d with
  | MTree | MBidiTree => of_text kc s      (* Comparator.Unmarshal of the member name *)
  | _ => of_tostr kc s                     (* encoding/json decoding a map key *)
  end.
Definition encv_of (d : mdisc) (vc : codec) (v : Z) : jval :=
  match d with MBidiTree => JStr (text_of vc v) | _ => enc_of vc v end.
Definition decv_of (d : mdisc) (vc : codec) (j : jval) : option Z :=
  match d with
  | MBidiTree => match j with JStr s => of_text vc s | _ => None end
  | _ => dec_of vc j
  end.

Definition isort_by (f : Z -> nat) (l : list Z) : list Z :=
  fold_right (fun x r => (fix insert (r : list Z) : list Z :=
                            match r with [] => [x] | y :: t => if Nat.leb (f x) (f y) then x :: r else y :: insert t end) r) [] l.
Definition id_iter (l : list (Z * Z)) := l.
Definition back_ins (k v : Z) (m : list (Z * Z)) := m ++ [(k, v)].

Definition map_model_restore (d : mdisc) (kc vc : codec) (j : jval) : option (list (Z * Z)) :=
  let kofname := key_of d kc in
  let decv := decv_of d vc in
  match d with
  | MHash => gm_unmarshal Z.eqb kofname decv id_iter back_ins (@ins_front Z Z) j []
  | MTree => gm_unmarshal Z.eqb kofname decv id_iter back_ins (@ins_sorted Z Z Z.ltb) j []
  | MBidiHash => option_map fwd (hb_unmarshal Z.eqb kofname decv id_iter back_ins (@ins_front Z Z) Z.eqb (@ins_front Z Z) j hb0)
  | MBidiTree => option_map fwd (hb_unmarshal Z.eqb kofname decv id_iter back_ins (@ins_sorted Z Z Z.ltb) Z.eqb (@ins_sorted Z Z Z.ltb) j hb0)
  | MLinked =>
      match lhm_unmarshal Z.eqb kofname decv id_iter back_ins (@ins_front Z Z) (enc_of kc) (text_of kc) 0 zlist_eqb isort_by j lhm0 with
      | Some s => Some (map (fun k => (k, match gget Z.eqb k (table s) with Some v => v | None => 0 end)) (ordering s))
      | None => None
      end
  end.

Definition map_model_ok (d : mdisc) (kc vc : codec) (src : list (Z * Z)) (j : jval) (dst : list (Z * Z))
           (dirty : option (list (Z * Z))) : bool :=
  codec_ok kc && codec_ok vc
  && match j with
     | JObj ms =>
         let expect := map (fun kv => (JStr (name_of d kc (fst kv)), encv_of d vc (snd kv))) src in
         match d with
         | MLinked => jeqb (JObj ms) (JObj expect)          (* the hand-written writer keeps the order *)
         | _ => members_perm_eqb ms expect                  (* encoding/json orders a Go map by member name *)
         end
     | _ => false
     end
  && match map_model_restore d kc vc j with
     | Some r =>
         let same x := match d with
                       | MHash | MBidiHash => pairs_eqb (sort_pairs x) (sort_pairs r)
                       | _ => pairs_eqb x r
                       end in
         same dst && match dirty with Some dd => same dd | None => true end
     | None => false
     end.

Fixpoint map_suffix (d : mdisc) (abs : list (Z * Z)) (steps : list mstep) : list nat :=
  match steps with
  | [] => []
  | s :: t =>
      let abs' := map_ref d abs (p_op s) in
      let ok := negb (p_panic s) && mabs_eqb d (p_abs s) abs' in
      kind_of true ok :: (if ok then map_suffix d abs' t else [])
  end.

(* ================= cases ================= *)
Record jobs := JO { jo_merr : bool;      (* MarshalJSON returned an error *)
                    jo_valid : bool;     (* json.Valid(bytes) *)
                    jo_val : jval;       (* the bytes, parsed (JNull when they are not JSON) *)
                    jo_uerr : bool;      (* UnmarshalJSON returned an error or panicked *)
                    jo_twice : bool }.   (* a second Marshal of the restored container gives JSON again *)

Inductive case :=
| CSeq (p : path) (d : disc) (jrev : bool) (ec : codec) (src : list Z) (jo : jobs) (dst : list Z) (dst_rep : srep)
       (dirty : option (list Z))          (* contents after decoding the same bytes into a NON-empty container *)
       (suffix : list sstep)
| CMapc (d : mdisc) (kc vc : codec) (src : list (Z * Z)) (jo : jobs) (dst : list (Z * Z))
        (dirty : option (list (Z * Z))) (suffix : list mstep).

(* step 0 = MarshalJSON, step 1 = UnmarshalJSON, steps 2.. = the further operations *)
Definition check_case (c : case) : nat :=
  match c with
  | CSeq p d jrev ec src jo dst rep dirty suffix =>
      let m_ok := negb (jo_merr jo) && jo_valid jo && wellformed (jo_val jo) in
      (* a target that already held something (dirty) is NOT part of the property (C15 speaks about fresh targets): it is
         compared by the model tie below only (kind 1); C09 judges UnmarshalJSON into a used map/set against its reference *)
      let u_ok := negb (jo_uerr jo) && abs_eqb d dst (restored_ref d src) && jo_twice jo in
      let model := seq_model_ok p d jrev ec src (jo_val jo) dst rep dirty in
      if negb m_ok then 2%nat
      else if negb u_ok then (1 * 4 + 2)%nat
      else match first_bad (0 :: 0 :: seq_suffix d (restored_ref d src) suffix)%nat with
           | O => if model then 0%nat else (1 * 4 + 1)%nat
           | n => n
           end
  | CMapc d kc vc src jo dst dirty suffix =>
      let m_ok := negb (jo_merr jo) && jo_valid jo && wellformed (jo_val jo) in
      let u_ok := negb (jo_uerr jo) && mabs_eqb d dst src && jo_twice jo in
      let model := map_model_ok d kc vc src (jo_val jo) dst dirty in
      if negb m_ok then 2%nat
      else if negb u_ok then (1 * 4 + 2)%nat
      else match first_bad (0 :: 0 :: map_suffix d src suffix)%nat with
           | O => if model then 0%nat else (1 * 4 + 1)%nat
           | n => n
           end
  end.

Definition mismatches (cs : list case) : list (nat * nat) := find_bad check_case cs.
