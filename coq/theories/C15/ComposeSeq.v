(* C15 composition, part 1: array-backed and linked sequences, circular buffer.
   The JSON round trip of C15 (Model.v / Proofs.v) is composed with the refinement theorems of C07 (lists) and
   C08 (queues, stacks, heap): the state that UnmarshalJSON builds from the bytes MarshalJSON produced for ANY
   reachable container is related to the abstract contents by the refinement relation of the container's own
   property (RA / RS / RL / CInv / heap order), hence every further operation list behaves as the reference does.

   Bridges (C15/SeqJson.v; plain field renamings; the JSON model of C15 is polymorphic in the element type and carries
   the capacity explicitly, the C07 / C08 models have element type Z and len = cap):
     al_json / al_of_json : C07 array list  <->  the (elements, size, cap) view of C15.Model
     cb_json / cb_of_json : C08 ring        <->  the ring record of C15.Model
   Linked lists have no representation detail in C15.Model (Values() / Clear(); Add(elements...)): the restored
   C07 state is [ll_add decoded ll_clear], the code path of UnmarshalJSON on the pointer-structure model. *)
From VF Require Import C07.Model C07.Spec C07.Proofs C07.ProofsArray C07.ProofsLinked
  C08.Model C08.Spec C08.Proofs C08.ProofsCirc C08.ProofsHeap C15.SeqJson.
From VF Require C15.Model C15.Proofs C15.ProofsRing.
Local Open Scope nat_scope.

Module JP := VF.C15.Proofs.
Module JR := VF.C15.ProofsRing.

Section Seq.
  Variable enc : Z -> jval.
  Variable dec : jval -> option Z.
  Hypothesis dec_enc : forall e, dec (enc e) = Some e.
  Hypothesis enc_wf : forall e, J.wellformed (enc e) = true.

  Lemma RA_al0 : RA al0 [].
  Proof. split; simpl; auto. Qed.
  Lemma RL_ll0 : RL ll0 [].
  Proof. split; reflexivity. Qed.

  Lemma al_abs_json a l : RA a l -> J.al_abs (al_json a) = l.
  Proof. intros [H _]. exact H. Qed.

  (* the decoded array list, whatever it is decoded into, is related to the same abstract sequence *)
  Lemma al_restore a l isnil grow old : RA a l ->
    J.wellformed (J.al_marshal_with enc isnil (al_json a)) = true /\
    exists a', J.al_unmarshal dec grow (J.al_marshal_with enc isnil (al_json a)) old = Some a' /\
               J.al_abs a' = J.al_abs (al_json a) /\ JP.AlInv a' /\ RA (al_of_json a') l.
  Proof.
    intros HR. destruct (JP.al_roundtrip enc dec dec_enc enc_wf isnil grow (al_json a) old) as (W & a' & E & A & I).
    split; [exact W|]. exists a'. split; [exact E|]. split; [exact A|]. split; [exact I|].
    rewrite (al_abs_json a l HR) in A. destruct I as [_ I2]. split; [exact A|exact I2].
  Qed.

  (* ----- array list ----- *)
  Theorem al_restored_obeys ops0 isnil grow old :
    let c := fst (run al_step al0 ops0) in
    let l := fst (run seq_step [] ops0) in
    J.wellformed (J.al_marshal_with enc isnil (al_json c)) = true /\
    exists a', J.al_unmarshal dec grow (J.al_marshal_with enc isnil (al_json c)) old = Some a' /\
      J.al_abs a' = J.al_abs (al_json c) /\ J.al_abs a' = l /\
      forall ops, snd (run al_step (al_of_json a') ops) = snd (run seq_step l ops).
  Proof.
    intros c l. destruct (run_sim al_step RA al_step_sim ops0 al0 [] RA_al0) as [_ HR]. fold c l in HR.
    destruct (al_restore c l isnil grow old HR) as (W & a' & E & A & I & HR').
    split; [exact W|]. exists a'. split; [exact E|]. split; [exact A|]. split; [now rewrite A; apply al_abs_json|].
    intros ops. exact (proj1 (run_sim al_step RA al_step_sim ops _ _ HR')).
  Qed.

  (* ----- array queue ----- *)
  Theorem aq_restored_obeys ops0 isnil grow old :
    let c := fst (qrun aq_step al0 ops0) in
    let l := fst (qrun fifo_step [] ops0) in
    J.wellformed (J.al_marshal_with enc isnil (al_json c)) = true /\
    exists a', J.al_unmarshal dec grow (J.al_marshal_with enc isnil (al_json c)) old = Some a' /\
      J.al_abs a' = J.al_abs (al_json c) /\ J.al_abs a' = l /\
      forall ops, snd (qrun aq_step (al_of_json a') ops) = snd (qrun fifo_step l ops).
  Proof.
    intros c l. destruct (qrun_sim aq_step fifo_step RA aq_step_sim ops0 al0 [] RA_al0) as [_ HR]. fold c l in HR.
    destruct (al_restore c l isnil grow old HR) as (W & a' & E & A & I & HR').
    split; [exact W|]. exists a'. split; [exact E|]. split; [exact A|]. split; [now rewrite A; apply al_abs_json|].
    intros ops. exact (proj1 (qrun_sim aq_step fifo_step RA aq_step_sim ops _ _ HR')).
  Qed.

  (* ----- array stack: the array (and the JSON) holds the stack bottom first ----- *)
  Theorem as_restored_obeys ops0 isnil grow old :
    let c := fst (qrun as_step al0 ops0) in
    let l := fst (qrun lifo_step [] ops0) in
    J.wellformed (J.al_marshal_with enc isnil (al_json c)) = true /\
    exists a', J.al_unmarshal dec grow (J.al_marshal_with enc isnil (al_json c)) old = Some a' /\
      J.al_abs a' = J.al_abs (al_json c) /\ J.al_abs a' = rev l /\
      forall ops, snd (qrun as_step (al_of_json a') ops) = snd (qrun lifo_step l ops).
  Proof.
    intros c l. assert (H0 : RS al0 []) by (unfold RS; simpl; apply RA_al0).
    destruct (qrun_sim as_step lifo_step RS as_step_sim ops0 al0 [] H0) as [_ HR]. fold c l in HR. unfold RS in HR.
    destruct (al_restore c (rev l) isnil grow old HR) as (W & a' & E & A & I & HR').
    split; [exact W|]. exists a'. split; [exact E|]. split; [exact A|]. split; [now rewrite A; apply al_abs_json|].
    intros ops. exact (proj1 (qrun_sim as_step lifo_step RS as_step_sim ops _ _ HR')).
  Qed.

  (* ----- binary heap and priority queue (Enqueue = Push of one value, QEnq): the decoded array IS the encoded
     array, so it satisfies the heap order; every further operation list is accepted by the multiset discipline
     started from any enumeration [bag] of the contents, and the heap order is kept ----- *)
  Section Heap.
  Variable le : Z -> Z -> bool.
  Hypothesis le_total : forall a b, le a b = true \/ le b a = true.
  Hypothesis le_trans : forall a b c, le a b = true -> le b c = true -> le a c = true.

  Theorem heap_restored_obeys ops0 isnil grow old :
    let c := fst (qrun (heap_step le) al0 ops0) in
    J.wellformed (J.al_marshal_with enc isnil (al_json c)) = true /\
    exists a', J.al_unmarshal dec grow (J.al_marshal_with enc isnil (al_json c)) old = Some a' /\
      J.al_abs a' = J.al_abs (al_json c) /\
      RA (al_of_json a') (J.al_abs a') /\ heap_ok le (J.al_abs a') /\
      forall bag, Permutation bag (J.al_abs a') -> forall ops,
        bag_accept le bag (combine ops (snd (qrun (heap_step le) (al_of_json a') ops))) = true /\
        exists l', RA (fst (qrun (heap_step le) (al_of_json a') ops)) l' /\ heap_ok le l'.
  Proof.
    intros c. destruct (heap_run_ok le le_total le_trans ops0 al0 [] (HI_init le)) as (_ & bag0 & l & HR & HO & _).
    fold c in HR. destruct (al_restore c l isnil grow old HR) as (W & a' & E & A & I & HR').
    split; [exact W|]. exists a'. split; [exact E|]. split; [exact A|].
    rewrite A, (al_abs_json c l HR). split; [exact HR'|]. split; [exact HO|].
    intros bag HP ops.
    assert (HI0 : HI le (al_of_json a') bag) by (exists l; auto).
    destruct (heap_run_ok le le_total le_trans ops _ bag HI0) as (Acc & bag' & l' & R' & O' & _).
    split; [exact Acc|]. exists l'. auto.
  Qed.
  End Heap.

  (* ----- doubly / singly linked list; linked-list queue and stack (they delegate to the singly linked list) ----- *)
  Lemma ll_restore s l old : RL s l ->
    exists j, ll_marshal7 enc s = Ok j /\ J.wellformed j = true /\
    exists s', ll_unmarshal7 dec j old = Some (Ok s') /\ ll_values s' = ll_values s /\ RL s' l.
  Proof.
    intros HR. unfold ll_marshal7. rewrite (ll_values_ok s l HR). cbn [bind]. eexists. split; [reflexivity|].
    destruct (JP.ll_roundtrip enc dec dec_enc enc_wf l (ll_e old)) as [W E]. split; [exact W|].
    unfold ll_unmarshal7. rewrite E. destruct (ll_add_ok l ll_clear [] RL_clear) as (s' & E' & HR'). cbn [app] in HR'.
    exists s'. split; [now rewrite E'|]. split; [|exact HR']. now rewrite (ll_values_ok s' l HR').
  Qed.

  Theorem ll_restored_obeys dbl ops0 old :
    let c := fst (run (ll_step dbl) ll0 ops0) in
    let l := fst (run seq_step [] ops0) in
    exists j, ll_marshal7 enc c = Ok j /\ J.wellformed j = true /\
    exists c', ll_unmarshal7 dec j old = Some (Ok c') /\ ll_values c' = ll_values c /\ ll_values c' = Ok l /\
      forall ops, snd (run (ll_step dbl) c' ops) = snd (run seq_step l ops).
  Proof.
    intros c l. destruct (run_sim (ll_step dbl) RL (ll_step_sim dbl) ops0 ll0 [] RL_ll0) as [_ HR]. fold c l in HR.
    destruct (ll_restore c l old HR) as (j & Ej & W & c' & E & A & HR').
    exists j. split; [exact Ej|]. split; [exact W|]. exists c'. split; [exact E|]. split; [exact A|].
    split; [now apply ll_values_ok|]. intros ops. exact (proj1 (run_sim (ll_step dbl) RL (ll_step_sim dbl) ops _ _ HR')).
  Qed.

  Theorem lq_restored_obeys ops0 old :
    let c := fst (qrun lq_step ll0 ops0) in
    let l := fst (qrun fifo_step [] ops0) in
    exists j, ll_marshal7 enc c = Ok j /\ J.wellformed j = true /\
    exists c', ll_unmarshal7 dec j old = Some (Ok c') /\ ll_values c' = ll_values c /\ ll_values c' = Ok l /\
      forall ops, snd (qrun lq_step c' ops) = snd (qrun fifo_step l ops).
  Proof.
    intros c l. destruct (qrun_sim lq_step fifo_step RL lq_step_sim ops0 ll0 [] RL_ll0) as [_ HR]. fold c l in HR.
    destruct (ll_restore c l old HR) as (j & Ej & W & c' & E & A & HR').
    exists j. split; [exact Ej|]. split; [exact W|]. exists c'. split; [exact E|]. split; [exact A|].
    split; [now apply ll_values_ok|]. intros ops. exact (proj1 (qrun_sim lq_step fifo_step RL lq_step_sim ops _ _ HR')).
  Qed.

  Theorem ls_restored_obeys ops0 old :
    let c := fst (qrun ls_step ll0 ops0) in
    let l := fst (qrun lifo_step [] ops0) in
    exists j, ll_marshal7 enc c = Ok j /\ J.wellformed j = true /\
    exists c', ll_unmarshal7 dec j old = Some (Ok c') /\ ll_values c' = ll_values c /\ ll_values c' = Ok l /\
      forall ops, snd (qrun ls_step c' ops) = snd (qrun lifo_step l ops).
  Proof.
    intros c l. destruct (qrun_sim ls_step lifo_step RL ls_step_sim ops0 ll0 [] RL_ll0) as [_ HR]. fold c l in HR.
    destruct (ll_restore c l old HR) as (j & Ej & W & c' & E & A & HR').
    exists j. split; [exact Ej|]. split; [exact W|]. exists c'. split; [exact E|]. split; [exact A|].
    split; [now apply ll_values_ok|]. intros ops. exact (proj1 (qrun_sim ls_step lifo_step RL ls_step_sim ops _ _ HR')).
  Qed.

  (* ----- circular buffer, every capacity >= 1, decoded into a fresh buffer of the same capacity ----- *)
  Section Ring.
  Variable cap : nat.
  Hypothesis cap_pos : 1 <= cap.

  Lemma cb_values_json q l : CInv cap q l -> J.cb_values 0%Z (cb_json q) = l.
  Proof.
    intros I. unfold J.cb_values, cb_json. cbn [J.cb_size J.cb_max J.cb_start J.cb_vals].
    rewrite (ci_size _ _ _ I), (ci_max _ _ _ I). rewrite <- (JP.map_nth_seq 0%Z l) at 2.
    apply map_ext_in. intros i Hi. apply in_seq in Hi. apply (ci_vals _ _ _ I). lia.
  Qed.

  Lemma ring_CInv l : length l <= cap -> CInv cap (cb_of_json (JP.ring_of 0%Z l cap)) l.
  Proof.
    intros H. unfold cb_of_json, JP.ring_of. constructor; cbn [cb_max cb_v cb_s cb_n cb_e cb_f
      J.cb_vals J.cb_start J.cb_end J.cb_full J.cb_size J.cb_max]; try lia; auto.
    - rewrite app_length, repeat_length. lia.
    - cbn [plus]. destruct (Nat.eqb_spec (length l) cap) as [E|E].
      + rewrite E. now rewrite Nat.mod_same by lia.
      + now rewrite Nat.mod_small by lia.
    - intros i Hi. cbn [plus]. rewrite Nat.mod_small by lia. now apply app_nth1.
  Qed.

  Theorem cb_restored_obeys ops0 :
    let c := fst (qrun cb_step (cb0 cap) ops0) in
    let l := fst (qrun (lastn_step cap) [] ops0) in
    J.wellformed (J.cb_marshal enc 0%Z (cb_json c)) = true /\
    exists q', J.cb_unmarshal dec 0%Z no_zero_test (J.cb_marshal enc 0%Z (cb_json c)) (J.cb_fresh 0%Z cap) = Some q' /\
      J.cb_values 0%Z q' = J.cb_values 0%Z (cb_json c) /\ J.cb_values 0%Z q' = l /\
      forall ops, snd (qrun cb_step (cb_of_json q') ops) = snd (qrun (lastn_step cap) l ops).
  Proof.
    intros c l. destruct (qrun_sim cb_step (lastn_step cap) (CInv cap) (cb_step_sim cap cap_pos) ops0 (cb0 cap) [] (empty_inv cap cap_pos)) as [_ I].
    fold c l in I. pose proof (cb_values_json c l I) as HV. pose proof (ci_le _ _ _ I) as HL.
    unfold J.cb_marshal, J.cb_marshal_with, J.cb_unmarshal. split; [apply (JP.seq_marshal_wf enc enc_wf)|].
    rewrite (JP.seq_decode_marshal enc dec dec_enc). rewrite HV. eexists. split; [reflexivity|].
    rewrite (JP.fresh_is_ring 0%Z cap cap_pos), JP.enqueue_all by (cbn [length]; lia). cbn [app].
    rewrite (JP.values_ring 0%Z l cap HL cap_pos). split; [reflexivity|]. split; [reflexivity|].
    intros ops. exact (proj1 (qrun_sim cb_step (lastn_step cap) (CInv cap) (cb_step_sim cap cap_pos) ops _ _ (ring_CInv l HL))).
  Qed.
  End Ring.

  (* ----- circular buffer: a document of ANY length (written by a ring of any capacity, or by an array list) decoded
     into a fresh buffer of ANY capacity: the last min(cap, n) values, oldest first, and the bounded FIFO from then on ----- *)
  Lemma RingInv_CInv cap q l : JR.RingInv 0%Z cap q l -> CInv cap (cb_of_json q) l.
  Proof.
    intros [H1 H2 H3 H4 H5 H6 H7 H8]. unfold cb_of_json.
    constructor; cbn [cb_max cb_v cb_s cb_n cb_e cb_f]; assumption.
  Qed.
  Lemma no_zero_test_false : forall v, no_zero_test v = false.
  Proof. reflexivity. Qed.

  Lemma doc_into_ring cap (cap_pos : 1 <= cap) (l : list Z) :
    exists q', J.cb_unmarshal dec 0%Z no_zero_test (J.seq_marshal enc l) (J.cb_fresh 0%Z cap) = Some q' /\
      J.cb_values 0%Z q' = skipn (length l - cap) l /\
      forall ops, snd (qrun cb_step (cb_of_json q') ops) = snd (qrun (lastn_step cap) (skipn (length l - cap) l) ops).
  Proof.
    destruct (JR.cb_decode_any 0%Z no_zero_test no_zero_test_false cap cap_pos enc dec dec_enc l) as (q' & E & I & V & _).
    exists q'. split; [exact E|]. split; [exact V|]. intros ops.
    exact (proj1 (qrun_sim cb_step (lastn_step cap) (CInv cap) (cb_step_sim cap cap_pos) ops _ _ (RingInv_CInv cap q' _ I))).
  Qed.

  Theorem cb_restored_obeys_any cap0 cap (cap0_pos : 1 <= cap0) (cap_pos : 1 <= cap) ops0 :
    let c := fst (qrun cb_step (cb0 cap0) ops0) in
    let l := fst (qrun (lastn_step cap0) [] ops0) in
    exists q', J.cb_unmarshal dec 0%Z no_zero_test (J.cb_marshal enc 0%Z (cb_json c)) (J.cb_fresh 0%Z cap) = Some q' /\
      J.cb_values 0%Z q' = skipn (length l - cap) l /\
      forall ops, snd (qrun cb_step (cb_of_json q') ops) = snd (qrun (lastn_step cap) (skipn (length l - cap) l) ops).
  Proof.
    intros c l. destruct (qrun_sim cb_step (lastn_step cap0) (CInv cap0) (cb_step_sim cap0 cap0_pos) ops0 (cb0 cap0) [] (empty_inv cap0 cap0_pos)) as [_ I].
    fold c l in I. unfold J.cb_marshal, J.cb_marshal_with. rewrite (cb_values_json cap0 cap0_pos c l I).
    exact (doc_into_ring cap cap_pos l).
  Qed.

  Theorem al_into_ring_obeys cap (cap_pos : 1 <= cap) ops0 :
    let c := fst (run al_step al0 ops0) in
    let l := fst (run seq_step [] ops0) in
    exists q', J.cb_unmarshal dec 0%Z no_zero_test (J.al_marshal enc (al_json c)) (J.cb_fresh 0%Z cap) = Some q' /\
      J.cb_values 0%Z q' = skipn (length l - cap) l /\
      forall ops, snd (qrun cb_step (cb_of_json q') ops) = snd (qrun (lastn_step cap) (skipn (length l - cap) l) ops).
  Proof.
    intros c l. destruct (run_sim al_step RA al_step_sim ops0 al0 [] RA_al0) as [_ HR]. fold c l in HR.
    unfold J.al_marshal, J.al_marshal_with. cbn [andb]. rewrite (al_abs_json c l HR).
    exact (doc_into_ring cap cap_pos l).
  Qed.
End Seq.
