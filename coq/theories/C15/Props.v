(* C15 property theorems: for every container family, marshalling yields a well-formed JSON value, and
   unmarshalling it into a fresh container gives back the same abstract contents in a state that satisfies the
   container's invariant.  encoding/json is a parameter: [enc]/[dec] (elements and values), [kname]/[kofname]
   (member names), [jsort] (order in which a Go map is written), [iter] (order in which a Go map is ranged over),
   [grow] (capacity of a decoded slice), [sortk] (bcomparator.Sort) appear only through the premises stated in each
   theorem.  Theorems named _refuted are about the code BEFORE the repairs 0016 / 0022 / 0025 / 0026.
   The theorems of THIS file are the round trip itself, per container abstraction (tree-backed containers as
   sorted-insertion tables).  "The restored container obeys its own property under every further operation list" - the
   composition with the refinement theorems of C07 / C08 / C09 / C01, on the real list / heap / ring / tree models - is
   in PropsComposeSeq.v and PropsComposeMap.v (C15_restored_obeys_<family>, C15_tree_decoders_agree). *)
From VF Require Import Common.Base C09.Model C09.Spec C09.Proofs C09.Proofs2 C09.Check C15.Model C15.Spec C15.Proofs C15.Proofs2 C15.Proofs3 C15.ProofsRing C15.Check.
From Coq Require Import Sorted.

Definition codec_laws {E} (enc : E -> jval) (dec : jval -> option E) : Prop :=
  (forall e, dec (enc e) = Some e) /\ (forall e, wellformed (enc e) = true).
Definition inserts {K V} (ins : K -> V -> list (K * V) -> list (K * V)) : Prop :=
  forall k v m, Permutation (ins k v m) ((k, v) :: m).
Definition decides {A} (eqb : A -> A -> bool) : Prop := forall a b, eqb a b = true <-> a = b.

(* doubly / singly linked list, linked-list queue and stack *)
Theorem C15_linked_lists : forall E (enc : E -> jval) dec, codec_laws enc dec -> forall l old,
  wellformed (ll_marshal enc l) = true /\ ll_unmarshal dec (ll_marshal enc l) old = Some l.
Proof. intros E enc dec [H1 H2] l old. exact (ll_roundtrip enc dec H1 H2 l old). Qed.

(* arraylist and what delegates to it (array stack, array queue, binary heap, priority queue): same elements,
   and len(elements) = cap(elements), size <= len - the invariant under which Add never indexes out of range *)
Theorem C15_arraylist : forall E (enc : E -> jval) dec, codec_laws enc dec -> forall isnil grow a old,
  wellformed (al_marshal_with enc isnil a) = true /\
  exists a', al_unmarshal dec grow (al_marshal_with enc isnil a) old = Some a' /\ al_abs a' = al_abs a /\ AlInv a'.
Proof. intros E enc dec [H1 H2] isnil grow a old. exact (al_roundtrip enc dec H1 H2 isnil grow a old). Qed.
Theorem C15_arraylist_usable : forall E (zero x : E) (a : al), AlInv a -> al_add1 zero x a <> None.
Proof. intros E zero x a H. exact (al_add1_ok zero x a H). Qed.

(* D15: without the clip the decoded slice keeps spare capacity, the invariant is lost and the next Add panics *)
Definition encZ (z : Z) : jval := JNum z.
Definition decZ (j : jval) : option Z := match j with JNum z => Some z | _ => None end.
Theorem C15_arraylist_unclipped_refuted :
  exists (grow : nat -> nat) (l : list Z), (forall n, n <= grow n) /\
    match al_unmarshal_with decZ false grow (seq_marshal encZ l) al_fresh with
    | Some a' => al_abs a' = l /\ ~ AlInv a' /\ al_add1 0%Z 6%Z a' = None
    | None => False
    end.
Proof.
  exists (fun n => if n <=? 8 then 8 else n), [1; 2; 3; 4; 5]%Z. split.
  - intros n. destruct (Nat.leb_spec n 8); lia.
  - vm_compute. split; [reflexivity|]. split; [|reflexivity]. intros [H _]. discriminate.
Qed.

(* circular buffer: the queued elements in FIFO order come back, in a ring that satisfies its invariant *)
Theorem C15_ring : forall E (enc : E -> jval) dec (zero : E) is_zero, codec_laws enc dec -> forall q mx,
  1 <= mx -> cb_max q = mx -> cb_size q <= mx ->
  wellformed (cb_marshal enc zero q) = true /\
  exists q', cb_unmarshal dec zero is_zero (cb_marshal enc zero q) (cb_fresh zero mx) = Some q' /\
             cb_values zero q' = cb_values zero q /\ CbInv q'.
Proof. intros E enc dec zero is_zero [H1 H2] q mx Hm Hq Hs. exact (cb_roundtrip enc dec H1 H2 zero is_zero q mx Hm Hq Hs). Qed.

(* ... and for a document of ANY length decoded into a fresh buffer of ANY capacity >= 1 (UnmarshalJSON enqueues the
   decoded values one by one; Dequeue as repaired by 0021, i.e. without the zero-value test): the buffer holds the LAST
   min(capacity, n) values, oldest first, in a ring that satisfies its invariant.  The document may come from a ring
   of another capacity (cb_marshal enc zero q = seq_marshal enc (cb_values zero q)) or from an array list
   (al_marshal enc a = seq_marshal enc (al_abs a)). *)
Theorem C15_ring_any_length : forall E (enc : E -> jval) dec (zero : E) is_zero,
  (forall e, dec (enc e) = Some e) -> (forall v, is_zero v = false) -> forall mx, 1 <= mx -> forall l : list E,
  exists q', cb_unmarshal dec zero is_zero (seq_marshal enc l) (cb_fresh zero mx) = Some q' /\
             cb_values zero q' = skipn (length l - mx) l /\ CbInv q'.
Proof.
  intros E enc dec zero is_zero Hd Hz mx Hm l.
  destruct (cb_decode_any zero is_zero Hz mx Hm enc dec Hd l) as (q' & H1 & _ & H2 & H3). exists q'. auto.
Qed.
Theorem C15_ring_any_source : forall E (enc : E -> jval) dec (zero : E) is_zero,
  (forall e, dec (enc e) = Some e) -> (forall v, is_zero v = false) -> forall mx, 1 <= mx ->
  (forall q : cb, exists q', cb_unmarshal dec zero is_zero (cb_marshal enc zero q) (cb_fresh zero mx) = Some q' /\
        cb_values zero q' = skipn (length (cb_values zero q) - mx) (cb_values zero q) /\ CbInv q') /\
  (forall a : al, exists q', cb_unmarshal dec zero is_zero (al_marshal enc a) (cb_fresh zero mx) = Some q' /\
        cb_values zero q' = skipn (length (al_abs a) - mx) (al_abs a) /\ CbInv q').
Proof.
  intros E enc dec zero is_zero Hd Hz mx Hm. split.
  - intros q. exact (C15_ring_any_length E enc dec zero is_zero Hd Hz mx Hm (cb_values zero q)).
  - intros a. exact (C15_ring_any_length E enc dec zero is_zero Hd Hz mx Hm (al_abs a)).
Qed.

(* D20: encoding the backing ring instead *)
Theorem C15_ring_backing_refuted :
  exists q : cb (E:=Z), CbInv q /\
    match cb_unmarshal decZ 0%Z (Z.eqb 0) (cb_marshal_with encZ 0%Z true q) (cb_fresh 0%Z (cb_max q)) with
    | Some q' => cb_values 0%Z q = [7%Z] /\ cb_values 0%Z q' = [7; 0; 0]%Z
    | None => False
    end.
Proof.
  exists {| cb_vals := [7; 0; 0]%Z; cb_start := 0; cb_end := 1; cb_full := false; cb_size := 1; cb_max := 3 |}.
  split; [unfold CbInv; cbn; repeat split; lia|]. vm_compute. split; reflexivity.
Qed.

(* hashset / (abstract) treeset: same elements, no duplicates; linkedhashset: same elements in the same order, invariant kept *)
Theorem C15_sets : forall E (enc : E -> jval) dec (eqb : E -> E -> bool) ins, codec_laws enc dec -> decides eqb -> inserts ins ->
  forall s old, NoDup (gkeys s) ->
  wellformed (gs_marshal enc s) = true /\
  exists s', gs_unmarshal dec eqb ins (gs_marshal enc s) old = Some s' /\ Permutation (gs_values s') (gs_values s) /\ NoDup (gkeys s').
Proof. intros E enc dec eqb ins [H1 H2] He Hi s old HN. exact (gs_roundtrip enc dec H1 H2 eqb He ins Hi s old HN). Qed.
Theorem C15_linked_set : forall E (enc : E -> jval) dec (eqb : E -> E -> bool) ins, codec_laws enc dec -> decides eqb -> inserts ins ->
  forall s old, LInv s ->
  wellformed (ls_marshal enc s) = true /\
  exists s', ls_unmarshal dec eqb ins (ls_marshal enc s) old = Some s' /\ sordering s' = sordering s /\ LInv s'.
Proof. intros E enc dec eqb ins [H1 H2] He Hi s old HL. exact (ls_roundtrip enc dec H1 H2 eqb He ins Hi s old HL). Qed.

(* hashmap; red-black tree, AVL tree, B-tree, treemap abstractly (ins = sorted insertion: see C15_tree_sorted) *)
Theorem C15_maps : forall K V (keqb : K -> K -> bool) kname kofname (encv : V -> jval) decv jsort iter gins ins,
  decides keqb -> (forall k, kofname (kname k) = Some k) -> codec_laws encv decv ->
  (forall l, Permutation (jsort l) l) -> (forall l, Permutation (iter l) l) -> inserts gins -> inserts ins ->
  forall m old, NoDup (gkeys m) ->
  wellformed (gm_marshal kname encv jsort m) = true /\
  exists m', gm_unmarshal keqb kofname decv iter gins ins (gm_marshal kname encv jsort m) old = Some m' /\
             Permutation m' m /\ NoDup (gkeys m').
Proof.
  intros K V keqb kname kofname encv decv jsort iter gins ins Hk Hn [H1 H2] Hj Hit Hg Hi m old HN.
  exact (gm_roundtrip keqb Hk kname kofname Hn encv decv H1 H2 jsort Hj iter Hit gins Hg ins Hi m old HN).
Qed.
Theorem C15_tree_sorted : forall K V (keqb : K -> K -> bool) (ltb : K -> K -> bool), decides keqb ->
  (forall a b c, ltb a b = true -> ltb b c = true -> ltb a c = true) -> (forall a b, ltb a b = false -> a <> b -> ltb b a = true) ->
  forall kofname (decv : jval -> option V) iter gins j old m',
  gm_unmarshal keqb kofname decv iter gins (ins_sorted ltb) j old = Some m' ->
  StronglySorted (fun a b => ltb a b = true) (gkeys m').
Proof. intros K V keqb ltb Hk Ht Hto kofname decv iter gins j old m' H. exact (gm_unmarshal_sorted keqb Hk ltb Ht Hto kofname decv iter gins j old m' H). Qed.

(* hashbidimap / (abstract) treebidimap: a bijection again, with the same pairs *)
Theorem C15_bidi : forall K V (keqb : K -> K -> bool) kname kofname (encv : V -> jval) decv jsort iter gins ins (veqb : V -> V -> bool) vins,
  decides keqb -> decides veqb -> (forall k, kofname (kname k) = Some k) -> codec_laws encv decv ->
  (forall l, Permutation (jsort l) l) -> (forall l, Permutation (iter l) l) -> inserts gins -> inserts ins -> inserts vins ->
  forall s b old, Rb s b ->
  wellformed (hb_marshal kname encv jsort s) = true /\
  exists s', hb_unmarshal keqb kofname decv iter gins ins veqb vins (hb_marshal kname encv jsort s) old = Some s' /\
             Bijection keqb veqb s' /\ Permutation (fwd s') (fwd s) /\ Permutation (inv s') (inv s).
Proof.
  intros K V keqb kname kofname encv decv jsort iter gins ins veqb vins Hk Hv Hn [H1 H2] Hj Hit Hg Hi Hvi s b old HR.
  exact (hb_roundtrip keqb Hk kname kofname Hn encv decv H1 H2 jsort Hj iter Hit gins Hg ins Hi veqb Hv vins Hvi s b old HR).
Qed.

(* linkedhashmap (writer repaired by 0025, order recovery by 0026): JSON, and the SAME ordered map comes back
   (Rl s o: the ordering list is the key sequence of o, the table holds the bindings of o - C09's refinement relation) *)
Theorem C15_linkedmap : forall K V (keqb : K -> K -> bool) kofname (encv : V -> jval) decv iter gins ins kjson ktext (zeroV : V) seqb sortk,
  decides keqb -> decides seqb -> codec_laws encv decv -> (forall l, Permutation (iter l) l) -> inserts gins -> inserts ins ->
  (forall f l, Permutation (sortk f l) l) -> (forall f l, StronglySorted (fun a b : K => f a <= f b) (sortk f l)) ->
  (forall k, kofname (lhm_lookup_name kjson ktext k) = Some k) ->
  forall s o old, Rl s o ->
  wellformed (lhm_marshal keqb encv kjson ktext zeroV s) = true /\
  exists s', lhm_unmarshal keqb kofname decv iter gins ins kjson ktext zeroV seqb sortk
               (lhm_marshal keqb encv kjson ktext zeroV s) old = Some s' /\ Rl s' o.
Proof.
  intros K V keqb kofname encv decv iter gins ins kjson ktext zeroV seqb sortk Hk Hs [H1 H2] Hit Hg Hi Hp Hso Hn s o old HR.
  exact (lhm_roundtrip keqb Hk kofname encv decv H1 H2 iter Hit gins Hg ins Hi kjson ktext zeroV seqb Hs sortk Hp Hso Hn s o old HR).
Qed.

(* D22: integer keys written as they are - the member name is a number, the value is not JSON *)
Theorem C15_linkedmap_unquoted_refuted :
  exists s : lhm Z Z, Rl s [(2, 20); (1, 10)]%Z /\
    wellformed (lhm_marshal_with Z.eqb encZ encZ (fun _ => []) 0%Z false s) = false.
Proof.
  exists {| table := [(2, 20); (1, 10)]%Z; ordering := [2; 1]%Z |}. split; [|reflexivity].
  unfold Rl. cbn. repeat split; [apply Permutation_refl|]. repeat constructor; cbn; intuition discriminate.
Qed.

(* D23: order recovered from the first occurrence of the key's text among ALL tokens: {"a":"b","c":"d","b":"e"} *)
Definition chr_json (k : Z) : jval := JStr [k].
Definition chr_text (k : Z) : str := [34; k; 34]%Z.
Definition chr_ofname (s : str) : option Z := match s with [k] => Some k | _ => None end.
Definition chr_dec (j : jval) : option Z := match j with JStr [v] => Some v | _ => None end.
Definition tok_text (j : jval) : str := match j with JStr s => (34 :: s ++ [34])%Z | _ => [] end.
Definition d23_doc : lhm Z Z := {| table := [(97, 98); (99, 100); (98, 101)]%Z; ordering := [97; 99; 98]%Z |}.
Theorem C15_linkedmap_bytesindex_refuted :
  Rl d23_doc [(97, 98); (99, 100); (98, 101)]%Z /\
  match lhm_unmarshal_bytesindex Z.eqb chr_ofname chr_dec id_iter back_ins (@ins_front Z Z) chr_text 0%Z zlist_eqb isort_by tok_text
          (lhm_marshal Z.eqb chr_json chr_json chr_text 0%Z d23_doc) lhm0 with
  | Some s' => ordering s' = [97; 98; 99]%Z
  | None => False
  end.
Proof.
  split; [|vm_compute; reflexivity].
  unfold Rl, d23_doc. cbn. repeat split; [apply Permutation_refl|]. repeat constructor; cbn; intuition discriminate.
Qed.

(* non-vacuity: the premises are satisfiable together, and the repaired linkedhashmap decoder returns a, c, b *)
Example C15_nonvacuous :
  codec_laws encZ decZ /\ decides Z.eqb /\ inserts (@ins_front Z Z) /\
  match lhm_unmarshal Z.eqb chr_ofname chr_dec id_iter back_ins (@ins_front Z Z) chr_json chr_text 0%Z zlist_eqb isort_by
          (lhm_marshal Z.eqb chr_json chr_json chr_text 0%Z d23_doc) lhm0 with
  | Some s' => ordering s' = [97; 99; 98]%Z /\ table s' = [(98, 101); (99, 100); (97, 98)]%Z
  | None => False
  end /\
  al_unmarshal decZ (fun n => n + 3) (al_marshal encZ {| al_elems := [4; 5; 6; 0]%Z; al_size := 3; al_cap := 4 |}) al_fresh
  = Some {| al_elems := [4; 5; 6]%Z; al_size := 3; al_cap := 3 |}.
Proof.
  split; [split; [reflexivity|reflexivity]|]. split; [exact Z.eqb_eq|]. split; [intros k v m; apply Permutation_refl|].
  split; vm_compute; [split; reflexivity|reflexivity].
Qed.

Print Assumptions C15_linked_lists.
Print Assumptions C15_arraylist.
Print Assumptions C15_arraylist_usable.
Print Assumptions C15_arraylist_unclipped_refuted.
Print Assumptions C15_ring.
Print Assumptions C15_ring_any_length.
Print Assumptions C15_ring_any_source.
Print Assumptions C15_ring_backing_refuted.
Print Assumptions C15_sets.
Print Assumptions C15_linked_set.
Print Assumptions C15_maps.
Print Assumptions C15_tree_sorted.
Print Assumptions C15_bidi.
Print Assumptions C15_linkedmap.
Print Assumptions C15_linkedmap_unquoted_refuted.
Print Assumptions C15_linkedmap_bytesindex_refuted.
