(* C15 proofs, part 1: array-like JSON (lists, array list family, circular buffer, sets). *)
From VF Require Import Common.Base C09.Model C09.Spec C09.Proofs C09.Proofs2 C15.Model.

Lemma traverse_map {A B} (f : A -> option B) (g : B -> A) (l : list B) :
  (forall x, f (g x) = Some x) -> traverse f (map g l) = Some l.
Proof. intros H. induction l as [|a l IH]; cbn [map traverse]; [reflexivity|]. now rewrite H, IH. Qed.

Lemma traverse_perm {A B} (f : A -> option B) (l1 l2 : list A) r1 :
  Permutation l1 l2 -> traverse f l1 = Some r1 -> exists r2, traverse f l2 = Some r2 /\ Permutation r1 r2.
Proof.
  intros HP. revert r1. induction HP as [|x l l' HP IH|x y l|l l' l'' H1 IH1 H2 IH2]; intros r1 H.
  - exists r1. split; [exact H|apply Permutation_refl].
  - cbn [traverse] in *. destruct (f x) as [b|]; [|discriminate]. destruct (traverse f l) as [r|] eqn:E; [|discriminate].
    injection H as <-. destruct (IH r eq_refl) as (r2 & E2 & P2). rewrite E2. exists (b :: r2). split; [reflexivity|now constructor].
  - cbn [traverse] in *. destruct (f y) as [b|]; [|discriminate]. destruct (f x) as [a|]; [|discriminate].
    destruct (traverse f l) as [r|]; [|discriminate]. injection H as <-. exists (a :: b :: r). split; [reflexivity|apply perm_swap].
  - destruct (IH1 r1 H) as (r2 & E2 & P2). destruct (IH2 r2 E2) as (r3 & E3 & P3). exists r3. split; [exact E3|].
    eapply perm_trans; eassumption.
Qed.

Lemma forallb_perm {A} (f : A -> bool) (l1 l2 : list A) : Permutation l1 l2 -> forallb f l1 = true -> forallb f l2 = true.
Proof.
  intros HP H. rewrite forallb_forall in *. intros x Hx. apply H. eapply Permutation_in; [apply Permutation_sym; exact HP|exact Hx].
Qed.

Section SeqProofs.
  Context {E : Type}.
  Variable enc : E -> jval.
  Variable dec : jval -> option E.
  Hypothesis dec_enc : forall e, dec (enc e) = Some e.
  Hypothesis enc_wf : forall e, wellformed (enc e) = true.

  Lemma seq_decode_marshal l : seq_decode dec (seq_marshal enc l) = Some l.
  Proof. unfold seq_decode, seq_marshal. now apply traverse_map. Qed.
  Lemma seq_marshal_wf l : wellformed (seq_marshal enc l) = true.
  Proof.
    unfold seq_marshal. cbn [wellformed]. apply forallb_forall. intros x Hx. apply in_map_iff in Hx as (e & <- & _). apply enc_wf.
  Qed.

  (* ----- linked lists ----- *)
  Lemma ll_roundtrip l old : wellformed (ll_marshal enc l) = true /\ ll_unmarshal dec (ll_marshal enc l) old = Some l.
  Proof. split; [apply seq_marshal_wf|]. unfold ll_unmarshal, ll_marshal. now rewrite seq_decode_marshal. Qed.

  (* ----- arraylist ----- *)
  Definition AlInv (a : al (E:=E)) : Prop := length (al_elems a) = al_cap a /\ al_size a <= length (al_elems a).

  Lemma al_roundtrip isnil grow a old :
    wellformed (al_marshal_with enc isnil a) = true /\
    exists a', al_unmarshal dec grow (al_marshal_with enc isnil a) old = Some a' /\ al_abs a' = al_abs a /\ AlInv a'.
  Proof.
    unfold al_marshal_with, al_unmarshal, al_unmarshal_with.
    destruct (isnil && Nat.eqb (al_size a) 0) eqn:Enil.
    - split; [reflexivity|]. cbn [seq_decode]. eexists. split; [reflexivity|].
      apply andb_true_iff in Enil as [_ Ez]. apply Nat.eqb_eq in Ez. unfold al_abs. cbn [al_elems al_size al_cap length]. rewrite Ez.
      split; [reflexivity|]. split; cbn; lia.
    - split; [apply seq_marshal_wf|]. rewrite seq_decode_marshal. eexists. split; [reflexivity|].
      unfold al_abs at 1. cbn [al_elems al_size al_cap]. split; [apply firstn_all|]. split; cbn [al_elems al_size al_cap]; lia.
  Qed.

  Lemma al_add1_ok zero x a : AlInv a -> al_add1 zero x a <> None.
  Proof.
    intros [HL HS]. unfold al_add1. destruct (al_cap a <=? al_size a + 1) eqn:Eq0.
    - cbn [al_elems al_size al_cap]. rewrite app_length, firstn_length, repeat_length.
      destruct (Nat.ltb_spec (al_size a) (Nat.min (2 * (al_cap a + 1)) (length (al_elems a)) + (2 * (al_cap a + 1) - length (al_elems a)))) as [H|H];
        [discriminate|lia].
    - apply Nat.leb_gt in Eq0. destruct (Nat.ltb_spec (al_size a) (length (al_elems a))) as [H|H]; [discriminate|lia].
  Qed.

  (* ----- circular buffer ----- *)
  Variable zero : E.
  Variable is_zero : E -> bool.

  Definition CbInv (q : cb (E:=E)) : Prop :=
    length (cb_vals q) = cb_max q /\ cb_size q <= cb_max q /\ cb_start q < cb_max q /\ cb_end q < cb_max q /\
    cb_size q = cb_calc (cb_max q) (cb_start q) (cb_end q) (cb_full q).

  (* the ring after enqueueing the elements of l (at most mx of them) into an empty ring *)
  Definition ring_of (l : list E) (mx : nat) : cb :=
    {| cb_vals := l ++ repeat zero (mx - length l); cb_start := 0;
       cb_end := if length l =? mx then 0 else length l; cb_full := length l =? mx;
       cb_size := length l; cb_max := mx |}.

  Lemma upd_at_end (l : list E) (t : list E) v x : upd (l ++ x :: t) (length l) v = l ++ v :: t.
  Proof. induction l as [|a l IH]; cbn [app length upd]; [reflexivity|]. now rewrite IH. Qed.

  Lemma enqueue_ring l v mx : length l < mx -> cb_enqueue zero is_zero (ring_of l mx) v = ring_of (l ++ [v]) mx.
  Proof.
    intros Hn. unfold cb_enqueue, ring_of. cbn [cb_size cb_max cb_end cb_start cb_vals cb_full].
    rewrite app_length. cbn [length]. set (n := length l) in *.
    destruct (Nat.eqb_spec n mx) as [E0|E0]; [lia|].
    cbn [cb_size cb_max cb_end cb_start cb_vals cb_full].
    assert (Hv : upd (l ++ repeat zero (mx - n)) n v = (l ++ [v]) ++ repeat zero (mx - (n + 1))).
    { replace (mx - n) with (S (mx - (n + 1))) by lia. cbn [repeat]. unfold n. rewrite upd_at_end.
      now rewrite <- app_assoc. }
    rewrite Hv. destruct (Nat.eqb_spec (n + 1) mx) as [E1|E1].
    - destruct (Nat.leb_spec mx (n + 1)) as [H|H]; [|lia]. cbn [Nat.eqb]. unfold cb_calc. cbn. f_equal. lia.
    - destruct (Nat.leb_spec mx (n + 1)) as [H|H]; [lia|].
      destruct (Nat.eqb_spec (n + 1) 0) as [H0|H0]; [lia|]. unfold cb_calc.
      destruct (Nat.ltb_spec (n + 1) 0) as [H1|H1]; [lia|]. destruct (Nat.eqb_spec (n + 1) 0) as [H2|H2]; [lia|].
      f_equal. lia.
  Qed.

  Lemma enqueue_all l2 : forall l1 mx, length l1 + length l2 <= mx ->
    fold_left (cb_enqueue zero is_zero) l2 (ring_of l1 mx) = ring_of (l1 ++ l2) mx.
  Proof.
    induction l2 as [|v t IH]; intros l1 mx H; cbn [fold_left].
    - now rewrite app_nil_r.
    - cbn [length] in H. rewrite enqueue_ring by lia. rewrite IH by (rewrite app_length; cbn [length]; lia).
      now rewrite <- app_assoc.
  Qed.

  Lemma fresh_is_ring mx : 1 <= mx -> cb_fresh zero mx = ring_of [] mx.
  Proof.
    intros H. unfold cb_fresh, ring_of. cbn [length app]. rewrite Nat.sub_0_r.
    destruct (Nat.eqb_spec 0 mx) as [Eq0|Eq0]; [lia|reflexivity].
  Qed.

  Lemma map_nth_seq (l : list E) : map (fun i => nth i l zero) (seq 0 (length l)) = l.
  Proof.
    apply nth_ext with (d := zero) (d' := zero).
    - now rewrite map_length, seq_length.
    - intros i Hi. rewrite map_length, seq_length in Hi.
      rewrite (nth_indep _ zero (nth 0 l zero)) by (now rewrite map_length, seq_length).
      rewrite (map_nth (fun i => nth i l zero) (seq 0 (length l)) 0 i). now rewrite seq_nth.
  Qed.

  Lemma values_ring l mx : length l <= mx -> 1 <= mx -> cb_values zero (ring_of l mx) = l.
  Proof.
    intros H H1. unfold cb_values, ring_of. cbn [cb_size cb_max cb_start cb_vals].
    rewrite <- (map_nth_seq l) at 2. apply map_ext_in. intros i Hi. apply in_seq in Hi. cbn [plus].
    rewrite Nat.mod_small by lia. apply app_nth1. lia.
  Qed.

  Lemma ring_inv l mx : length l <= mx -> 1 <= mx -> CbInv (ring_of l mx).
  Proof.
    intros H H1. unfold CbInv, ring_of. cbn [cb_size cb_max cb_start cb_vals cb_end cb_full].
    rewrite app_length, repeat_length. repeat split; try lia.
    - destruct (Nat.eqb_spec (length l) mx); lia.
    - unfold cb_calc. destruct (Nat.eqb_spec (length l) mx) as [Eq0|Eq0]; cbn.
      + exact Eq0.
      + destruct (Nat.eqb_spec (length l) 0) as [E0|E0]; lia.
  Qed.

  Lemma cb_roundtrip q mx : 1 <= mx -> cb_max q = mx -> cb_size q <= mx ->
    wellformed (cb_marshal enc zero q) = true /\
    exists q', cb_unmarshal dec zero is_zero (cb_marshal enc zero q) (cb_fresh zero mx) = Some q' /\
               cb_values zero q' = cb_values zero q /\ CbInv q'.
  Proof.
    intros H1 Hm Hs. unfold cb_marshal, cb_marshal_with, cb_unmarshal. split; [apply seq_marshal_wf|].
    rewrite seq_decode_marshal. eexists. split; [reflexivity|].
    assert (HL : length (cb_values zero q) <= mx) by (unfold cb_values; now rewrite map_length, seq_length).
    rewrite fresh_is_ring by exact H1. rewrite enqueue_all by (cbn [length]; lia). cbn [app].
    split; [now apply values_ring|now apply ring_inv].
  Qed.

  (* ----- sets ----- *)
  Variable eqb : E -> E -> bool.
  Hypothesis eqb_spec : forall a b, eqb a b = true <-> a = b.
  Variable ins : E -> unit -> list (E * unit) -> list (E * unit).
  Hypothesis ins_is_ok : ins_ok ins.

  Lemma fold_os_add1 l : forall acc, NoDup (acc ++ l) -> fold_left (os_add1 eqb) l acc = acc ++ l.
  Proof.
    induction l as [|x t IH]; intros acc HN; cbn [fold_left]; [now rewrite app_nil_r|].
    assert (Hx : os_has eqb x acc = false).
    { unfold os_has. destruct (existsb (eqb x) acc) eqn:Ex; [|reflexivity]. exfalso.
      apply existsb_exists in Ex as (y & Hy & Ey). apply eqb_spec in Ey. subst y.
      apply NoDup_remove_2 in HN. apply HN. apply in_or_app. now left. }
    unfold os_add1 at 2. rewrite Hx. rewrite IH by (now rewrite <- app_assoc). now rewrite <- app_assoc.
  Qed.

  Lemma gs_roundtrip (s : list (E * unit)) old : NoDup (gkeys s) ->
    wellformed (gs_marshal enc s) = true /\
    exists s', gs_unmarshal dec eqb ins (gs_marshal enc s) old = Some s' /\
               Permutation (gs_values s') (gs_values s) /\ NoDup (gkeys s').
  Proof.
    intros HN. unfold gs_marshal, gs_unmarshal. split; [apply seq_marshal_wf|]. rewrite seq_decode_marshal.
    eexists. split; [reflexivity|].
    assert (H0 : Rs (K:=E) [] []) by (unfold Rs; cbn; apply Rh_nil).
    destruct (gs_step_refines eqb eqb_spec ins ins_is_ok [] [] (SAdd (gs_values s)) H0) as [HR _].
    cbn [gs_step oset_step fst] in HR. rewrite (fold_os_add1 (gs_values s) []) in HR by exact HN. cbn [app] in HR.
    destruct HR as [HP HN']. split; [|exact HN'].
    apply (Permutation_map fst) in HP. fold (gkeys (lift (gs_values s))) in HP. now rewrite gkeys_lift in HP.
  Qed.

  Lemma ls_roundtrip (s : lset E) old : LInv s ->
    wellformed (ls_marshal enc s) = true /\
    exists s', ls_unmarshal dec eqb ins (ls_marshal enc s) old = Some s' /\ sordering s' = sordering s /\ LInv s'.
  Proof.
    intros (HN & _). unfold ls_marshal, ls_unmarshal. split; [apply seq_marshal_wf|]. rewrite seq_decode_marshal.
    eexists. split; [reflexivity|].
    destruct (ls_step_refines eqb eqb_spec ins ins_is_ok ls0 [] (SAdd (sordering s)) (Rls_nil (K:=E))) as [HR _].
    unfold ls_step in HR. cbn [ls_step_with oset_step fst] in HR. rewrite (fold_os_add1 (sordering s) []) in HR by exact HN.
    cbn [app] in HR. apply Rls_LInv in HR as [HI HO]. split; [exact HO|exact HI].
  Qed.
End SeqProofs.
