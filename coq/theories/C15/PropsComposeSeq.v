(* C15 composition theorems, part 1 (array-backed and linked sequences, heap, circular buffer):
   "the restored container obeys its own property under EVERY further operation list".
   For every content c reached by any operation list ops0 of the container's own model (C07: array list, doubly /
   singly linked list; C08: array / linked queue and stack, binary heap = priority queue, circular buffer),
   UnmarshalJSON (MarshalJSON c) yields a state c' with (i) the same abstract contents and (ii) for every further
   operation list ops the outputs of the reference specification started from those contents (C07 seq_step, C08
   fifo_step / lifo_step / lastn_step / the multiset discipline bag_accept).
   Vocabulary: C07.Model / C08.Model unqualified; J = C15.Model (the JSON code; [enc]/[dec] = encoding/json on one
   element, a premise); al_json / al_of_json / cb_json / cb_of_json are the field renamings between the (elements,
   size, cap) / ring view of C15.Model and the C07 / C08 records (C15/SeqJson.v); the decode target [old] is
   arbitrary for the array list (json.Unmarshal overwrites the slice) and the linked lists (Clear() first), and a
   fresh buffer of the same capacity for the ring (UnmarshalJSON enqueues; it does not clear). *)
From VF Require Import C07.Model C07.Spec C07.ProofsArray C07.ProofsLinked C08.Model C08.Spec C08.ProofsHeap C15.SeqJson C15.ComposeSeq.
From VF Require C15.Model C15.Proofs.
Local Open Scope nat_scope.

Definition codec_lawsZ (enc : Z -> J.jval) (dec : J.jval -> option Z) : Prop :=
  (forall e, dec (enc e) = Some e) /\ (forall e, J.wellformed (enc e) = true).

(* array list *)
Theorem C15_restored_obeys_arraylist : forall enc dec, codec_lawsZ enc dec -> forall ops0 isnil grow old,
  let c := fst (run al_step al0 ops0) in
  let l := fst (run seq_step [] ops0) in
  J.wellformed (J.al_marshal_with enc isnil (al_json c)) = true /\
  exists a', J.al_unmarshal dec grow (J.al_marshal_with enc isnil (al_json c)) old = Some a' /\
    J.al_abs a' = J.al_abs (al_json c) /\ J.al_abs a' = l /\
    forall ops, snd (run al_step (al_of_json a') ops) = snd (run seq_step l ops).
Proof. intros enc dec [H1 H2] ops0 isnil grow old. exact (al_restored_obeys enc dec H1 H2 ops0 isnil grow old). Qed.

(* array queue (delegates to the array list): FIFO *)
Theorem C15_restored_obeys_arrayqueue : forall enc dec, codec_lawsZ enc dec -> forall ops0 isnil grow old,
  let c := fst (qrun aq_step al0 ops0) in
  let l := fst (qrun fifo_step [] ops0) in
  J.wellformed (J.al_marshal_with enc isnil (al_json c)) = true /\
  exists a', J.al_unmarshal dec grow (J.al_marshal_with enc isnil (al_json c)) old = Some a' /\
    J.al_abs a' = J.al_abs (al_json c) /\ J.al_abs a' = l /\
    forall ops, snd (qrun aq_step (al_of_json a') ops) = snd (qrun fifo_step l ops).
Proof. intros enc dec [H1 H2] ops0 isnil grow old. exact (aq_restored_obeys enc dec H1 H2 ops0 isnil grow old). Qed.

(* array stack: the array and the JSON hold the stack bottom first; LIFO *)
Theorem C15_restored_obeys_arraystack : forall enc dec, codec_lawsZ enc dec -> forall ops0 isnil grow old,
  let c := fst (qrun as_step al0 ops0) in
  let l := fst (qrun lifo_step [] ops0) in
  J.wellformed (J.al_marshal_with enc isnil (al_json c)) = true /\
  exists a', J.al_unmarshal dec grow (J.al_marshal_with enc isnil (al_json c)) old = Some a' /\
    J.al_abs a' = J.al_abs (al_json c) /\ J.al_abs a' = rev l /\
    forall ops, snd (qrun as_step (al_of_json a') ops) = snd (qrun lifo_step l ops).
Proof. intros enc dec [H1 H2] ops0 isnil grow old. exact (as_restored_obeys enc dec H1 H2 ops0 isnil grow old). Qed.

(* binary heap and priority queue (Enqueue = Push of one value = QEnq), every total transitive comparator: the decoded
   array is the encoded array, so it satisfies the heap order of C08 (heap_ok); started from any enumeration [bag] of
   its contents, every further operation list is accepted by the multiset discipline of C08 (Pop / Peek return a
   minimum that is in the bag, Pop removes one occurrence, Values() is a permutation, Size / Empty exact), no call
   panics (a panic is not accepted by bag_step), and the heap order is kept *)
Theorem C15_restored_obeys_heap : forall enc dec, codec_lawsZ enc dec -> forall le : Z -> Z -> bool,
  (forall a b, le a b = true \/ le b a = true) -> (forall a b c, le a b = true -> le b c = true -> le a c = true) ->
  forall ops0 isnil grow old,
  let c := fst (qrun (heap_step le) al0 ops0) in
  J.wellformed (J.al_marshal_with enc isnil (al_json c)) = true /\
  exists a', J.al_unmarshal dec grow (J.al_marshal_with enc isnil (al_json c)) old = Some a' /\
    J.al_abs a' = J.al_abs (al_json c) /\
    RA (al_of_json a') (J.al_abs a') /\ heap_ok le (J.al_abs a') /\
    forall bag, Permutation bag (J.al_abs a') -> forall ops,
      bag_accept le bag (combine ops (snd (qrun (heap_step le) (al_of_json a') ops))) = true /\
      exists l', RA (fst (qrun (heap_step le) (al_of_json a') ops)) l' /\ heap_ok le l'.
Proof.
  intros enc dec [H1 H2] le T Tr ops0 isnil grow old. exact (heap_restored_obeys enc dec H1 H2 le T Tr ops0 isnil grow old).
Qed.

(* doubly (dbl = true) and singly (dbl = false) linked list: Marshal = json.Marshal(Values()), Unmarshal = Clear(); Add(decoded...)
   on the pointer-structure model of C07 (ll_marshal7 / ll_unmarshal7) *)
Theorem C15_restored_obeys_linkedlist : forall enc dec, codec_lawsZ enc dec -> forall dbl ops0 old,
  let c := fst (run (ll_step dbl) ll0 ops0) in
  let l := fst (run seq_step [] ops0) in
  exists j, ll_marshal7 enc c = Ok j /\ J.wellformed j = true /\
  exists c', ll_unmarshal7 dec j old = Some (Ok c') /\ ll_values c' = ll_values c /\ ll_values c' = Ok l /\
    forall ops, snd (run (ll_step dbl) c' ops) = snd (run seq_step l ops).
Proof. intros enc dec [H1 H2] dbl ops0 old. exact (ll_restored_obeys enc dec H1 H2 dbl ops0 old). Qed.

(* linked-list queue and stack (both delegate to the singly linked list) *)
Theorem C15_restored_obeys_linkedlistqueue : forall enc dec, codec_lawsZ enc dec -> forall ops0 old,
  let c := fst (qrun lq_step ll0 ops0) in
  let l := fst (qrun fifo_step [] ops0) in
  exists j, ll_marshal7 enc c = Ok j /\ J.wellformed j = true /\
  exists c', ll_unmarshal7 dec j old = Some (Ok c') /\ ll_values c' = ll_values c /\ ll_values c' = Ok l /\
    forall ops, snd (qrun lq_step c' ops) = snd (qrun fifo_step l ops).
Proof. intros enc dec [H1 H2] ops0 old. exact (lq_restored_obeys enc dec H1 H2 ops0 old). Qed.
Theorem C15_restored_obeys_linkedliststack : forall enc dec, codec_lawsZ enc dec -> forall ops0 old,
  let c := fst (qrun ls_step ll0 ops0) in
  let l := fst (qrun lifo_step [] ops0) in
  exists j, ll_marshal7 enc c = Ok j /\ J.wellformed j = true /\
  exists c', ll_unmarshal7 dec j old = Some (Ok c') /\ ll_values c' = ll_values c /\ ll_values c' = Ok l /\
    forall ops, snd (qrun ls_step c' ops) = snd (qrun lifo_step l ops).
Proof. intros enc dec [H1 H2] ops0 old. exact (ls_restored_obeys enc dec H1 H2 ops0 old). Qed.

(* circular buffer of every capacity >= 1 (Dequeue as repaired by 0021: no zero-value test), decoded into a fresh
   buffer of the same capacity: the last cap elements, oldest first, and the bounded-FIFO reference from then on *)
Theorem C15_restored_obeys_ring : forall enc dec, codec_lawsZ enc dec -> forall cap, 1 <= cap -> forall ops0,
  let c := fst (qrun cb_step (cb0 cap) ops0) in
  let l := fst (qrun (lastn_step cap) [] ops0) in
  J.wellformed (J.cb_marshal enc 0%Z (cb_json c)) = true /\
  exists q', J.cb_unmarshal dec 0%Z no_zero_test (J.cb_marshal enc 0%Z (cb_json c)) (J.cb_fresh 0%Z cap) = Some q' /\
    J.cb_values 0%Z q' = J.cb_values 0%Z (cb_json c) /\ J.cb_values 0%Z q' = l /\
    forall ops, snd (qrun cb_step (cb_of_json q') ops) = snd (qrun (lastn_step cap) l ops).
Proof. intros enc dec [H1 H2] cap Hc ops0. exact (cb_restored_obeys enc dec H1 H2 cap Hc ops0). Qed.

(* the same for ANY pair of capacities (document written by a ring of capacity cap0, decoded into a fresh ring of
   capacity cap) and for a document written by an array list: the restored ring holds the last min(cap, n) values of
   the source, oldest first, and is the bounded FIFO of capacity cap from then on *)
Theorem C15_restored_obeys_ring_any_capacity : forall enc dec, codec_lawsZ enc dec -> forall cap0 cap, 1 <= cap0 -> 1 <= cap -> forall ops0,
  let c := fst (qrun cb_step (cb0 cap0) ops0) in
  let l := fst (qrun (lastn_step cap0) [] ops0) in
  exists q', J.cb_unmarshal dec 0%Z no_zero_test (J.cb_marshal enc 0%Z (cb_json c)) (J.cb_fresh 0%Z cap) = Some q' /\
    J.cb_values 0%Z q' = skipn (length l - cap) l /\
    forall ops, snd (qrun cb_step (cb_of_json q') ops) = snd (qrun (lastn_step cap) (skipn (length l - cap) l) ops).
Proof. intros enc dec [H1 H2] cap0 cap Hc0 Hc ops0. exact (cb_restored_obeys_any enc dec H1 cap0 cap Hc0 Hc ops0). Qed.
Theorem C15_restored_obeys_ring_from_arraylist : forall enc dec, codec_lawsZ enc dec -> forall cap, 1 <= cap -> forall ops0,
  let c := fst (run al_step al0 ops0) in
  let l := fst (run seq_step [] ops0) in
  exists q', J.cb_unmarshal dec 0%Z no_zero_test (J.al_marshal enc (al_json c)) (J.cb_fresh 0%Z cap) = Some q' /\
    J.cb_values 0%Z q' = skipn (length l - cap) l /\
    forall ops, snd (qrun cb_step (cb_of_json q') ops) = snd (qrun (lastn_step cap) (skipn (length l - cap) l) ops).
Proof. intros enc dec [H1 H2] cap Hc ops0. exact (al_into_ring_obeys enc dec H1 cap Hc ops0). Qed.

(* non-vacuity: a heap built by a bulk push and two pops, marshalled, decoded into a list that held something else,
   keeps popping minima; a wrapped ring of capacity 2 comes back in order *)
Definition encZ (z : Z) : J.jval := J.JNum z.
Definition decZ (j : J.jval) : option Z := match j with J.JNum z => Some z | _ => None end.
Example C15_compose_seq_nonvacuous :
  codec_lawsZ encZ decZ /\
  (let c := fst (qrun (heap_step le_int) al0 [QPush [5; 3; 9; 1; 7]%Z; QDeq]) in
   match J.al_unmarshal decZ (fun n => n + 4) (J.al_marshal encZ (al_json c)) (al_json (fst (run al_step al0 [OAdd [8; 8; 8]%Z]))) with
   | Some a' => J.al_abs a' = [3; 5; 9; 7]%Z /\
                snd (qrun (heap_step le_int) (al_of_json a') [QDeq; QEnq 4%Z; QDeq; QDeq; QSize])
                = [RGet 3%Z true; RUnit; RGet 4%Z true; RGet 5%Z true; RInt 2%Z]
   | None => False
   end) /\
  (let c := fst (qrun cb_step (cb0 2) [QEnq 1%Z; QEnq 2%Z; QEnq 3%Z]) in
   match J.cb_unmarshal decZ 0%Z no_zero_test (J.cb_marshal encZ 0%Z (cb_json c)) (J.cb_fresh 0%Z 2) with
   | Some q' => snd (qrun cb_step (cb_of_json q') [QValues; QEnq 4%Z; QDeq]) = [RList [2; 3]%Z; RUnit; RGet 3%Z true]
   | None => False
   end).
Proof. split; [split; reflexivity|]. split; vm_compute; repeat split; reflexivity. Qed.

Print Assumptions C15_restored_obeys_arraylist.
Print Assumptions C15_restored_obeys_arrayqueue.
Print Assumptions C15_restored_obeys_arraystack.
Print Assumptions C15_restored_obeys_heap.
Print Assumptions C15_restored_obeys_linkedlist.
Print Assumptions C15_restored_obeys_linkedlistqueue.
Print Assumptions C15_restored_obeys_linkedliststack.
Print Assumptions C15_restored_obeys_ring.
Print Assumptions C15_restored_obeys_ring_any_capacity.
Print Assumptions C15_restored_obeys_ring_from_arraylist.
