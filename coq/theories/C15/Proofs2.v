(* C15 proofs, part 2: object-like JSON (hash / tree maps, bidi maps). *)
From VF Require Import Common.Base C09.Model C09.Spec C09.Proofs C09.Proofs2 C15.Model C15.Proofs.
From Coq Require Import Sorted.

Lemma NoDup_app_l {A} (l l' : list A) : NoDup (l ++ l') -> NoDup l.
Proof.
  induction l as [|a l IH]; cbn [app]; intros H; [constructor|].
  inversion H as [|x t Hx HN Ex]; subst. constructor; [|now apply IH]. intros Hin. apply Hx. apply in_or_app. now left.
Qed.
Lemma NoDup_app_r {A} (l l' : list A) : NoDup (l ++ l') -> NoDup l'.
Proof. induction l as [|a l IH]; cbn [app]; intros H; [exact H|]. inversion H; subst. now apply IH. Qed.

Section ObjProofs.
  Context {K V : Type}.
  Variable keqb : K -> K -> bool.
  Hypothesis keqb_spec : forall a b, keqb a b = true <-> a = b.
  Variable kname : K -> str.
  Variable kofname : str -> option K.
  Hypothesis kofname_kname : forall k, kofname (kname k) = Some k.
  Variable encv : V -> jval.
  Variable decv : jval -> option V.
  Hypothesis decv_encv : forall v, decv (encv v) = Some v.
  Hypothesis encv_wf : forall v, wellformed (encv v) = true.
  Variable jsort : list (jval * jval) -> list (jval * jval).
  Hypothesis jsort_perm : forall l, Permutation (jsort l) l.
  Variable iter : list (K * V) -> list (K * V).
  Hypothesis iter_perm : forall l, Permutation (iter l) l.
  Variable gins : K -> V -> list (K * V) -> list (K * V).
  Hypothesis gins_ok : ins_ok gins.
  Variable ins : K -> V -> list (K * V) -> list (K * V).
  Hypothesis ins_is_ok : ins_ok ins.

  Lemma put_all_perm (ins0 : K -> V -> list (K * V) -> list (K * V)) : ins_ok ins0 -> forall (l acc : list (K * V)), NoDup (gkeys acc ++ map fst l) ->
    Permutation (put_all keqb ins0 l acc) (acc ++ l) /\ NoDup (gkeys (put_all keqb ins0 l acc)).
  Proof.
    intros Hi. induction l as [|[k v] t IH]; intros acc HN; unfold put_all in *; cbn [fold_left map fst snd].
    - rewrite !app_nil_r in *. split; [apply Permutation_refl|exact HN].
    - cbn [map fst] in HN.
      assert (HNa : NoDup (gkeys acc)) by (eapply NoDup_app_l; exact HN).
      assert (Hk : ~ In k (gkeys acc)) by (intros H; apply (NoDup_remove_2 _ _ _ HN); apply in_or_app; now left).
      pose proof (gput_perm keqb keqb_spec ins0 k v acc Hi HNa) as HP. rewrite (gdel_notin keqb keqb_spec k acc Hk) in HP.
      assert (HN' : NoDup (gkeys (gput keqb ins0 k v acc) ++ map fst t)).
      { eapply Permutation_NoDup; [|exact HN]. eapply perm_trans; [apply Permutation_sym, Permutation_middle|].
        change (k :: gkeys acc ++ map fst t) with ((k :: gkeys acc) ++ map fst t).
        apply Permutation_app_tail. apply Permutation_sym. apply (Permutation_map fst) in HP. exact HP. }
      destruct (IH _ HN') as [H1 H2]. split; [|exact H2].
      eapply perm_trans; [exact H1|]. eapply perm_trans; [apply Permutation_app_tail; exact HP|].
      cbn [app]. apply Permutation_middle.
  Qed.

  Lemma dec_member_member kv : dec_member kofname decv (member kname encv kv) = Some kv.
  Proof. destruct kv as [k v]. unfold dec_member, member. cbn [fst snd]. now rewrite kofname_kname, decv_encv. Qed.

  Lemma obj_decode_marshal m : exists l, obj_decode kofname decv (obj_marshal kname encv jsort m) = Some l /\ Permutation m l.
  Proof.
    unfold obj_decode, obj_marshal.
    apply (traverse_perm (dec_member kofname decv) (map (member kname encv) m) (jsort (map (member kname encv) m)) m).
    - apply Permutation_sym, jsort_perm.
    - apply traverse_map. apply dec_member_member.
  Qed.

  Lemma obj_marshal_wf m : wellformed (obj_marshal kname encv jsort m) = true.
  Proof.
    unfold obj_marshal. cbn [wellformed]. eapply forallb_perm; [apply Permutation_sym, jsort_perm|].
    apply forallb_forall. intros p Hp. apply in_map_iff in Hp as ([k v] & <- & _). unfold member. cbn [fst snd]. apply encv_wf.
  Qed.

  (* hashmap; (abstract) red-black / AVL / B-tree and treemap with [ins := ins_sorted] *)
  Lemma gm_roundtrip m old : NoDup (gkeys m) ->
    wellformed (gm_marshal kname encv jsort m) = true /\
    exists m', gm_unmarshal keqb kofname decv iter gins ins (gm_marshal kname encv jsort m) old = Some m' /\
               Permutation m' m /\ NoDup (gkeys m').
  Proof.
    intros HN. split; [apply obj_marshal_wf|]. unfold gm_unmarshal, gm_marshal.
    destruct (obj_decode_marshal m) as (l & -> & HP). eexists. split; [reflexivity|].
    assert (HNl : NoDup (map fst l)) by (eapply Permutation_NoDup; [apply Permutation_map; exact HP|exact HN]).
    destruct (put_all_perm gins gins_ok l [] HNl) as [H1 H2]. cbn [app] in H1. fold (to_gomap keqb gins l) in H1, H2.
    pose proof (iter_perm (to_gomap keqb gins l)) as H3.
    assert (HNi : NoDup (map fst (iter (to_gomap keqb gins l)))).
    { eapply Permutation_NoDup; [apply Permutation_sym, Permutation_map; exact H3|exact H2]. }
    destruct (put_all_perm ins ins_is_ok (iter (to_gomap keqb gins l)) [] HNi) as [H4 H5]. cbn [app] in H4.
    split; [|exact H5]. eapply perm_trans; [exact H4|]. eapply perm_trans; [exact H3|]. eapply perm_trans; [exact H1|].
    now apply Permutation_sym.
  Qed.

  (* ----- bidi maps ----- *)
  Variable veqb : V -> V -> bool.
  Hypothesis veqb_spec : forall a b, veqb a b = true <-> a = b.
  Variable vins : V -> K -> list (V * K) -> list (V * K).
  Hypothesis vins_ok : ins_ok vins.

  Lemma fold_b_put l : forall acc, NoDup (map fst (acc ++ l)) -> NoDup (map snd (acc ++ l)) ->
    fold_left (fun b kv => b_put keqb veqb (fst kv) (snd kv) b) l acc = acc ++ l.
  Proof.
    induction l as [|[k v] t IH]; intros acc HK HV; cbn [fold_left fst snd]; [now rewrite app_nil_r|].
    assert (E : b_put keqb veqb k v acc = acc ++ [(k, v)]).
    { unfold b_put. f_equal. apply filter_id. intros p Hp. apply andb_true_iff. split; apply negb_true_iff.
      - apply (eqb_neq keqb keqb_spec). intros ->. rewrite map_app in HK. cbn [map fst] in HK.
        apply (NoDup_remove_2 _ _ _ HK). apply in_or_app. left. now apply in_map.
      - apply (eqb_neq veqb veqb_spec). intros ->. rewrite map_app in HV. cbn [map snd] in HV.
        apply (NoDup_remove_2 _ _ _ HV). apply in_or_app. left. now apply in_map. }
    rewrite E. rewrite IH; rewrite <- app_assoc; cbn [app]; auto.
  Qed.

  Lemma fold_hb_put l : forall s b, Rb s b ->
    Rb (fold_left (fun s kv => hb_put keqb veqb ins vins (fst kv) (snd kv) s) l s)
       (fold_left (fun b kv => b_put keqb veqb (fst kv) (snd kv) b) l b).
  Proof.
    induction l as [|[k v] t IH]; intros s b HR; cbn [fold_left fst snd]; [exact HR|].
    apply IH. now apply (Rb_put keqb veqb keqb_spec veqb_spec ins vins ins_is_ok vins_ok).
  Qed.

  Lemma hb_roundtrip s b old : Rb s b ->
    wellformed (hb_marshal kname encv jsort s) = true /\
    exists s', hb_unmarshal keqb kofname decv iter gins ins veqb vins (hb_marshal kname encv jsort s) old = Some s' /\
               Bijection keqb veqb s' /\ Permutation (fwd s') (fwd s) /\ Permutation (inv s') (inv s).
  Proof.
    intros HR. split; [apply obj_marshal_wf|]. unfold hb_unmarshal, hb_marshal.
    destruct (Rb_nodup s b HR) as [HNf _]. pose proof HR as (HF & HI & HK & HV).
    destruct (obj_decode_marshal (fwd s)) as (l & -> & HP). eexists. split; [reflexivity|].
    assert (HNl : NoDup (map fst l)) by (eapply Permutation_NoDup; [apply Permutation_map; exact HP|exact HNf]).
    destruct (put_all_perm gins gins_ok l [] HNl) as [H1 H2]. cbn [app] in H1. fold (to_gomap keqb gins l) in H1, H2.
    pose proof (iter_perm (to_gomap keqb gins l)) as H3.
    set (l' := iter (to_gomap keqb gins l)) in *.
    assert (Hlb : Permutation l' b).
    { eapply perm_trans; [exact H3|]. eapply perm_trans; [exact H1|]. eapply perm_trans; [apply Permutation_sym; exact HP|exact HF]. }
    assert (HK' : NoDup (map fst l')) by (eapply Permutation_NoDup; [apply Permutation_sym, Permutation_map; exact Hlb|exact HK]).
    assert (HV' : NoDup (map snd l')) by (eapply Permutation_NoDup; [apply Permutation_sym, Permutation_map; exact Hlb|exact HV]).
    pose proof (fold_hb_put l' hb0 [] (Rb_nil (K:=K) (V:=V))) as HR'. rewrite (fold_b_put l' [] HK' HV') in HR'. cbn [app] in HR'.
    split; [eapply Rb_bijection; eassumption|]. destruct HR' as (HF' & HI' & _). split.
    - eapply perm_trans; [exact HF'|]. eapply perm_trans; [exact Hlb|now apply Permutation_sym].
    - eapply perm_trans; [exact HI'|]. eapply perm_trans; [|apply Permutation_sym; exact HI]. unfold flip. now apply Permutation_map.
  Qed.
End ObjProofs.

(* the abstract tree containers come back sorted *)
Section TreeSorted.
  Context {K V : Type}.
  Variable keqb : K -> K -> bool.
  Hypothesis keqb_spec : forall a b, keqb a b = true <-> a = b.
  Variable ltb : K -> K -> bool.
  Hypothesis ltb_trans : forall a b c, ltb a b = true -> ltb b c = true -> ltb a c = true.
  Hypothesis ltb_total : forall a b, ltb a b = false -> a <> b -> ltb b a = true.

  Lemma put_all_sorted (l : list (K * V)) : forall acc, SortedKeys ltb acc -> SortedKeys ltb (put_all keqb (ins_sorted ltb) l acc).
  Proof.
    induction l as [|[k v] t IH]; intros acc HS; unfold put_all in *; cbn [fold_left fst snd]; [exact HS|].
    apply IH. now apply (sorted_gput keqb keqb_spec ltb ltb_trans ltb_total).
  Qed.
  Lemma gm_unmarshal_sorted kofname decv iter gins j old (m' : list (K * V)) :
    gm_unmarshal keqb kofname decv iter gins (ins_sorted ltb) j old = Some m' -> SortedKeys ltb m'.
  Proof.
    unfold gm_unmarshal. destruct (obj_decode kofname decv j); [|discriminate]. intros H. injection H as <-.
    apply put_all_sorted. unfold SortedKeys. cbn. constructor.
  Qed.
End TreeSorted.
