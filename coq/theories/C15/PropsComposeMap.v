(* C15 composition theorems, part 2 (hash / linked maps and sets, bidi maps, and the tree-backed containers on the real
   tree models of C01): "the restored container obeys its own property under EVERY further operation list".
   For every content c reached by any operation list ops0 of the container's own model, UnmarshalJSON (MarshalJSON c)
   yields c' with (i) the same abstract contents and (ii) for every further operation list ops the outputs of the
   reference specification started from those contents:
     C09 (hashmap, hashset, linkedhashmap, linkedhashset, hashbidimap): omap_step / oset_step / bij_step - equal outputs
         for the linked containers, up to the order of Keys() / Values() (mout_equiv / sout_equiv / bout_equiv) for the
         unordered ones; [ins] is any insertion place, so the theorems also cover the sorted-insertion tables;
     C01 (red-black tree, AVL tree, B-tree of every order >= 3, treemap, treeset, treebidimap): sm_step / smx_step /
         sset_step / bij_step of C01/SortedMap.v, equal outputs.  The tree decoders re-insert through Put (C15/TreeJson.v),
         so the restored tree is a state the C01 / C02 theorems speak about.  S1 = C01.SortedMap, RB1 = C01.RB,
         T1 = C01.Containers; cmp_eqb cmp a b := (cmp a b =? 0), cmp_ltb cmp a b := (cmp a b <? 0).
   encoding/json enters through the premises, as in C15/Props.v. *)
From VF Require Import Common.Base C09.Model C09.Spec C09.Proofs C09.Proofs2 C09.TreeModel C09.TreeBridge
  C15.Model C15.TreeJson C15.ComposeHash C15.ComposeTree.
From VF Require C01.Order C01.SortedMap C01.RB C01.AVL C01.BTree C01.Containers C01.ContainersProofs C02.Inv C02.Props.
From Coq Require Import Sorted.

Definition codec_laws {E} (enc : E -> jval) (dec : jval -> option E) : Prop :=
  (forall e, dec (enc e) = Some e) /\ (forall e, wellformed (enc e) = true).
Definition inserts {K V} (ins : K -> V -> list (K * V) -> list (K * V)) : Prop :=
  forall k v m, Permutation (ins k v m) ((k, v) :: m).
Definition decides {A} (eqb : A -> A -> bool) : Prop := forall a b, eqb a b = true <-> a = b.
Definition CmpLaws {K} (cmp : K -> K -> Z) : Prop := VF.C01.Order.CmpLaws cmp.
Definition separates {K} (cmp : K -> K -> Z) : Prop := forall a b, cmp a b = 0%Z -> a = b.
(* the encoding/json parameters of an object-like container *)
Definition obj_codec {K V} (kname : K -> str) (kofname : str -> option K) (encv : V -> jval) (decv : jval -> option V)
           (jsort : list (jval * jval) -> list (jval * jval)) (iter : list (K * V) -> list (K * V))
           (gins : K -> V -> list (K * V) -> list (K * V)) : Prop :=
  (forall k, kofname (kname k) = Some k) /\ codec_laws encv decv /\ (forall l, Permutation (jsort l) l) /\
  (forall l, Permutation (iter l) l) /\ inserts gins.

(* ---------------- C09 families ---------------- *)
Theorem C15_restored_obeys_hashset : forall E (enc : E -> jval) dec (eqb : E -> E -> bool) ins,
  codec_laws enc dec -> decides eqb -> inserts ins -> forall ops0 old,
  let c := fst (run (gs_step eqb ins) [] ops0) in
  let o := fst (run (oset_step eqb) [] ops0) in
  wellformed (gs_marshal enc c) = true /\
  exists c', gs_unmarshal dec eqb ins (gs_marshal enc c) old = Some c' /\
    Permutation (gs_values c') (gs_values c) /\ Permutation (gs_values c') o /\ NoDup (gs_values c') /\
    forall ops, Forall2 (sout_equiv (K:=E)) (snd (run (gs_step eqb ins) c' ops)) (snd (run (oset_step eqb) o ops)).
Proof. intros E enc dec eqb ins [H1 H2] He Hi ops0 old. exact (gs_restored_obeys enc dec H1 H2 eqb He ins Hi ops0 old). Qed.

Theorem C15_restored_obeys_linkedhashset : forall E (enc : E -> jval) dec (eqb : E -> E -> bool) ins,
  codec_laws enc dec -> decides eqb -> inserts ins -> forall ops0 old,
  let c := fst (run (ls_step eqb ins) ls0 ops0) in
  let o := fst (run (oset_step eqb) [] ops0) in
  wellformed (ls_marshal enc c) = true /\
  exists c', ls_unmarshal dec eqb ins (ls_marshal enc c) old = Some c' /\
    sordering c' = sordering c /\ sordering c' = o /\ LInv c' /\
    forall ops, snd (run (ls_step eqb ins) c' ops) = snd (run (oset_step eqb) o ops).
Proof. intros E enc dec eqb ins [H1 H2] He Hi ops0 old. exact (ls_restored_obeys enc dec H1 H2 eqb He ins Hi ops0 old). Qed.

Theorem C15_restored_obeys_hashmap : forall K V (keqb : K -> K -> bool) kname kofname (encv : V -> jval) decv jsort iter gins ins,
  decides keqb -> obj_codec kname kofname encv decv jsort iter gins -> inserts ins -> forall ops0 old,
  let c := fst (run (hm_step keqb ins) [] ops0) in
  let o := fst (run (omap_step keqb) [] ops0) in
  wellformed (gm_marshal kname encv jsort c) = true /\
  exists c', gm_unmarshal keqb kofname decv iter gins ins (gm_marshal kname encv jsort c) old = Some c' /\
    Permutation c' c /\ Permutation c' o /\ NoDup (gkeys c') /\
    forall ops, Forall2 (mout_equiv (K:=K) (V:=V)) (snd (run (hm_step keqb ins) c' ops)) (snd (run (omap_step keqb) o ops)).
Proof.
  intros K V keqb kname kofname encv decv jsort iter gins ins Hk (Hn & [H1 H2] & Hj & Hit & Hg) Hi ops0 old.
  exact (gm_restored_obeys keqb Hk kname kofname Hn encv decv H1 H2 jsort Hj iter Hit gins Hg ins Hi ops0 old).
Qed.

(* hashbidimap: the same pairs, a bijection again - and after every further operation list *)
Theorem C15_restored_obeys_hashbidimap : forall K V (keqb : K -> K -> bool) (veqb : V -> V -> bool) kname kofname (encv : V -> jval) decv
    jsort iter gins ins vins,
  decides keqb -> decides veqb -> obj_codec kname kofname encv decv jsort iter gins -> inserts ins -> inserts vins -> forall ops0 old,
  let c := fst (run (hb_step keqb veqb ins vins) hb0 ops0) in
  let b := fst (run (bij_step keqb veqb) [] ops0) in
  wellformed (hb_marshal kname encv jsort c) = true /\
  exists c', hb_unmarshal keqb kofname decv iter gins ins veqb vins (hb_marshal kname encv jsort c) old = Some c' /\
    Permutation (fwd c') (fwd c) /\ Permutation (inv c') (inv c) /\ Permutation (fwd c') b /\ Bijection keqb veqb c' /\
    forall ops, Bijection keqb veqb (fst (run (hb_step keqb veqb ins vins) c' ops)) /\
                Forall2 (bout_equiv (K:=K) (V:=V)) (snd (run (hb_step keqb veqb ins vins) c' ops)) (snd (run (bij_step keqb veqb) b ops)).
Proof.
  intros K V keqb veqb kname kofname encv decv jsort iter gins ins vins Hk Hv (Hn & [H1 H2] & Hj & Hit & Hg) Hi Hvi ops0 old.
  exact (hb_restored_obeys keqb Hk kname kofname Hn encv decv H1 H2 jsort Hj iter Hit gins Hg ins Hi veqb Hv vins Hvi ops0 old).
Qed.

(* linkedhashmap (writer repaired by 0025, order recovery by 0026): the same ordered map, equal outputs *)
Theorem C15_restored_obeys_linkedhashmap : forall K V (keqb : K -> K -> bool) kofname (encv : V -> jval) decv iter gins ins kjson ktext
    (zeroV : V) seqb sortk,
  decides keqb -> decides seqb -> codec_laws encv decv -> (forall l, Permutation (iter l) l) -> inserts gins -> inserts ins ->
  (forall f l, Permutation (sortk f l) l) -> (forall f l, StronglySorted (fun a b : K => f a <= f b) (sortk f l)) ->
  (forall k, kofname (lhm_lookup_name kjson ktext k) = Some k) -> forall ops0 old,
  let c := fst (run (lhm_step keqb ins zeroV) lhm0 ops0) in
  let o := fst (run (omap_step keqb) [] ops0) in
  wellformed (lhm_marshal keqb encv kjson ktext zeroV c) = true /\
  exists c', lhm_unmarshal keqb kofname decv iter gins ins kjson ktext zeroV seqb sortk
               (lhm_marshal keqb encv kjson ktext zeroV c) old = Some c' /\
    ordering c' = ordering c /\ Rl c' o /\
    forall ops, snd (run (lhm_step keqb ins zeroV) c' ops) = snd (run (omap_step keqb) o ops).
Proof.
  intros K V keqb kofname encv decv iter gins ins kjson ktext zeroV seqb sortk Hk Hs [H1 H2] Hit Hg Hi Hp Hso Hn ops0 old.
  exact (lhm_restored_obeys keqb Hk kofname encv decv H1 H2 iter Hit gins Hg ins Hi kjson ktext zeroV seqb Hs sortk Hp Hso Hn ops0 old).
Qed.

(* ---------------- C01 families: the real trees ---------------- *)
(* red-black tree: source = any reachable tree, decode target = any reachable tree (Clear() first) *)
Theorem C15_restored_obeys_rbtree : forall K V (cmp : K -> K -> Z) (zeroV : V) kname kofname (encv : V -> jval) decv jsort iter gins,
  CmpLaws cmp -> separates cmp -> obj_codec kname kofname encv decv jsort iter gins -> forall ops0 opsd,
  let step := RB1.step K V cmp zeroV in
  let c := fst (S1.run step (RB1.empty K V) ops0) in
  let l := fst (S1.run (S1.sm_step K V cmp zeroV) [] ops0) in
  let old := fst (S1.run step (RB1.empty K V) opsd) in
  wellformed (tree_marshal step kname encv jsort c) = true /\
  exists c', tree_unmarshal step (cmp_eqb cmp) kofname decv iter gins (tree_marshal step kname encv jsort c) old = Some c' /\
    tree_entries step c' = tree_entries step c /\ tree_entries step c' = l /\
    forall ops, snd (S1.run step c' ops) = snd (S1.run (S1.sm_step K V cmp zeroV) l ops).
Proof.
  intros K V cmp zeroV kname kofname encv decv jsort iter gins O sep (Hn & [H1 H2] & Hj & Hit & Hg) ops0 opsd.
  exact (rb_restored_obeys O sep zeroV kname kofname Hn encv decv H1 H2 jsort Hj iter Hit gins Hg ops0 opsd).
Qed.

(* treemap: the same red-black tree behind the treemap wrapper (Min / Max / Floor / Ceiling return zero values) *)
Theorem C15_restored_obeys_treemap : forall K V (cmp : K -> K -> Z) (zeroK : K) (zeroV : V) kname kofname (encv : V -> jval) decv jsort iter gins,
  CmpLaws cmp -> separates cmp -> obj_codec kname kofname encv decv jsort iter gins -> forall ops0 opsd,
  let step := RB1.step K V cmp zeroV in
  let mstep := T1.treemap_step K V cmp zeroK zeroV in
  let c := fst (S1.run mstep (RB1.empty K V) ops0) in
  let l := fst (S1.run (S1.smx_step K V cmp zeroV zeroK) [] ops0) in
  let old := fst (S1.run mstep (RB1.empty K V) opsd) in
  wellformed (tree_marshal step kname encv jsort c) = true /\
  exists c', tree_unmarshal step (cmp_eqb cmp) kofname decv iter gins (tree_marshal step kname encv jsort c) old = Some c' /\
    tree_entries step c' = tree_entries step c /\ tree_entries step c' = l /\
    forall ops, snd (S1.run mstep c' ops) = snd (S1.run (S1.smx_step K V cmp zeroV zeroK) l ops).
Proof.
  intros K V cmp zeroK zeroV kname kofname encv decv jsort iter gins O sep (Hn & [H1 H2] & Hj & Hit & Hg) ops0 opsd.
  exact (tmap_restored_obeys O sep zeroK zeroV kname kofname Hn encv decv H1 H2 jsort Hj iter Hit gins Hg ops0 opsd).
Qed.

Theorem C15_restored_obeys_avltree : forall K V (cmp : K -> K -> Z) (zeroV : V) kname kofname (encv : V -> jval) decv jsort iter gins,
  CmpLaws cmp -> separates cmp -> obj_codec kname kofname encv decv jsort iter gins -> forall ops0 opsd,
  let step := VF.C01.AVL.step K V cmp zeroV in
  let c := fst (S1.run step (VF.C01.AVL.empty K V) ops0) in
  let l := fst (S1.run (S1.sm_step K V cmp zeroV) [] ops0) in
  let old := fst (S1.run step (VF.C01.AVL.empty K V) opsd) in
  wellformed (tree_marshal step kname encv jsort c) = true /\
  exists c', tree_unmarshal step (cmp_eqb cmp) kofname decv iter gins (tree_marshal step kname encv jsort c) old = Some c' /\
    tree_entries step c' = tree_entries step c /\ tree_entries step c' = l /\
    forall ops, snd (S1.run step c' ops) = snd (S1.run (S1.sm_step K V cmp zeroV) l ops).
Proof.
  intros K V cmp zeroV kname kofname encv decv jsort iter gins O sep (Hn & [H1 H2] & Hj & Hit & Hg) ops0 opsd.
  exact (avl_restored_obeys O sep zeroV kname kofname Hn encv decv H1 H2 jsort Hj iter Hit gins Hg ops0 opsd).
Qed.

(* B-tree of every order m >= 3; operation lists of operations the B-tree has (bt_op: no Floor / Ceiling) *)
Theorem C15_restored_obeys_btree : forall K V (cmp : K -> K -> Z) (zeroV : V) kname kofname (encv : V -> jval) decv jsort iter gins,
  CmpLaws cmp -> separates cmp -> obj_codec kname kofname encv decv jsort iter gins -> forall m, (3 <= m)%nat ->
  forall ops0 opsd, Forall S1.bt_op ops0 -> Forall S1.bt_op opsd ->
  let step := VF.C01.BTree.step K V cmp zeroV m in
  let c := fst (S1.run step (VF.C01.BTree.empty K V) ops0) in
  let l := fst (S1.run (S1.sm_step K V cmp zeroV) [] ops0) in
  let old := fst (S1.run step (VF.C01.BTree.empty K V) opsd) in
  wellformed (tree_marshal step kname encv jsort c) = true /\
  exists c', tree_unmarshal step (cmp_eqb cmp) kofname decv iter gins (tree_marshal step kname encv jsort c) old = Some c' /\
    tree_entries step c' = tree_entries step c /\ tree_entries step c' = l /\
    forall ops, Forall S1.bt_op ops -> snd (S1.run step c' ops) = snd (S1.run (S1.sm_step K V cmp zeroV) l ops).
Proof.
  intros K V cmp zeroV kname kofname encv decv jsort iter gins O sep (Hn & [H1 H2] & Hj & Hit & Hg) m Hm ops0 opsd H0 Hd.
  exact (bt_restored_obeys O sep zeroV kname kofname Hn encv decv H1 H2 jsort Hj iter Hit gins Hg m Hm ops0 opsd H0 Hd).
Qed.

(* on EVERY document j (not only the image of MarshalJSON) the tree-level decoders and the sorted-insertion-table decoder
   of C15/Model.v - the one C15/Check.v evaluates against the real UnmarshalJSON - fail together or succeed together, and
   then the restored tree enumerates exactly the table the abstract decoder returns (decode target: any reachable tree) *)
Theorem C15_tree_decoders_agree : forall K V (cmp : K -> K -> Z) (zeroV : V) kofname (decv : jval -> option V) iter gins,
  CmpLaws cmp -> separates cmp -> forall j oldl,
  let agree {S} (step : S -> S1.op K V -> S * S1.out K V) (old : S) :=
    match tree_unmarshal step (cmp_eqb cmp) kofname decv iter gins j old,
          gm_unmarshal (cmp_eqb cmp) kofname decv iter gins (ins_sorted (cmp_ltb cmp)) j oldl with
    | Some c', Some m' => tree_entries step c' = m'
    | None, None => True
    | _, _ => False
    end in
  (forall opsd, agree (RB1.step K V cmp zeroV) (fst (S1.run (RB1.step K V cmp zeroV) (RB1.empty K V) opsd))) /\
  (forall opsd, agree (VF.C01.AVL.step K V cmp zeroV) (fst (S1.run (VF.C01.AVL.step K V cmp zeroV) (VF.C01.AVL.empty K V) opsd))) /\
  (forall m opsd, (3 <= m)%nat -> Forall S1.bt_op opsd ->
     agree (VF.C01.BTree.step K V cmp zeroV m) (fst (S1.run (VF.C01.BTree.step K V cmp zeroV m) (VF.C01.BTree.empty K V) opsd))).
Proof.
  intros K V cmp zeroV kofname decv iter gins O sep j oldl agree. split; [|split].
  - intros opsd. exact (rb_decoder_agrees O sep zeroV kofname decv iter gins j opsd oldl).
  - intros opsd. exact (avl_decoder_agrees O sep zeroV kofname decv iter gins j opsd oldl).
  - intros m opsd Hm Hd. exact (bt_decoder_agrees O sep zeroV kofname decv iter gins m Hm j opsd oldl Hd).
Qed.

(* the restored tree is a REACHABLE state (decode target reached by opsd: the restored tree is the one reached by
   opsd ++ Clear :: Put ... Put), on every document the decoder accepts - so the shape invariants of C02 hold of it
   verbatim: red-black colouring and black height, AVL balance factors, B-tree node fill and leaf depth *)
Theorem C15_restored_tree_invariants : forall K V (cmp : K -> K -> Z) (zeroV : V) keqb kofname (decv : jval -> option V) iter gins,
  CmpLaws cmp -> forall j,
  (forall opsd c', tree_unmarshal (RB1.step K V cmp zeroV) keqb kofname decv iter gins j
                     (fst (S1.run (RB1.step K V cmp zeroV) (RB1.empty K V) opsd)) = Some c' ->
                   (exists l2, c' = fst (S1.run (RB1.step K V cmp zeroV) (RB1.empty K V) (opsd ++ S1.Clear :: puts_of l2))) /\
                   VF.C02.Inv.RBInv K V cmp c') /\
  (forall opsd c', tree_unmarshal (VF.C01.AVL.step K V cmp zeroV) keqb kofname decv iter gins j
                     (fst (S1.run (VF.C01.AVL.step K V cmp zeroV) (VF.C01.AVL.empty K V) opsd)) = Some c' ->
                   VF.C02.Inv.AVLInv K V cmp c') /\
  (forall m opsd c', (3 <= m)%nat ->
                   tree_unmarshal (VF.C01.BTree.step K V cmp zeroV m) keqb kofname decv iter gins j
                     (fst (S1.run (VF.C01.BTree.step K V cmp zeroV m) (VF.C01.BTree.empty K V) opsd)) = Some c' ->
                   VF.C02.Inv.BTInv K V cmp m c').
Proof.
  intros K V cmp zeroV keqb kofname decv iter gins O j. split; [|split].
  - intros opsd c' H. destruct (tree_unmarshal_reachable _ _ keqb kofname decv iter gins j opsd c' H) as (l2 & ->).
    split; [now exists l2|]. exact (VF.C02.Props.C02_rb K V cmp zeroV O _).
  - intros opsd c' H. destruct (tree_unmarshal_reachable _ _ keqb kofname decv iter gins j opsd c' H) as (l2 & ->).
    exact (VF.C02.Props.C02_avl K V cmp zeroV O _).
  - intros m opsd c' Hm H. destruct (tree_unmarshal_reachable _ _ keqb kofname decv iter gins j opsd c' H) as (l2 & ->).
    exact (VF.C02.Props.C02_bt K V cmp zeroV O m Hm _).
Qed.

(* treeset (JSON array of Values(); Clear(); Add(decoded...)) on the red-black model *)
Theorem C15_restored_obeys_treeset : forall K (cmp : K -> K -> Z) (enc : K -> jval) dec,
  CmpLaws cmp -> codec_laws enc dec -> forall ops0 old,
  let step := T1.treeset_step K cmp in
  let c := fst (S1.run step (RB1.empty K unit) ops0) in
  let l := fst (S1.run (S1.sset_step K cmp) [] ops0) in
  wellformed (tset_marshal cmp enc c) = true /\
  exists c', tset_unmarshal cmp dec (tset_marshal cmp enc c) old = Some c' /\
    ts_values c' = ts_values c /\ ts_values c' = map fst l /\
    forall ops, snd (S1.run step c' ops) = snd (S1.run (S1.sset_step K cmp) l ops).
Proof. intros K cmp enc dec O [H1 H2] ops0 old. exact (tset_restored_obeys O enc dec H1 H2 ops0 old). Qed.

(* treebidimap (two red-black trees): the same forward entries, both trees again in C01's refinement relation with the
   source's pair of sorted maps (hence inverse of each other, C01_bidi_bijection), equal outputs from then on *)
Theorem C15_restored_obeys_treebidimap : forall K V (cmpK : K -> K -> Z) (cmpV : V -> V -> Z) (zeroK : K) (zeroV : V)
    kname kofname (encv : V -> jval) decv jsort iter gins,
  CmpLaws cmpK -> CmpLaws cmpV -> separates cmpK -> separates cmpV -> obj_codec kname kofname encv decv jsort iter gins ->
  forall ops0 old,
  let step := T1.tbidi_step K V cmpK cmpV zeroK zeroV in
  let ref := S1.bij_step K V cmpK cmpV zeroK zeroV in
  let c := fst (S1.run step (T1.tb_empty K V) ops0) in
  let b := fst (S1.run ref ([], []) ops0) in
  wellformed (tb_marshal kname encv jsort c) = true /\
  exists c', tb_unmarshal cmpK cmpV zeroK zeroV (cmp_eqb cmpK) kofname decv iter gins (tb_marshal kname encv jsort c) old = Some c' /\
    tb_entries c' = tb_entries c /\ tb_entries c' = fst b /\
    VF.C01.ContainersProofs.Rbd (cmpK := cmpK) (cmpV := cmpV) c' b /\
    forall ops, snd (S1.run step c' ops) = snd (S1.run ref b ops).
Proof.
  intros K V cmpK cmpV zeroK zeroV kname kofname encv decv jsort iter gins OK OV sK sV (Hn & [H1 H2] & Hj & Hit & Hg) ops0 old.
  exact (tbidi_restored_obeys OK OV sK sV zeroK zeroV kname kofname Hn encv decv H1 H2 jsort Hj iter Hit gins Hg ops0 old).
Qed.

(* non-vacuity: int keys and values; a red-black tree with an overwrite and a removal, marshalled, decoded into a
   tree that held other keys, keeps answering as the sorted map; likewise a treebidimap with a value collision *)
Definition encZ (z : Z) : jval := JNum z.
Definition decZ (j : jval) : option Z := match j with JNum z => Some z | _ => None end.
Definition nameZ (k : Z) : str := [k].
Definition ofnameZ (s : str) : option Z := match s with [k] => Some k | _ => None end.
Definition zc := VF.C01.Order.zcmp.
Example C15_compose_map_nonvacuous :
  CmpLaws zc /\ separates zc /\ obj_codec nameZ ofnameZ encZ decZ (fun l => rev l) (fun l => rev l) (@ins_front Z Z) /\
  (let step := RB1.step Z Z zc 0%Z in
   let c := fst (S1.run step (RB1.empty Z Z) [S1.Put 5 50; S1.Put 2 20; S1.Put 9 90; S1.Put 2 21; S1.Remove 9; S1.Put 7 70]%Z) in
   let old := fst (S1.run step (RB1.empty Z Z) [S1.Put 1 1; S1.Put 2 2]%Z) in
   match tree_unmarshal step (cmp_eqb zc) ofnameZ decZ (fun l => rev l) (@ins_front Z Z)
           (tree_marshal step nameZ encZ (fun l => rev l) c) old with
   | Some c' => tree_entries step c' = [(2, 21); (5, 50); (7, 70)]%Z /\
                snd (S1.run step c' [S1.Get 1; S1.Put 6 60; S1.Floor 6; S1.Size]%Z)
                = [S1.OGet 0 false; S1.ONone; S1.OEntry (Some (6, 60)); S1.OSize 4]%Z
   | None => False
   end) /\
  (let step := T1.tbidi_step Z Z zc zc 0%Z 0%Z in
   let c := fst (S1.run step (T1.tb_empty Z Z) [S1.BPut 1 7; S1.BPut 2 8; S1.BPut 3 7]%Z) in
   match tb_unmarshal zc zc 0%Z 0%Z (cmp_eqb zc) ofnameZ decZ (fun l => rev l) (@ins_front Z Z)
           (tb_marshal nameZ encZ (fun l => rev l) c) (T1.tb_empty Z Z) with
   | Some c' => tb_entries c' = [(2, 8); (3, 7)]%Z /\
                snd (S1.run step c' [S1.BGetKey 7; S1.BPut 4 8; S1.BGet 2; S1.BKeys; S1.BValues]%Z)
                = [S1.BOGetKey 3 true; S1.BONone; S1.BOGet 0 false; S1.BOKeys [3; 4]; S1.BOVals [7; 8]]%Z
   | None => False
   end).
Proof.
  split; [exact VF.C01.Order.zcmp_laws|]. split.
  { intros a b. unfold zc, VF.C01.Order.zcmp. destruct (Z.eqb_spec a b); [auto|]. destruct (a >? b)%Z; discriminate. }
  split.
  { split; [intros k; reflexivity|]. split; [split; reflexivity|]. split; [intros l; apply Permutation_sym, Permutation_rev|].
    split; [intros l; apply Permutation_sym, Permutation_rev|intros k v m; apply Permutation_refl]. }
  split; vm_compute; repeat split; reflexivity.
Qed.

Print Assumptions C15_restored_obeys_hashset.
Print Assumptions C15_restored_obeys_linkedhashset.
Print Assumptions C15_restored_obeys_hashmap.
Print Assumptions C15_restored_obeys_hashbidimap.
Print Assumptions C15_restored_obeys_linkedhashmap.
Print Assumptions C15_restored_obeys_rbtree.
Print Assumptions C15_restored_obeys_treemap.
Print Assumptions C15_restored_obeys_avltree.
Print Assumptions C15_restored_obeys_btree.
Print Assumptions C15_tree_decoders_agree.
Print Assumptions C15_restored_tree_invariants.
Print Assumptions C15_restored_obeys_treeset.
Print Assumptions C15_restored_obeys_treebidimap.
