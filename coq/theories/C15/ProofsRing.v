(* C15 proofs, part 4: the circular buffer decodes a document of ANY length into a fresh buffer of ANY capacity
   (UnmarshalJSON enqueues the decoded values one by one): the buffer ends up holding the last min(capacity, n)
   values, oldest first, in a ring that satisfies its invariant.  Dequeue as repaired by 0021 (no zero-value test):
   premise [forall v, is_zero v = false].  Ring invariant and its preservation ported from C08/ProofsCirc.v to
   the polymorphic, Panic-free ring record of C15/Model.v. *)
From VF Require Import Common.Base C15.Model C15.Proofs.

Section Ring.
  Context {E : Type}.
  Variable zero : E.
  Variable is_zero : E -> bool.
  Hypothesis no_zero_test : forall v, is_zero v = false.
  Variable mx : nat.
  Hypothesis mx_pos : 1 <= mx.

  Record RingInv (q : cb (E:=E)) (l : list E) : Prop := {
    ri_max : cb_max q = mx;
    ri_len : length (cb_vals q) = mx;
    ri_st : cb_start q < mx;
    ri_size : cb_size q = length l;
    ri_le : length l <= mx;
    ri_en : cb_end q = (cb_start q + length l) mod mx;
    ri_full : cb_full q = (length l =? mx);
    ri_vals : forall i, i < length l -> nth ((cb_start q + i) mod mx) (cb_vals q) zero = nth i l zero
  }.

  Lemma wrap_succ a : a < mx -> (if mx <=? a + 1 then 0 else a + 1) = (a + 1) mod mx.
  Proof.
    intros H. destruct (mx <=? a + 1) eqn:Eq0.
    - apply Nat.leb_le in Eq0. assert (E' : a + 1 = mx) by lia. rewrite E'. now rewrite Nat.mod_same by lia.
    - apply Nat.leb_gt in Eq0. now rewrite Nat.mod_small by lia.
  Qed.
  Lemma mod_wrap a m : a < mx -> m <= mx -> (a + m) mod mx = if a + m <? mx then a + m else a + m - mx.
  Proof.
    intros Ha Hm. destruct (a + m <? mx) eqn:Eq0.
    - apply Nat.ltb_lt in Eq0. now apply Nat.mod_small.
    - apply Nat.ltb_ge in Eq0. replace (a + m) with ((a + m - mx) + 1 * mx) at 1 by lia.
      rewrite Nat.mod_add by lia. apply Nat.mod_small. lia.
  Qed.
  Lemma mod_inj_small a i j : a < mx -> i < mx -> j < mx -> (a + i) mod mx = (a + j) mod mx -> i = j.
  Proof.
    intros Ha Hi Hj. rewrite !mod_wrap by lia.
    destruct (a + i <? mx) eqn:E1; destruct (a + j <? mx) eqn:E2;
      rewrite ?Nat.ltb_lt, ?Nat.ltb_ge in *; lia.
  Qed.

  Lemma fresh_inv : RingInv (cb_fresh zero mx) [].
  Proof.
    constructor; cbn [cb_fresh cb_max cb_vals cb_start cb_end cb_full cb_size length]; try lia; auto.
    - apply repeat_length.
    - rewrite Nat.add_0_r, Nat.mod_small; lia.
    - destruct mx; [lia|reflexivity].
  Qed.

  Lemma dequeue_cons q x l : RingInv q (x :: l) -> RingInv (cb_dequeue zero is_zero q) l.
  Proof.
    intros [Hmax Hlen Hst Hsize Hle Hen Hfull Hvals]. unfold cb_dequeue. cbn [length] in *.
    rewrite Hsize. cbn [Nat.eqb]. rewrite no_zero_test, Hmax. rewrite wrap_succ by auto.
    constructor; cbn [cb_vals cb_start cb_end cb_full cb_size cb_max]; auto.
    - now rewrite upd_length.
    - apply Nat.mod_upper_bound. lia.
    - lia.
    - lia.
    - rewrite Hen. rewrite Nat.add_mod_idemp_l by lia. f_equal. lia.
    - symmetry. apply Nat.eqb_neq. lia.
    - intros i Hi. rewrite Nat.add_mod_idemp_l by lia.
      replace (cb_start q + 1 + i) with (cb_start q + S i) by lia.
      rewrite nth_upd_other.
      + apply (Hvals (S i)). lia.
      + intros Hc. assert (E0 : cb_start q = (cb_start q + 0) mod mx) by (rewrite Nat.add_0_r, Nat.mod_small; lia).
        rewrite E0 in Hc at 1. apply mod_inj_small in Hc; lia.
  Qed.

  Lemma enqueue_room q l v : RingInv q l -> length l < mx -> RingInv (cb_enqueue zero is_zero q v) (l ++ [v]).
  Proof.
    intros [Hmax Hlen Hst Hsize Hle Hen Hfull Hvals] Hroom. unfold cb_enqueue.
    assert (E0 : (cb_size q =? cb_max q) = false) by (apply Nat.eqb_neq; lia). rewrite E0.
    assert (Hen_lt : cb_end q < mx) by (rewrite Hen; apply Nat.mod_upper_bound; lia).
    rewrite Hmax. rewrite wrap_succ by auto.
    assert (He' : (cb_end q + 1) mod mx = (cb_start q + (length l + 1)) mod mx).
    { rewrite Hen. rewrite Nat.add_mod_idemp_l by lia. f_equal. lia. }
    rewrite He'. rewrite (mod_wrap (cb_start q) (length l + 1)) by lia.
    assert (Hfq : cb_full q = false) by (rewrite Hfull; apply Nat.eqb_neq; lia).
    constructor; cbn [cb_vals cb_start cb_end cb_full cb_size cb_max]; rewrite ?app_length; cbn [length]; auto.
    - now rewrite upd_length.
    - unfold cb_calc. rewrite Hfq.
      destruct (cb_start q + (length l + 1) <? mx) eqn:E1.
      + apply Nat.ltb_lt in E1.
        assert (E2 : (cb_start q + (length l + 1) <? cb_start q) = false) by (apply Nat.ltb_ge; lia).
        assert (E3 : (cb_start q + (length l + 1) =? cb_start q) = false) by (apply Nat.eqb_neq; lia).
        rewrite E2, E3. lia.
      + apply Nat.ltb_ge in E1.
        destruct (cb_start q + (length l + 1) - mx =? cb_start q) eqn:E3.
        * apply Nat.eqb_eq in E3.
          assert (E2 : (cb_start q + (length l + 1) - mx <? cb_start q) = false) by (apply Nat.ltb_ge; lia).
          rewrite E2. lia.
        * apply Nat.eqb_neq in E3.
          assert (E2 : (cb_start q + (length l + 1) - mx <? cb_start q) = true) by (apply Nat.ltb_lt; lia).
          rewrite E2. lia.
    - lia.
    - rewrite (mod_wrap (cb_start q) (length l + 1)) by lia. reflexivity.
    - rewrite Hfq.
      destruct (cb_start q + (length l + 1) <? mx) eqn:E1.
      + apply Nat.ltb_lt in E1.
        assert (E3 : (cb_start q + (length l + 1) =? cb_start q) = false) by (apply Nat.eqb_neq; lia). rewrite E3.
        symmetry. apply Nat.eqb_neq. lia.
      + apply Nat.ltb_ge in E1.
        destruct (cb_start q + (length l + 1) - mx =? cb_start q) eqn:E3.
        * apply Nat.eqb_eq in E3. symmetry. apply Nat.eqb_eq. lia.
        * apply Nat.eqb_neq in E3. symmetry. apply Nat.eqb_neq. lia.
    - intros i Hi. destruct (Nat.eq_dec i (length l)) as [->|Hne].
      + rewrite <- Hen. rewrite nth_upd_same by lia. rewrite app_nth2 by lia. now rewrite Nat.sub_diag.
      + rewrite nth_upd_other.
        * rewrite app_nth1 by lia. apply Hvals. lia.
        * rewrite Hen. intros Hc. apply mod_inj_small in Hc; lia.
  Qed.

  (* the bounded FIFO: what an Enqueue does to "the last mx enqueued, oldest first" *)
  Definition lastn_enq (l : list E) (v : E) : list E := (if length l =? mx then tl l else l) ++ [v].

  Lemma enqueue_inv q l v : RingInv q l -> RingInv (cb_enqueue zero is_zero q v) (lastn_enq l v).
  Proof.
    intros HI. unfold lastn_enq. destruct (length l =? mx) eqn:Eq0.
    - apply Nat.eqb_eq in Eq0. destruct l as [|x l']; [cbn in Eq0; lia|].
      pose proof (dequeue_cons q x l' HI) as HI1.
      assert (Hsz : cb_size q = cb_max q) by (rewrite (ri_size _ _ HI), (ri_max _ _ HI); exact Eq0).
      assert (Hroom : length l' < mx) by (cbn [length] in Eq0; lia).
      pose proof (enqueue_room _ l' v HI1 Hroom) as HI2. cbn [tl].
      unfold cb_enqueue in *. rewrite Hsz, Nat.eqb_refl.
      assert (E1 : (cb_size (cb_dequeue zero is_zero q) =? cb_max (cb_dequeue zero is_zero q)) = false).
      { apply Nat.eqb_neq. rewrite (ri_size _ _ HI1), (ri_max _ _ HI1). lia. }
      rewrite E1 in HI2. exact HI2.
    - apply Nat.eqb_neq in Eq0. apply enqueue_room; auto. pose proof (ri_le _ _ HI). lia.
  Qed.

  Lemma enqueue_all_inv vs : forall q l, RingInv q l ->
    RingInv (fold_left (cb_enqueue zero is_zero) vs q) (fold_left lastn_enq vs l).
  Proof. induction vs as [|v t IH]; intros q l HI; cbn [fold_left]; [exact HI|]. apply IH. now apply enqueue_inv. Qed.

  Lemma fold_lastn vs : forall l, length l <= mx ->
    fold_left lastn_enq vs l = skipn (length (l ++ vs) - mx) (l ++ vs).
  Proof.
    induction vs as [|v t IH]; intros l Hl; cbn [fold_left].
    - rewrite app_nil_r. replace (length l - mx) with 0 by lia. reflexivity.
    - unfold lastn_enq at 2. destruct (Nat.eqb_spec (length l) mx) as [Eq0|Eq0].
      + destruct l as [|x l']; [cbn in Eq0; lia|]. cbn [tl]. cbn [length] in Eq0.
        rewrite IH by (rewrite app_length; cbn [length]; lia).
        rewrite <- !app_assoc. cbn [app]. rewrite !app_length. cbn [length]. rewrite app_length. cbn [length].
        replace (S (length l' + S (length t)) - mx) with (S (length l' + S (length t) - mx)) by lia.
        cbn [skipn]. reflexivity.
      + rewrite IH by (rewrite app_length; cbn [length]; lia). rewrite <- !app_assoc. reflexivity.
  Qed.

  Lemma values_inv q l : RingInv q l -> cb_values zero q = l.
  Proof.
    intros [Hmax Hlen Hst Hsize Hle Hen Hfull Hvals]. unfold cb_values. rewrite Hsize, Hmax.
    rewrite <- (map_nth_seq zero l) at 2. apply map_ext_in. intros i Hi. apply in_seq in Hi. apply Hvals. lia.
  Qed.

  Lemma inv_CbInv q l : RingInv q l -> CbInv q.
  Proof.
    intros [Hmax Hlen Hst Hsize Hle Hen Hfull Hvals]. unfold CbInv. rewrite Hmax, Hsize.
    assert (He : cb_end q < mx) by (rewrite Hen; apply Nat.mod_upper_bound; lia).
    repeat split; try lia. unfold cb_calc. rewrite Hfull, Hen, (mod_wrap (cb_start q) (length l)) by lia.
    destruct (cb_start q + length l <? mx) eqn:E1.
    - apply Nat.ltb_lt in E1. destruct (Nat.ltb_spec (cb_start q + length l) (cb_start q)); [lia|].
      destruct (Nat.eqb_spec (cb_start q + length l) (cb_start q)).
      + destruct (Nat.eqb_spec (length l) mx); lia.
      + lia.
    - apply Nat.ltb_ge in E1. destruct (Nat.ltb_spec (cb_start q + length l - mx) (cb_start q)); [lia|].
      destruct (Nat.eqb_spec (cb_start q + length l - mx) (cb_start q)).
      + destruct (Nat.eqb_spec (length l) mx); lia.
      + lia.
  Qed.

  (* decoding any array of decodable elements into a fresh ring *)
  Variable enc : E -> jval.
  Variable dec : jval -> option E.
  Hypothesis dec_enc : forall e, dec (enc e) = Some e.

  Lemma cb_decode_any (l : list E) :
    exists q', cb_unmarshal dec zero is_zero (seq_marshal enc l) (cb_fresh zero mx) = Some q' /\
               RingInv q' (skipn (length l - mx) l) /\
               cb_values zero q' = skipn (length l - mx) l /\ CbInv q'.
  Proof.
    unfold cb_unmarshal. rewrite (seq_decode_marshal enc dec dec_enc). eexists. split; [reflexivity|].
    pose proof (enqueue_all_inv l _ _ fresh_inv) as HI. rewrite (fold_lastn l []) in HI by (cbn; lia). cbn [app] in HI.
    split; [exact HI|]. split; [now apply values_inv|eapply inv_CbInv; exact HI].
  Qed.
End Ring.
