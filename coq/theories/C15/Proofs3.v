(* C15 proofs, part 3: linkedhashmap - the hand-written writer yields JSON, and the key order is recovered. *)
From VF Require Import Common.Base C09.Model C09.Spec C09.Proofs C09.Proofs2 C15.Model C15.Proofs C15.Proofs2.
From Coq Require Import Sorted.

(* a list sorted (weakly) by a measure that is a permutation of a list strictly sorted by it, is that list *)
Lemma sorted_perm_unique {A} (f : A -> nat) (l1 : list A) : forall l2,
  Permutation l1 l2 -> StronglySorted (fun a b => f a < f b) l1 -> StronglySorted (fun a b => f a <= f b) l2 -> l1 = l2.
Proof.
  induction l1 as [|a t1 IH]; intros l2 HP H1 H2.
  - apply Permutation_nil in HP. now subst.
  - destruct l2 as [|b t2]; [apply Permutation_sym, Permutation_nil in HP; discriminate|].
    inversion H1 as [|x l Hs1 Hf1 E1]; subst. inversion H2 as [|y l Hs2 Hf2 E2]; subst.
    rewrite Forall_forall in Hf1, Hf2.
    assert (Hab : a = b).
    { assert (Hb : In b (a :: t1)) by (eapply Permutation_in; [apply Permutation_sym; exact HP|now left]).
      assert (Ha : In a (b :: t2)) by (eapply Permutation_in; [exact HP|now left]).
      destruct Hb as [Hb|Hb]; [exact Hb|]. destruct Ha as [Ha|Ha]; [now symmetry|].
      pose proof (Hf1 b Hb). pose proof (Hf2 a Ha). lia. }
    subst b. f_equal. apply IH; [now apply Permutation_cons_inv with a|exact Hs1|exact Hs2].
Qed.

Lemma sorted_by_seq {A} (g : A -> nat) (l : list A) : forall a,
  map g l = seq a (length l) -> StronglySorted (fun x y => g x < g y) l.
Proof.
  induction l as [|x t IH]; intros a H; [constructor|]. cbn [map length seq] in H. injection H as Hx Ht.
  constructor; [now apply (IH (S a))|]. apply Forall_forall. intros y Hy.
  assert (Hin : In (g y) (seq (S a) (length t))) by (rewrite <- Ht; now apply in_map).
  apply in_seq in Hin. lia.
Qed.

Lemma fst_combine_seq {A} (l : list A) : forall a, map fst (combine l (seq a (length l))) = l.
Proof. induction l as [|x t IH]; intros a; cbn [length seq combine map fst]; [reflexivity|]. now rewrite IH. Qed.
Lemma combine_snoc_seq {A} (l : list A) (s : A) : forall a,
  combine (l ++ [s]) (seq a (S (length l))) = combine l (seq a (length l)) ++ [(s, a + length l)].
Proof.
  induction l as [|x t IH]; intros a; cbn [app length seq combine].
  - now rewrite Nat.add_0_r.
  - f_equal. change (S a :: seq (S (S a)) (length t)) with (seq (S a) (S (length t))). rewrite IH. f_equal. f_equal. f_equal. lia.
Qed.

Section LinkedProofs.
  Context {K V : Type}.
  Variable keqb : K -> K -> bool.
  Hypothesis keqb_spec : forall a b, keqb a b = true <-> a = b.
  Variable kofname : str -> option K.
  Variable encv : V -> jval.
  Variable decv : jval -> option V.
  Hypothesis decv_encv : forall v, decv (encv v) = Some v.
  Hypothesis encv_wf : forall v, wellformed (encv v) = true.
  Variable iter : list (K * V) -> list (K * V).
  Hypothesis iter_perm : forall l, Permutation (iter l) l.
  Variable gins : K -> V -> list (K * V) -> list (K * V).
  Hypothesis gins_ok : ins_ok gins.
  Variable ins : K -> V -> list (K * V) -> list (K * V).
  Hypothesis ins_is_ok : ins_ok ins.
  Variable kjson : K -> jval.
  Variable ktext : K -> str.
  Variable zeroV : V.
  Variable seqb : str -> str -> bool.
  Hypothesis seqb_spec : forall a b, seqb a b = true <-> a = b.
  Variable sortk : (K -> nat) -> list K -> list K.
  Hypothesis sortk_perm : forall f l, Permutation (sortk f l) l.
  Hypothesis sortk_sorted : forall f l, StronglySorted (fun a b => f a <= f b) (sortk f l).
  (* the name a key is looked up under decodes back to the key (encoding/json's map-key decoding) *)
  Hypothesis kofname_name : forall k, kofname (lhm_lookup_name kjson ktext k) = Some k.

  Notation nm := (lhm_lookup_name kjson ktext).
  Notation mem := (member nm encv).

  Lemma nm_inj a b : nm a = nm b -> a = b.
  Proof. intros H. pose proof (kofname_name a) as Ha. rewrite H, kofname_name in Ha. now injection Ha. Qed.

  Lemma member_name_quote k : lhm_member_name kjson ktext true k = JStr (nm k).
  Proof. unfold lhm_member_name, lhm_lookup_name. now destruct (kjson k). Qed.

  Lemma lhm_marshal_shape s o : Rl s o -> lhm_marshal keqb encv kjson ktext zeroV s = JObj (map mem o).
  Proof.
    intros HR. pose proof (Rl_table_nodup s o HR) as HNt. destruct HR as (HO & HP & HN).
    unfold lhm_marshal, lhm_marshal_with. rewrite HO, map_map. f_equal. apply map_ext_in. intros [k v] Hin.
    cbn [fst snd]. unfold member. cbn [fst snd]. rewrite member_name_quote. f_equal. f_equal.
    rewrite (gget_perm keqb keqb_spec k _ _ HNt HP). now rewrite (in_gget keqb keqb_spec k v o HN Hin).
  Qed.

  Lemma mem_wf o : wellformed (JObj (map mem o)) = true.
  Proof.
    cbn [wellformed]. apply forallb_forall. intros p Hp. apply in_map_iff in Hp as ([k v] & <- & _).
    unfold member. cbn [fst snd]. apply encv_wf.
  Qed.
  Lemma mem_decode o : obj_decode kofname decv (JObj (map mem o)) = Some o.
  Proof. unfold obj_decode. apply traverse_map. intros kv. now apply dec_member_member. Qed.
  Lemma mem_names o : member_names (map mem o) = map nm (map fst o).
  Proof. unfold member_names. induction o as [|[k v] t IH]; cbn [map flat_map fst app member]; [reflexivity|]. now rewrite IH. Qed.

  (* position[name] = len(position) numbers distinct names 0, 1, 2, ... *)
  Lemma positions_fold names : forall done, NoDup (done ++ names) ->
    fold_left (fun tab s => gput seqb (fun k v m => m ++ [(k, v)]) s (glen tab) tab) names (combine done (seq 0 (length done)))
    = combine (done ++ names) (seq 0 (length (done ++ names))).
  Proof.
    induction names as [|s t IH]; intros done HN; cbn [fold_left]; [now rewrite app_nil_r|].
    assert (Hs : gmem seqb s (combine done (seq 0 (length done))) = false).
    { apply (gmem_false seqb seqb_spec). unfold gkeys. rewrite fst_combine_seq. intros H.
      apply (NoDup_remove_2 _ _ _ HN). apply in_or_app. now left. }
    assert (Hstep : gput seqb (fun (k : str) (v : nat) m => m ++ [(k, v)]) s (glen (combine done (seq 0 (length done)))) (combine done (seq 0 (length done)))
                    = combine (done ++ [s]) (seq 0 (length (done ++ [s])))).
    { unfold gput. rewrite Hs. unfold glen. rewrite combine_length, seq_length, Nat.min_id.
      rewrite app_length. cbn [length]. rewrite Nat.add_1_r. rewrite (combine_snoc_seq done s 0). reflexivity. }
    rewrite Hstep. rewrite IH by (now rewrite <- app_assoc). now rewrite <- app_assoc.
  Qed.
  Lemma positions_spec names : NoDup names -> positions seqb names = combine names (seq 0 (length names)).
  Proof. intros HN. unfold positions. exact (positions_fold names [] HN). Qed.

  Lemma gget_combine_seq names : forall a, NoDup names ->
    map (fun s => gget seqb s (combine names (seq a (length names)))) names = map Some (seq a (length names)).
  Proof.
    induction names as [|s t IH]; intros a HN; [reflexivity|]. inversion HN as [|x l Hx HN' Ex]; subst.
    cbn [length seq combine map gget]. rewrite (proj2 (seqb_spec s s) eq_refl). f_equal.
    rewrite <- (IH (S a) HN'). apply map_ext_in. intros s' Hs'.
    destruct (seqb s' s) eqn:Es; [|reflexivity]. apply seqb_spec in Es. subst. contradiction.
  Qed.

  Lemma index_seq (ks : list K) : NoDup (map nm ks) ->
    map (fun k => match gget seqb (nm k) (combine (map nm ks) (seq 0 (length (map nm ks)))) with Some i => i | None => 0 end) ks
    = seq 0 (length ks).
  Proof.
    intros HN. pose proof (gget_combine_seq (map nm ks) 0 HN) as H. rewrite map_map in H. rewrite map_length in *.
    apply (f_equal (map (fun x : option nat => match x with Some i => i | None => 0 end))) in H. rewrite !map_map in H.
    rewrite map_id in H. exact H.
  Qed.

  Lemma fold_o_put (l : list (K * V)) : forall acc, NoDup (map fst (acc ++ l)) ->
    fold_left (fun o kv => o_put keqb (fst kv) (snd kv) o) l acc = acc ++ l.
  Proof.
    induction l as [|[k v] t IH]; intros acc HN; cbn [fold_left fst snd]; [now rewrite app_nil_r|].
    assert (E : o_put keqb k v acc = acc ++ [(k, v)]).
    { unfold o_put. rewrite (o_has_gmem keqb k acc).
      assert (Hm : gmem keqb k acc = false).
      { apply (gmem_false keqb keqb_spec). rewrite map_app in HN. cbn [map fst] in HN. intros H.
        apply (NoDup_remove_2 _ _ _ HN). apply in_or_app. now left. }
      now rewrite Hm. }
    rewrite E, IH; rewrite <- app_assoc; [reflexivity|exact HN].
  Qed.
  Lemma fold_lhm_put (l : list (K * V)) : forall s o, Rl s o ->
    Rl (fold_left (fun s kv => lhm_put keqb ins (fst kv) (snd kv) s) l s)
       (fold_left (fun o kv => o_put keqb (fst kv) (snd kv) o) l o).
  Proof.
    induction l as [|[k v] t IH]; intros s o HR; cbn [fold_left fst snd]; [exact HR|]. apply IH.
    destruct (lhm_step_refines keqb keqb_spec zeroV ins ins_is_ok s o (MPut k v) HR) as [H _]. exact H.
  Qed.
  Lemma fold_keys_pairs (F : K -> V -> lhm K V -> lhm K V) (val : K -> V) (o : list (K * V)) :
    (forall kv, In kv o -> val (fst kv) = snd kv) -> forall s,
    fold_left (fun s k => F k (val k) s) (map fst o) s = fold_left (fun s kv => F (fst kv) (snd kv) s) o s.
  Proof.
    induction o as [|[k v] t IH]; intros H s; cbn [map fold_left fst snd]; [reflexivity|].
    pose proof (H (k, v) (or_introl eq_refl)) as Hk. cbn [fst snd] in Hk. rewrite Hk. apply IH. intros kv Hin. apply H. now right.
  Qed.

  Lemma lhm_roundtrip s o old : Rl s o ->
    wellformed (lhm_marshal keqb encv kjson ktext zeroV s) = true /\
    exists s', lhm_unmarshal keqb kofname decv iter gins ins kjson ktext zeroV seqb sortk
                 (lhm_marshal keqb encv kjson ktext zeroV s) old = Some s' /\ Rl s' o.
  Proof.
    intros HR. rewrite (lhm_marshal_shape s o HR). split; [apply mem_wf|].
    destruct HR as (HO & HP & HN). unfold lhm_unmarshal. rewrite mem_decode. eexists. split; [reflexivity|].
    (* the temporary Go map *)
    destruct (put_all_perm keqb keqb_spec gins gins_ok o [] HN) as [HE1 HE2]. cbn [app] in HE1.
    fold (to_gomap keqb gins o) in HE1, HE2. set (elements := to_gomap keqb gins o) in *.
    (* the positions *)
    rewrite mem_names.
    assert (HNn : NoDup (map nm (map fst o))).
    { apply FinFun.Injective_map_NoDup; [intros a b; apply nm_inj|exact HN]. }
    rewrite (positions_spec _ HNn).
    set (index := fun k => match gget seqb (nm k) (combine (map nm (map fst o)) (seq 0 (length (map nm (map fst o))))) with
                           | Some i => i | None => 0 end).
    assert (Hidx : map index (map fst o) = seq 0 (length (map fst o))) by (exact (index_seq (map fst o) HNn)).
    (* the sorted keys are the original ordering *)
    assert (Hkeys : sortk index (map fst (iter elements)) = map fst o).
    { symmetry. apply (sorted_perm_unique index).
      - apply Permutation_sym. eapply perm_trans; [apply sortk_perm|]. apply Permutation_map.
        eapply perm_trans; [apply iter_perm|exact HE1].
      - apply (sorted_by_seq index _ 0). exact Hidx.
      - apply sortk_sorted. }
    fold index. rewrite Hkeys.
    rewrite (fold_keys_pairs (lhm_put keqb ins) (fun k => match gget keqb k elements with Some v => v | None => zeroV end) o).
    - pose proof (fold_lhm_put o lhm0 [] (Rl_nil (K:=K) (V:=V))) as H. rewrite (fold_o_put o [] HN) in H. exact H.
    - intros [k v] Hin. cbn [fst snd]. rewrite (gget_perm keqb keqb_spec k _ _ HE2 HE1).
      now rewrite (in_gget keqb keqb_spec k v o HN Hin).
  Qed.
End LinkedProofs.
