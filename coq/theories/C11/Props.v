(* C11 property theorems (protocol level; the obligations over the regenerated table are in C11/Obligation.v).
   Nothing but statements closed by [exact] and Print Assumptions. *)
From Coq Require Import List String ZArith.
From VF Require Import C11.RWProto C11.Proofs C11.Classify C11.Tables C11.Check.
Import ListNotations.

(* If every method that takes the lock in Shared mode is read-only (mutators therefore hold Excl), then for EVERY
   schedule, any number of threads and any family of calls, the ghost commit log is a sequential run that explains
   every value returned and the final state: "a state reachable by running the same calls one after another". *)
Theorem C11_discipline_atomic :
  forall (St M R : Type) (sem : M -> St -> St * R) (guard : M -> mode),
    (forall m, guard m = RWProto.Shared -> readonly sem m) ->
    forall init calls sched,
      let w := run sem guard (world0 init calls) sched in
      seq_run sem init (lin w) /\ state w = seq_state sem init (lin w).
Proof. exact discipline_atomic. Qed.

(* race freedom in the model: two bodies overlap only if both hold Shared, hence both are read-only *)
Theorem C11_discipline_no_overlap :
  forall (St M R : Type) (sem : M -> St -> St * R) (guard : M -> mode),
    (forall m, guard m = RWProto.Shared -> readonly sem m) ->
    forall init calls sched i j p q mi mj,
      let w := run sem guard (world0 init calls) sched in
      i <> j -> nth_error (pcs w) i = Some p -> nth_error (pcs w) j = Some q ->
      method_of p = Some mi -> method_of q = Some mj ->
      guard mi = RWProto.Shared /\ guard mj = RWProto.Shared /\ readonly sem mi /\ readonly sem mj.
Proof. exact discipline_no_overlap. Qed.

(* why the rule is needed: a mutator under the read lock loses an update on a two-thread schedule *)
Theorem C11_shared_mutator_refuted :
  exists sched, lost_update (run incr_sem incr_guard counter_world sched).
Proof. exact shared_mutator_refuted. Qed.

(* a table accepted by the decision procedure describes instances that satisfy the hypothesis above,
   whatever the callees mean, provided the hand-classified read-only callees are read-only *)
Theorem C11_check_tables_sound :
  forall (St A IR : Type) (inner_sem : string * string -> A -> St -> St * IR),
    (forall c, is_ro c = true -> forall a s, fst (inner_sem c a s) = s) ->
    forall t inn, check_tables t inn = true ->
      forall m : Meth St A t, guard_of St A t m = RWProto.Shared -> readonly (sem_of St A IR inner_sem t) m.
Proof. exact check_tables_sound. Qed.

Theorem C11_tables_atomic :
  forall (St A IR : Type) (inner_sem : string * string -> A -> St -> St * IR),
    (forall c, is_ro c = true -> forall a s, fst (inner_sem c a s) = s) ->
    forall t inn, check_tables t inn = true ->
      forall init (calls : list (list (Meth St A t))) sched,
        let w := run (sem_of St A IR inner_sem t) (guard_of St A t) (world0 init calls) sched in
        seq_run (sem_of St A IR inner_sem t) init (lin w) /\
        state w = seq_state (sem_of St A IR inner_sem t) init (lin w).
Proof. exact tables_atomic. Qed.

(* methods that do not take the lock themselves, in an accepted table *)
Theorem C11_check_tables_callable :
  forall t inn, check_tables t inn = true ->
    forall e, In e t -> e_exported e = true ->
      match e_guard e with
      | Exposes => True
      | Tables.Excl | Tables.Shared => locked_ok inn e = true
      | NoLock => e_touches e = false /\ (atomic_b 8 t inn e = true \/ compound_ok t inn e = true)
      | Irregular => False
      end.
Proof. exact check_tables_callable. Qed.

(* the serial-outcome judgement applied to recorded executions is membership *)
Theorem C11_serial_case_sound :
  forall obs outs, check_case (CSerial obs outs) = 0 -> In obs outs.
Proof. exact serial_case_sound. Qed.

(* non-vacuity: a two-method instance (Get under Shared, Incr under Excl) meets the hypothesis, and three threads
   really run to completion with a 4-entry commit log *)
Definition nv_sem (m : bool) (s : nat) : nat * nat := if m then (S s, s) else (s, s).
Definition nv_guard (m : bool) : mode := if m then RWProto.Excl else RWProto.Shared.
Example C11_nonvacuous :
  (forall m, nv_guard m = RWProto.Shared -> readonly nv_sem m) /\
  let w := run nv_sem nv_guard (world0 0 [[true; false]; [false]; [true]])
               [1; 0; 1; 2; 1; 1; 0; 0; 0; 0; 2; 2; 2; 2; 0; 0; 0; 0] in
  quiescent w /\ List.length (lin w) = 4 /\ state w = 2.
Proof.
  split.
  - intros [|] H; [discriminate|]. intros s. reflexivity.
  - vm_compute. repeat split; repeat constructor.
Qed.

Print Assumptions C11_discipline_atomic.
Print Assumptions C11_discipline_no_overlap.
Print Assumptions C11_shared_mutator_refuted.
Print Assumptions C11_check_tables_sound.
Print Assumptions C11_tables_atomic.
Print Assumptions C11_check_tables_callable.
Print Assumptions C11_serial_case_sound.
