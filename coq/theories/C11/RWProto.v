(* C11 protocol model (definitions only; proofs are in Proofs.v).

   A guarded object has a state [St]; threads execute method calls [m : M]; the sequential meaning of a
   call is [sem m : St -> St * R]. A wrapper method is executed in four micro-steps:
        acquire the lock in mode [guard m]  .  read a snapshot of the state  .
        compute and write back [fst (sem m snapshot)] (ghost: append (m, result) to the commit log) .  release.
   The lock is Go's sync.RWMutex taken abstractly: a writer ([Excl]) excludes everybody, readers ([Shared])
   exclude writers. (sync.Mutex = every method [Excl].) A schedule is a list of thread indexes; a step of a
   thread that is not enabled (lock not available, nothing left to do) stutters, so EVERY list is a schedule.
   Fairness, writer preference and the Go memory model are outside this model (DESIGN.md section 8). *)
From Coq Require Import List Arith Bool.
Import ListNotations.
Set Implicit Arguments.

Inductive mode := Excl | Shared.

Section RW.
Variables (St M R : Type).
Variable sem : M -> St -> St * R.            (* sequential meaning of a method call *)
Variable guard : M -> mode.                   (* what the wrapper acquires: regenerated from the Go source *)

Definition readonly (m : M) : Prop := forall s, fst (sem m s) = s.

(* per-thread control state *)
Inductive pc :=
| Idle                      (* between calls *)
| Holding (m : M)           (* lock acquired, body not started *)
| Snap (m : M) (s0 : St)    (* body has read the state *)
| Commit (m : M) (r : R).   (* body has written back, lock still held *)

Record world := {
  state : St;
  pcs : list pc;                       (* one per thread *)
  todo : list (list M);                (* remaining calls per thread *)
  lin : list (M * R)                   (* ghost: calls in commit order with the result each returned *)
}.

Definition holds_excl (p : pc) : bool :=
  match p with
  | Idle => false
  | Holding m | Snap m _ | Commit m _ => match guard m with Excl => true | Shared => false end
  end.
Definition holds_any (p : pc) : bool := match p with Idle => false | _ => true end.

Definition method_of (p : pc) : option M :=
  match p with Idle => None | Holding m | Snap m _ | Commit m _ => Some m end.

Definition set_nth {A} (l : list A) (i : nat) (x : A) : list A :=
  firstn i l ++ match skipn i l with [] => [] | _ :: t => x :: t end.

(* one micro-step of thread i; disabled steps stutter *)
Definition step (w : world) (i : nat) : world :=
  match nth_error (pcs w) i with
  | None => w
  | Some Idle =>
    match nth_error (todo w) i with
    | Some (m :: rest) =>
      let others := firstn i (pcs w) ++ skipn (S i) (pcs w) in
      let ok := match guard m with
                | Excl => negb (existsb holds_any others)
                | Shared => negb (existsb holds_excl others)
                end in
      if ok then {| state := state w; pcs := set_nth (pcs w) i (Holding m);
                    todo := set_nth (todo w) i rest; lin := lin w |}
      else w
    | _ => w
    end
  | Some (Holding m) =>
    {| state := state w; pcs := set_nth (pcs w) i (Snap m (state w)); todo := todo w; lin := lin w |}
  | Some (Snap m s0) =>
    let '(s', r) := sem m s0 in
    {| state := s'; pcs := set_nth (pcs w) i (Commit m r); todo := todo w; lin := lin w ++ [(m, r)] |}
  | Some (Commit m r) =>
    {| state := state w; pcs := set_nth (pcs w) i Idle; todo := todo w; lin := lin w |}
  end.

Definition run (w : world) (sched : list nat) : world := fold_left step sched w.

Definition world0 (init : St) (calls : list (list M)) : world :=
  {| state := init; pcs := map (fun _ => Idle) calls; todo := calls; lin := [] |}.

(* the sequential reading of the ghost log: every logged result is the one the sequential run returns *)
Fixpoint seq_run (s : St) (l : list (M * R)) : Prop :=
  match l with
  | [] => True
  | (m, r) :: l' => snd (sem m s) = r /\ seq_run (fst (sem m s)) l'
  end.
Fixpoint seq_state (s : St) (l : list (M * R)) : St :=
  match l with [] => s | (m, _) :: l' => seq_state (fst (sem m s)) l' end.

(* all work done: every thread idle with nothing left *)
Definition quiescent (w : world) : Prop :=
  Forall (fun p => p = Idle) (pcs w) /\ Forall (fun l => l = []) (todo w).

End RW.

Arguments Idle {St M R}.
Arguments world0 {St M R} init calls.
Arguments Holding {St M R} m.
Arguments Snap {St M R} m s0.
Arguments Commit {St M R} m r.
