(* C11 case checker, evaluated by vm_compute on the files the Go harness writes.
   It must not depend on C11/Obligation.v: cases are evaluated also (above all) when LockTables_ok is broken.

   kind 2 = what the implementation did violates the property: a concurrent run ended in a state (or returned values)
            that no sequential order of the same calls produces (lost update / non-serial outcome), or a Safe wrapper and
            the container it wraps disagree on a SEQUENTIAL trace (the wrapped container's method of the same name is
            the sequential meaning of a wrapper call - the [sem] of the atomicity theorem; a wrapper forwarding to the
            wrong sibling does not run "the same call");
            or a result handed out by a method (CRetained: a slice / map returned by Values, Keys, ...) changed when the
            instance was mutated afterwards, or writing into it changed the instance: the result aliases the guarded
            storage, so caller and later calls touch it without the lock;
   kind 1 = the model is out of step with the code: the translator's view of the offending entries differs from
            Coq's, the harness worked from another table than the one compiled here, a callee classified
            read-only changed the observable state of its container.
   Races, deadlocks and panics are decided outside Coq (race detector, watchdog) and reported by the harness as
   direct violations. *)
From Coq Require Import List String ZArith Bool.
From VF Require Import Common.Base C11.Classify C11.Tables C11.Gen.LockTables.
Import ListNotations.

Inductive case :=
| CSerial (observed : list Z) (outcomes : list (list Z))
| COffenders (names : list (string * string))
| CTable (n_entries n_inner : nat)
| CReadOnly (kind method : string) (before after : list Z)
| CDelegate (safe_obs unsafe_obs : list Z)
| CRetained (before after : list Z).

Definition zlist_eqb := list_eqb Z.eqb.

Definition coq_offenders : list (string * string) :=
  map (fun e => (e_type e, e_method e)) (offenders tables inner).

Definition check_case (c : case) : nat :=
  match c with
  | CSerial obs outs =>
      match outs with
      | [] => 1
      | _ => kind_of true (existsb (zlist_eqb obs) outs)
      end
  | COffenders names => kind_of (list_eqb pair_eqb names coq_offenders) true
  | CTable n k => kind_of (Nat.eqb n (length tables) && Nat.eqb k (length inner)) true
  | CReadOnly k m before after => kind_of (is_ro (k, m) && zlist_eqb before after) true
  | CDelegate a b => kind_of true (zlist_eqb a b)
  | CRetained a b => kind_of true (zlist_eqb a b)
  end.

Definition mismatches (cs : list case) : list (nat * nat) := find_bad check_case cs.

(* the serial-outcome judgement is sound: code 0 on a CSerial case means membership *)
Lemma serial_case_sound obs outs :
  check_case (CSerial obs outs) = 0 -> In obs outs.
Proof.
  unfold check_case. destruct outs as [|o outs]; [discriminate|].
  unfold kind_of. destruct (existsb (zlist_eqb obs) (o :: outs)) eqn:E; [|discriminate].
  intros _. apply existsb_exists in E as (x & Hin & Hx).
  apply (list_eqb_eq Z.eqb) in Hx; [subst; exact Hin|]. intros a b. apply Z.eqb_eq.
Qed.
