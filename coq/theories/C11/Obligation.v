(* C11: the obligations over the regenerated lock table (C11/Gen/LockTables.v, rewritten by tools/gen_c11 whenever
   the Go sources yield a different table). When a method breaks the lock discipline the first lemma fails and
   coqc prints the offending (type, method) pairs; LockTables_ok is then not available and `bin/check C11` reports
   it by name and searches for a concrete race / lost update on exactly those methods. *)
From Coq Require Import List String.
From VF Require Import C11.RWProto C11.Tables C11.Gen.LockTables.
Import ListNotations.

Lemma LockTables_no_offenders :
  map (fun e => (e_type e, e_method e)) (offenders tables inner) = [].
Proof. vm_compute. reflexivity. Qed.

Theorem LockTables_ok : check_tables tables inner = true.
Proof. vm_compute. reflexivity. Qed.

(* the atomicity theorem instantiated with the table of THIS source tree: for every meaning of the callees in
   which the hand-classified read-only callees are read-only, every schedule of every family of calls of locked
   methods of the table is explained by the sequential run of its commit log *)
Theorem LockTables_atomic :
  forall (St A IR : Type) (inner_sem : string * string -> A -> St -> St * IR),
    (forall c, Classify.is_ro c = true -> forall a s, fst (inner_sem c a s) = s) ->
    forall (init : St) (calls : list (list (Meth St A tables))) (sched : list nat),
      let w := run (sem_of St A IR inner_sem tables) (guard_of St A tables) (world0 init calls) sched in
      seq_run (sem_of St A IR inner_sem tables) init (lin w) /\
      state w = seq_state (sem_of St A IR inner_sem tables) init (lin w).
Proof.
  intros St A IR inner_sem Hro init calls sched.
  exact (tables_atomic St A IR inner_sem Hro tables inner LockTables_ok init calls sched).
Qed.

Print Assumptions LockTables_ok.
Print Assumptions LockTables_atomic.
