(* C11: hand-written classification of the methods/functions that the Safe wrappers call on the state they
   guard. [ro_table] lists, per container kind, the callees that are READ-ONLY (leave the state they are
   called on unchanged); everything that is not listed is treated as a mutator (conservative).

   Names: kind = "<package>.<Type>" of the wrapped object; "func:<package>" for package-level functions that
   are passed guarded state, the method name then carries the (1-based) position of the guarded argument
   ("Copy#2" = bmap.Copy(dst, GUARDED)); "alias" = methods called on a local variable that aliases guarded
   state (skip-list nodes, cache items).

   Cross-checks on every run of `bin/check C11`:
   - statically (Tables.check_tables): a callee used under the read lock whose source is among the parsed files
     must not assign a field of its receiver, and the functions it passes its state to must be listed here;
   - dynamically (harness, case CReadOnly): every listed method of a container kind is run on the unsafe
     container with random arguments and must leave its observable state unchanged.
   The format of [ro_table], [compound_known] and [expected_types] is also parsed by tools/gen_c11 (search hint for the
   harness only): keep one ("kind", [ ... ]) pair per entry. *)
From Coq Require Import List String Bool.
Import ListNotations.
Local Open Scope string_scope.

Definition ro_table : list (string * list string) := [
  (* base/bslice *)
  ("bslice.UnsafeAnyBSlice",
     ["Marshal"; "Len"; "Cap"; "ToInterfaceSlice"; "EqualFunc"; "CompareFunc"; "IndexFunc"; "CloneToSlice"; "CloneToBSlice";
      "ForEach"; "SortFuncToSlice"; "SortFuncToBSlice"; "SortComparatorToSlice"; "SortComparatorToBSlice";
      "SortStableFuncToSlice"; "SortStableFuncToBSlice"; "IsSortedFunc"; "BinarySearchFunc"; "FilterToSlice"; "FilterToBSlice";
      "ReverseToSlice"; "ReverseToBSlice"; "AppendToSlice"; "AppendToBSlice"; "CopyToSlice"; "CopyToBSlice";
      "GetByIndex"; "GetByIndexE"; "GetByIndexOrDefault"; "GetByRange"; "GetByRangeE"; "ToMetaSlice"]);
  ("func:bslice",
     ["Contains#1"; "Equal#1"; "Compare#1"; "IsSorted#1"; "BinarySearch#1"; "EqualFunc#1"; "CompareFunc#1"; "IndexFunc#1";
      "Clone#1"; "IsSortedFunc#1"; "BinarySearchFunc#1"; "Index#1"]);
  ("func:bmath", ["Max#1"; "Min#1"; "Max#2"; "Min#2"]);
  (* base/bmap *)
  ("bmap.UnsafeAnyBMap",
     ["Keys"; "Values"; "EqualFuncByMap"; "EqualFuncByBMap"; "CloneToMap"; "CloneToBMap"; "CopyByMap"; "CopyByBMap"; "Marshal";
      "Size"; "IsEmpty"; "IsExist"; "ContainsKey"; "ContainsValue"; "ForEach"; "Get"; "GetOrDefault"; "ToMetaMap"]);
  ("bmap.AnyBMap",
     ["Keys"; "Values"; "EqualFuncByMap"; "EqualFuncByBMap"; "CloneToMap"; "CloneToBMap"; "CopyByMap"; "CopyByBMap"; "Marshal";
      "Size"; "IsEmpty"; "IsExist"; "ContainsKey"; "ContainsValue"; "ForEach"; "Get"; "GetOrDefault"]);
  ("func:bmap", ["Equal#1"; "EqualFunc#1"; "Clone#1"; "Copy#2"; "Keys#1"; "Values#1"]);
  (* zset: the skip list behind zset.Set, its nodes, and zset.Set itself as used by bcache *)
  ("zset.list", ["Rank"; "FirstInRange"; "LastInRange"; "GetNodeByRank"; "IsInRange"]);
  ("zset.listNode", ["loadNext"; "loadSpan"; "loadNextAndSpan"; "lessThan"; "lessEqual"; "equal"]);
  ("func:zset", ["greaterThanMin#1"; "lessThanMax#1"]);
  ("zset.Set",
     ["Contains"; "Empty"; "Size"; "Values"; "String"; "Len"; "ContainsB"; "Score"; "Rank"; "RevRank"; "Count"; "CountWithOpt";
      "Range"; "RangeByScore"; "RangeByScoreWithOpt"; "RevRange"; "RevRangeByScore"; "RevRangeByScoreWithOpt"]);
  ("alias", ["loadNext"; "loadSpan"; "loadNextAndSpan"; "lessThan"; "lessEqual"; "equal"; "expired"; "isVisit"]);
  (* standard library / helpers that only read their arguments *)
  ("func:json", ["Marshal#1"]);
  ("func:reflect", ["DeepEqual#1"; "DeepEqual#2"]);
  ("func:fmt", ["Sprintf#2"; "Sprintf#3"; "Sprint#1"]);
  ("func:bternaryexpr", ["TernaryExpr#2"; "TernaryExpr#3"]);
  ("func:time", ["Unix#2"]);
  (* structure/**: containers behind the sync.Mutex wrappers (every wrapper method is Excl today; the lists say which
     methods could be moved under a read lock) *)
  ("arraylist.List", ["Get"; "Contains"; "Values"; "IndexOf"; "Empty"; "Size"; "String"; "MarshalJSON"]);
  ("doublylinkedlist.List", ["Get"; "Contains"; "Values"; "IndexOf"; "Empty"; "Size"; "String"; "MarshalJSON"]);
  ("singlylinkedlist.List", ["Get"; "Contains"; "Values"; "IndexOf"; "Empty"; "Size"; "String"; "MarshalJSON"]);
  ("hashmap.Map", ["Get"; "Keys"; "Values"; "Empty"; "Size"; "String"; "MarshalJSON"]);
  ("linkedhashmap.Map", ["Get"; "Keys"; "Values"; "Empty"; "Size"; "String"; "MarshalJSON"]);
  ("treemap.Map", ["Get"; "Keys"; "Values"; "Empty"; "Size"; "String"; "MarshalJSON"; "Min"; "Max"; "Floor"; "Ceiling"]);
  ("hashbidimap.Map", ["Get"; "GetKey"; "Keys"; "Values"; "Empty"; "Size"; "String"; "MarshalJSON"]);
  ("treebidimap.Map", ["Get"; "GetKey"; "Keys"; "Values"; "Empty"; "Size"; "String"; "MarshalJSON"]);
  ("skipmap.Map", ["Get"; "Load"; "Keys"; "Values"; "Empty"; "Size"; "Len"; "String"; "Range"]);
  ("hashset.Set", ["Contains"; "Values"; "Empty"; "Size"; "String"; "MarshalJSON"; "Intersection"; "Union"; "Difference"]);
  ("linkedhashset.Set", ["Contains"; "Values"; "Empty"; "Size"; "String"; "MarshalJSON"; "Intersection"; "Union"; "Difference"]);
  ("treeset.Set", ["Contains"; "Values"; "Empty"; "Size"; "String"; "MarshalJSON"; "Intersection"; "Union"; "Difference"]);
  ("skipset.Set", ["Contains"; "ContainsB"; "Values"; "Empty"; "Size"; "Len"; "String"; "Range"]);
  ("arrayqueue.Queue", ["Peek"; "Empty"; "Size"; "Values"; "String"; "MarshalJSON"]);
  ("linkedlistqueue.Queue", ["Peek"; "Empty"; "Size"; "Values"; "String"; "MarshalJSON"]);
  ("circularbuffer.Queue", ["Peek"; "Empty"; "Full"; "Size"; "Values"; "String"; "MarshalJSON"]);
  ("priorityqueue.Queue", ["Peek"; "Empty"; "Size"; "Values"; "String"; "MarshalJSON"]);
  ("arraystack.Stack", ["Peek"; "Empty"; "Size"; "Values"; "String"; "MarshalJSON"]);
  ("linkedliststack.Stack", ["Peek"; "Empty"; "Size"; "Values"; "String"; "MarshalJSON"]);
  ("binaryheap.Heap", ["Peek"; "Empty"; "Size"; "Values"; "String"; "MarshalJSON"]);
  ("avltree.Tree", ["Get"; "GetNode"; "Empty"; "Size"; "Keys"; "Values"; "Left"; "Right"; "Floor"; "Ceiling"; "String"; "MarshalJSON"]);
  ("redblacktree.Tree", ["Get"; "GetNode"; "Empty"; "Size"; "Keys"; "Values"; "Left"; "Right"; "Floor"; "Ceiling"; "String"; "MarshalJSON"]);
  ("btree.Tree", ["Get"; "GetNode"; "Empty"; "Size"; "Keys"; "Values"; "Left"; "Right"; "LeftKey"; "LeftValue"; "RightKey"; "RightValue";
                  "Height"; "String"; "MarshalJSON"])
].

(* Methods that are a SEQUENCE of separately locked calls on the same instance (e.g. one per variadic element) are race
   free and atomic per constituent call, but the method as a whole is not one atomic step, which the property
   requires: such a method fails check_tables unless it is listed here. The list is EMPTY: zset.Set.Add/Remove/Contains
   used to be of that shape (finding C11-new-zset-variadic-calls-not-atomic, repaired by fix 0040: the lock is held
   for the whole variadic call). *)
Definition compound_known : list (string * string) := [
].

(* Every type the library offers as concurrency-safe must be present in the regenerated table (a translator that
   silently loses a file must not pass). *)
Definition expected_types : list string := [
  "arraylist.ListSafe"; "doublylinkedlist.ListSafe"; "singlylinkedlist.ListSafe";
  "hashmap.MapSafe"; "linkedhashmap.MapSafe"; "treemap.MapSafe"; "hashbidimap.MapSafe"; "treebidimap.MapSafe"; "skipmap.MapSafe";
  "hashset.SetSafe"; "linkedhashset.SetSafe"; "treeset.SetSafe"; "skipset.SetSafe"; "zset.SetSafe"; "zset.Set";
  "arrayqueue.QueueSafe"; "linkedlistqueue.QueueSafe"; "circularbuffer.QueueSafe"; "priorityqueue.QueueSafe"; "lscq.QueueSafe";
  "arraystack.StackSafe"; "linkedliststack.StackSafe";
  "avltree.TreeSafe"; "redblacktree.TreeSafe"; "btree.TreeSafe"; "binaryheap.HeapSafe";
  "bslice.SafeAnyBSlice"; "bslice.SafeComparableBSlice"; "bslice.SafeOrderedBSlice"; "bslice.SafeCalculableBSlice";
  "bmap.SafeAnyBMap"; "bmap.SafeComparableBMap";
  "bcache.BCache"; "bcache.bCache"; "bobjectstorage.pkg"
].

Definition pair_eqb (a b : string * string) : bool := String.eqb (fst a) (fst b) && String.eqb (snd a) (snd b).

Definition is_ro (c : string * string) : bool :=
  existsb (fun kv => String.eqb (fst kv) (fst c) && existsb (String.eqb (snd c)) (snd kv)) ro_table.
