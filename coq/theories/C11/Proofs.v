(* C11: RWMutex discipline => every call is atomic, for every schedule and any number of threads.
   Ported from notes/spikes/RWProto_atomicity_spike.v. *)
From Coq Require Import List Arith Lia Bool.
From VF Require Import C11.RWProto.
Import ListNotations.

Section RW.
Variables (St M R : Type).
Variable sem : M -> St -> St * R.
Variable guard : M -> mode.
Hypothesis discipline : forall m, guard m = Shared -> readonly sem m.

Local Notation pc := (pc St M R).
Local Notation world := (world St M R).
Local Notation step := (step sem guard).
Local Notation run := (run sem guard).
Local Notation holds_excl := (holds_excl guard (St:=St) (R:=R)).
Local Notation holds_any := (holds_any (St:=St) (M:=M) (R:=R)).
Local Notation seq_run := (seq_run sem).
Local Notation seq_state := (seq_state sem).

Lemma seq_run_app s l m r :
  seq_run s l -> snd (sem m (seq_state s l)) = r -> seq_run s (l ++ [(m, r)]).
Proof. revert s. induction l as [|[m' r'] l IH]; simpl; intros s; [tauto|]. intros [H1 H2] H3. split; auto. Qed.
Lemma seq_state_app s l m r : seq_state s (l ++ [(m, r)]) = fst (sem m (seq_state s l)).
Proof. revert s. induction l as [|[m' r'] l IH]; simpl; intros s; auto. Qed.

(* invariant *)
Definition excl_alone (ps : list pc) : Prop :=
  forall i j p q, i <> j -> nth_error ps i = Some p -> nth_error ps j = Some q ->
                  holds_excl p = true -> holds_any q = false.

Definition snaps_current (s : St) (ps : list pc) : Prop :=
  forall i m s0, nth_error ps i = Some (Snap m s0) -> s0 = s.

Record Inv (init : St) (w : world) : Prop := {
  inv_lin : seq_run init (lin w);
  inv_state : state w = seq_state init (lin w);
  inv_excl : excl_alone (pcs w);
  inv_snap : snaps_current (state w) (pcs w)
}.

Lemma nth_error_set_same {A} (l : list A) i x y : nth_error l i = Some y -> nth_error (set_nth l i x) i = Some x.
Proof.
  unfold set_nth. revert l. induction i as [|i IH]; intros [|a l]; simpl; try discriminate; auto.
Qed.
Lemma nth_error_set_other {A} (l : list A) i j x : i <> j -> nth_error (set_nth l i x) j = nth_error l j.
Proof.
  unfold set_nth. revert l j. induction i as [|i IH]; intros l j H.
  - destruct l as [|a l]; simpl; auto. destruct j; [congruence|reflexivity].
  - destruct l as [|a l]; simpl; auto. destruct j; [reflexivity|]. simpl. apply IH. congruence.
Qed.

Lemma in_others {A} (ps : list A) : forall i j q,
  i <> j -> nth_error ps j = Some q -> In q (firstn i ps ++ skipn (S i) ps).
Proof.
  induction ps as [|a ps IH]; intros i j q Hij Hq; [destruct j; discriminate|].
  destruct i as [|i], j as [|j]; simpl in *; try congruence.
  - eapply nth_error_In; eauto.
  - left. congruence.
  - right. apply (IH i j); auto.
Qed.

Lemma others_spec (ps : list pc) i j q (f : pc -> bool) :
  i <> j -> nth_error ps j = Some q ->
  existsb f (firstn i ps ++ skipn (S i) ps) = false -> f q = false.
Proof.
  intros Hij Hq Hex.
  destruct (f q) eqn:Ef; auto.
  assert (existsb f (firstn i ps ++ skipn (S i) ps) = true).
  { apply existsb_exists. exists q. split; auto. eapply in_others; eauto. }
  congruence.
Qed.

Theorem step_inv init w i : Inv init w -> Inv init (step w i).
Proof.
  intros [Hlin Hst Hex Hsn]. unfold RWProto.step.
  destruct (nth_error (pcs w) i) as [[|m|m s0|m r]|] eqn:Ei; [| | | |constructor; auto].
  - (* acquire *)
    destruct (nth_error (todo w) i) as [[|m rest]|]; try solve [constructor; auto].
    match goal with |- context [if ?b then _ else _] => destruct b eqn:Eok end; [|constructor; auto].
    constructor; simpl; auto.
    + (* excl_alone *)
      intros a b p q Hab Ha Hb Hp.
      destruct (Nat.eq_dec a i) as [->|Hai].
      * rewrite (nth_error_set_same _ _ _ _ Ei) in Ha. inversion Ha; subst p.
        rewrite nth_error_set_other in Hb by congruence.
        simpl in Hp. destruct (guard m) eqn:Eg; [|discriminate].
        rewrite negb_true_iff in Eok. apply (others_spec (pcs w) i b q holds_any); [congruence|exact Hb|exact Eok].
      * rewrite nth_error_set_other in Ha by congruence.
        destruct (Nat.eq_dec b i) as [->|Hbi].
        -- (* the newcomer coexists with an exclusive holder? impossible *)
           rewrite (nth_error_set_same _ _ _ _ Ei) in Hb. inversion Hb; subst q.
           exfalso.
           destruct (guard m) eqn:Eg; rewrite negb_true_iff in Eok.
           ++ assert (holds_any p = false) by (apply (others_spec (pcs w) i a p holds_any); [congruence|exact Ha|exact Eok]).
              destruct p; simpl in *; try discriminate.
           ++ assert (holds_excl p = false) by (apply (others_spec (pcs w) i a p holds_excl); [congruence|exact Ha|exact Eok]). congruence.
        -- rewrite nth_error_set_other in Hb by congruence. eauto.
    + intros a m' s0 Ha. destruct (Nat.eq_dec a i) as [->|Hai].
      * rewrite (nth_error_set_same _ _ _ _ Ei) in Ha. discriminate.
      * rewrite nth_error_set_other in Ha by congruence. eauto.
  - (* snapshot *)
    constructor; simpl; auto.
    + intros a b p q Hab Ha Hb Hp.
      destruct (Nat.eq_dec a i) as [->|Hai].
      * rewrite (nth_error_set_same _ _ _ _ Ei) in Ha. inversion Ha; subst p.
        rewrite nth_error_set_other in Hb by congruence. eapply (Hex i b (Holding m) q); eauto.
      * rewrite nth_error_set_other in Ha by congruence.
        destruct (Nat.eq_dec b i) as [->|Hbi].
        -- rewrite (nth_error_set_same _ _ _ _ Ei) in Hb. inversion Hb; subst q.
           specialize (Hex a i p (Holding m) Hab Ha Ei Hp). discriminate.
        -- rewrite nth_error_set_other in Hb by congruence. eauto.
    + intros a m' s0 Ha. destruct (Nat.eq_dec a i) as [->|Hai].
      * rewrite (nth_error_set_same _ _ _ _ Ei) in Ha. inversion Ha; auto.
      * rewrite nth_error_set_other in Ha by congruence. eauto.
  - (* commit: the snapshot is current, so this is the sequential step *)
    assert (s0 = state w) by (eapply Hsn; eauto). subst s0.
    destruct (sem m (state w)) as [s' r] eqn:Es.
    constructor; simpl.
    + apply seq_run_app; auto. rewrite <- Hst, Es. reflexivity.
    + rewrite seq_state_app, <- Hst, Es. reflexivity.
    + intros a b p q Hab Ha Hb Hp.
      destruct (Nat.eq_dec a i) as [->|Hai].
      * rewrite (nth_error_set_same _ _ _ _ Ei) in Ha. inversion Ha; subst p.
        rewrite nth_error_set_other in Hb by congruence. eapply (Hex i b (Snap m (state w)) q); eauto.
      * rewrite nth_error_set_other in Ha by congruence.
        destruct (Nat.eq_dec b i) as [->|Hbi].
        -- rewrite (nth_error_set_same _ _ _ _ Ei) in Hb. inversion Hb; subst q.
           specialize (Hex a i p (Snap m (state w)) Hab Ha Ei Hp). discriminate.
        -- rewrite nth_error_set_other in Hb by congruence. eauto.
    + (* other snapshots stay current: either we are exclusive (nobody else is inside)
         or we are shared, hence read-only, hence s' = state w *)
      intros a m' s0 Ha. destruct (Nat.eq_dec a i) as [->|Hai].
      * rewrite (nth_error_set_same _ _ _ _ Ei) in Ha. discriminate.
      * rewrite nth_error_set_other in Ha by congruence.
        assert (s0 = state w) by (eapply Hsn; eauto). subst s0.
        destruct (guard m) eqn:Eg.
        -- exfalso. assert (holds_any (Snap m' (state w)) = false).
           { eapply (Hex i a (Snap m (state w))); eauto. simpl. now rewrite Eg. }
           discriminate.
        -- pose proof (discipline m Eg (state w)) as Hro. rewrite Es in Hro. simpl in Hro. congruence.
  - (* release *)
    constructor; simpl; auto.
    + intros a b p q Hab Ha Hb Hp.
      destruct (Nat.eq_dec a i) as [->|Hai].
      * rewrite (nth_error_set_same _ _ _ _ Ei) in Ha. inversion Ha; subst p. discriminate.
      * rewrite nth_error_set_other in Ha by congruence.
        destruct (Nat.eq_dec b i) as [->|Hbi].
        -- rewrite (nth_error_set_same _ _ _ _ Ei) in Hb. inversion Hb; subst q. reflexivity.
        -- rewrite nth_error_set_other in Hb by congruence. eauto.
    + intros a m' s0 Ha. destruct (Nat.eq_dec a i) as [->|Hai].
      * rewrite (nth_error_set_same _ _ _ _ Ei) in Ha. discriminate.
      * rewrite nth_error_set_other in Ha by congruence. eauto.
Qed.

Lemma world0_inv init calls : Inv init (world0 init calls).
Proof.
  constructor; simpl; auto.
  - intros i j p q _ Hi _ Hp. apply nth_error_In in Hi. apply in_map_iff in Hi.
    destruct Hi as (? & <- & _). discriminate.
  - intros i m s0 Hi. apply nth_error_In in Hi. apply in_map_iff in Hi.
    destruct Hi as (? & ? & _). discriminate.
Qed.

Lemma run_inv init sched : forall w, Inv init w -> Inv init (run w sched).
Proof.
  induction sched as [|i sched IH]; simpl; intros w H; auto.
  apply IH. now apply step_inv.
Qed.

(* atomicity: the commit log is a sequential execution that explains every result and the final state *)
Theorem discipline_atomic init calls sched :
  let w := run (world0 init calls) sched in
  seq_run init (lin w) /\ state w = seq_state init (lin w).
Proof.
  intros w. assert (Inv init w) as [H1 H2 _ _]; [|auto].
  apply run_inv, world0_inv.
Qed.

(* race freedom in the model: two threads are inside their critical sections at the same time only if
   both hold the lock in Shared mode, hence (by the discipline) both bodies are read-only *)
Theorem discipline_no_overlap init calls sched i j p q mi mj :
  let w := run (world0 init calls) sched in
  i <> j -> nth_error (pcs w) i = Some p -> nth_error (pcs w) j = Some q ->
  method_of p = Some mi -> method_of q = Some mj ->
  guard mi = Shared /\ guard mj = Shared /\ readonly sem mi /\ readonly sem mj.
Proof.
  intros w Hij Hi Hj Hp Hq.
  assert (Inv init w) as [_ _ Hex _] by (apply run_inv, world0_inv).
  assert (Ap : holds_any p = true) by (destruct p; simpl in *; congruence).
  assert (Aq : holds_any q = true) by (destruct q; simpl in *; congruence).
  assert (Ep : holds_excl p = false).
  { destruct (holds_excl p) eqn:E; auto. rewrite (Hex i j p q Hij Hi Hj E) in Aq. discriminate. }
  assert (Eq : holds_excl q = false).
  { destruct (holds_excl q) eqn:E; auto. assert (j <> i) by congruence.
    rewrite (Hex j i q p H Hj Hi E) in Ap. discriminate. }
  assert (Gi : guard mi = Shared).
  { destruct p; simpl in *; try discriminate; inversion Hp; subst; destruct (guard mi); congruence. }
  assert (Gj : guard mj = Shared).
  { destruct q; simpl in *; try discriminate; inversion Hq; subst; destruct (guard mj); congruence. }
  auto.
Qed.

End RW.

(* Why the rule is needed: a mutator under the read lock loses an update. One counter, one method
   "increment and return the old value", taken under Shared by two threads. *)
Definition incr_sem (_ : unit) (s : nat) : nat * nat := (S s, s).
Definition incr_guard (_ : unit) : mode := Shared.
Definition counter_world := world0 (M:=unit) (R:=nat) 0 [[tt]; [tt]].
Definition lost_update (w : world nat unit nat) : Prop :=
  quiescent w /\ length (lin w) = 2 /\ state w = 1 /\ seq_state incr_sem 0 (lin w) = 2 /\ ~ seq_run incr_sem 0 (lin w).

Theorem shared_mutator_refuted : exists sched, lost_update (run incr_sem incr_guard counter_world sched).
Proof.
  exists [0; 1; 0; 1; 0; 1; 0; 1]. unfold lost_update. vm_compute.
  repeat split; auto; try (repeat constructor).
  intros [_ [H _]]. discriminate.
Qed.

(* ... while under Excl the same two calls are atomic for every schedule (instance of discipline_atomic) *)
Corollary excl_counter_atomic : forall sched,
  let w := run incr_sem (fun _ => Excl) counter_world sched in
  seq_run incr_sem 0 (lin w) /\ state w = seq_state incr_sem 0 (lin w).
Proof. intros sched. apply discipline_atomic. intros m H. discriminate. Qed.
