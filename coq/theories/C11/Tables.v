(* C11: the lock table (one [entry] per method of every guarded type, produced by tools/gen_c11 from the Go
   sources on every run), the decision procedure [check_tables] over it, and its soundness: a table that passes
   describes protocol instances that satisfy the hypothesis of Proofs.discipline_atomic. *)
From Coq Require Import List String Bool Arith Lia.
From VF Require Import C11.RWProto C11.Proofs C11.Classify.
Import ListNotations.

(* what the method does about the instance lock *)
Inductive guard :=
| Excl        (* Lock(); defer Unlock()   (sync.Mutex, or the write side of sync.RWMutex) *)
| Shared      (* RLock(); defer RUnlock() *)
| NoLock      (* takes no lock itself *)
| Irregular   (* anything else: not "acquire; defer release; touch guarded state only inside" *)
| Exposes.    (* documented as not concurrency-safe because it returns the backing storage: excluded *)

Record entry := mkE {
  e_type : string;                       (* "package.Type" *)
  e_method : string;
  e_exported : bool;
  e_guard : guard;
  e_delegate : option (string * string); (* (kind, method) when the critical section is exactly one call on the wrapped object *)
  e_calls : list (string * string);      (* every (kind, method) called on guarded state (helpers inlined) *)
  e_self : list (string * string);       (* locked methods of the same instance (or of the guarded object behind a facade) it calls *)
  e_selfloop : bool;                     (* ... one of them inside a loop *)
  e_mutates : bool;                      (* assigns / deletes from / copies into guarded state directly *)
  e_touches : bool;                      (* reads, writes or calls anything on mutable guarded state *)
  e_why : string;                        (* translator's reason for Irregular *)
  e_line : nat
}.

(* facts about the wrapped (unguarded) types whose source is among the parsed files *)
Record inner_entry := mkI {
  i_kind : string; i_method : string;
  i_writes : bool;                       (* the body assigns a field of its receiver (self-calls inlined) *)
  i_calls : list (string * string)
}.

Definition lookup (t : list entry) (c : string * string) : option entry :=
  find (fun e => pair_eqb (e_type e, e_method e) c) t.
Definition lookup_inner (inn : list inner_entry) (c : string * string) : option inner_entry :=
  find (fun i => pair_eqb (i_kind i, i_method i) c) inn.

(* a callee acceptable under the read lock: classified read-only by hand and, where its source was parsed,
   syntactically free of writes to its receiver and passing its state only to read-only functions *)
Definition call_ro (inn : list inner_entry) (c : string * string) : bool :=
  is_ro c && match lookup_inner inn c with
             | None => true
             | Some i => negb (i_writes i) && forallb is_ro (i_calls i)
             end.

Definition is_locked (e : entry) : bool :=
  match e_guard e with Excl | Shared => true | _ => false end.

(* the lock discipline for a method that takes the lock *)
Definition locked_ok (inn : list inner_entry) (e : entry) : bool :=
  match e_guard e with
  | Excl => true
  | Shared => negb (e_mutates e) && forallb (call_ro inn) (e_calls e)
  | _ => false
  end.

(* the method is one atomic step: it is a locked method obeying the discipline, or it touches nothing, or it is a
   pure forwarder (exactly one call, not in a loop) to such a method *)
Fixpoint atomic_b (fuel : nat) (t : list entry) (inn : list inner_entry) (e : entry) : bool :=
  match e_guard e with
  | Excl | Shared => locked_ok inn e
  | NoLock =>
      negb (e_touches e) &&
      match e_self e with
      | [] => true
      | [c] => negb (e_selfloop e) &&
               match fuel with
               | O => false
               | S f => match lookup t c with Some e' => atomic_b f t inn e' | None => false end
               end
      | _ => false
      end
  | _ => false
  end.

Definition compound_ok (t : list entry) (inn : list inner_entry) (e : entry) : bool :=
  existsb (pair_eqb (e_type e, e_method e)) compound_known &&
  forallb (fun c => match lookup t c with Some e' => atomic_b 8 t inn e' | None => false end) (e_self e).

Definition entry_ok (t : list entry) (inn : list inner_entry) (e : entry) : bool :=
  match e_guard e with
  | Exposes => true
  | Excl | Shared => locked_ok inn e
  | Irregular => false
  | NoLock => if e_touches e then negb (e_exported e)       (* unexported helper, inlined into its callers *)
              else atomic_b 8 t inn e || compound_ok t inn e
  end.

Definition offenders (t : list entry) (inn : list inner_entry) : list entry :=
  filter (fun e => negb (entry_ok t inn e)) t.

Definition all_types_present (t : list entry) : bool :=
  forallb (fun ty => existsb (fun e => String.eqb (e_type e) ty) t) expected_types.

Definition check_tables (t : list entry) (inn : list inner_entry) : bool :=
  forallb (entry_ok t inn) t && all_types_present t.

(* ------------------------------------------------------------------------------------------------------ *)
(* Soundness. The protocol instance described by a table.

   The state guarded by an instance is [St]. What the translator extracts from a method body is the set of
   callees it may invoke on that state and whether it writes the state directly; so a CALL of the method is
   modelled as a finite sequence of actions, each either an invocation of one of the listed callees (with some
   argument [A]) or, only if [e_mutates], an arbitrary direct write. The meaning of the callees is a parameter
   [inner_sem]; the only thing assumed about it is that callees classified read-only ARE read-only
   ([ro_sound] - a premise, cross-checked by the harness, never an axiom). *)
Section Sound.
Variables (St A IR : Type).
Variable inner_sem : string * string -> A -> St -> St * IR.
Hypothesis ro_sound : forall c, is_ro c = true -> forall a s, fst (inner_sem c a s) = s.

Inductive action :=
| ACall (c : string * string) (a : A)
| AWrite (f : St -> St).

Fixpoint run_acts (acts : list action) (s : St) : St * list IR :=
  match acts with
  | [] => (s, [])
  | ACall c a :: rest => let '(s1, r) := inner_sem c a s in
                         let '(s2, rs) := run_acts rest s1 in (s2, r :: rs)
  | AWrite f :: rest => run_acts rest (f s)
  end.

(* the actions respect what the table says about the method *)
Definition acts_wf (e : entry) (acts : list action) : bool :=
  forallb (fun x => match x with
                    | ACall c _ => existsb (pair_eqb c) (e_calls e)
                    | AWrite _ => e_mutates e
                    end) acts.

Variable t : list entry.
Variable inn : list inner_entry.

(* a method call of the instance: index of a locked entry of the table + a body execution that respects it *)
Definition meth_wf (m : nat * list action) : bool :=
  match nth_error t (fst m) with
  | Some e => is_locked e && acts_wf e (snd m)
  | None => false
  end.
Definition Meth := { m : nat * list action | meth_wf m = true }.

Definition guard_of (m : Meth) : mode :=
  match nth_error t (fst (proj1_sig m)) with
  | Some e => match e_guard e with Shared => RWProto.Shared | _ => RWProto.Excl end
  | None => RWProto.Excl
  end.
Definition sem_of (m : Meth) (s : St) : St * list IR := run_acts (snd (proj1_sig m)) s.

Lemma pair_eqb_eq a b : pair_eqb a b = true -> a = b.
Proof.
  destruct a, b; unfold pair_eqb; simpl. intros H. apply andb_true_iff in H as [H1 H2].
  apply String.eqb_eq in H1, H2. congruence.
Qed.

Lemma ro_acts e acts :
  e_mutates e = false -> forallb (call_ro inn) (e_calls e) = true -> acts_wf e acts = true ->
  forall s, fst (run_acts acts s) = s.
Proof.
  intros Hm Hc. induction acts as [|[c a|f] rest IH]; simpl; intros Hw s; auto.
  - apply andb_true_iff in Hw as [H1 H2].
    apply existsb_exists in H1 as (c' & Hin & Heq). apply pair_eqb_eq in Heq. subst c'.
    rewrite forallb_forall in Hc. specialize (Hc _ Hin). unfold call_ro in Hc.
    apply andb_true_iff in Hc as [Hro _].
    pose proof (ro_sound c Hro a s) as E.
    destruct (inner_sem c a s) as [s1 r]. simpl in E. subst s1.
    specialize (IH H2 s). destruct (run_acts rest s) as [s2 rs]. simpl in *. exact IH.
  - apply andb_true_iff in Hw as [H1 _]. congruence.
Qed.

Lemma check_tables_entries : check_tables t inn = true -> forall e, In e t -> entry_ok t inn e = true.
Proof.
  unfold check_tables. intros H e He. apply andb_true_iff in H as [H _].
  rewrite forallb_forall in H. auto.
Qed.

(* check_tables t = true  ->  the hypothesis of discipline_atomic holds for the instance described by t *)
Theorem check_tables_sound :
  check_tables t inn = true -> forall m : Meth, guard_of m = RWProto.Shared -> readonly sem_of m.
Proof.
  intros Hc [[i acts] Hwf] Hg s. unfold guard_of, sem_of, meth_wf in *. simpl in *.
  destruct (nth_error t i) as [e|] eqn:Ei; [|discriminate].
  apply andb_true_iff in Hwf as [_ Hw].
  pose proof (check_tables_entries Hc e (nth_error_In _ _ Ei)) as Hok.
  unfold entry_ok in Hok. destruct (e_guard e) eqn:Eg; try discriminate.
  unfold locked_ok in Hok. rewrite Eg in Hok. apply andb_true_iff in Hok as [Hm Hcalls].
  apply negb_true_iff in Hm. eapply ro_acts; eauto.
Qed.

(* ... hence every concurrent execution of locked methods of a checked table is atomic *)
Theorem tables_atomic :
  check_tables t inn = true ->
  forall (init : St) (calls : list (list Meth)) (sched : list nat),
    let w := run sem_of guard_of (world0 init calls) sched in
    seq_run sem_of init (lin w) /\ state w = seq_state sem_of init (lin w).
Proof.
  intros Hc init calls sched. apply discipline_atomic. apply (check_tables_sound Hc).
Qed.

Theorem tables_no_overlap :
  check_tables t inn = true ->
  forall (init : St) (calls : list (list Meth)) (sched : list nat) i j p q mi mj,
    let w := run sem_of guard_of (world0 init calls) sched in
    i <> j -> nth_error (pcs w) i = Some p -> nth_error (pcs w) j = Some q ->
    method_of p = Some mi -> method_of q = Some mj ->
    readonly sem_of mi /\ readonly sem_of mj.
Proof.
  intros Hc init calls sched i j p q mi mj w Hij Hi Hj Hp Hq.
  destruct (discipline_no_overlap St Meth (list IR) sem_of guard_of (check_tables_sound Hc) init calls sched i j p q mi mj Hij Hi Hj Hp Hq)
    as (_ & _ & H1 & H2). auto.
Qed.

End Sound.

(* What a passing table says about the methods that do not take the lock themselves: an exported method is
   either excluded (Exposes), or touches no guarded state and is pure, a forwarder chain ending in a locked
   method that obeys the discipline, or one of the documented per-element compounds of such methods. *)
Theorem check_tables_callable t inn :
  check_tables t inn = true ->
  forall e, In e t -> e_exported e = true ->
    match e_guard e with
    | Exposes => True
    | Excl | Shared => locked_ok inn e = true
    | NoLock => e_touches e = false /\ (atomic_b 8 t inn e = true \/ compound_ok t inn e = true)
    | Irregular => False
    end.
Proof.
  intros Hc e He Hx. pose proof (check_tables_entries t inn Hc e He) as Hok.
  unfold entry_ok in Hok. destruct (e_guard e); auto; try discriminate.
  destruct (e_touches e).
  - rewrite Hx in Hok. discriminate.
  - split; auto. apply orb_true_iff in Hok. exact Hok.
Qed.
