(* C16: the obligation over the REGENERATED Consts.v (sys/xxhash3/consts.go): every named constant is the
   little-endian read of XXH3's kSecret at the offset in its name, the secret table is kSecret, the primes are
   XXH3's primes. Everything here is closed by computation, so a changed digit in consts.go breaks this file
   (and with it every C16 theorem, which all depend on it).

   Naming quirk of consts.go (not a functional defect): the four 32-bit names hold the OTHER half of their
   64-bit word: xsecret32_000 = secret[4..8), xsecret32_004 = secret[0..4), xsecret32_008 = secret[12..16),
   xsecret32_012 = secret[8..12) (offset xor 4). They are only ever used as the pairs 000^004 and 008^012. *)
From VF Require Import C16.Spec C16.Consts.
Local Open Scope Z_scope.

Definition name32_off (o : Z) : Z := Z.lxor o 4.

Theorem Consts_ok :
  forallb (fun p => snd p =? sec64 (fst p)) named64 = true /\
  forallb (fun p => snd p =? sec32 (name32_off (fst p))) named32 = true /\
  xsecret = kSecret /\
  [prime32_1; prime32_2; prime32_3; prime64_1; prime64_2; prime64_3; prime64_4; prime64_5] =
  [P32_1; P32_2; P32_3; P64_1; P64_2; P64_3; P64_4; P64_5] /\
  c_stripe = 64 /\ c_block = 1024.
Proof. repeat split; vm_compute; reflexivity. Qed.

Lemma xsecret_eq : xsecret = kSecret. Proof. vm_compute; reflexivity. Qed.

Lemma xs_000 : xsecret_000 = sec64 0. Proof. vm_compute; reflexivity. Qed.
Lemma xs_008 : xsecret_008 = sec64 8. Proof. vm_compute; reflexivity. Qed.
Lemma xs_011 : xsecret_011 = sec64 11. Proof. vm_compute; reflexivity. Qed.
Lemma xs_016 : xsecret_016 = sec64 16. Proof. vm_compute; reflexivity. Qed.
Lemma xs_019 : xsecret_019 = sec64 19. Proof. vm_compute; reflexivity. Qed.
Lemma xs_024 : xsecret_024 = sec64 24. Proof. vm_compute; reflexivity. Qed.
Lemma xs_027 : xsecret_027 = sec64 27. Proof. vm_compute; reflexivity. Qed.
Lemma xs_032 : xsecret_032 = sec64 32. Proof. vm_compute; reflexivity. Qed.
Lemma xs_035 : xsecret_035 = sec64 35. Proof. vm_compute; reflexivity. Qed.
Lemma xs_040 : xsecret_040 = sec64 40. Proof. vm_compute; reflexivity. Qed.
Lemma xs_043 : xsecret_043 = sec64 43. Proof. vm_compute; reflexivity. Qed.
Lemma xs_048 : xsecret_048 = sec64 48. Proof. vm_compute; reflexivity. Qed.
Lemma xs_051 : xsecret_051 = sec64 51. Proof. vm_compute; reflexivity. Qed.
Lemma xs_056 : xsecret_056 = sec64 56. Proof. vm_compute; reflexivity. Qed.
Lemma xs_059 : xsecret_059 = sec64 59. Proof. vm_compute; reflexivity. Qed.
Lemma xs_064 : xsecret_064 = sec64 64. Proof. vm_compute; reflexivity. Qed.
Lemma xs_067 : xsecret_067 = sec64 67. Proof. vm_compute; reflexivity. Qed.
Lemma xs_072 : xsecret_072 = sec64 72. Proof. vm_compute; reflexivity. Qed.
Lemma xs_080 : xsecret_080 = sec64 80. Proof. vm_compute; reflexivity. Qed.
Lemma xs_088 : xsecret_088 = sec64 88. Proof. vm_compute; reflexivity. Qed.
Lemma xs_096 : xsecret_096 = sec64 96. Proof. vm_compute; reflexivity. Qed.
Lemma xs_103 : xsecret_103 = sec64 103. Proof. vm_compute; reflexivity. Qed.
Lemma xs_104 : xsecret_104 = sec64 104. Proof. vm_compute; reflexivity. Qed.
Lemma xs_111 : xsecret_111 = sec64 111. Proof. vm_compute; reflexivity. Qed.
Lemma xs_112 : xsecret_112 = sec64 112. Proof. vm_compute; reflexivity. Qed.
Lemma xs_117 : xsecret_117 = sec64 117. Proof. vm_compute; reflexivity. Qed.
Lemma xs_119 : xsecret_119 = sec64 119. Proof. vm_compute; reflexivity. Qed.
Lemma xs_120 : xsecret_120 = sec64 120. Proof. vm_compute; reflexivity. Qed.
Lemma xs_125 : xsecret_125 = sec64 125. Proof. vm_compute; reflexivity. Qed.
Lemma xs_127 : xsecret_127 = sec64 127. Proof. vm_compute; reflexivity. Qed.
Lemma xs_128 : xsecret_128 = sec64 128. Proof. vm_compute; reflexivity. Qed.
Lemma xs_133 : xsecret_133 = sec64 133. Proof. vm_compute; reflexivity. Qed.
Lemma xs_136 : xsecret_136 = sec64 136. Proof. vm_compute; reflexivity. Qed.
Lemma xs_141 : xsecret_141 = sec64 141. Proof. vm_compute; reflexivity. Qed.
Lemma xs_144 : xsecret_144 = sec64 144. Proof. vm_compute; reflexivity. Qed.
Lemma xs_149 : xsecret_149 = sec64 149. Proof. vm_compute; reflexivity. Qed.
Lemma xs_152 : xsecret_152 = sec64 152. Proof. vm_compute; reflexivity. Qed.
Lemma xs_157 : xsecret_157 = sec64 157. Proof. vm_compute; reflexivity. Qed.
Lemma xs_160 : xsecret_160 = sec64 160. Proof. vm_compute; reflexivity. Qed.
Lemma xs_165 : xsecret_165 = sec64 165. Proof. vm_compute; reflexivity. Qed.
Lemma xs_168 : xsecret_168 = sec64 168. Proof. vm_compute; reflexivity. Qed.
Lemma xs_173 : xsecret_173 = sec64 173. Proof. vm_compute; reflexivity. Qed.
Lemma xs_176 : xsecret_176 = sec64 176. Proof. vm_compute; reflexivity. Qed.
Lemma xs_184 : xsecret_184 = sec64 184. Proof. vm_compute; reflexivity. Qed.
Lemma xs32_lo : Z.lxor xsecret32_000 xsecret32_004 = Z.lxor (sec32 0) (sec32 4). Proof. vm_compute; reflexivity. Qed.
Lemma xs32_hi : Z.lxor xsecret32_008 xsecret32_012 = Z.lxor (sec32 8) (sec32 12). Proof. vm_compute; reflexivity. Qed.
Lemma pr32_1 : prime32_1 = P32_1. Proof. reflexivity. Qed.
Lemma pr32_2 : prime32_2 = P32_2. Proof. reflexivity. Qed.
Lemma pr32_3 : prime32_3 = P32_3. Proof. reflexivity. Qed.
Lemma pr64_1 : prime64_1 = P64_1. Proof. reflexivity. Qed.
Lemma pr64_2 : prime64_2 = P64_2. Proof. reflexivity. Qed.
Lemma pr64_3 : prime64_3 = P64_3. Proof. reflexivity. Qed.
Lemma pr64_4 : prime64_4 = P64_4. Proof. reflexivity. Qed.
Lemma pr64_5 : prime64_5 = P64_5. Proof. reflexivity. Qed.
Lemma c_stripe_eq : c_stripe = 64. Proof. reflexivity. Qed.
Lemma c_block_eq : c_block = 1024. Proof. reflexivity. Qed.

(* rewrite every named constant of consts.go into the Spec's vocabulary *)
Ltac consts_to_spec :=
  rewrite ?xs_000, ?xs_008, ?xs_011, ?xs_016, ?xs_019, ?xs_024, ?xs_027, ?xs_032, ?xs_035, ?xs_040, ?xs_043, ?xs_048, ?xs_051, ?xs_056, ?xs_059, ?xs_064, ?xs_067, ?xs_072, ?xs_080, ?xs_088, ?xs_096, ?xs_103, ?xs_104, ?xs_111, ?xs_112, ?xs_117, ?xs_119, ?xs_120, ?xs_125, ?xs_127, ?xs_128, ?xs_133, ?xs_136, ?xs_141, ?xs_144, ?xs_149, ?xs_152, ?xs_157, ?xs_160, ?xs_165, ?xs_168, ?xs_173, ?xs_176, ?xs_184, ?xs32_lo, ?xs32_hi,
          ?pr32_1, ?pr32_2, ?pr32_3, ?pr64_1, ?pr64_2, ?pr64_3, ?pr64_4, ?pr64_5.
