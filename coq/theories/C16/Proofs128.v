(* C16: Model.hash128 = Spec.xxh3_128 for every length class. *)
From VF Require Import C16.Spec C16.Model C16.ProofsWord C16.ProofsConsts C16.Proofs64Small C16.Proofs64Mid C16.ProofsLong.
From Coq Require Import ZifyBool ZifyNat.
Local Open Scope Z_scope.
Ltac Zify.zify_post_hook ::= Z.div_mod_to_equations.

(* ------------------------------ length 0 ------------------------------ *)
Lemma hash128_len0 : hash128 [] = Some (xxh3_128 []).
Proof. vm_compute. reflexivity. Qed.

(* ------------------------------ 1..3 ------------------------------ *)
Lemma tail_1to3 d len c : 1 <= len <= 3 -> c = combined_1to3 d len ->
  Some (xxh64Avalanche (Z.lxor (rotl32 (bswap32 (w32 c)) 13) (Z.lxor xsecret32_008 xsecret32_012)),
        xxh64Avalanche (Z.lxor c (Z.lxor xsecret32_000 xsecret32_004))) = Some (len_1to3_128 d len).
Proof.
  intros H ->. unfold len_1to3_128. rewrite xs32_lo, xs32_hi.
  pose proof (combined_range d len H) as R.
  rewrite !xxh64Avalanche_eq; [reflexivity| |].
  - apply keyed_small. exact R.
  - apply keyed_small. rewrite <- M32_val. apply rotl32_range.
Qed.

Lemma hash128_1to3 d : 1 <= Z.of_nat (length d) <= 3 -> hash128 d = Some (xxh3_128 d).
Proof.
  intros H. destruct d as [|a [|b [|c [|x t]]]]; cbn [length] in H; try lia.
  - unfold hash128, xxh3_128. change (Z.of_nat (length [a])) with 1. ztest.
    unfold xxh3HashSmall128. ztest. rewrite read8_ok by (cbn [length]; lia).
    apply tail_1to3; [lia|apply combined_1].
  - unfold hash128, xxh3_128. change (Z.of_nat (length [a; b])) with 2. ztest.
    unfold xxh3HashSmall128. ztest. rewrite read16_ok by (cbn [length]; lia).
    apply tail_1to3; [lia|apply combined_2].
  - unfold hash128, xxh3_128. change (Z.of_nat (length [a; b; c])) with 3. ztest.
    unfold xxh3HashSmall128. ztest. rewrite read16_ok, read8_ok by (cbn [length]; lia).
    apply tail_1to3; [lia|apply combined_3].
Qed.

(* ------------------------------ 4..8 ------------------------------ *)
Lemma hash128_4to8 d : 4 <= Z.of_nat (length d) <= 8 -> hash128 d = Some (xxh3_128 d).
Proof.
  intros H. unfold hash128, xxh3_128. ztest. unfold xxh3HashSmall128. ztest.
  rewrite !read32_ok by lia. unfold len_4to8_128.
  rewrite input64_eq by apply rd32_range.
  rewrite xxh3Avalanche_eq, PMX2_val. consts_to_spec. reflexivity.
Qed.

(* ------------------------------ 9..16 ------------------------------ *)
Lemma mhi_eq a b c p : add64 a (add64 b (mul64 c p)) = w (a + b + c * p).
Proof. wnorm. Qed.

Lemma hash128_9to16 d : 9 <= Z.of_nat (length d) <= 16 -> hash128 d = Some (xxh3_128 d).
Proof.
  intros H. unfold hash128, xxh3_128. ztest. unfold xxh3HashSmall128. ztest.
  rewrite !read64_ok by lia. unfold len_9to16_128.
  rewrite mhi_eq, !xxh3Avalanche_eq. consts_to_spec. reflexivity.
Qed.

(* ------------------------------ 17..240: the 32-byte group ------------------------------ *)
Local Transparent mix16 mixrd.
Lemma group128_ok d acc a a8 so so8 b b8 so16 so24 :
  0 <= a -> a8 = a + 8 -> a + 16 <= Z.of_nat (length d) ->
  0 <= b -> b8 = b + 8 -> b + 16 <= Z.of_nat (length d) ->
  so8 = so + 8 -> so16 = so + 16 -> so24 = so + 24 ->
  group128 d acc a a8 (sec64 so) (sec64 so8) b b8 (sec64 so16) (sec64 so24) = Some (mix32 d acc a b so).
Proof.
  intros Ha -> Hla Hb -> Hlb -> -> ->. destruct acc as [lo hi]. unfold group128, mix32, mixrd, mix16.
  rewrite !read64_ok by lia.
  replace (so + 16 + 8) with (so + 24) by lia. reflexivity.
Qed.

(* the 129..240 loop of Hash128: rounds 4 .. len/32 - 1 *)
Definition round128 (d : list Z) (a : Z * Z) (i : nat) : Z * Z :=
  mix32 d a (32 * Z.of_nat i) (32 * Z.of_nat i + 16) (3 + 32 * (Z.of_nat i - 4)).

Lemma loop129_128_spec : forall n fuel d k acc,
  (n < fuel)%nat -> (4 <= k)%nat -> (k + n <= 7)%nat -> 32 * Z.of_nat (k + n) <= Z.of_nat (length d) ->
  loop129_128 fuel d (32 * Z.of_nat k) (32 * Z.of_nat (k + n)) acc = Some (fold_left (round128 d) (seq k n) acc).
Proof.
  induction n as [|n IH]; intros fuel d k acc Hf Hk Hkn Hlen; (destruct fuel as [|f]; [lia|]); cbn [loop129_128].
  - replace (32 * Z.of_nat k <? 32 * Z.of_nat (k + 0)) with false by lia. reflexivity.
  - replace (32 * Z.of_nat k <? 32 * Z.of_nat (k + S n)) with true by lia.
    destruct acc as [lo hi].
    rewrite !read_secret by lia. rewrite !read64_ok by lia.
    replace (32 * Z.of_nat k + 32) with (32 * Z.of_nat (S k)) by lia.
    replace (32 * Z.of_nat (k + S n)) with (32 * Z.of_nat (S k + n)) by lia.
    rewrite IH by lia. rewrite fold_left_seq_S. do 2 f_equal.
    unfold round128, mix32, mix16.
    replace (3 + 32 * (Z.of_nat k - 4)) with (32 * Z.of_nat k - 125) by lia.
    replace (32 * Z.of_nat k - 125 + 8) with (32 * Z.of_nat k - 117) by lia.
    replace (32 * Z.of_nat k - 125 + 16) with (32 * Z.of_nat k - 109) by lia.
    replace (32 * Z.of_nat k - 109 + 8) with (32 * Z.of_nat k - 101) by lia.
    replace (32 * Z.of_nat k + 16 + 8) with (32 * Z.of_nat k + 24) by lia.
    reflexivity.
Qed.
Global Opaque mix16 mixrd group128 mix32.

Lemma finish_mid_ok acc len :
  (let '(accLow, accHigh) := acc in
   Some (neg64 (xxh3Avalanche (add64 (add64 (mul64 accLow P64_1) (mul64 accHigh P64_4)) (mul64 len P64_2))),
         xxh3Avalanche (add64 accHigh accLow))) = Some (finish_mid_128 acc len).
Proof.
  destruct acc as [lo hi]. unfold finish_mid_128. rewrite !xxh3Avalanche_eq.
  rewrite (add64_comm hi lo). do 4 f_equal. wnorm.
Qed.

(* ------------------------------ 17..128 ------------------------------ *)
Lemma hashLarge128_17to128 d : 17 <= Z.of_nat (length d) <= 128 ->
  xxh3HashLarge128 d (Z.of_nat (length d)) = Some (len_17to128_128 d (Z.of_nat (length d))).
Proof.
  intros H. set (len := Z.of_nat (length d)) in *.
  unfold xxh3HashLarge128, len_17to128_128. consts_to_spec.
  assert (C : len <= 32 \/ 33 <= len <= 64 \/ 65 <= len <= 96 \/ 97 <= len) by lia.
  destruct C as [C|[C|[C|C]]].
  - replace ((len - 1) / 32) with 0 by lia. ztest.
    repeat (rewrite group128_ok by (subst len; lia); cbv beta iota zeta).
    change (Z.to_nat 0) with 0%nat. cbn [seq rev app fold_left]. zeval.
    apply finish_mid_ok.
  - replace ((len - 1) / 32) with 1 by lia. ztest.
    repeat (rewrite group128_ok by (subst len; lia); cbv beta iota zeta).
    change (Z.to_nat 1) with 1%nat. cbn [seq rev app fold_left]. zeval.
    apply finish_mid_ok.
  - replace ((len - 1) / 32) with 2 by lia. ztest.
    repeat (rewrite group128_ok by (subst len; lia); cbv beta iota zeta).
    change (Z.to_nat 2) with 2%nat. cbn [seq rev app fold_left]. zeval.
    apply finish_mid_ok.
  - replace ((len - 1) / 32) with 3 by lia. ztest.
    repeat (rewrite group128_ok by (subst len; lia); cbv beta iota zeta).
    change (Z.to_nat 3) with 3%nat. cbn [seq rev app fold_left]. zeval.
    apply finish_mid_ok.
Qed.


(* ------------------------------ 129..240 ------------------------------ *)
Lemma finish_mid_ok' acc acc' len : acc = acc' ->
  (let '(accLow, accHigh) := acc in
   Some (neg64 (xxh3Avalanche (add64 (add64 (mul64 accLow P64_1) (mul64 accHigh P64_4)) (mul64 len P64_2))),
         xxh3Avalanche (add64 accHigh accLow))) = Some (finish_mid_128 acc' len).
Proof. intros <-. apply finish_mid_ok. Qed.

Lemma hashLarge128_129to240 d : 129 <= Z.of_nat (length d) <= 240 ->
  xxh3HashLarge128 d (Z.of_nat (length d)) = Some (len_129to240_128 d (Z.of_nat (length d))).
Proof.
  intros H. set (len := Z.of_nat (length d)) in *.
  unfold xxh3HashLarge128, len_129to240_128. consts_to_spec. ztest.
  repeat (rewrite group128_ok by (subst len; lia); cbv beta iota zeta).
  assert (Enb : Z.shiftl (Z.shiftr len 5) 5 = 32 * Z.of_nat (4 + Z.to_nat (len / 32 - 4))).
  { rewrite Z.shiftr_div_pow2, Z.shiftl_mul_pow2 by lia. change (2 ^ 5) with 32. lia. }
  rewrite Enb. change (4 * 32) with (32 * Z.of_nat 4).
  rewrite loop129_128_spec by (subst len; lia).
  repeat (rewrite group128_ok by (subst len; lia); cbv beta iota zeta).
  replace (Z.to_nat (len / 32) - 4)%nat with (Z.to_nat (len / 32 - 4)) by lia.
  cbn [seq fold_left]. zeval.
  apply finish_mid_ok'.
  unfold round128, mul64. rewrite xxh3Avalanche_fun. reflexivity.
Qed.

(* ------------------------------ > 240 ------------------------------ *)
Lemma hashLarge128_long d : 241 <= Z.of_nat (length d) ->
  xxh3HashLarge128 d (Z.of_nat (length d)) = Some (hash_long_128 d (Z.of_nat (length d))).
Proof.
  intros H. unfold xxh3HashLarge128. unfold hash_long_128. unfold accum. ztest.
  destruct (accumScalar_ok d H) as (a & E & L). rewrite E, <- L.
  destruct a as [a0 a1 a2 a3 a4 a5 a6 a7]. unfold to_list. cbn [x0 x1 x2 x3 x4 x5 x6 x7].
  rewrite !merge_unfold, xxh3Avalanche_fun. consts_to_spec. zeval.
  f_equal. f_equal.
  - f_equal. unfold mul64 at 1. wnorm.
  - f_equal. wnorm.
Qed.
