(* C16 model: sys/xxhash3 {hash.go, hash128.go, accum_scalar.go, accum_amd64.go, util.go} AS WRITTEN.
   No proofs in this file.

   - the input slice is a byte list [d]; `xinput + k` is the byte offset k; every load goes through the
     bounds-checked [read64/read32/read16/read8] of Word.v (None = a load outside the slice). The secret
     table `xsecret` (regenerated into Consts.v) is read the same way where the Go code reads it through
     the pointer; elsewhere the Go code uses the named constants xsecret_NNN of consts.go, and so does the
     model (Consts.v, regenerated from consts.go on every run).
   - uint64 arithmetic wraps ([add64], [mul64], [shl64], [neg64], [not64]); lengths, loop counters and
     offsets are Go int/uintptr values of a slice length (< 2^63): their arithmetic is exact and is
     written in Z. accum is only entered with l > 240, so the unsigned wrap of l-1 at l = 0 is not modelled.
   - None also stands for an exhausted loop fuel (129..240 loops); the theorems show the result is Some.
   - accumAVX2 / accumSSE2 (avx2_amd64.s, sse2_amd64.s) are MODELLED AS accumScalar (not verified; tested
     equal on every run by the harness, all three back ends). *)
From VF Require Export C16.Word C16.Consts.
Local Open Scope Z_scope.

(* ------------------------------ util.go ------------------------------ *)
Definition xxh3RRMXMX (h64 length : Z) : Z :=
  let h64 := Z.lxor h64 (Z.lxor (rotl64 h64 49) (rotl64 h64 24)) in
  let h64 := mul64 h64 0x9fb21c651e98df25 in
  let h64 := Z.lxor h64 (add64 (Z.shiftr h64 35) length) in
  let h64 := mul64 h64 0x9fb21c651e98df25 in
  Z.lxor h64 (Z.shiftr h64 28).

(* NB: no leading  h64 ^= h64 >> 33  (the reference XXH64_avalanche has it) *)
Definition xxh64Avalanche (h64 : Z) : Z :=
  let h64 := mul64 h64 prime64_2 in
  let h64 := Z.lxor h64 (Z.shiftr h64 29) in
  let h64 := mul64 h64 prime64_3 in
  Z.lxor h64 (Z.shiftr h64 32).

Definition xxh3Avalanche (x : Z) : Z :=
  let x := Z.lxor x (Z.shiftr x 37) in
  let x := mul64 x 0x165667919e3779f9 in
  Z.lxor x (Z.shiftr x 32).

(* mix(ReadUnaligned64(xinput+o1)^s1, ReadUnaligned64(xinput+o2)^s2) *)
Definition mixrd (d : list Z) (o1 s1 o2 s2 : Z) : option Z :=
  do a <- read64 d o1;
  do b <- read64 d o2;
  Some (mix (Z.lxor a s1) (Z.lxor b s2)).

(* ------------------------------ hash.go ------------------------------ *)
Definition xxh3HashSmall (d : list Z) (length : Z) : option Z :=
  if 8 <? length then
    do r0 <- read64 d 0;
    let inputlo := Z.lxor (Z.lxor r0 xsecret_024) xsecret_032 in
    do r1 <- read64 d (length - 8);
    let inputhi := Z.lxor (Z.lxor r1 xsecret_040) xsecret_048 in
    Some (xxh3Avalanche (add64 (add64 (add64 length (bswap64 inputlo)) inputhi) (mix inputlo inputhi)))
  else if 4 <=? length then
    do input1 <- read32 d 0;
    do input2 <- read32 d (length - 4);
    let input64 := add64 input2 (shl64 input1 32) in
    let keyed := Z.lxor (Z.lxor input64 xsecret_008) xsecret_016 in
    Some (xxh3RRMXMX keyed length)
  else if length =? 3 then
    do c12 <- read16 d 0;
    do c3 <- read8 d 2;
    let acc := add64 (add64 (shl64 c12 16) c3) (shl64 3 8) in
    let acc := Z.lxor acc (Z.lxor xsecret32_000 xsecret32_004) in
    Some (xxh64Avalanche acc)
  else if length =? 2 then
    do c12 <- read16 d 0;
    let acc := add64 (Z.shiftr (mul64 c12 (16777216 + 1)) 8) (shl64 2 8) in
    let acc := Z.lxor acc (Z.lxor xsecret32_000 xsecret32_004) in
    Some (xxh64Avalanche acc)
  else if length =? 1 then
    do c1 <- read8 d 0;
    let acc := add64 (mul64 c1 (16777216 + 65536 + 1)) (shl64 1 8) in
    let acc := Z.lxor acc (Z.lxor xsecret32_000 xsecret32_004) in
    Some (xxh64Avalanche acc)
  else Some 0x2d06800538d394c2.

(* for i := 8*16; i < nbRounds; i += 16 { acc += mix(in[i]^secret[i-125], in[i+8]^secret[i-117]) } *)
Fixpoint loop129 (fuel : nat) (d : list Z) (i nbRounds acc : Z) : option Z :=
  match fuel with
  | O => None
  | S f =>
      if i <? nbRounds then
        do a <- read64 d i;
        do sa <- read64 xsecret (i - 125);
        do b <- read64 d (i + 8);
        do sb <- read64 xsecret (i - 117);
        loop129 f d (i + 16) nbRounds (add64 acc (mix (Z.lxor a sa) (Z.lxor b sb)))
      else Some acc
  end.

(* the 8 accumulator lanes xacc[0..7] *)
Record acc8 := mk8 { x0 : Z; x1 : Z; x2 : Z; x3 : Z; x4 : Z; x5 : Z; x6 : Z; x7 : Z }.

(* ------------------------------ accum_scalar.go ------------------------------ *)
(* one 64-byte stripe at xinput with the secret at offset k: the unrolled body that occurs three times *)
Definition stripe (d : list Z) (xinput k : Z) (a : acc8) : option acc8 :=
  let '(mk8 x0 x1 x2 x3 x4 x5 x6 x7) := a in
  do dataVec0 <- read64 d (xinput + 8 * 0);
  do key0 <- read64 xsecret (k + 8 * 0);
  let keyVec0 := Z.lxor dataVec0 key0 in
  let x1 := add64 x1 dataVec0 in
  let x0 := add64 x0 (mul32halves keyVec0) in
  do dataVec1 <- read64 d (xinput + 8 * 1);
  do key1 <- read64 xsecret (k + 8 * 1);
  let keyVec1 := Z.lxor dataVec1 key1 in
  let x0 := add64 x0 dataVec1 in
  let x1 := add64 x1 (mul32halves keyVec1) in
  do dataVec2 <- read64 d (xinput + 8 * 2);
  do key2 <- read64 xsecret (k + 8 * 2);
  let keyVec2 := Z.lxor dataVec2 key2 in
  let x3 := add64 x3 dataVec2 in
  let x2 := add64 x2 (mul32halves keyVec2) in
  do dataVec3 <- read64 d (xinput + 8 * 3);
  do key3 <- read64 xsecret (k + 8 * 3);
  let keyVec3 := Z.lxor dataVec3 key3 in
  let x2 := add64 x2 dataVec3 in
  let x3 := add64 x3 (mul32halves keyVec3) in
  do dataVec4 <- read64 d (xinput + 8 * 4);
  do key4 <- read64 xsecret (k + 8 * 4);
  let keyVec4 := Z.lxor dataVec4 key4 in
  let x5 := add64 x5 dataVec4 in
  let x4 := add64 x4 (mul32halves keyVec4) in
  do dataVec5 <- read64 d (xinput + 8 * 5);
  do key5 <- read64 xsecret (k + 8 * 5);
  let keyVec5 := Z.lxor dataVec5 key5 in
  let x4 := add64 x4 dataVec5 in
  let x5 := add64 x5 (mul32halves keyVec5) in
  do dataVec6 <- read64 d (xinput + 8 * 6);
  do key6 <- read64 xsecret (k + 8 * 6);
  let keyVec6 := Z.lxor dataVec6 key6 in
  let x7 := add64 x7 dataVec6 in
  let x6 := add64 x6 (mul32halves keyVec6) in
  do dataVec7 <- read64 d (xinput + 8 * 7);
  do key7 <- read64 xsecret (k + 8 * 7);
  let keyVec7 := Z.lxor dataVec7 key7 in
  let x6 := add64 x6 dataVec7 in
  let x7 := add64 x7 (mul32halves keyVec7) in
  Some (mk8 x0 x1 x2 x3 x4 x5 x6 x7).

(* n iterations of { stripe; xinput, k = xinput + _stripe, k + 8 }: final xacc and xinput *)
Fixpoint stripes_loop (n : nat) (d : list Z) (xinput k : Z) (a : acc8) : option (acc8 * Z) :=
  match n with
  | O => Some (a, xinput)
  | S n' => do a' <- stripe d xinput k a;
            stripes_loop n' d (xinput + c_stripe) (k + 8) a'
  end.

(* xacc[i] ^= xacc[i] >> 47; xacc[i] ^= xsecret_(128+8i); xacc[i] *= prime32_1 *)
Definition scramble1 (x s : Z) : Z :=
  let x := Z.lxor x (Z.shiftr x 47) in
  let x := Z.lxor x s in
  mul64 x prime32_1.
Definition scramble (a : acc8) : acc8 :=
  mk8 (scramble1 (x0 a) xsecret_128) (scramble1 (x1 a) xsecret_136) (scramble1 (x2 a) xsecret_144)
      (scramble1 (x3 a) xsecret_152) (scramble1 (x4 a) xsecret_160) (scramble1 (x5 a) xsecret_168)
      (scramble1 (x6 a) xsecret_176) (scramble1 (x7 a) xsecret_184).

(* for ; j < (l-1)/1024; j++ { k := xsecret; 16 stripes; scramble } *)
Fixpoint blocks_loop (n : nat) (d : list Z) (xinput : Z) (a : acc8) : option (acc8 * Z) :=
  match n with
  | O => Some (a, xinput)
  | S n' => do r <- stripes_loop 16 d xinput 0 a;
            blocks_loop n' d (snd r) (scramble (fst r))
  end.

Definition accumScalar (a : acc8) (d : list Z) (l : Z) : option acc8 :=
  let j := (l - 1) / 1024 in
  do r <- blocks_loop (Z.to_nat j) d 0 a;
  let a := fst r in let xinput := snd r in
  let l := l - c_block * j in
  if 0 <? l then
    let i := (l - 1) / c_stripe in
    do r <- stripes_loop (Z.to_nat i) d xinput 0 a;
    let a := fst r in let xinput := snd r in
    let l := l - c_stripe * i in
    if 0 <? l then
      let xinput := xinput - (c_stripe - l) in
      stripe d xinput 121 a
    else Some a
  else Some a.

(* accum_amd64.go: avx2 -> accumAVX2, sse2 -> accumSSE2, else accumScalar. The assembly back ends are
   modelled as accumScalar. *)
Definition accum := accumScalar.

Definition xacc_init : acc8 :=
  mk8 prime32_3 prime64_1 prime64_2 prime64_3 prime64_4 prime32_2 prime64_5 prime32_1.

Definition xxh3HashLarge (d : list Z) (length : Z) : option Z :=
  if length <=? 128 then
    let acc := mul64 length prime64_1 in
    do acc <-
      (if 32 <? length then
         do acc <-
           (if 64 <? length then
              do acc <-
                (if 96 <? length then
                   do m <- mixrd d 48 xsecret_096 56 xsecret_104;
                   let acc := add64 acc m in
                   do m <- mixrd d (length - 64) xsecret_112 (length - 56) xsecret_120;
                   Some (add64 acc m)
                 else Some acc);
              do m <- mixrd d 32 xsecret_064 40 xsecret_072;
              let acc := add64 acc m in
              do m <- mixrd d (length - 48) xsecret_080 (length - 40) xsecret_088;
              Some (add64 acc m)
            else Some acc);
         do m <- mixrd d 16 xsecret_032 24 xsecret_040;
         let acc := add64 acc m in
         do m <- mixrd d (length - 32) xsecret_048 (length - 24) xsecret_056;
         Some (add64 acc m)
       else Some acc);
    do m <- mixrd d 0 xsecret_000 8 xsecret_008;
    let acc := add64 acc m in
    do m <- mixrd d (length - 16) xsecret_016 (length - 8) xsecret_024;
    let acc := add64 acc m in
    Some (xxh3Avalanche acc)
  else if length <=? 240 then
    let acc := mul64 length prime64_1 in
    do m <- mixrd d (16 * 0) xsecret_000 (16 * 0 + 8) xsecret_008; let acc := add64 acc m in
    do m <- mixrd d (16 * 1) xsecret_016 (16 * 1 + 8) xsecret_024; let acc := add64 acc m in
    do m <- mixrd d (16 * 2) xsecret_032 (16 * 2 + 8) xsecret_040; let acc := add64 acc m in
    do m <- mixrd d (16 * 3) xsecret_048 (16 * 3 + 8) xsecret_056; let acc := add64 acc m in
    do m <- mixrd d (16 * 4) xsecret_064 (16 * 4 + 8) xsecret_072; let acc := add64 acc m in
    do m <- mixrd d (16 * 5) xsecret_080 (16 * 5 + 8) xsecret_088; let acc := add64 acc m in
    do m <- mixrd d (16 * 6) xsecret_096 (16 * 6 + 8) xsecret_104; let acc := add64 acc m in
    do m <- mixrd d (16 * 7) xsecret_112 (16 * 7 + 8) xsecret_120; let acc := add64 acc m in
    let acc := xxh3Avalanche acc in
    let nbRounds := Z.shiftl (Z.shiftr length 4) 4 in
    do acc <- loop129 16 d (8 * 16) nbRounds acc;
    do m <- mixrd d (length - 16) xsecret_119 (length - 8) xsecret_127;
    let acc := add64 acc m in
    Some (xxh3Avalanche acc)
  else
    let xacc := xacc_init in
    let acc := mul64 length prime64_1 in
    do xacc <- accum xacc d length;
    (* merge xacc *)
    let acc := add64 acc (mix (Z.lxor (x0 xacc) xsecret_011) (Z.lxor (x1 xacc) xsecret_019)) in
    let acc := add64 acc (mix (Z.lxor (x2 xacc) xsecret_027) (Z.lxor (x3 xacc) xsecret_035)) in
    let acc := add64 acc (mix (Z.lxor (x4 xacc) xsecret_043) (Z.lxor (x5 xacc) xsecret_051)) in
    let acc := add64 acc (mix (Z.lxor (x6 xacc) xsecret_059) (Z.lxor (x7 xacc) xsecret_067)) in
    Some (xxh3Avalanche acc).

(* func Hash(data []byte) uint64 *)
Definition hash (data : list Z) : option Z :=
  let len := Z.of_nat (length data) in
  if 16 <? len then xxh3HashLarge data len else xxh3HashSmall data len.

(* ------------------------------ hash128.go ------------------------------ *)
(* results are [2]uint64{High, Low}: the pair (high, low) *)

Definition xxh3HashSmall128 (d : list Z) (length : Z) : option (Z * Z) :=
  if 8 <? length then
    let bitflipl := Z.lxor xsecret_032 xsecret_040 in
    let bitfliph := Z.lxor xsecret_048 xsecret_056 in
    do inputLow <- read64 d 0;
    do inputHigh <- read64 d (length - 8);
    let x := Z.lxor (Z.lxor inputLow inputHigh) bitflipl in
    let m128High64 := mulhi x prime64_1 in
    let m128Low64 := mullo x prime64_1 in
    let m128Low64 := add64 m128Low64 (shl64 (length - 1) 54) in
    let inputHigh := Z.lxor inputHigh bitfliph in
    let m128High64 := add64 m128High64 (add64 inputHigh (mul64 (w32 inputHigh) (prime32_2 - 1))) in
    let m128Low64 := Z.lxor m128Low64 (bswap64 m128High64) in
    let h128High64 := mulhi m128Low64 prime64_2 in
    let h128Low64 := mullo m128Low64 prime64_2 in
    let h128High64 := add64 h128High64 (mul64 m128High64 prime64_2) in
    let h128Low64 := xxh3Avalanche h128Low64 in
    let h128High64 := xxh3Avalanche h128High64 in
    Some (h128High64, h128Low64)
  else if 4 <=? length then
    do inputLow <- read32 d 0;
    do inputHigh <- read32 d (length - 4);
    let input64 := add64 inputLow (shl64 inputHigh 32) in
    let bitflip := Z.lxor xsecret_016 xsecret_024 in
    let keyed := Z.lxor input64 bitflip in
    let m := add64 prime64_1 (shl64 length 2) in
    let h128High64 := mulhi keyed m in
    let h128Low64 := mullo keyed m in
    let h128High64 := add64 h128High64 (shl64 h128Low64 1) in
    let h128Low64 := Z.lxor h128Low64 (Z.shiftr h128High64 3) in
    let h128Low64 := Z.lxor h128Low64 (Z.shiftr h128Low64 35) in
    let h128Low64 := mul64 h128Low64 0x9fb21c651e98df25 in
    let h128Low64 := Z.lxor h128Low64 (Z.shiftr h128Low64 28) in
    let h128High64 := xxh3Avalanche h128High64 in
    Some (h128High64, h128Low64)
  else
    (* inl v: fall through to the common tail with h128Low64 = v; inr r: `return r` *)
    do r <-
      (if length =? 3 then
         do c12 <- read16 d 0;
         do c3 <- read8 d 2;
         Some (inl (add64 (add64 (shl64 c12 16) c3) (shl64 3 8)))
       else if length =? 2 then
         do c12 <- read16 d 0;
         Some (inl (add64 (Z.shiftr (mul64 c12 (16777216 + 1)) 8) (shl64 2 8)))
       else if length =? 1 then
         do c1 <- read8 d 0;
         Some (inl (add64 (mul64 c1 (16777216 + 65536 + 1)) (shl64 1 8)))
       else if length =? 0 then
         Some (inr (0x99aa06d3014798d8, 0x6001c324468d497f))
       else Some (inl 0));
    match r with
    | inr res => Some res
    | inl h128Low64 =>
        let h128High64 := rotl32 (bswap32 (w32 h128Low64)) 13 in
        let bitflipl := Z.lxor xsecret32_000 xsecret32_004 in
        let bitfliph := Z.lxor xsecret32_008 xsecret32_012 in
        let h128Low64 := Z.lxor h128Low64 bitflipl in
        let h128High64 := Z.lxor h128High64 bitfliph in
        let h128Low64 := xxh64Avalanche h128Low64 in
        let h128High64 := xxh64Avalanche h128High64 in
        Some (h128High64, h128Low64)
    end.

(* the four-line group of xxh3HashLarge128 (<= 240 branches):
     accLow  += mix(in[a]^sa, in[a8]^sa8);  accLow  ^= in[b] + in[b8]
     accHigh += mix(in[b]^sb, in[b8]^sb8);  accHigh ^= in[a] + in[a8]       *)
Definition group128 (d : list Z) (acc : Z * Z) (a a8 sa sa8 b b8 sb sb8 : Z) : option (Z * Z) :=
  let '(accLow, accHigh) := acc in
  do m <- mixrd d a sa a8 sa8;
  let accLow := add64 accLow m in
  do rb <- read64 d b;
  do rb8 <- read64 d b8;
  let accLow := Z.lxor accLow (add64 rb rb8) in
  do m <- mixrd d b sb b8 sb8;
  let accHigh := add64 accHigh m in
  do ra <- read64 d a;
  do ra8 <- read64 d a8;
  let accHigh := Z.lxor accHigh (add64 ra ra8) in
  Some (accLow, accHigh).

(* for i := 4*32; i < nbRounds; i += 32 { accHigh group on secret i-109/i-101; accLow group on i-125/i-117 } *)
Fixpoint loop129_128 (fuel : nat) (d : list Z) (i nbRounds : Z) (acc : Z * Z) : option (Z * Z) :=
  match fuel with
  | O => None
  | S f =>
      if i <? nbRounds then
        let '(accLow64, accHigh64) := acc in
        do h1 <- read64 d (i + 16);
        do s1 <- read64 xsecret (i - 109);
        do h2 <- read64 d (i + 24);
        do s2 <- read64 xsecret (i - 101);
        let accHigh64 := add64 accHigh64 (mix (Z.lxor h1 s1) (Z.lxor h2 s2)) in
        do l1 <- read64 d i;
        do l2 <- read64 d (i + 8);
        let accHigh64 := Z.lxor accHigh64 (add64 l1 l2) in
        do l1 <- read64 d i;
        do t1 <- read64 xsecret (i - 125);
        do l2 <- read64 d (i + 8);
        do t2 <- read64 xsecret (i - 117);
        let accLow64 := add64 accLow64 (mix (Z.lxor l1 t1) (Z.lxor l2 t2)) in
        do h1 <- read64 d (i + 16);
        do h2 <- read64 d (i + 24);
        let accLow64 := Z.lxor accLow64 (add64 h1 h2) in
        loop129_128 f d (i + 32) nbRounds (accLow64, accHigh64)
      else Some acc
  end.

Definition xxh3HashLarge128 (d : list Z) (length : Z) : option (Z * Z) :=
  if length <=? 128 then
    let acc := (mul64 length prime64_1, 0) in       (* (accLow, accHigh) *)
    do acc <-
      (if 32 <? length then
         do acc <-
           (if 64 <? length then
              do acc <-
                (if 96 <? length then
                   group128 d acc 48 56 xsecret_096 xsecret_104 (length - 64) (length - 56) xsecret_112 xsecret_120
                 else Some acc);
              group128 d acc 32 40 xsecret_064 xsecret_072 (length - 48) (length - 40) xsecret_080 xsecret_088
            else Some acc);
         group128 d acc 16 (3 * 8) xsecret_032 xsecret_040 (length - 32) (length - 3 * 8) xsecret_048 xsecret_056
       else Some acc);
    do acc <- group128 d acc 0 8 xsecret_000 xsecret_008 (length - 16) (length - 8) xsecret_016 xsecret_024;
    let '(accLow, accHigh) := acc in
    let h128Low := add64 accHigh accLow in
    let h128High := add64 (add64 (mul64 accLow prime64_1) (mul64 accHigh prime64_4)) (mul64 length prime64_2) in
    let h128Low := xxh3Avalanche h128Low in
    let h128High := neg64 (xxh3Avalanche h128High) in
    Some (h128High, h128Low)
  else if length <=? 240 then
    let acc := (mul64 length prime64_1, 0) in       (* (accLow64, accHigh64) *)
    do acc <- group128 d acc (32 * 0) 8 xsecret_000 xsecret_008 (32 * 0 + 16) 24 xsecret_016 xsecret_024;
    do acc <- group128 d acc (32 * 1) (32 * 1 + 8) xsecret_032 xsecret_040 (32 * 1 + 16) (32 * 1 + 24) xsecret_048 xsecret_056;
    do acc <- group128 d acc (32 * 2) (32 * 2 + 8) xsecret_064 xsecret_072 (32 * 2 + 16) (32 * 2 + 24) xsecret_080 xsecret_088;
    do acc <- group128 d acc (32 * 3) (32 * 3 + 8) xsecret_096 xsecret_104 (32 * 3 + 16) (32 * 3 + 24) xsecret_112 xsecret_120;
    let acc := (xxh3Avalanche (fst acc), xxh3Avalanche (snd acc)) in
    let nbRounds := Z.shiftl (Z.shiftr length 5) 5 in
    do acc <- loop129_128 8 d (4 * 32) nbRounds acc;
    (* last 32 bytes *)
    do acc <- group128 d acc (length - 16) (length - 8) xsecret_103 xsecret_111
                             (length - 32) (length - 24) xsecret_119 xsecret_127;
    let '(accLow64, accHigh64) := acc in
    let accHigh64' := add64 (add64 (mul64 accLow64 prime64_1) (mul64 accHigh64 prime64_4)) (mul64 length prime64_2) in
    let accLow64' := add64 accHigh64 accLow64 in
    let accLow64 := xxh3Avalanche accLow64' in
    let accHigh64 := neg64 (xxh3Avalanche accHigh64') in
    Some (accHigh64, accLow64)
  else
    let xacc := xacc_init in
    let acc1 := mul64 length prime64_1 in
    let acc0 := not64 (mul64 length prime64_2) in
    do xacc <- accum xacc d length;
    (* merge xacc *)
    let acc1 := add64 acc1 (mix (Z.lxor (x0 xacc) xsecret_011) (Z.lxor (x1 xacc) xsecret_019)) in
    let acc1 := add64 acc1 (mix (Z.lxor (x2 xacc) xsecret_027) (Z.lxor (x3 xacc) xsecret_035)) in
    let acc1 := add64 acc1 (mix (Z.lxor (x4 xacc) xsecret_043) (Z.lxor (x5 xacc) xsecret_051)) in
    let acc1 := add64 acc1 (mix (Z.lxor (x6 xacc) xsecret_059) (Z.lxor (x7 xacc) xsecret_067)) in
    let acc1 := xxh3Avalanche acc1 in
    let acc0 := add64 acc0 (mix (Z.lxor (x0 xacc) xsecret_117) (Z.lxor (x1 xacc) xsecret_125)) in
    let acc0 := add64 acc0 (mix (Z.lxor (x2 xacc) xsecret_133) (Z.lxor (x3 xacc) xsecret_141)) in
    let acc0 := add64 acc0 (mix (Z.lxor (x4 xacc) xsecret_149) (Z.lxor (x5 xacc) xsecret_157)) in
    let acc0 := add64 acc0 (mix (Z.lxor (x6 xacc) xsecret_165) (Z.lxor (x7 xacc) xsecret_173)) in
    let acc0 := xxh3Avalanche acc0 in
    Some (acc0, acc1).

(* func Hash128(data []byte) [2]uint64 *)
Definition hash128 (data : list Z) : option (Z * Z) :=
  let len := Z.of_nat (length data) in
  if 16 <? len then xxh3HashLarge128 data len else xxh3HashSmall128 data len.

(* HashString / Hash128String: hack.StringToBytes reinterprets the string header; same bytes, same call *)
Definition hashString := hash.
Definition hash128String := hash128.
