(* C16 shared word-level vocabulary: uint64/uint32 arithmetic on Z, math/bits primitives, and
   little-endian reads from a byte list. Used by both Spec.v (the XXH3 definition) and Model.v (the Go
   code as written). Definitions only; facts about them are in ProofsWord.v.

   Representation: a uint64 is a Z in [0, 2^64). Wrap-around is [w] (implemented as a bit mask, which is
   x mod 2^64 for every Z, see ProofsWord.w_mod). A byte string is a [list Z]; every list denotes a byte
   string because reads take each element mod 256 ([b8]).  *)
From VF Require Export Common.Base.
Local Open Scope Z_scope.

Definition M64 : Z := 18446744073709551616.       (* 2^64 *)
Definition M32 : Z := 4294967296.                 (* 2^32 *)
Definition mask64 : Z := 18446744073709551615.    (* 2^64 - 1 *)
Definition mask32 : Z := 4294967295.              (* 2^32 - 1 *)

Definition w (x : Z) : Z := Z.land x mask64.      (* uint64(x) *)
Definition w32 (x : Z) : Z := Z.land x mask32.    (* uint32(x) *)

Definition add64 (a b : Z) : Z := w (a + b).
Definition mul64 (a b : Z) : Z := w (a * b).
Definition neg64 (a : Z) : Z := w (- a).           (* -x on uint64 *)
Definition not64 (a : Z) : Z := Z.lxor a mask64.   (* ^x on uint64 *)
Definition shl64 (a n : Z) : Z := w (Z.shiftl a n).
(* bits.Mul64 *)
Definition mulhi (a b : Z) : Z := Z.shiftr (a * b) 64.
Definition mullo (a b : Z) : Z := w (a * b).
(* XXH3_mul128_fold64 *)
Definition mix (a b : Z) : Z := Z.lxor (mulhi a b) (mullo a b).
(* XXH_mult32to64 of the two halves of a 64-bit word *)
Definition mul32halves (k : Z) : Z := Z.land k mask32 * Z.shiftr k 32.

Definition rotl64 (x r : Z) : Z := w (Z.lor (Z.shiftl x r) (Z.shiftr x (64 - r))).
Definition rotl32 (x r : Z) : Z := w32 (Z.lor (Z.shiftl x r) (Z.shiftr x (32 - r))).
Definition byte_of (x i : Z) : Z := Z.land (Z.shiftr x (8 * i)) 255.
Definition bswap64 (x : Z) : Z :=
  byte_of x 0 * 2^56 + byte_of x 1 * 2^48 + byte_of x 2 * 2^40 + byte_of x 3 * 2^32 +
  byte_of x 4 * 2^24 + byte_of x 5 * 2^16 + byte_of x 6 * 2^8 + byte_of x 7.
Definition bswap32 (x : Z) : Z :=
  byte_of x 0 * 2^24 + byte_of x 1 * 2^16 + byte_of x 2 * 2^8 + byte_of x 3.

(* ---- memory: little-endian reads ---- *)
Definition b8 (x : Z) : Z := Z.land x 255.       (* x mod 256, for every Z: ProofsWord.b8_mod *)
(* little-endian value of the first n bytes of t (absent bytes count as 0) *)
Fixpoint le_bytes (n : nat) (t : list Z) : Z :=
  match n with
  | O => 0
  | S n' => match t with
            | [] => 0
            | b :: t' => b8 b + 256 * le_bytes n' t'
            end
  end.
(* total read of n bytes at offset off (negative offsets read from 0; used by the Spec, whose offsets are
   always inside the input, and as the value returned by the bounds-checked read of the Model) *)
Definition rd (n : nat) (m : list Z) (off : Z) : Z := le_bytes n (skipn (Z.to_nat off) m).
Definition rd8 := rd 1.
Definition rd16 := rd 2.
Definition rd32 := rd 4.
Definition rd64 := rd 8.

(* bounds-checked read: None unless the n bytes off .. off+n-1 all lie inside m *)
Definition read (n : nat) (m : list Z) (off : Z) : option Z :=
  if (0 <=? off) && (n <=? length (firstn n (skipn (Z.to_nat off) m)))%nat
  then Some (rd n m off) else None.
Definition read8 := read 1.
Definition read16 := read 2.
Definition read32 := read 4.
Definition read64 := read 8.

Notation "'do' x <- e ; k" := (match e with Some x => k | None => None end)
  (at level 200, x name, e at level 100, k at level 200, right associativity).
