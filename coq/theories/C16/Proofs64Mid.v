(* C16: Model.hash = Spec.xxh3_64 for the classes 17..128 and 129..240. *)
From VF Require Import C16.Spec C16.Model C16.ProofsWord C16.ProofsConsts C16.Proofs64Small.
From Coq Require Import ZifyBool ZifyNat.
Local Open Scope Z_scope.
Ltac Zify.zify_post_hook ::= Z.div_mod_to_equations.

(* one mix(in[o1]^secret[so1], in[o2]^secret[so2]) of the Go code is XXH3_mix16B *)
Lemma mixrd_ok d o1 so1 o2 so2 :
  0 <= o1 -> o2 = o1 + 8 -> so2 = so1 + 8 -> o1 + 16 <= Z.of_nat (length d) ->
  mixrd d o1 (sec64 so1) o2 (sec64 so2) = Some (mix16 d o1 so1).
Proof.
  intros H0 -> -> H1. unfold mixrd. rewrite !read64_ok by lia. reflexivity.
Qed.

Lemma eqm_trans a b c : eqm a b -> eqm b c -> eqm a c.
Proof. unfold eqm. congruence. Qed.

(* ---- the 129..240 loop: rounds 8 .. len/16 - 1 ---- *)
Definition round129 (d : list Z) (i : nat) : Z :=
  let i := Z.of_nat i in mix16 d (16 * i) (16 * (i - 8) + 3).

Lemma loop129_spec : forall n fuel d k acc,
  (n < fuel)%nat -> (8 <= k)%nat -> (k + n <= 15)%nat -> 16 * Z.of_nat (k + n) <= Z.of_nat (length d) ->
  exists r, loop129 fuel d (16 * Z.of_nat k) (16 * Z.of_nat (k + n)) acc = Some r /\
            eqm r (acc + sumZ (map (round129 d) (seq k n))).
Proof.
  induction n as [|n IH]; intros fuel d k acc Hf Hk Hkn Hlen; (destruct fuel as [|f]; [lia|]); cbn [loop129].
  - replace (16 * Z.of_nat k <? 16 * Z.of_nat (k + 0)) with false by lia.
    exists acc. split; [reflexivity|]. cbn [seq map]. rewrite sumZ_nil, Z.add_0_r. apply eqm_refl.
  - replace (16 * Z.of_nat k <? 16 * Z.of_nat (k + S n)) with true by lia.
    rewrite !read_secret by lia. rewrite !read64_ok by lia.
    replace (16 * Z.of_nat k + 16) with (16 * Z.of_nat (S k)) by lia.
    replace (16 * Z.of_nat (k + S n)) with (16 * Z.of_nat (S k + n)) by lia.
    destruct (IH f d (S k) (add64 acc (mix (Z.lxor (rd64 d (16 * Z.of_nat k)) (sec64 (16 * Z.of_nat k - 125)))
                                          (Z.lxor (rd64 d (16 * Z.of_nat k + 8)) (sec64 (16 * Z.of_nat k - 117))))))
      as (r & Hr & Er); try lia.
    exists r. split; [exact Hr|]. cbn [seq map]. rewrite sumZ_cons.
    eapply eqm_trans; [exact Er|].
    unfold round129 at 2. unfold mix16.
    replace (16 * (Z.of_nat k - 8) + 3) with (16 * Z.of_nat k - 125) by lia.
    replace (16 * Z.of_nat k - 125 + 8) with (16 * Z.of_nat k - 117) by lia.
    eapply eqm_eq_w; [eqm_norm | eqm_norm | ring].
Qed.

Global Opaque mixrd mix16.

(* ------------------------------ 17..128 ------------------------------ *)
Lemma hashLarge_17to128 d : 17 <= Z.of_nat (length d) <= 128 ->
  xxh3HashLarge d (Z.of_nat (length d)) = Some (len_17to128 d (Z.of_nat (length d))).
Proof.
  intros H. set (len := Z.of_nat (length d)) in *.
  unfold xxh3HashLarge, len_17to128. consts_to_spec.
  assert (C : len <= 32 \/ 33 <= len <= 64 \/ 65 <= len <= 96 \/ 97 <= len) by lia.
  destruct C as [C|[C|[C|C]]].
  - replace ((len - 1) / 32) with 0 by lia. ztest.
    rewrite !mixrd_ok by (subst len; lia). cbv beta iota zeta.
    change (Z.to_nat 0) with 0%nat. cbn [seq flat_map app]. rewrite !sumZ_cons, sumZ_nil. zeval.
    rewrite xxh3Avalanche_eq. do 2 f_equal. wnorm.
  - replace ((len - 1) / 32) with 1 by lia. ztest.
    rewrite !mixrd_ok by (subst len; lia). cbv beta iota zeta.
    change (Z.to_nat 1) with 1%nat. cbn [seq flat_map app]. rewrite !sumZ_cons, sumZ_nil. zeval.
    rewrite xxh3Avalanche_eq. do 2 f_equal. wnorm.
  - replace ((len - 1) / 32) with 2 by lia. ztest.
    rewrite !mixrd_ok by (subst len; lia). cbv beta iota zeta.
    change (Z.to_nat 2) with 2%nat. cbn [seq flat_map app]. rewrite !sumZ_cons, sumZ_nil. zeval.
    rewrite xxh3Avalanche_eq. do 2 f_equal. wnorm.
  - replace ((len - 1) / 32) with 3 by lia. ztest.
    rewrite !mixrd_ok by (subst len; lia). cbv beta iota zeta.
    change (Z.to_nat 3) with 3%nat. cbn [seq flat_map app]. rewrite !sumZ_cons, sumZ_nil. zeval.
    rewrite xxh3Avalanche_eq. do 2 f_equal. wnorm.
Qed.

(* ------------------------------ 129..240 ------------------------------ *)
Lemma hashLarge_129to240 d : 129 <= Z.of_nat (length d) <= 240 ->
  xxh3HashLarge d (Z.of_nat (length d)) = Some (len_129to240 d (Z.of_nat (length d))).
Proof.
  intros H. set (len := Z.of_nat (length d)) in *.
  unfold xxh3HashLarge, len_129to240. consts_to_spec. ztest.
  rewrite !mixrd_ok by (subst len; lia). cbv beta iota zeta.
  (* the loop *)
  assert (Enb : Z.shiftl (Z.shiftr len 4) 4 = 16 * Z.of_nat (8 + Z.to_nat (len / 16 - 8))).
  { rewrite Z.shiftr_div_pow2, Z.shiftl_mul_pow2 by lia. change (2 ^ 4) with 16. lia. }
  rewrite Enb. change (8 * 16) with (16 * Z.of_nat 8).
  match goal with |- context [loop129 16 d _ _ ?a] =>
    destruct (loop129_spec (Z.to_nat (len / 16 - 8)) 16 d 8 a) as (r & Hr & Er); try (subst len; lia) end.
  rewrite Hr. rewrite !xxh3Avalanche_eq in *.
  replace (Z.to_nat (len / 16) - 8)%nat with (Z.to_nat (len / 16 - 8)) by lia.
  do 2 f_equal. unfold add64 at 1.
  eapply w_eq_of_eqm; [apply eqm_add; [exact Er|apply eqm_refl] | eqm_norm | ].
  cbn [seq map]. rewrite !sumZ_cons, sumZ_nil. zeval.
  f_equal. f_equal. f_equal. wnorm.
Qed.
