(* C16 correspondence checker. One case = one byte string with (a) the digests of the in-tree independent
   port internal/xxh3_raw and (b) the distinct digest triples (Hash, Hash128 high, Hash128 low) that the real
   sys/xxhash3 returned for it over every back end / sub-slice offset / capacity / entry point the harness
   tried (one entry per distinct triple; the step label names the first variant that produced it).
   Evaluated by vm_compute. Imports no proof file: the cases are decided even when an obligation is broken.

   step 0          : Spec vs xxh3_raw. A disagreement means the hand-written Spec is suspect: code 1
                     (kind 1, never blamed on the code under test).
   step i (i >= 1) : observation i-1. kind 2 when it differs from the Spec (the property's reference),
                     kind 1 when it equals the Spec but the Model (with the regenerated constants) does not
                     return it (None = the model reads outside the slice). *)
From VF Require Import C16.Spec C16.Model.
Local Open Scope Z_scope.

Record obs := { o_h64 : Z; o_hi : Z; o_lo : Z }.
(* the bytes are transmitted as little-endian 64-bit words (8 bytes per numeral: the case files parse much
   faster than byte-per-numeral lists); the byte string is the first c_len bytes of the words *)
Record case := { c_len : nat; c_words : list Z; c_raw : obs; c_obs : list obs }.

Definition bytes_of_word (x : Z) : list Z :=
  [byte_of x 0; byte_of x 1; byte_of x 2; byte_of x 3; byte_of x 4; byte_of x 5; byte_of x 6; byte_of x 7].
Definition c_data (c : case) : list Z := firstn (c_len c) (flat_map bytes_of_word (c_words c)).

Definition pair_eqb (a b : Z * Z) : bool := (fst a =? fst b) && (snd a =? snd b).

Definition check_case (c : case) : nat :=
  let d := c_data c in
  let s64 := xxh3_64 d in
  let s128 := xxh3_128 d in
  let m64 := hash d in
  let m128 := hash128 d in
  let spec_is o := (o_h64 o =? s64) && (o_hi o =? fst s128) && (o_lo o =? snd s128) in
  let model_is o := option_eqb Z.eqb m64 (Some (o_h64 o)) && option_eqb pair_eqb m128 (Some (o_hi o, o_lo o)) in
  if negb (spec_is (c_raw c)) then 1%nat
  else scan (fun (_ : unit) o => (tt, kind_of (model_is o) (spec_is o))) tt (c_obs c) 1.

Definition mismatches (cs : list case) : list (nat * nat) := find_bad check_case cs.
