(* C16: Model.hash = Spec.xxh3_64 for the short length classes 0, 1-3, 4-8, 9-16. *)
From VF Require Import C16.Spec C16.Model C16.ProofsWord C16.ProofsConsts.
From Coq Require Import ZifyBool ZifyNat.
Local Open Scope Z_scope.
Ltac Zify.zify_post_hook ::= Z.div_mod_to_equations.

(* the helpers of util.go are the Spec's, except xxh64Avalanche *)
Lemma xxh3Avalanche_eq x : xxh3Avalanche x = avalanche3 x. Proof. reflexivity. Qed.
Lemma xxh3Avalanche_fun : xxh3Avalanche = avalanche3. Proof. reflexivity. Qed.
Lemma xxh3RRMXMX_eq h l : xxh3RRMXMX h l = rrmxmx h l. Proof. reflexivity. Qed.

(* the Go xxh64Avalanche omits the leading  h ^= h >> 33 : harmless below 2^33 *)
Lemma xxh64Avalanche_eq x : 0 <= x < 8589934592 -> xxh64Avalanche x = avalanche64 x.
Proof.
  intros H. unfold xxh64Avalanche, avalanche64.
  rewrite (shiftr_small x 33) by (change (2 ^ 33) with 8589934592; lia).
  rewrite Z.lxor_0_r, pr64_2, pr64_3. reflexivity.
Qed.

Lemma sec32_range o : 0 <= sec32 o < 4294967296.
Proof. unfold sec32. rewrite <- M32_val. apply rd32_range. Qed.
Lemma sec64_range o : 0 <= sec64 o < 18446744073709551616.
Proof. unfold sec64. rewrite <- M64_val. apply rd64_range. Qed.

Lemma PMX2_val : PMX2 = 0x9fb21c651e98df25. Proof. reflexivity. Qed.
Lemma PMX1_val : PMX1 = 0x165667919e3779f9. Proof. reflexivity. Qed.
Lemma kSecret_length : Z.of_nat (length kSecret) = 192. Proof. reflexivity. Qed.
Lemma sec64_unfold o : rd64 kSecret o = sec64 o. Proof. reflexivity. Qed.
Lemma sumZ_cons x l : sumZ (x :: l) = x + sumZ l.
Proof. unfold sumZ. cbn [fold_left]. rewrite fold_add_acc. lia. Qed.
Lemma sumZ_nil : sumZ [] = 0. Proof. reflexivity. Qed.
Lemma sumZ_app l1 l2 : sumZ (l1 ++ l2) = sumZ l1 + sumZ l2.
Proof. unfold sumZ. rewrite fold_left_app, fold_add_acc. lia. Qed.

Global Opaque sec64 sec32 kSecret xsecret P32_1 P32_2 P32_3 P64_1 P64_2 P64_3 P64_4 P64_5 PMX1 PMX2
  prime32_1 prime32_2 prime32_3 prime64_1 prime64_2 prime64_3 prime64_4 prime64_5
  xxh3Avalanche xxh3RRMXMX avalanche3 avalanche64 rrmxmx mix bswap64 bswap32 rotl32 rotl64.

(* reads of the secret through the pointer *)
Lemma read_secret o : 0 <= o -> o + 8 <= 192 -> read64 xsecret o = Some (sec64 o).
Proof.
  intros H0 H1. rewrite xsecret_eq, read64_ok by (rewrite ?kSecret_length; lia). now rewrite sec64_unfold.
Qed.

(* evaluate closed integer sub-expressions (numerals only) *)
Ltac is_num a := lazymatch a with Z0 => idtac | Zpos _ => idtac | Zneg _ => idtac end.
Ltac zeval :=
  repeat match goal with
  | |- context [Z.of_nat ?n] => let v := eval cbv in (Z.of_nat n) in is_num v; change (Z.of_nat n) with v
  | |- context [?a * ?b] => is_num a; is_num b; let v := eval cbv in (a * b) in change (a * b) with v
  | |- context [?a + ?b] => is_num a; is_num b; let v := eval cbv in (a + b) in change (a + b) with v
  | |- context [?a - ?b] => is_num a; is_num b; let v := eval cbv in (a - b) in change (a - b) with v
  end.

(* decide comparisons on lengths by lia *)
Ltac ztest :=
  repeat match goal with
  | |- context [?a <? ?b] =>
      first [ replace (a <? b) with true by (symmetry; apply Z.ltb_lt; lia)
            | replace (a <? b) with false by (symmetry; apply Z.ltb_ge; lia) ]
  | |- context [?a <=? ?b] =>
      first [ replace (a <=? b) with true by (symmetry; apply Z.leb_le; lia)
            | replace (a <=? b) with false by (symmetry; apply Z.leb_gt; lia) ]
  | |- context [?a =? ?b] =>
      first [ replace (a =? b) with true by (symmetry; apply Z.eqb_eq; lia)
            | replace (a =? b) with false by (symmetry; apply Z.eqb_neq; lia) ]
  end; cbv iota.

(* ------------------------------ length 0 ------------------------------ *)
Lemma hash_len0 : hash [] = Some (xxh3_64 []).
Proof. vm_compute. reflexivity. Qed.

(* ------------------------------ 1..3 ------------------------------ *)
(* the three Go formulas for `combined` equal the reference c1<<16 | c2<<24 | c3 | len<<8 *)
Lemma lor4 A B C L : 0 <= A < 256 -> 0 <= B < 256 -> 0 <= C < 256 -> 0 <= L < 256 ->
  Z.lor (Z.lor (Z.lor (Z.shiftl A 16) (Z.shiftl B 24)) C) (Z.shiftl L 8) = A * 65536 + B * 16777216 + C + L * 256.
Proof.
  intros HA HB HC HL. rewrite !Z.shiftl_mul_pow2 by lia.
  change (2 ^ 16) with 65536. change (2 ^ 24) with 16777216. change (2 ^ 8) with 256.
  (* B*2^24 | A*2^16 *)
  rewrite (Z.lor_comm (A * 65536)).
  replace (B * 16777216) with ((B * 256) * 2 ^ 16) by (change (2 ^ 16) with 65536; lia).
  replace (A * 65536) with (A * 2 ^ 16) at 1 by (change (2 ^ 16) with 65536; lia).
  assert (E1 : Z.lor (B * 256 * 2 ^ 16) (A * 2 ^ 16) = (B * 256 + A) * 2 ^ 16).
  { rewrite <- !Z.shiftl_mul_pow2 by lia. rewrite <- Z.shiftl_lor. f_equal.
    change 256 with (2 ^ 8). apply lor_add; [lia|change (2 ^ 8) with 256; lia]. }
  rewrite E1.
  rewrite lor_add by (change (2 ^ 16) with 65536; lia).
  (* ... | L*2^8 : split the low 16 bits *)
  change (2 ^ 16) with 65536.
  rewrite Z.lor_comm.
  replace ((B * 256 + A) * 65536 + C) with (((B * 256 + A) * 256) * 2 ^ 8 + C) by (change (2 ^ 8) with 256; lia).
  rewrite <- (lor_add ((B * 256 + A) * 256) C 8) by (change (2 ^ 8) with 256; lia).
  rewrite Z.lor_assoc.
  replace (L * 256) with (L * 2 ^ 8) by (change (2 ^ 8) with 256; lia).
  rewrite <- !Z.shiftl_mul_pow2 by lia. rewrite <- Z.shiftl_lor.
  rewrite !Z.shiftl_mul_pow2 by lia.
  assert (E2 : Z.lor L ((B * 256 + A) * 256) = (B * 256 + A) * 256 + L).
  { rewrite Z.lor_comm. change 256 with (2 ^ 8) at 2. apply lor_add; [lia|change (2 ^ 8) with 256; lia]. }
  rewrite E2. rewrite lor_add by (change (2 ^ 8) with 256; lia).
  change (2 ^ 8) with 256. lia.
Qed.


Lemma rd8_1_0 a : rd8 [a] 0 = b8 a.
Proof. unfold rd8, rd. change (Z.to_nat 0) with 0%nat. cbn [skipn le_bytes]. lia. Qed.
Lemma rd16_2_0 a b t : rd16 (a :: b :: t) 0 = b8 a + 256 * b8 b.
Proof. unfold rd16, rd. change (Z.to_nat 0) with 0%nat. cbn [skipn le_bytes]. lia. Qed.
Lemma rd8_x_0 a t : rd8 (a :: t) 0 = b8 a.
Proof. unfold rd8, rd. change (Z.to_nat 0) with 0%nat. cbn [skipn le_bytes]. lia. Qed.
Lemma rd8_x_1 a b t : rd8 (a :: b :: t) 1 = b8 b.
Proof. unfold rd8, rd. change (Z.to_nat 1) with 1%nat. cbn [skipn le_bytes]. lia. Qed.
Lemma rd8_x_2 a b c t : rd8 (a :: b :: c :: t) 2 = b8 c.
Proof. unfold rd8, rd. change (Z.to_nat 2) with 2%nat. cbn [skipn le_bytes]. lia. Qed.

Lemma combined_1 a :
  add64 (mul64 (rd8 [a] 0) (16777216 + 65536 + 1)) (shl64 1 8) = combined_1to3 [a] 1.
Proof.
  unfold combined_1to3. change (Z.shiftr 1 1) with 0. change (1 - 1) with 0.
  rewrite rd8_x_0. pose proof (b8_range a) as HA. set (A := b8 a) in *.
  rewrite lor4 by lia.
  unfold add64, mul64. rewrite shl64_mul by lia. change (2 ^ 8) with 256.
  pose proof M64_val.
  rewrite (w_small (A * _)) by lia. rewrite (w_small (1 * 256)) by lia. rewrite w_small by lia. lia.
Qed.

Lemma combined_2 a b :
  add64 (Z.shiftr (mul64 (rd16 [a; b] 0) (16777216 + 1)) 8) (shl64 2 8) = combined_1to3 [a; b] 2.
Proof.
  unfold combined_1to3. change (Z.shiftr 2 1) with 1. change (2 - 1) with 1.
  rewrite rd8_x_0, rd8_x_1, rd16_2_0.
  pose proof (b8_range a) as HA. pose proof (b8_range b) as HB. set (A := b8 a) in *. set (B := b8 b) in *.
  rewrite lor4 by lia.
  unfold add64, mul64. rewrite shl64_mul by lia. change (2 ^ 8) with 256.
  pose proof M64_val.
  rewrite (w_small ((A + 256 * B) * _)) by lia. rewrite (w_small (2 * 256)) by lia.
  rewrite Z.shiftr_div_pow2 by lia. change (2 ^ 8) with 256.
  assert (E : (A + 256 * B) * (16777216 + 1) / 256 = (A + 256 * B) * 65536 + B) by lia.
  rewrite E. rewrite w_small by lia. lia.
Qed.

Lemma combined_3 a b c :
  add64 (add64 (shl64 (rd16 [a; b; c] 0) 16) (rd8 [a; b; c] 2)) (shl64 3 8) = combined_1to3 [a; b; c] 3.
Proof.
  unfold combined_1to3. change (Z.shiftr 3 1) with 1. change (3 - 1) with 2.
  rewrite rd8_x_0, rd8_x_1, rd8_x_2, rd16_2_0.
  pose proof (b8_range a) as HA. pose proof (b8_range b) as HB. pose proof (b8_range c) as HC.
  set (A := b8 a) in *. set (B := b8 b) in *. set (C := b8 c) in *.
  rewrite lor4 by lia.
  unfold add64. rewrite !shl64_mul by lia. change (2 ^ 8) with 256. change (2 ^ 16) with 65536.
  pose proof M64_val.
  rewrite (w_small ((A + 256 * B) * _)) by lia. rewrite (w_small (3 * 256)) by lia.
  rewrite (w_small (_ + C)) by lia. rewrite w_small by lia. lia.
Qed.

Lemma combined_range d len : 1 <= len <= 3 -> 0 <= combined_1to3 d len < 4294967296.
Proof.
  intros H. unfold combined_1to3.
  pose proof (rd8_range d 0). pose proof (rd8_range d (Z.shiftr len 1)). pose proof (rd8_range d (len - 1)).
  rewrite lor4 by lia. lia.
Qed.

(* the keyed value fed to xxh64Avalanche is below 2^32 *)
Lemma keyed_small x o1 o2 : 0 <= x < 4294967296 -> 0 <= Z.lxor x (Z.lxor (sec32 o1) (sec32 o2)) < 8589934592.
Proof.
  intros H. pose proof (sec32_range o1). pose proof (sec32_range o2).
  assert (0 <= Z.lxor (sec32 o1) (sec32 o2) < 2 ^ 32) by (apply lxor_bound; change (2 ^ 32) with 4294967296; lia).
  assert (0 <= Z.lxor x (Z.lxor (sec32 o1) (sec32 o2)) < 2 ^ 32) by (apply lxor_bound; change (2 ^ 32) with 4294967296 in *; lia).
  change (2 ^ 32) with 4294967296 in *. lia.
Qed.

Lemma hash_len1 a : hash [a] = Some (xxh3_64 [a]).
Proof.
  unfold hash, xxh3_64. change (Z.of_nat (length [a])) with 1. ztest.
  unfold xxh3HashSmall. ztest. rewrite read8_ok by (cbn [length]; lia).
  unfold len_1to3.
  rewrite combined_1, xs32_lo. rewrite xxh64Avalanche_eq; [reflexivity|].
  apply keyed_small, combined_range; lia.
Qed.

Lemma hash_len2 a b : hash [a; b] = Some (xxh3_64 [a; b]).
Proof.
  unfold hash, xxh3_64. change (Z.of_nat (length [a; b])) with 2. ztest.
  unfold xxh3HashSmall. ztest. rewrite read16_ok by (cbn [length]; lia).
  unfold len_1to3.
  rewrite combined_2, xs32_lo. rewrite xxh64Avalanche_eq; [reflexivity|].
  apply keyed_small, combined_range; lia.
Qed.

Lemma hash_len3 a b c : hash [a; b; c] = Some (xxh3_64 [a; b; c]).
Proof.
  unfold hash, xxh3_64. change (Z.of_nat (length [a; b; c])) with 3. ztest.
  unfold xxh3HashSmall. ztest. rewrite read16_ok, read8_ok by (cbn [length]; lia).
  unfold len_1to3.
  rewrite combined_3, xs32_lo. rewrite xxh64Avalanche_eq; [reflexivity|].
  apply keyed_small, combined_range; lia.
Qed.

Lemma hash_1to3 d : 1 <= Z.of_nat (length d) <= 3 -> hash d = Some (xxh3_64 d).
Proof.
  intros H. destruct d as [|a [|b [|c [|x t]]]]; cbn [length] in H; try lia.
  - apply hash_len1. - apply hash_len2. - apply hash_len3.
Qed.

(* ------------------------------ 4..8 ------------------------------ *)
Lemma input64_eq x y : 0 <= x < M32 -> 0 <= y < M32 -> add64 y (shl64 x 32) = y + x * M32.
Proof.
  intros Hx Hy. unfold add64. rewrite shl64_mul by lia. rewrite <- M32_pow.
  pose proof M64_val. pose proof M32_val.
  rewrite (w_small (x * M32)) by lia. rewrite w_small by lia. reflexivity.
Qed.

Lemma hash_4to8 d : 4 <= Z.of_nat (length d) <= 8 -> hash d = Some (xxh3_64 d).
Proof.
  intros H. unfold hash, xxh3_64. ztest. unfold xxh3HashSmall. ztest.
  rewrite !read32_ok by lia. unfold len_4to8.
  rewrite xxh3RRMXMX_eq, xs_008, xs_016, Z.lxor_assoc.
  rewrite input64_eq by apply rd32_range. reflexivity.
Qed.

(* ------------------------------ 9..16 ------------------------------ *)
Lemma hash_9to16 d : 9 <= Z.of_nat (length d) <= 16 -> hash d = Some (xxh3_64 d).
Proof.
  intros H. unfold hash, xxh3_64. ztest. unfold xxh3HashSmall. ztest.
  rewrite !read64_ok by lia. unfold len_9to16.
  rewrite xxh3Avalanche_eq, xs_024, xs_032, xs_040, xs_048, !Z.lxor_assoc.
  f_equal. f_equal. wnorm.
Qed.
