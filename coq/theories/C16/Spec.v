(* C16 specification: XXH3 (64-bit and 128-bit digests, seed 0, default 192-byte secret), written from the
   algorithm description of xxHash (xxhash.h, XXH3_64bits / XXH3_128bits, "compact" loop forms) over byte
   lists. Offsets are byte offsets into the input / the secret; rd64 m o is the little-endian 64-bit word
   at offset o. This file is the property's reference: hand-written, fixed, never regenerated. It is
   validated on every run against the in-tree independent port internal/xxh3_raw (harness) and was validated
   against digests printed by the Go code (notes/spikes/XXH3_spec_validated.v). *)
From VF Require Export C16.Word.
Local Open Scope Z_scope.

Definition P32_1 : Z := 2654435761.
Definition P32_2 : Z := 2246822519.
Definition P32_3 : Z := 3266489917.
Definition P64_1 : Z := 11400714785074694791.
Definition P64_2 : Z := 14029467366897019727.
Definition P64_3 : Z := 1609587929392839161.
Definition P64_4 : Z := 9650029242287828579.
Definition P64_5 : Z := 2870177450012600261.
Definition PMX1 : Z := 0x165667919e3779f9.     (* XXH3_avalanche multiplier *)
Definition PMX2 : Z := 0x9fb21c651e98df25.     (* rrmxmx multiplier *)

(* XXH3_kSecret *)
Definition kSecret : list Z := [
  0xb8; 0xfe; 0x6c; 0x39; 0x23; 0xa4; 0x4b; 0xbe; 0x7c; 0x01; 0x81; 0x2c; 0xf7; 0x21; 0xad; 0x1c;
  0xde; 0xd4; 0x6d; 0xe9; 0x83; 0x90; 0x97; 0xdb; 0x72; 0x40; 0xa4; 0xa4; 0xb7; 0xb3; 0x67; 0x1f;
  0xcb; 0x79; 0xe6; 0x4e; 0xcc; 0xc0; 0xe5; 0x78; 0x82; 0x5a; 0xd0; 0x7d; 0xcc; 0xff; 0x72; 0x21;
  0xb8; 0x08; 0x46; 0x74; 0xf7; 0x43; 0x24; 0x8e; 0xe0; 0x35; 0x90; 0xe6; 0x81; 0x3a; 0x26; 0x4c;
  0x3c; 0x28; 0x52; 0xbb; 0x91; 0xc3; 0x00; 0xcb; 0x88; 0xd0; 0x65; 0x8b; 0x1b; 0x53; 0x2e; 0xa3;
  0x71; 0x64; 0x48; 0x97; 0xa2; 0x0d; 0xf9; 0x4e; 0x38; 0x19; 0xef; 0x46; 0xa9; 0xde; 0xac; 0xd8;
  0xa8; 0xfa; 0x76; 0x3f; 0xe3; 0x9c; 0x34; 0x3f; 0xf9; 0xdc; 0xbb; 0xc7; 0xc7; 0x0b; 0x4f; 0x1d;
  0x8a; 0x51; 0xe0; 0x4b; 0xcd; 0xb4; 0x59; 0x31; 0xc8; 0x9f; 0x7e; 0xc9; 0xd9; 0x78; 0x73; 0x64;
  0xea; 0xc5; 0xac; 0x83; 0x34; 0xd3; 0xeb; 0xc3; 0xc5; 0x81; 0xa0; 0xff; 0xfa; 0x13; 0x63; 0xeb;
  0x17; 0x0d; 0xdd; 0x51; 0xb7; 0xf0; 0xda; 0x49; 0xd3; 0x16; 0x55; 0x26; 0x29; 0xd4; 0x68; 0x9e;
  0x2b; 0x16; 0xbe; 0x58; 0x7d; 0x47; 0xa1; 0xfc; 0x8f; 0xf8; 0xb8; 0xd1; 0x7a; 0xd0; 0x31; 0xce;
  0x45; 0xcb; 0x3a; 0x8f; 0x95; 0x16; 0x04; 0x28; 0xaf; 0xd7; 0xfb; 0xca; 0xbb; 0x4b; 0x40; 0x7e].

(* secret word at byte offset o *)
Definition sec64 (o : Z) : Z := rd64 kSecret o.
Definition sec32 (o : Z) : Z := rd32 kSecret o.

(* XXH3_avalanche *)
Definition avalanche3 (x : Z) : Z :=
  let x := Z.lxor x (Z.shiftr x 37) in
  let x := mul64 x PMX1 in
  Z.lxor x (Z.shiftr x 32).
(* XXH64_avalanche *)
Definition avalanche64 (h : Z) : Z :=
  let h := Z.lxor h (Z.shiftr h 33) in
  let h := mul64 h P64_2 in
  let h := Z.lxor h (Z.shiftr h 29) in
  let h := mul64 h P64_3 in
  Z.lxor h (Z.shiftr h 32).
(* XXH3_rrmxmx *)
Definition rrmxmx (h len : Z) : Z :=
  let h := Z.lxor h (Z.lxor (rotl64 h 49) (rotl64 h 24)) in
  let h := mul64 h PMX2 in
  let h := Z.lxor h (add64 (Z.shiftr h 35) len) in
  let h := mul64 h PMX2 in
  Z.lxor h (Z.shiftr h 28).

(* XXH3_mix16B, seed 0: input words at o, o+8; secret words at so, so+8 *)
Definition mix16 (inp : list Z) (o so : Z) : Z :=
  mix (Z.lxor (rd64 inp o) (sec64 so)) (Z.lxor (rd64 inp (o + 8)) (sec64 (so + 8))).

Definition sumZ (l : list Z) : Z := fold_left Z.add l 0.

(* ------------------------------ 64-bit: short inputs ------------------------------ *)
Definition len_0 : Z := avalanche64 (Z.lxor (sec64 56) (sec64 64)).

(* combined = c1<<16 | c2<<24 | c3 | len<<8 with c1 = in[0], c2 = in[len>>1], c3 = in[len-1] *)
Definition combined_1to3 (inp : list Z) (len : Z) : Z :=
  let c1 := rd8 inp 0 in let c2 := rd8 inp (Z.shiftr len 1) in let c3 := rd8 inp (len - 1) in
  Z.lor (Z.lor (Z.lor (Z.shiftl c1 16) (Z.shiftl c2 24)) c3) (Z.shiftl len 8).
Definition len_1to3 (inp : list Z) (len : Z) : Z :=
  avalanche64 (Z.lxor (combined_1to3 inp len) (Z.lxor (sec32 0) (sec32 4))).

Definition len_4to8 (inp : list Z) (len : Z) : Z :=
  let in1 := rd32 inp 0 in let in2 := rd32 inp (len - 4) in
  let bitflip := Z.lxor (sec64 8) (sec64 16) in
  let input64 := in2 + in1 * M32 in
  rrmxmx (Z.lxor input64 bitflip) len.

Definition len_9to16 (inp : list Z) (len : Z) : Z :=
  let lo := Z.lxor (rd64 inp 0) (Z.lxor (sec64 24) (sec64 32)) in
  let hi := Z.lxor (rd64 inp (len - 8)) (Z.lxor (sec64 40) (sec64 48)) in
  avalanche3 (w (len + bswap64 lo + hi + mix lo hi)).

(* ------------------------------ 64-bit: 17..240 ------------------------------ *)
(* for i = 0 .. (len-1)/32: acc += mix16B(in + 16 i, secret + 32 i) + mix16B(in + len - 16 (i+1), secret + 32 i + 16) *)
Definition len_17to128 (inp : list Z) (len : Z) : Z :=
  let n := Z.to_nat ((len - 1) / 32) in
  let terms := flat_map (fun i => let i := Z.of_nat i in
                 [mix16 inp (16 * i) (32 * i); mix16 inp (len - 16 * (i + 1)) (32 * i + 16)]) (seq 0 (S n)) in
  avalanche3 (w (len * P64_1 + sumZ terms)).

(* 8 rounds on secret + 16 i, avalanche, rounds 8 .. len/16 - 1 on secret + 16 (i-8) + 3, last 16 bytes on
   secret + 136 - 17 *)
Definition len_129to240 (inp : list Z) (len : Z) : Z :=
  let a1 := w (len * P64_1 + sumZ (map (fun i => let i := Z.of_nat i in mix16 inp (16 * i) (16 * i)) (seq 0 8))) in
  let a2 := avalanche3 a1 in
  let rounds := Z.to_nat (len / 16) in
  let a3 := w (a2 + sumZ (map (fun i => let i := Z.of_nat i in mix16 inp (16 * i) (16 * (i - 8) + 3))
                              (seq 8 (rounds - 8)))) in
  avalanche3 (w (a3 + mix16 inp (len - 16) 119)).

(* ------------------------------ long inputs (> 240) ------------------------------ *)
(* accumulators: 8 lanes *)
Definition acc0 : list Z := [P32_3; P64_1; P64_2; P64_3; P64_4; P32_2; P64_5; P32_1].

(* XXH3_accumulate_512 on the 64-byte stripe at input offset o with the secret at offset so:
   acc[i ^ 1] += data[i];  acc[i] += lo32(data[i] ^ key[i]) * hi32(data[i] ^ key[i]) *)
Definition accumulate (acc : list Z) (inp : list Z) (o so : Z) : list Z :=
  let dv i := rd64 inp (o + 8 * i) in
  let dk i := Z.lxor (dv i) (sec64 (so + 8 * i)) in
  map (fun i => let i := Z.of_nat i in
         w (nth (Z.to_nat i) acc 0 + dv (Z.lxor i 1) + mul32halves (dk i)))
      (seq 0 8).

(* XXH3_scrambleAcc: acc[i] = ((acc[i] ^ (acc[i] >> 47)) ^ secret[128 + 8 i]) * PRIME32_1 *)
Definition scramble (acc : list Z) : list Z :=
  map (fun i => let a := nth i acc 0 in
         mul64 (Z.lxor (Z.lxor a (Z.shiftr a 47)) (sec64 (128 + 8 * Z.of_nat i))) P32_1) (seq 0 8).

(* n consecutive stripes starting at input offset base; stripe s uses the secret at 8 s *)
Definition stripes (acc : list Z) (inp : list Z) (base : Z) (n : nat) : list Z :=
  fold_left (fun a s => accumulate a inp (base + 64 * Z.of_nat s) (8 * Z.of_nat s)) (seq 0 n) acc.

(* XXH3_hashLong_internal_loop: full blocks of 16 stripes each followed by a scramble; the stripes of the
   last partial block; the last 64 bytes of the input with the secret at 192 - 64 - 7 *)
Definition long_acc (inp : list Z) (len : Z) : list Z :=
  let nb_blocks := Z.to_nat ((len - 1) / 1024) in
  let acc1 := fold_left (fun a b => scramble (stripes a inp (1024 * Z.of_nat b) 16)) (seq 0 nb_blocks) acc0 in
  let nb_stripes := Z.to_nat (((len - 1) - 1024 * Z.of_nat nb_blocks) / 64) in
  let acc2 := stripes acc1 inp (1024 * Z.of_nat nb_blocks) nb_stripes in
  accumulate acc2 inp (len - 64) 121.

(* XXH3_mergeAccs: start + sum_i mix(acc[2i] ^ secret[so + 16 i], acc[2i+1] ^ secret[so + 16 i + 8]) *)
Definition merge_accs (acc : list Z) (so start : Z) : Z :=
  let m i := mix (Z.lxor (nth (2 * i) acc 0) (sec64 (so + 16 * Z.of_nat i)))
                 (Z.lxor (nth (2 * i + 1) acc 0) (sec64 (so + 16 * Z.of_nat i + 8))) in
  avalanche3 (w (start + sumZ (map m (seq 0 4)))).

Definition hash_long (inp : list Z) (len : Z) : Z :=
  merge_accs (long_acc inp len) 11 (w (len * P64_1)).

Definition xxh3_64 (inp : list Z) : Z :=
  let len := Z.of_nat (length inp) in
  if len =? 0 then len_0
  else if len <=? 3 then len_1to3 inp len
  else if len <=? 8 then len_4to8 inp len
  else if len <=? 16 then len_9to16 inp len
  else if len <=? 128 then len_17to128 inp len
  else if len <=? 240 then len_129to240 inp len
  else hash_long inp len.

(* ================================ 128-bit ================================ *)
(* a 128-bit digest is the pair (high64, low64) *)

Definition len_0_128 : Z * Z :=
  (avalanche64 (Z.lxor (sec64 80) (sec64 88)), avalanche64 (Z.lxor (sec64 64) (sec64 72))).

Definition len_1to3_128 (inp : list Z) (len : Z) : Z * Z :=
  let combinedl := combined_1to3 inp len in
  let combinedh := rotl32 (bswap32 (w32 combinedl)) 13 in
  let bitflipl := Z.lxor (sec32 0) (sec32 4) in
  let bitfliph := Z.lxor (sec32 8) (sec32 12) in
  (avalanche64 (Z.lxor combinedh bitfliph), avalanche64 (Z.lxor combinedl bitflipl)).

Definition len_4to8_128 (inp : list Z) (len : Z) : Z * Z :=
  let in_lo := rd32 inp 0 in let in_hi := rd32 inp (len - 4) in
  let input64 := in_lo + in_hi * M32 in
  let bitflip := Z.lxor (sec64 16) (sec64 24) in
  let keyed := Z.lxor input64 bitflip in
  let mult := add64 P64_1 (shl64 len 2) in
  let mhi := mulhi keyed mult in let mlo := mullo keyed mult in
  let mhi := add64 mhi (shl64 mlo 1) in
  let mlo := Z.lxor mlo (Z.shiftr mhi 3) in
  let mlo := Z.lxor mlo (Z.shiftr mlo 35) in
  let mlo := mul64 mlo PMX2 in
  let mlo := Z.lxor mlo (Z.shiftr mlo 28) in
  (avalanche3 mhi, mlo).

Definition len_9to16_128 (inp : list Z) (len : Z) : Z * Z :=
  let bitflipl := Z.lxor (sec64 32) (sec64 40) in
  let bitfliph := Z.lxor (sec64 48) (sec64 56) in
  let in_lo := rd64 inp 0 in let in_hi := rd64 inp (len - 8) in
  let x := Z.lxor (Z.lxor in_lo in_hi) bitflipl in
  let mhi := mulhi x P64_1 in let mlo := mullo x P64_1 in
  let mlo := add64 mlo (shl64 (len - 1) 54) in
  let in_hi := Z.lxor in_hi bitfliph in
  let mhi := w (mhi + in_hi + w32 in_hi * (P32_2 - 1)) in
  let mlo := Z.lxor mlo (bswap64 mhi) in
  let hhi := mulhi mlo P64_2 in let hlo := mullo mlo P64_2 in
  let hhi := add64 hhi (mul64 mhi P64_2) in
  (avalanche3 hhi, avalanche3 hlo).

(* XXH128_mix32B on accumulator (lo, hi): in1, in2 input offsets, so secret offset *)
Definition mix32 (inp : list Z) (acc : Z * Z) (in1 in2 so : Z) : Z * Z :=
  let '(lo, hi) := acc in
  let lo := add64 lo (mix16 inp in1 so) in
  let lo := Z.lxor lo (add64 (rd64 inp in2) (rd64 inp (in2 + 8))) in
  let hi := add64 hi (mix16 inp in2 (so + 16)) in
  let hi := Z.lxor hi (add64 (rd64 inp in1) (rd64 inp (in1 + 8))) in
  (lo, hi).

(* common finish of the 17..240 classes on accumulator (lo, hi) *)
Definition finish_mid_128 (acc : Z * Z) (len : Z) : Z * Z :=
  let '(lo, hi) := acc in
  let hlo := add64 lo hi in
  let hhi := w (mul64 lo P64_1 + mul64 hi P64_4 + mul64 len P64_2) in
  (neg64 (avalanche3 hhi), avalanche3 hlo).

(* i = (len-1)/32 downto 0: acc = mix32B(acc, in + 16 i, in + len - 16 (i+1), secret + 32 i) *)
Definition len_17to128_128 (inp : list Z) (len : Z) : Z * Z :=
  let n := Z.to_nat ((len - 1) / 32) in
  let acc := fold_left (fun a i => let i := Z.of_nat i in mix32 inp a (16 * i) (len - 16 * (i + 1)) (32 * i))
                       (rev (seq 0 (S n))) (w (len * P64_1), 0) in
  finish_mid_128 acc len.

Definition len_129to240_128 (inp : list Z) (len : Z) : Z * Z :=
  let acc := fold_left (fun a i => let i := Z.of_nat i in mix32 inp a (32 * i) (32 * i + 16) (32 * i))
                       (seq 0 4) (w (len * P64_1), 0) in
  let acc := (avalanche3 (fst acc), avalanche3 (snd acc)) in
  let rounds := Z.to_nat (len / 32) in
  let acc := fold_left (fun a i => let i := Z.of_nat i in mix32 inp a (32 * i) (32 * i + 16) (3 + 32 * (i - 4)))
                       (seq 4 (rounds - 4)) acc in
  let acc := mix32 inp acc (len - 16) (len - 32) (136 - 17 - 16) in
  finish_mid_128 acc len.

Definition hash_long_128 (inp : list Z) (len : Z) : Z * Z :=
  let acc := long_acc inp len in
  (merge_accs acc (192 - 64 - 11) (not64 (w (len * P64_2))), merge_accs acc 11 (w (len * P64_1))).

Definition xxh3_128 (inp : list Z) : Z * Z :=
  let len := Z.of_nat (length inp) in
  if len =? 0 then len_0_128
  else if len <=? 3 then len_1to3_128 inp len
  else if len <=? 8 then len_4to8_128 inp len
  else if len <=? 16 then len_9to16_128 inp len
  else if len <=? 128 then len_17to128_128 inp len
  else if len <=? 240 then len_129to240_128 inp len
  else hash_long_128 inp len.
