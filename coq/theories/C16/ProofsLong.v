(* C16: the long-input accumulation (accum_scalar.go) equals XXH3's hashLong loop for every length > 240:
   stripes, blocks of 16 stripes with scramble, the partial block, the last-stripe realignment; then the
   64-bit merge. The index arithmetic ((l-1)/1024, (l-1)/64, xinput - (64 - l), secret offset 121) is
   discharged by lia; the loops by induction. *)
From VF Require Import C16.Spec C16.Model C16.ProofsWord C16.ProofsConsts C16.Proofs64Small.
From Coq Require Import ZifyBool ZifyNat.
Local Open Scope Z_scope.
Ltac Zify.zify_post_hook ::= Z.div_mod_to_equations.

Definition to_list (a : acc8) : list Z := [x0 a; x1 a; x2 a; x3 a; x4 a; x5 a; x6 a; x7 a].

(* XXH3_accumulate_512 written out lane by lane *)
Lemma accumulate_unfold a0 a1 a2 a3 a4 a5 a6 a7 d o so :
  accumulate [a0; a1; a2; a3; a4; a5; a6; a7] d o so =
  let dv i := rd64 d (o + 8 * i) in
  let dk i := Z.lxor (dv i) (sec64 (so + 8 * i)) in
  [ w (a0 + dv 1 + mul32halves (dk 0)); w (a1 + dv 0 + mul32halves (dk 1));
    w (a2 + dv 3 + mul32halves (dk 2)); w (a3 + dv 2 + mul32halves (dk 3));
    w (a4 + dv 5 + mul32halves (dk 4)); w (a5 + dv 4 + mul32halves (dk 5));
    w (a6 + dv 7 + mul32halves (dk 6)); w (a7 + dv 6 + mul32halves (dk 7)) ].
Proof. reflexivity. Qed.

Lemma scramble_unfold a0 a1 a2 a3 a4 a5 a6 a7 :
  Spec.scramble [a0; a1; a2; a3; a4; a5; a6; a7] =
  let s a o := mul64 (Z.lxor (Z.lxor a (Z.shiftr a 47)) (sec64 o)) P32_1 in
  [s a0 128; s a1 136; s a2 144; s a3 152; s a4 160; s a5 168; s a6 176; s a7 184].
Proof. reflexivity. Qed.

Lemma merge_unfold a0 a1 a2 a3 a4 a5 a6 a7 so start :
  merge_accs [a0; a1; a2; a3; a4; a5; a6; a7] so start =
  avalanche3 (w (start + (mix (Z.lxor a0 (sec64 so)) (Z.lxor a1 (sec64 (so + 8))) +
                          (mix (Z.lxor a2 (sec64 (so + 16))) (Z.lxor a3 (sec64 (so + 24))) +
                           (mix (Z.lxor a4 (sec64 (so + 32))) (Z.lxor a5 (sec64 (so + 40))) +
                            (mix (Z.lxor a6 (sec64 (so + 48))) (Z.lxor a7 (sec64 (so + 56))) + 0)))))).
Proof.
  unfold merge_accs. cbn [seq map]. rewrite !sumZ_cons, sumZ_nil. cbn [Nat.mul Nat.add nth]. zeval.
  replace (so + 0) with so by lia. replace (so + 0 + 8) with (so + 8) by lia.
  replace (so + 16 + 8) with (so + 24) by lia. replace (so + 32 + 8) with (so + 40) by lia.
  replace (so + 48 + 8) with (so + 56) by lia. reflexivity.
Qed.

Global Opaque mul32halves accumulate Spec.scramble merge_accs.

(* ---- one stripe ---- *)
Lemma stripe_ok d xin k a :
  0 <= xin -> xin + 64 <= Z.of_nat (length d) -> 0 <= k -> k + 64 <= 192 ->
  exists a', stripe d xin k a = Some a' /\ to_list a' = accumulate (to_list a) d xin k.
Proof.
  intros H0 H1 H2 H3. destruct a as [a0 a1 a2 a3 a4 a5 a6 a7]. unfold stripe.
  rewrite !read_secret by lia. rewrite !read64_ok by lia.
  eexists. split; [reflexivity|]. unfold to_list. cbn [x0 x1 x2 x3 x4 x5 x6 x7].
  rewrite accumulate_unfold. cbv beta zeta.
  repeat (f_equal; [wnorm|]). f_equal. wnorm.
Qed.

(* ---- n stripes: stripe s (counted from the start of the block) uses the secret at 8 s ---- *)
Lemma stripes_loop_ok : forall n d base s0 a,
  0 <= base -> base + 64 * Z.of_nat (s0 + n) <= Z.of_nat (length d) -> (s0 + n <= 16)%nat ->
  exists a', stripes_loop n d (base + 64 * Z.of_nat s0) (8 * Z.of_nat s0) a = Some (a', base + 64 * Z.of_nat (s0 + n)) /\
             to_list a' = fold_left (fun acc s => accumulate acc d (base + 64 * Z.of_nat s) (8 * Z.of_nat s))
                                    (seq s0 n) (to_list a).
Proof.
  induction n as [|n IH]; intros d base s0 a Hb Hlen Hs; cbn [stripes_loop seq fold_left].
  - exists a. split; [|reflexivity]. do 2 f_equal. lia.
  - destruct (stripe_ok d (base + 64 * Z.of_nat s0) (8 * Z.of_nat s0) a) as (a1 & E1 & L1); try lia.
    rewrite E1. rewrite c_stripe_eq.
    replace (base + 64 * Z.of_nat s0 + 64) with (base + 64 * Z.of_nat (S s0)) by lia.
    replace (8 * Z.of_nat s0 + 8) with (8 * Z.of_nat (S s0)) by lia.
    destruct (IH d base (S s0) a1) as (a2 & E2 & L2); try lia.
    exists a2. split.
    + rewrite E2. do 2 f_equal. lia.
    + rewrite L2, L1. reflexivity.
Qed.

Lemma stripes_spec acc d base n :
  stripes acc d base n = fold_left (fun a s => accumulate a d (base + 64 * Z.of_nat s) (8 * Z.of_nat s)) (seq 0 n) acc.
Proof. reflexivity. Qed.
Global Opaque stripes.

Lemma scramble_ok a : to_list (Model.scramble a) = Spec.scramble (to_list a).
Proof.
  destruct a as [a0 a1 a2 a3 a4 a5 a6 a7]. unfold Model.scramble, scramble1, to_list.
  cbn [x0 x1 x2 x3 x4 x5 x6 x7]. rewrite scramble_unfold. cbv beta zeta.
  consts_to_spec. reflexivity.
Qed.

(* ---- n full blocks ---- *)
Lemma blocks_loop_S n d x a :
  blocks_loop (S n) d x a =
  match stripes_loop 16 d x 0 a with Some r => blocks_loop n d (snd r) (Model.scramble (fst r)) | None => None end.
Proof. reflexivity. Qed.
Lemma fold_left_seq_S {A} (f : A -> nat -> A) s n a :
  fold_left f (seq s (S n)) a = fold_left f (seq (S s) n) (f a s).
Proof. reflexivity. Qed.

Lemma blocks_loop_ok : forall n d b0 a,
  1024 * Z.of_nat (b0 + n) <= Z.of_nat (length d) ->
  exists a', blocks_loop n d (1024 * Z.of_nat b0) a = Some (a', 1024 * Z.of_nat (b0 + n)) /\
             to_list a' = fold_left (fun acc b => Spec.scramble (stripes acc d (1024 * Z.of_nat b) 16))
                                    (seq b0 n) (to_list a).
Proof.
  induction n as [|n IH]; intros d b0 a Hlen.
  - cbn [blocks_loop seq fold_left]. exists a. split; [|reflexivity]. do 2 f_equal. lia.
  - rewrite blocks_loop_S, fold_left_seq_S.
    destruct (stripes_loop_ok 16 d (1024 * Z.of_nat b0) 0 a) as (a1 & E1 & L1); try lia.
    change (Z.of_nat 0) with 0 in E1. replace (1024 * Z.of_nat b0 + 64 * 0) with (1024 * Z.of_nat b0) in E1 by lia.
    change (8 * 0) with 0 in E1. rewrite E1. cbn [fst snd].
    replace (1024 * Z.of_nat b0 + 64 * Z.of_nat (0 + 16)) with (1024 * Z.of_nat (S b0)) by lia.
    destruct (IH d (S b0) (Model.scramble a1)) as (a2 & E2 & L2); try lia.
    exists a2. split.
    + rewrite E2. do 2 f_equal. lia.
    + rewrite L2, scramble_ok, L1, stripes_spec. reflexivity.
Qed.

(* ---- accumScalar = XXH3_hashLong_internal_loop ---- *)
Lemma xacc_init_list : to_list xacc_init = acc0.
Proof. unfold xacc_init, to_list, acc0. cbn [x0 x1 x2 x3 x4 x5 x6 x7]. consts_to_spec. reflexivity. Qed.

Lemma accumScalar_ok d : 241 <= Z.of_nat (length d) ->
  exists a', accumScalar xacc_init d (Z.of_nat (length d)) = Some a' /\
             to_list a' = long_acc d (Z.of_nat (length d)).
Proof.
  intros H. set (len := Z.of_nat (length d)) in *.
  unfold accumScalar, long_acc.
  set (J := (len - 1) / 1024).
  assert (HJ : 0 <= J /\ 1024 * J <= len - 1 < 1024 * J + 1024) by (subst J; lia).
  destruct (blocks_loop_ok (Z.to_nat J) d 0 xacc_init) as (a1 & E1 & L1); [subst len; lia|].
  change (1024 * Z.of_nat 0) with 0 in E1. rewrite E1. cbn [fst snd].
  rewrite c_block_eq, c_stripe_eq.
  replace (0 <? len - 1024 * J) with true by lia. cbv iota.
  set (I := (len - 1024 * J - 1) / 64).
  assert (HI : 0 <= I <= 15 /\ 64 * I <= len - 1024 * J - 1 < 64 * I + 64) by (subst I; lia).
  destruct (stripes_loop_ok (Z.to_nat I) d (1024 * Z.of_nat (0 + Z.to_nat J)) 0 a1) as (a2 & E2 & L2); try (subst len; lia).
  change (Z.of_nat 0) with 0 in E2.
  replace (1024 * Z.of_nat (0 + Z.to_nat J) + 64 * 0) with (1024 * Z.of_nat (0 + Z.to_nat J)) in E2 by lia.
  change (8 * 0) with 0 in E2. rewrite E2. cbn [fst snd].
  replace (0 <? len - 1024 * J - 64 * I) with true by lia. cbv iota.
  match goal with |- context [stripe d ?x 121 a2] => replace x with (len - 64) by lia end.
  destruct (stripe_ok d (len - 64) 121 a2) as (a3 & E3 & L3); try (subst len; lia).
  exists a3. split; [exact E3|]. rewrite L3, L2, L1, xacc_init_list.
  replace (Z.to_nat ((len - 1 - 1024 * Z.of_nat (Z.to_nat J)) / 64)) with (Z.to_nat I) by (subst I; f_equal; f_equal; lia).
  rewrite stripes_spec.
  replace (1024 * Z.of_nat (0 + Z.to_nat J)) with (1024 * Z.of_nat (Z.to_nat J)) by lia.
  reflexivity.
Qed.

(* ------------------------------ 64-bit, > 240 ------------------------------ *)
Lemma hashLarge_long d : 241 <= Z.of_nat (length d) ->
  xxh3HashLarge d (Z.of_nat (length d)) = Some (hash_long d (Z.of_nat (length d))).
Proof.
  intros H. unfold xxh3HashLarge, hash_long, accum. ztest.
  destruct (accumScalar_ok d H) as (a & E & L). rewrite E, <- L.
  destruct a as [a0 a1 a2 a3 a4 a5 a6 a7]. unfold to_list. cbn [x0 x1 x2 x3 x4 x5 x6 x7].
  rewrite merge_unfold, xxh3Avalanche_eq. consts_to_spec. zeval.
  do 2 f_equal. wnorm.
Qed.
