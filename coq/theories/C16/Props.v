(* C16 property theorems. Nothing but statements closed by [exact] and Print Assumptions.
   Model.hash / Model.hash128 : the Go code of sys/xxhash3 as written (bounds-checked loads, named constants
   regenerated from consts.go); Spec.xxh3_64 / Spec.xxh3_128 : XXH3 (seed 0, default secret) in loop form.
   The assembly back ends (AVX2, SSE2) are modelled as accumScalar, not verified (see CFG level_note). *)
From VF Require Import C16.Spec C16.Consts C16.Model C16.ProofsWord C16.ProofsConsts C16.Proofs64Small C16.ProofsMain.
Local Open Scope Z_scope.

(* obligation over the regenerated constants: each xsecret_NNN is the little-endian 64-bit read of XXH3's
   kSecret at offset NNN; each xsecret32_NNN the 32-bit read at NNN xor 4 (consts.go names the two halves of a
   word the other way round; only the pairs are used); the secret table is kSecret; the primes are XXH3's *)
Theorem C16_Consts_ok :
  forallb (fun p => snd p =? sec64 (fst p)) named64 = true /\
  forallb (fun p => snd p =? sec32 (name32_off (fst p))) named32 = true /\
  xsecret = kSecret /\
  [prime32_1; prime32_2; prime32_3; prime64_1; prime64_2; prime64_3; prime64_4; prime64_5] =
  [P32_1; P32_2; P32_3; P64_1; P64_2; P64_3; P64_4; P64_5] /\
  c_stripe = 64 /\ c_block = 1024.
Proof. exact Consts_ok. Qed.

(* for EVERY byte list: Hash returns the XXH3 64-bit digest and every load is inside the slice *)
Theorem C16_impl_eq_spec64 : forall data, Model.hash data = Some (Spec.xxh3_64 data).
Proof. exact impl_eq_spec64. Qed.

(* for EVERY byte list: Hash128 returns the XXH3 128-bit digest (high, low) and every load is inside the slice *)
Theorem C16_impl_eq_spec128 : forall data, Model.hash128 data = Some (Spec.xxh3_128 data).
Proof. exact impl_eq_spec128. Qed.

(* the Go-level code never reads outside `data` (None = a load outside the slice, or loop fuel exhausted) *)
Theorem C16_hash_total : forall data, Model.hash data <> None /\ Model.hash128 data <> None.
Proof. exact hash_total. Qed.

(* ... where None really is what a load outside the slice returns *)
Theorem C16_read_outside : forall m off, off < 0 \/ Z.of_nat (length m) < off + 8 -> read64 m off = None.
Proof. exact read_outside. Qed.

(* HashString / Hash128String *)
Theorem C16_hashString : forall data, hashString data = hash data /\ hash128String data = hash128 data.
Proof. exact hashString_eq. Qed.

(* the Go xxh64Avalanche omits the reference's leading  h ^= h >> 33 : equal on every argument below 2^33
   (its only uses: lengths 1..3, where the argument is below 2^32) *)
Theorem C16_xxh64Avalanche_below_2_33 : forall x, 0 <= x < 8589934592 -> xxh64Avalanche x = avalanche64 x.
Proof. exact xxh64Avalanche_eq. Qed.

(* XXH3 identity used as the reference for inputs too long to evaluate inside Coq (harness stream "> 2GiB"):
   beyond 240 bytes the 64-bit digest is the low half of the 128-bit digest *)
Theorem C16_long_low64 : forall data, 240 < Z.of_nat (length data) -> snd (Spec.xxh3_128 data) = Spec.xxh3_64 data.
Proof. exact long_low64. Qed.

(* non-vacuity: concrete inputs of three classes with the digests printed by the Go code; a load outside a
   concrete slice is None *)
Example C16_nonvacuous :
  let input n := map (fun i => (Z.of_nat i * 7 + 3) mod 256) (seq 0 n) in
  Model.hash (input 3%nat) = Some 12180141160879835164 /\
  Model.hash (input 241%nat) = Some 10082113959289486871 /\
  Model.hash128 (input 200%nat) = Some (3611898251291705007, 4035580192918617021) /\
  Spec.xxh3_64 (input 1025%nat) = 9253807012321506678 /\
  read64 (input 10%nat) 3 = None /\ read64 (input 10%nat) 2 <> None.
Proof.
  cbv zeta. split; [vm_compute; reflexivity|]. split; [vm_compute; reflexivity|]. split; [vm_compute; reflexivity|].
  split; [vm_compute; reflexivity|]. split; [vm_compute; reflexivity|]. vm_compute. discriminate.
Qed.

Print Assumptions C16_Consts_ok.
Print Assumptions C16_impl_eq_spec64.
Print Assumptions C16_impl_eq_spec128.
Print Assumptions C16_hash_total.
Print Assumptions C16_read_outside.
Print Assumptions C16_hashString.
Print Assumptions C16_xxh64Avalanche_below_2_33.
Print Assumptions C16_long_low64.
