(* C16: the per-class lemmas assembled into the statements of Appendix A. *)
From VF Require Import C16.Spec C16.Model C16.ProofsWord C16.ProofsConsts C16.Proofs64Small C16.Proofs64Mid
  C16.ProofsLong C16.Proofs128.
From Coq Require Import ZifyBool ZifyNat.
Local Open Scope Z_scope.

Lemma length_zero_nil (d : list Z) : Z.of_nat (length d) = 0 -> d = [].
Proof. destruct d; cbn [length]; [reflexivity|lia]. Qed.

Lemma impl_eq_spec64 : forall data, hash data = Some (xxh3_64 data).
Proof.
  intros d.
  assert (C : Z.of_nat (length d) = 0 \/ 1 <= Z.of_nat (length d) <= 3 \/ 4 <= Z.of_nat (length d) <= 8 \/
              9 <= Z.of_nat (length d) <= 16 \/ 17 <= Z.of_nat (length d) <= 128 \/
              129 <= Z.of_nat (length d) <= 240 \/ 241 <= Z.of_nat (length d)) by lia.
  destruct C as [C|[C|[C|[C|[C|[C|C]]]]]].
  - apply length_zero_nil in C. subst d. apply hash_len0.
  - now apply hash_1to3.
  - now apply hash_4to8.
  - now apply hash_9to16.
  - unfold hash, xxh3_64. ztest. now apply hashLarge_17to128.
  - unfold hash, xxh3_64. ztest. now apply hashLarge_129to240.
  - unfold hash, xxh3_64. ztest. now apply hashLarge_long.
Qed.

Lemma impl_eq_spec128 : forall data, hash128 data = Some (xxh3_128 data).
Proof.
  intros d.
  assert (C : Z.of_nat (length d) = 0 \/ 1 <= Z.of_nat (length d) <= 3 \/ 4 <= Z.of_nat (length d) <= 8 \/
              9 <= Z.of_nat (length d) <= 16 \/ 17 <= Z.of_nat (length d) <= 128 \/
              129 <= Z.of_nat (length d) <= 240 \/ 241 <= Z.of_nat (length d)) by lia.
  destruct C as [C|[C|[C|[C|[C|[C|C]]]]]].
  - apply length_zero_nil in C. subst d. apply hash128_len0.
  - now apply hash128_1to3.
  - now apply hash128_4to8.
  - now apply hash128_9to16.
  - unfold hash128, xxh3_128. ztest. now apply hashLarge128_17to128.
  - unfold hash128, xxh3_128. ztest. now apply hashLarge128_129to240.
  - unfold hash128, xxh3_128. ztest. now apply hashLarge128_long.
Qed.

(* every load of the Go-level code is inside the given bytes (and the loops never run out of fuel) *)
Lemma hash_total : forall data, hash data <> None /\ hash128 data <> None.
Proof. intros d. rewrite impl_eq_spec64, impl_eq_spec128. split; discriminate. Qed.

(* the string entry points hash the same bytes *)
Lemma hashString_eq : forall data, hashString data = hash data /\ hash128String data = hash128 data.
Proof. intros. split; reflexivity. Qed.

(* the bounds-checked load really is None outside the slice: the model can observe an out-of-bounds load *)
Lemma read_outside : forall m off, off < 0 \/ Z.of_nat (length m) < off + 8 -> read64 m off = None.
Proof. intros. apply read_oob; [lia|]. lia. Qed.

(* for every input longer than 240 bytes the 64-bit digest is the low half of the 128-bit digest: the
   Spec-backed reference used by the harness on inputs too long to evaluate inside Coq (> 2 GiB stream) *)
Lemma long_low64 : forall data, 240 < Z.of_nat (length data) -> snd (xxh3_128 data) = xxh3_64 data.
Proof. intros d H. unfold xxh3_128, xxh3_64. ztest. reflexivity. Qed.
