(* C16: facts about the word-level vocabulary of Word.v (wrap-around, shifts, reads). After this file the
   big constants and [w] are opaque: later proofs reason through these lemmas only. *)
From VF Require Import C16.Word.
From Coq Require Import ZifyBool ZifyNat.
Local Open Scope Z_scope.
Ltac Zify.zify_post_hook ::= Z.div_mod_to_equations.

Lemma M64_pow : M64 = 2 ^ 64. Proof. reflexivity. Qed.
Lemma M32_pow : M32 = 2 ^ 32. Proof. reflexivity. Qed.
Lemma M64_val : M64 = 18446744073709551616. Proof. reflexivity. Qed.
Lemma M32_val : M32 = 4294967296. Proof. reflexivity. Qed.
Lemma M64_pos : 0 < M64. Proof. reflexivity. Qed.
Lemma M32_pos : 0 < M32. Proof. reflexivity. Qed.
Lemma M32_lt_M64 : M32 * M32 = M64. Proof. reflexivity. Qed.

Lemma w_mod x : w x = x mod M64.
Proof. unfold w. change mask64 with (Z.ones 64). rewrite Z.land_ones by lia. reflexivity. Qed.
Lemma w32_mod x : w32 x = x mod M32.
Proof. unfold w32. change mask32 with (Z.ones 32). rewrite Z.land_ones by lia. reflexivity. Qed.

Lemma w_range x : 0 <= w x < M64.
Proof. rewrite w_mod. apply Z.mod_pos_bound. exact M64_pos. Qed.
Lemma w32_range x : 0 <= w32 x < M32.
Proof. rewrite w32_mod. apply Z.mod_pos_bound. exact M32_pos. Qed.
Lemma w_small x : 0 <= x < M64 -> w x = x.
Proof. intros H. rewrite w_mod. now apply Z.mod_small. Qed.
Lemma w32_small x : 0 <= x < M32 -> w32 x = x.
Proof. intros H. rewrite w32_mod. now apply Z.mod_small. Qed.
Lemma w_idem x : w (w x) = w x.
Proof. apply w_small, w_range. Qed.
Lemma w_add_l a b : w (w a + b) = w (a + b).
Proof. rewrite !w_mod. apply Z.add_mod_idemp_l. pose proof M64_pos; lia. Qed.
Lemma w_add_r a b : w (a + w b) = w (a + b).
Proof. rewrite !w_mod. apply Z.add_mod_idemp_r. pose proof M64_pos; lia. Qed.
Lemma w_mul_l a b : w (w a * b) = w (a * b).
Proof. rewrite !w_mod. apply Z.mul_mod_idemp_l. pose proof M64_pos; lia. Qed.
Lemma w_mul_r a b : w (a * w b) = w (a * b).
Proof. rewrite !w_mod. apply Z.mul_mod_idemp_r. pose proof M64_pos; lia. Qed.

Lemma add64_w_l a b : add64 (w a) b = w (a + b). Proof. apply w_add_l. Qed.
Lemma add64_w_r a b : add64 a (w b) = w (a + b). Proof. apply w_add_r. Qed.
Lemma add64_comm a b : add64 a b = add64 b a. Proof. unfold add64. now rewrite Z.add_comm. Qed.

Lemma shl64_mul a n : 0 <= n -> shl64 a n = w (a * 2 ^ n).
Proof. intros H. unfold shl64. now rewrite Z.shiftl_mul_pow2. Qed.

(* ---- bit-level ---- *)
Lemma land_disjoint h lo k : 0 <= k -> 0 <= lo < 2 ^ k -> Z.land (h * 2 ^ k) lo = 0.
Proof.
  intros Hk Hlo. apply Z.bits_inj'. intros n Hn. rewrite Z.land_spec, Z.bits_0.
  destruct (Z.lt_ge_cases n k) as [L|G].
  - rewrite Z.mul_pow2_bits_low by lia. reflexivity.
  - rewrite <- (Z.mod_small lo (2 ^ k)) by lia. rewrite Z.mod_pow2_bits_high by lia. apply andb_false_r.
Qed.

Lemma lor_add h lo k : 0 <= k -> 0 <= lo < 2 ^ k -> Z.lor (h * 2 ^ k) lo = h * 2 ^ k + lo.
Proof.
  intros Hk Hlo. pose proof (land_disjoint h lo k Hk Hlo) as D.
  rewrite <- Z.lxor_lor by exact D. symmetry. now apply Z.add_nocarry_lxor.
Qed.

Lemma lxor_bound n a b : 0 <= n -> 0 <= a < 2 ^ n -> 0 <= b < 2 ^ n -> 0 <= Z.lxor a b < 2 ^ n.
Proof.
  intros Hn Ha Hb.
  assert (E : Z.lxor a b mod 2 ^ n = Z.lxor a b).
  { apply Z.bits_inj'. intros m Hm. destruct (Z.lt_ge_cases m n) as [L|G].
    - now rewrite Z.mod_pow2_bits_low by lia.
    - rewrite Z.mod_pow2_bits_high by lia. rewrite Z.lxor_spec.
      rewrite <- (Z.mod_small a (2 ^ n)), <- (Z.mod_small b (2 ^ n)) by lia.
      now rewrite !Z.mod_pow2_bits_high by lia. }
  rewrite <- E. apply Z.mod_pos_bound. apply Z.pow_pos_nonneg; lia.
Qed.

Lemma shiftr_small x n : 0 <= n -> 0 <= x < 2 ^ n -> Z.shiftr x n = 0.
Proof. intros Hn Hx. rewrite Z.shiftr_div_pow2 by lia. apply Z.div_small. lia. Qed.

Lemma rotl32_range x r : 0 <= rotl32 x r < M32.
Proof. apply w32_range. Qed.

(* ---- reads ---- *)
Lemma b8_mod x : b8 x = x mod 256.
Proof. unfold b8. change 255 with (Z.ones 8). rewrite Z.land_ones by lia. reflexivity. Qed.
Lemma b8_range x : 0 <= b8 x < 256.
Proof. rewrite b8_mod. apply Z.mod_pos_bound. lia. Qed.

Lemma le_bytes_range n t : 0 <= le_bytes n t < 256 ^ Z.of_nat n.
Proof.
  revert t; induction n as [|n IH]; intros t.
  - cbn. lia.
  - rewrite Nat2Z.inj_succ, Z.pow_succ_r by lia. cbn [le_bytes]. destruct t as [|b t].
    + assert (0 < 256 ^ Z.of_nat n) by (apply Z.pow_pos_nonneg; lia). lia.
    + pose proof (b8_range b). pose proof (IH t). lia.
Qed.

Lemma rd8_range m o : 0 <= rd8 m o < 256.
Proof. apply (le_bytes_range 1). Qed.
Lemma rd16_range m o : 0 <= rd16 m o < 65536.
Proof. apply (le_bytes_range 2). Qed.
Lemma rd32_range m o : 0 <= rd32 m o < M32.
Proof. apply (le_bytes_range 4). Qed.
Lemma rd64_range m o : 0 <= rd64 m o < M64.
Proof. apply (le_bytes_range 8). Qed.

(* the bounds-checked read succeeds exactly inside the slice *)
Lemma read_ok n m off :
  0 <= off -> off + Z.of_nat n <= Z.of_nat (length m) -> read n m off = Some (rd n m off).
Proof.
  intros H0 H1. unfold read.
  assert (E : (n <=? length (firstn n (skipn (Z.to_nat off) m)))%nat = true).
  { apply Nat.leb_le. rewrite firstn_length, skipn_length. apply Nat.min_glb; lia. }
  rewrite E. assert (E0 : (0 <=? off) = true) by lia. now rewrite E0.
Qed.
Lemma read_oob n m off :
  (0 < n)%nat -> off < 0 \/ Z.of_nat (length m) < off + Z.of_nat n -> read n m off = None.
Proof.
  intros Hn H. unfold read. destruct (0 <=? off) eqn:E0; [|reflexivity]. cbn [andb].
  assert (E : (n <=? length (firstn n (skipn (Z.to_nat off) m)))%nat = false).
  { apply Nat.leb_gt. rewrite firstn_length, skipn_length. apply Nat.min_lt_iff. right. apply Z.leb_le in E0. destruct H as [H|H]; lia. }
  now rewrite E.
Qed.

Lemma read64_ok m off : 0 <= off -> off + 8 <= Z.of_nat (length m) -> read64 m off = Some (rd64 m off).
Proof. intros. apply read_ok; lia. Qed.
Lemma read32_ok m off : 0 <= off -> off + 4 <= Z.of_nat (length m) -> read32 m off = Some (rd32 m off).
Proof. intros. apply read_ok; lia. Qed.
Lemma read16_ok m off : 0 <= off -> off + 2 <= Z.of_nat (length m) -> read16 m off = Some (rd16 m off).
Proof. intros. apply read_ok; lia. Qed.
Lemma read8_ok m off : 0 <= off -> off + 1 <= Z.of_nat (length m) -> read8 m off = Some (rd8 m off).
Proof. intros. apply read_ok; lia. Qed.

(* sums *)
Definition sum_from (l : list Z) (a : Z) : Z := fold_left Z.add l a.
Lemma fold_add_acc l a : fold_left Z.add l a = a + fold_left Z.add l 0.
Proof.
  revert a; induction l as [|y l IH]; intros a; cbn [fold_left]; [lia|].
  rewrite IH, (IH (0 + y)). lia.
Qed.

(* ---- wrap-around normalisation: congruence modulo 2^64 ----
   [wnorm] proves goals  w L = w R  (also add64/mul64 headed) where L and R are sums/products that agree as
   integers once every inner wrap-around is dropped. *)
Definition eqm (a b : Z) : Prop := a mod M64 = b mod M64.
Lemma eqm_refl a : eqm a a. Proof. reflexivity. Qed.
Lemma eqm_add a a' b b' : eqm a a' -> eqm b b' -> eqm (a + b) (a' + b').
Proof. unfold eqm. intros H1 H2. rewrite Z.add_mod, H1, H2, <- Z.add_mod by (pose proof M64_pos; lia). reflexivity. Qed.
Lemma eqm_sub a a' b b' : eqm a a' -> eqm b b' -> eqm (a - b) (a' - b').
Proof. unfold eqm. intros H1 H2. rewrite Zminus_mod, H1, H2, <- Zminus_mod. reflexivity. Qed.
Lemma eqm_mul a a' b b' : eqm a a' -> eqm b b' -> eqm (a * b) (a' * b').
Proof. unfold eqm. intros H1 H2. rewrite Z.mul_mod, H1, H2, <- Z.mul_mod by (pose proof M64_pos; lia). reflexivity. Qed.
Lemma eqm_opp a a' : eqm a a' -> eqm (- a) (- a').
Proof. intros H. replace (- a) with (0 - a) by lia. replace (- a') with (0 - a') by lia. apply eqm_sub; [apply eqm_refl|exact H]. Qed.
Lemma eqm_w a a' : eqm a a' -> eqm (w a) a'.
Proof. unfold eqm. intros H. rewrite w_mod, Z.mod_mod by (pose proof M64_pos; lia). exact H. Qed.
Lemma eqm_add64 a a' b b' : eqm a a' -> eqm b b' -> eqm (add64 a b) (a' + b').
Proof. intros. apply eqm_w, eqm_add; assumption. Qed.
Lemma eqm_mul64 a a' b b' : eqm a a' -> eqm b b' -> eqm (mul64 a b) (a' * b').
Proof. intros. apply eqm_w, eqm_mul; assumption. Qed.
Lemma eqm_neg64 a a' : eqm a a' -> eqm (neg64 a) (- a').
Proof. intros. apply eqm_w, eqm_opp; assumption. Qed.
Lemma w_eq_of_eqm a b a' b' : eqm a a' -> eqm b b' -> a' = b' -> w a = w b.
Proof. unfold eqm. intros H1 H2 E. rewrite !w_mod, H1, H2, E. reflexivity. Qed.
Lemma eqm_eq_w a b a' b' : eqm a a' -> eqm b b' -> a' = b' -> eqm a b.
Proof. unfold eqm. intros H1 H2 E. rewrite H1, H2, E. reflexivity. Qed.

Ltac eqm_norm :=
  repeat first [ apply eqm_w | apply eqm_add64 | apply eqm_mul64 | apply eqm_neg64
               | apply eqm_add | apply eqm_sub | apply eqm_mul | apply eqm_opp | apply eqm_refl ].
(* goal: w L = w R (or with add64 / mul64 / neg64 heads) *)
Ltac wnorm :=
  unfold add64, mul64, neg64;
  lazymatch goal with
  | |- w _ = w _ => eapply w_eq_of_eqm; [eqm_norm | eqm_norm | try ring]
  end.

Global Opaque w w32 M64 M32 mask64 mask32 b8.
