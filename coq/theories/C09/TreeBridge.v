(* C09 on the real tree model, proofs.
   (1) Bridge: on strictly sorted association lists and for a comparator that obeys the comparator laws and
       separates keys (cmp a b = 0 -> a = b, as the built-in int / string comparators do), the reference sorted map
       of C01 (sm_get / sm_put / sm_remove) IS the Go-map-like table of C09 with == := (cmp = 0) and sorted insertion.
   (2) Hence treeset / treebidimap on the red-black model (C01.Containers, refinement theorems of C01) give, for every
       operation list, the answers of C09's reference set / partial bijection; the set algebra of treeset (loops over
       the tree iterator) computes the mathematical results. *)
From VF Require Import Common.Base C09.Model C09.Spec C09.Proofs C09.Proofs2 C09.TreeModel.
From VF Require C01.Order C01.SortedMap C01.SpecProofs C01.BinTree C01.BinTreeProofs C01.RB C01.RBProofs
  C01.Containers C01.ContainersProofs C01.BidiProofs.
From Coq Require Import Sorted.
Local Open Scope Z_scope.

Module O1 := VF.C01.Order.
Module SP1 := VF.C01.SpecProofs.
Module BT1 := VF.C01.BinTree.
Module RBP1 := VF.C01.RBProofs.
Module CP1 := VF.C01.ContainersProofs.

Lemma SS_impl {A} (P Q : A -> A -> Prop) (l : list A) :
  (forall a b, P a b -> Q a b) -> StronglySorted P l -> StronglySorted Q l.
Proof. intros H HS. induction HS; constructor; auto. eapply Forall_impl; [|eassumption]. auto. Qed.

Section Bridge.
  Context {K : Type} {cmp : K -> K -> Z} (O : O1.CmpLaws cmp).
  Hypothesis sep : forall a b, cmp a b = 0 -> a = b.

  Notation eqb := (cmp_eqb cmp).
  Notation ltb := (cmp_ltb cmp).

  Lemma ceqb_spec a b : eqb a b = true <-> a = b.
  Proof. unfold cmp_eqb. rewrite Z.eqb_eq. split; [apply sep|intros ->; apply (O1.cmp_refl O)]. Qed.
  Lemma cltb_trans a b c : ltb a b = true -> ltb b c = true -> ltb a c = true.
  Proof. unfold cmp_ltb. rewrite !Z.ltb_lt. apply (O1.lt_trans O). Qed.
  Lemma cltb_total a b : ltb a b = false -> a <> b -> ltb b a = true.
  Proof.
    unfold cmp_ltb. rewrite Z.ltb_ge, Z.ltb_lt. intros H N.
    destruct (Z.eq_dec (cmp a b) 0) as [E|E]; [elim N; now apply sep|].
    apply (O1.gt_lt O). lia.
  Qed.

  Section Vals.
  Context {V : Type}.
  Notation sorted := (S1.sorted K V cmp).
  Notation sm_get := (S1.sm_get K V cmp).
  Notation sm_put := (S1.sm_put K V cmp).
  Notation sm_remove := (S1.sm_remove K V cmp).

  Lemma sorted_SortedKeys (m : list (K * V)) : sorted m <-> SortedKeys ltb m.
  Proof.
    unfold S1.sorted, SortedKeys, gkeys. induction m as [|[k v] m IH]; cbn [map].
    - split; constructor.
    - split; intros H; inversion H as [|x t Hs Hf]; subst; constructor.
      + now apply IH.
      + rewrite Forall_map. eapply Forall_impl; [|exact Hf]. intros [k' v']. unfold S1.ltk, lt, cmp_ltb. cbn [fst].
        now rewrite Z.ltb_lt.
      + now apply IH.
      + rewrite Forall_map in Hf. eapply Forall_impl; [|exact Hf]. intros [k' v']. unfold S1.ltk, lt, cmp_ltb. cbn [fst].
        now rewrite Z.ltb_lt.
  Qed.

  (* a key below the head of a sorted list is not among its keys *)
  Lemma below_head_notin x k v (m : list (K * V)) : sorted ((k, v) :: m) -> cmp x k < 0 -> ~ In x (gkeys ((k, v) :: m)).
  Proof.
    intros HS Hx Hin. inversion HS as [|a t Hs Hf]; subst. cbn [gkeys map fst] in Hin. destruct Hin as [->|Hin].
    - rewrite (O1.cmp_refl O) in Hx. lia.
    - apply in_map_iff in Hin as ([k' v'] & <- & Hin'). rewrite Forall_forall in Hf. specialize (Hf _ Hin').
      unfold S1.ltk in Hf. cbn [fst] in Hf. pose proof (O1.lt_trans O _ _ _ Hx Hf) as H. rewrite (O1.cmp_refl O) in H. lia.
  Qed.
  Lemma head_notin_tail k v (m : list (K * V)) : sorted ((k, v) :: m) -> ~ In k (gkeys m).
  Proof.
    intros HS Hin. inversion HS as [|a t Hs Hf]; subst. apply in_map_iff in Hin as ([k' v'] & E & Hin'). cbn [fst] in E. subst k'.
    rewrite Forall_forall in Hf. specialize (Hf _ Hin'). unfold S1.ltk in Hf. cbn [fst] in Hf. rewrite (O1.cmp_refl O) in Hf. lia.
  Qed.
  Lemma sorted_tail a (m : list (K * V)) : sorted (a :: m) -> sorted m.
  Proof. intros H. now inversion H. Qed.

  Lemma sm_get_gget x (m : list (K * V)) : sorted m -> sm_get x m = gget eqb x m.
  Proof.
    induction m as [|[k v] m IH]; intros HS; cbn [S1.sm_get gget]; [reflexivity|]. unfold cmp_eqb at 1.
    destruct (cmp x k =? 0) eqn:E0; [reflexivity|]. destruct (cmp x k <? 0) eqn:E1.
    - apply Z.ltb_lt in E1. symmetry. apply (gget_none_iff eqb ceqb_spec). intros Hin.
      apply (below_head_notin x k v m HS E1). cbn [gkeys map]. now right.
    - apply IH. eapply sorted_tail; exact HS.
  Qed.

  Lemma sm_remove_gdel x (m : list (K * V)) : sorted m -> sm_remove x m = gdel eqb x m.
  Proof.
    induction m as [|[k v] m IH]; intros HS; cbn [S1.sm_remove]; [reflexivity|].
    destruct (cmp x k <? 0) eqn:E1.
    - apply Z.ltb_lt in E1. symmetry. apply (gdel_notin eqb ceqb_spec). now apply below_head_notin.
    - unfold gdel. cbn [filter fst]. unfold cmp_eqb at 1. destruct (cmp x k >? 0) eqn:E2.
      + assert (E0 : (cmp x k =? 0) = false) by (apply Z.eqb_neq; apply Z.gtb_lt in E2; lia). rewrite E0. cbn [negb].
        f_equal. apply IH. eapply sorted_tail; exact HS.
      + assert (E0 : cmp x k = 0) by (apply Z.ltb_ge in E1; rewrite Z.gtb_ltb in E2; apply Z.ltb_ge in E2; lia).
        rewrite (proj2 (Z.eqb_eq _ _) E0). cbn [negb]. apply sep in E0. subst x. symmetry.
        apply (gdel_notin eqb ceqb_spec). eapply head_notin_tail; exact HS.
  Qed.

  Lemma sm_put_gput x w (m : list (K * V)) : sorted m -> sm_put x w m = gput eqb (ins_sorted ltb) x w m.
  Proof.
    induction m as [|[k v] m IH]; intros HS; [reflexivity|]. cbn [S1.sm_put]. unfold gput, gmem. cbn [gget]. unfold cmp_eqb at 1.
    destruct (cmp x k =? 0) eqn:E0.
    - cbn [gset]. unfold cmp_eqb at 1. rewrite E0. apply Z.eqb_eq in E0. apply sep in E0. now subst.
    - destruct (cmp x k <? 0) eqn:E1.
      + assert (G : gget eqb x m = None).
        { apply (gget_none_iff eqb ceqb_spec). intros Hin. apply Z.ltb_lt in E1.
          apply (below_head_notin x k v m HS E1). cbn [gkeys map]. now right. }
        rewrite G. cbn [ins_sorted]. unfold cmp_ltb at 1. now rewrite E1.
      + specialize (IH (sorted_tail _ _ HS)). unfold gput, gmem in IH. rewrite IH.
        destruct (gget eqb x m).
        * cbn [gset]. change (eqb x k) with (cmp x k =? 0). now rewrite E0.
        * cbn [ins_sorted]. change (ltb x k) with (cmp x k <? 0). now rewrite E1.
  Qed.
  End Vals.

  (* ================= treeset ================= *)
  Notation sins := (@ins_sorted K unit ltb).

  Lemma fold_put_gs_add ks : forall m : list (K * unit), S1.sorted K unit cmp m ->
    fold_left (fun m k => S1.sm_put K unit cmp k tt m) ks m = gs_add eqb sins ks m.
  Proof.
    unfold gs_add. induction ks as [|k ks IH]; intros m HS; cbn [fold_left]; [reflexivity|].
    rewrite <- (sm_put_gput k tt m HS). apply IH. now apply (SP1.sm_put_sorted O).
  Qed.
  Lemma fold_remove_gs_remove ks : forall m : list (K * unit), S1.sorted K unit cmp m ->
    fold_left (fun m k => S1.sm_remove K unit cmp k m) ks m = gs_remove eqb ks m.
  Proof.
    unfold gs_remove. induction ks as [|k ks IH]; intros m HS; cbn [fold_left]; [reflexivity|].
    rewrite <- (sm_remove_gdel k m HS). apply IH. now apply SP1.sm_remove_sorted.
  Qed.

  (* the reference sorted set of C01 and the sorted-insertion table of C09 are the same function *)
  Lemma sset_is_gs (m : list (K * unit)) (o : sop K) : S1.sorted K unit cmp m ->
    fst (S1.sset_step K cmp m (to1_sop o)) = fst (gs_step eqb sins m o) /\
    of1_sout (snd (S1.sset_step K cmp m (to1_sop o))) = snd (gs_step eqb sins m o).
  Proof.
    intros HS. destruct o; cbn [to1_sop S1.sset_step gs_step fst snd of1_sout].
    - split; [now apply fold_put_gs_add|reflexivity].
    - split; [now apply fold_remove_gs_remove|reflexivity].
    - split; reflexivity.
    - split; [reflexivity|]. f_equal. unfold gs_contains. apply forallb_ext. intros x. unfold gmem.
      now rewrite (sm_get_gget x m HS).
    - split; [reflexivity|]. unfold glen. now rewrite Nat2Z.id.
    - split; [reflexivity|]. unfold glen. destruct m; reflexivity.
    - split; reflexivity.
  Qed.

  Notation Rts := (RBP1.Rrb (K := K) (V := unit) (cmp := cmp)).

  (* red-black treeset = sorted-insertion table, call by call *)
  Lemma rb_set_step_gs s m o : Rts s m ->
    Rts (fst (rb_set_step cmp s o)) (fst (gs_step eqb sins m o)) /\
    snd (rb_set_step cmp s o) = snd (gs_step eqb sins m o).
  Proof.
    intros HR. pose proof HR as (HS & _). destruct (CP1.tset_step_refines O s m (to1_sop o) HR) as [HR' Ho].
    destruct (sset_is_gs m o HS) as [E1 E2]. unfold rb_set_step.
    destruct (T1.treeset_step K cmp s (to1_sop o)) as [s' r]. cbn [fst snd] in *. split.
    - now rewrite <- E1.
    - now rewrite <- E2, Ho.
  Qed.

  Definition Rtso (s : ts_state (K:=K)) (o : list K) : Prop := exists m, Rts s m /\ Rs m o.

  Lemma rb_set_step_refines s o op : Rtso s o ->
    Rtso (fst (rb_set_step cmp s op)) (fst (oset_step eqb o op)) /\
    sout_equiv (snd (rb_set_step cmp s op)) (snd (oset_step eqb o op)).
  Proof.
    intros (m & HR & HRs). destruct (rb_set_step_gs s m op HR) as [H1 H2].
    destruct (gs_step_refines eqb ceqb_spec sins (ins_sorted_ok ltb) m o op HRs) as [H3 H4].
    split; [exists (fst (gs_step eqb sins m op)); split; assumption|]. now rewrite H2.
  Qed.

  Lemma Rtso_nil : Rtso (ts_empty (K:=K)) [].
  Proof. exists []. split; [apply (RBP1.Rrb_empty (cmp := cmp))|]. unfold Rs. cbn. apply Rh_nil. Qed.

  Lemma Rts_values s m : Rts s m -> ts_values s = gkeys m.
  Proof. intros (_ & He & _). unfold ts_values. now rewrite He. Qed.
  Lemma Rts_has s m x : Rts s m -> ts_has cmp s x = gmem eqb x m.
  Proof.
    intros (HS & He & _). unfold ts_has, gmem. rewrite (VF.C01.BinTreeProofs.lookup_elements O _ _ (eq_ind_r _ HS He)), He.
    now rewrite (sm_get_gget x m HS).
  Qed.
  Lemma Rts_size s m : Rts s m -> RB1.size s = Z.of_nat (glen m).
  Proof. intros (_ & _ & Hsz). exact Hsz. Qed.

  Lemma Rtso_values s o : Rtso s o ->
    Permutation (ts_values s) o /\ NoDup (ts_values s) /\ StronglySorted (fun a b => cmp a b < 0) (ts_values s).
  Proof.
    intros (m & HR & [HP HN]). rewrite (Rts_values s m HR). destruct HR as (HS & _). split; [|split].
    - apply (Permutation_map fst) in HP. exact (eq_ind _ (fun x => Permutation (map fst m) x) HP _ (gkeys_lift o)).
    - exact HN.
    - apply sorted_SortedKeys in HS. unfold SortedKeys, lt in HS. eapply SS_impl; [|exact HS].
      intros a b. unfold cmp_ltb. now rewrite Z.ltb_lt.
  Qed.

  (* C09_treeset: every operation list on the red-black treeset answers as the reference set does; Values() is
     strictly ascending, duplicate free, and holds exactly the reference's elements *)
  Theorem treeset_refines ops :
    Forall2 (sout_equiv (K:=K)) (snd (run (rb_set_step cmp) ts_empty ops)) (snd (run (oset_step eqb) [] ops)) /\
    let s := fst (run (rb_set_step cmp) ts_empty ops) in
    Permutation (ts_values s) (fst (run (oset_step eqb) [] ops)) /\ NoDup (ts_values s) /\
    StronglySorted (fun a b => cmp a b < 0) (ts_values s).
  Proof.
    destruct (run_rel Rtso sout_equiv (rb_set_step cmp) (oset_step eqb) rb_set_step_refines ops ts_empty [] Rtso_nil) as [HR HF].
    split; [exact HF|]. cbv zeta. now apply Rtso_values.
  Qed.

  (* the sorted-insertion table that C09 / C15 use as the abstract treeset answers exactly as the red-black model *)
  Theorem treeset_abstract_agrees ops :
    snd (run (rb_set_step cmp) ts_empty ops) = snd (run (gs_step eqb sins) [] ops).
  Proof.
    apply Forall2_eq.
    exact (proj2 (run_rel Rts eq (rb_set_step cmp) (gs_step eqb sins) rb_set_step_gs ops ts_empty [] (RBP1.Rrb_empty (cmp := cmp)))).
  Qed.

  (* ----- set algebra: the loops over the tree iterator ----- *)
  Lemma ts_put_gs s m x : Rts s m -> Rts (T1.ts_put K cmp s x) (gs_add eqb sins [x] m).
  Proof.
    intros HR. pose proof HR as (HS & _). unfold gs_add. cbn [fold_left]. rewrite <- (sm_put_gput x tt m HS).
    now apply (CP1.ts_put_refines O).
  Qed.
  Lemma ts_fold_put l : forall s m, Rts s m ->
    Rts (fold_left (T1.ts_put K cmp) l s) (fold_left (fun r x => gs_add eqb sins [x] r) l m).
  Proof. induction l as [|x l IH]; intros s m HR; cbn [fold_left]; [exact HR|]. apply IH. now apply ts_put_gs. Qed.
  Lemma ts_fold_keep (p q : K -> bool) l : (forall x, p x = q x) -> forall s m, Rts s m ->
    Rts (fold_left (fun r x => if p x then T1.ts_put K cmp r x else r) l s)
        (fold_left (fun r x => if q x then gs_add eqb sins [x] r else r) l m).
  Proof.
    intros Hpq. induction l as [|x l IH]; intros s m HR; cbn [fold_left]; [exact HR|]. apply IH. rewrite Hpq.
    destruct (q x); [now apply ts_put_gs|exact HR].
  Qed.
  Lemma ts_keep_gs (p q : K -> bool) a ma : (forall x, p x = q x) -> Rts a ma ->
    Rts (ts_keep cmp p a) (gs_keep eqb sins q ma).
  Proof.
    intros Hpq HR. unfold ts_keep, gs_keep. rewrite (Rts_values a ma HR). apply (ts_fold_keep p q _ Hpq).
    apply (RBP1.Rrb_empty (cmp := cmp)).
  Qed.

  Lemma ts_union_gs a b ma mb : Rts a ma -> Rts b mb -> Rts (ts_union cmp a b) (gs_union eqb sins ma mb).
  Proof.
    intros Ha Hb. unfold ts_union, gs_union. rewrite (Rts_values a ma Ha), (Rts_values b mb Hb).
    apply ts_fold_put. apply ts_fold_put. apply (RBP1.Rrb_empty (cmp := cmp)).
  Qed.
  Lemma ts_inter_gs a b ma mb : Rts a ma -> Rts b mb -> Rts (ts_inter cmp a b) (gs_inter eqb sins ma mb).
  Proof.
    intros Ha Hb. unfold ts_inter, gs_inter. rewrite (Rts_size a ma Ha), (Rts_size b mb Hb).
    destruct (Nat.leb_spec (glen ma) (glen mb)) as [H|H].
    - rewrite (proj2 (Z.leb_le _ _)) by lia. apply ts_keep_gs; [|exact Ha]. intros x. now apply Rts_has.
    - rewrite (proj2 (Z.leb_gt _ _)) by lia. apply ts_keep_gs; [|exact Hb]. intros x. now apply Rts_has.
  Qed.
  Lemma ts_diff_gs a b ma mb : Rts a ma -> Rts b mb -> Rts (ts_diff cmp a b) (gs_diff eqb sins ma mb).
  Proof.
    intros Ha Hb. unfold ts_diff, gs_diff. apply ts_keep_gs; [|exact Ha]. intros x. now rewrite (Rts_has b mb x Hb).
  Qed.

  (* operands: any two tree sets in the refinement relation of C01 (every reachable one is); the result is again such
     a set (a well-formed sorted tree set built from NewWith) and holds the mathematical result *)
  Theorem treeset_algebra a b ma mb : Rts a ma -> Rts b mb ->
    (exists mr, Rts (ts_union cmp a b) mr) /\ is_union (ts_values (ts_union cmp a b)) (ts_values a) (ts_values b) /\
    (exists mr, Rts (ts_inter cmp a b) mr) /\ is_inter (ts_values (ts_inter cmp a b)) (ts_values a) (ts_values b) /\
    (exists mr, Rts (ts_diff cmp a b) mr) /\ is_diff (ts_values (ts_diff cmp a b)) (ts_values a) (ts_values b).
  Proof.
    intros Ha Hb. pose proof (ts_union_gs a b ma mb Ha Hb) as Hu. pose proof (ts_inter_gs a b ma mb Ha Hb) as Hi.
    pose proof (ts_diff_gs a b ma mb Ha Hb) as Hd.
    rewrite (Rts_values _ _ Hu), (Rts_values _ _ Hi), (Rts_values _ _ Hd), (Rts_values a ma Ha), (Rts_values b mb Hb).
    split; [eexists; exact Hu|]. split; [exact (gs_union_ok eqb ceqb_spec sins (ins_sorted_ok ltb) ma mb)|].
    split; [eexists; exact Hi|]. split; [exact (gs_inter_ok eqb ceqb_spec sins (ins_sorted_ok ltb) ma mb)|].
    split; [eexists; exact Hd|]. exact (gs_diff_ok eqb ceqb_spec sins (ins_sorted_ok ltb) ma mb).
  Qed.

  (* every reachable tree set is in the relation *)
  Lemma treeset_reachable ops : exists m, Rts (fst (run (rb_set_step cmp) ts_empty ops)) m.
  Proof.
    eexists. exact (proj1 (run_rel Rts eq (rb_set_step cmp) (gs_step eqb sins) rb_set_step_gs ops ts_empty [] (RBP1.Rrb_empty (cmp := cmp)))).
  Qed.

  Lemma Rts_sorted_values s m : Rts s m -> StronglySorted (fun a b => cmp a b < 0) (ts_values s).
  Proof.
    intros HR. rewrite (Rts_values s m HR). destruct HR as (HS & _). apply sorted_SortedKeys in HS. unfold SortedKeys, lt in HS.
    eapply SS_impl; [|exact HS]. intros a b. unfold cmp_ltb. now rewrite Z.ltb_lt.
  Qed.

  (* C09_algebra_tree: operands reached by any two operation lists *)
  Theorem treeset_algebra_reachable aops bops :
    let a := fst (run (rb_set_step cmp) ts_empty aops) in
    let b := fst (run (rb_set_step cmp) ts_empty bops) in
    (is_union (ts_values (ts_union cmp a b)) (ts_values a) (ts_values b) /\
     StronglySorted (fun x y => cmp x y < 0) (ts_values (ts_union cmp a b))) /\
    (is_inter (ts_values (ts_inter cmp a b)) (ts_values a) (ts_values b) /\
     StronglySorted (fun x y => cmp x y < 0) (ts_values (ts_inter cmp a b))) /\
    (is_diff (ts_values (ts_diff cmp a b)) (ts_values a) (ts_values b) /\
     StronglySorted (fun x y => cmp x y < 0) (ts_values (ts_diff cmp a b))).
  Proof.
    intros a b. destruct (treeset_reachable aops) as (ma & Ha). destruct (treeset_reachable bops) as (mb & Hb). fold a in Ha. fold b in Hb.
    destruct (treeset_algebra a b ma mb Ha Hb) as ((mu & Hu) & HU & (mi & Hi) & HI & (md & Hd) & HD).
    split; [split; [exact HU|eapply Rts_sorted_values; exact Hu]|].
    split; [split; [exact HI|eapply Rts_sorted_values; exact Hi]|].
    split; [exact HD|eapply Rts_sorted_values; exact Hd].
  Qed.
End Bridge.

(* ================= treebidimap ================= *)
Section BidiBridge.
  Context {K V : Type} {cmpK : K -> K -> Z} {cmpV : V -> V -> Z} (OK : O1.CmpLaws cmpK) (OV : O1.CmpLaws cmpV).
  Hypothesis sepK : forall a b, cmpK a b = 0 -> a = b.
  Hypothesis sepV : forall a b, cmpV a b = 0 -> a = b.
  Variables (zeroK : K) (zeroV : V).

  Notation keqb := (cmp_eqb cmpK).
  Notation veqb := (cmp_eqb cmpV).
  Notation kins := (@ins_sorted K V (cmp_ltb cmpK)).
  Notation vins := (@ins_sorted V K (cmp_ltb cmpV)).
  Notation sortedF := (S1.sorted K V cmpK).
  Notation sortedI := (S1.sorted V K cmpV).

  Definition tb_of (fw : list (K * V)) (bw : list (V * K)) : bidi K V := {| fwd := fw; inv := bw |}.
  Definition pair_of (s : bidi K V) : S1.bimap K V := (fwd s, inv s).

  Lemma bij_put_hb k v fw bw : sortedF fw -> sortedI bw ->
    S1.bij_put K V cmpK cmpV k v (fw, bw) = pair_of (hb_put keqb veqb kins vins k v (tb_of fw bw)).
  Proof.
    intros HF HI. unfold S1.bij_put, hb_put, pair_of, tb_of. cbn [fwd inv].
    rewrite (sm_get_gget OK sepK k fw HF).
    set (bw1 := match gget keqb k fw with Some d => S1.sm_remove V K cmpV d bw | None => bw end).
    set (inv1 := match gget keqb k fw with Some ov => gdel veqb ov bw | None => bw end).
    assert (E1 : bw1 = inv1) by (subst bw1 inv1; destruct (gget keqb k fw); [now apply (sm_remove_gdel OV sepV)|reflexivity]).
    assert (S1' : sortedI bw1) by (subst bw1; destruct (gget keqb k fw); [now apply SP1.sm_remove_sorted|exact HI]).
    rewrite (sm_get_gget OV sepV v bw1 S1'). rewrite <- E1.
    set (fw1 := match gget veqb v bw1 with Some d => S1.sm_remove K V cmpK d fw | None => fw end).
    set (fwd1 := match gget veqb v bw1 with Some ok => gdel keqb ok fw | None => fw end).
    assert (E2 : fw1 = fwd1) by (subst fw1 fwd1; destruct (gget veqb v bw1); [now apply (sm_remove_gdel OK sepK)|reflexivity]).
    assert (S2' : sortedF fw1) by (subst fw1; destruct (gget veqb v bw1); [now apply SP1.sm_remove_sorted|exact HF]).
    rewrite <- E2. now rewrite (sm_put_gput OK sepK k v fw1 S2'), (sm_put_gput OV sepV v k bw1 S1').
  Qed.

  Lemma bij_remove_hb k fw bw : sortedF fw -> sortedI bw ->
    S1.bij_remove K V cmpK cmpV k (fw, bw) = pair_of (hb_remove keqb veqb k (tb_of fw bw)).
  Proof.
    intros HF HI. unfold S1.bij_remove, hb_remove, pair_of, tb_of. cbn [fwd inv].
    rewrite (sm_get_gget OK sepK k fw HF). destruct (gget keqb k fw) as [d|]; [|reflexivity]. cbn [fwd inv].
    now rewrite (sm_remove_gdel OK sepK k fw HF), (sm_remove_gdel OV sepV d bw HI).
  Qed.

  Lemma bij_is_hb fw bw (o : bop K V) : sortedF fw -> sortedI bw ->
    fst (S1.bij_step K V cmpK cmpV zeroK zeroV (fw, bw) (to1_bop o)) = pair_of (fst (hb_step keqb veqb kins vins (tb_of fw bw) o)) /\
    of1_bout (snd (S1.bij_step K V cmpK cmpV zeroK zeroV (fw, bw) (to1_bop o))) = snd (hb_step keqb veqb kins vins (tb_of fw bw) o).
  Proof.
    intros HF HI. destruct o; cbn [to1_bop S1.bij_step hb_step fst snd of1_bout].
    - split; [now apply bij_put_hb|reflexivity].
    - split; [now apply bij_remove_hb|reflexivity].
    - split; reflexivity.
    - split; [reflexivity|]. cbn [tb_of fwd]. rewrite (sm_get_gget OK sepK k fw HF). now destruct (gget keqb k fw).
    - split; [reflexivity|]. cbn [tb_of inv]. rewrite (sm_get_gget OV sepV v bw HI). now destruct (gget veqb v bw).
    - split; [reflexivity|]. cbn [tb_of fwd]. unfold glen. now rewrite Nat2Z.id.
    - split; [reflexivity|]. cbn [tb_of fwd]. now destruct fw.
    - split; reflexivity.
    - split; reflexivity.
  Qed.

  Notation Rbd := (CP1.Rbd (cmpK := cmpK) (cmpV := cmpV)).
  (* the two red-black trees of the container against the two sorted-insertion tables of C09's model *)
  Definition Rtb (s : T1.tb_state K V) (t : bidi K V) : Prop := Rbd s (fwd t, inv t).

  Lemma rb_bidi_step_hb s t o : Rtb s t ->
    Rtb (fst (rb_bidi_step cmpK cmpV zeroK zeroV s o)) (fst (hb_step keqb veqb kins vins t o)) /\
    snd (rb_bidi_step cmpK cmpV zeroK zeroV s o) = snd (hb_step keqb veqb kins vins t o).
  Proof.
    destruct t as [fw bw]. unfold Rtb. cbn [fwd inv]. intros HR. pose proof HR as [(HF & _) (HI & _)]. cbn [fst snd] in HF, HI.
    destruct (CP1.bidi_step_refines OK OV zeroK zeroV s (fw, bw) (to1_bop o) HR) as [HR' Ho].
    destruct (bij_is_hb fw bw o HF HI) as [E1 E2]. unfold rb_bidi_step. fold (tb_of fw bw).
    destruct (T1.tbidi_step K V cmpK cmpV zeroK zeroV s (to1_bop o)) as [s' r]. cbn [fst snd] in *. split.
    - exact (eq_ind _ (fun x => Rbd s' x) HR' _ E1).
    - now rewrite <- E2, Ho.
  Qed.

  Definition Rtbo (s : T1.tb_state K V) (b : list (K * V)) : Prop := exists t, Rtb s t /\ Rb t b.

  Lemma rb_bidi_step_refines s b o : Rtbo s b ->
    Rtbo (fst (rb_bidi_step cmpK cmpV zeroK zeroV s o)) (fst (bij_step keqb veqb b o)) /\
    bout_equiv (snd (rb_bidi_step cmpK cmpV zeroK zeroV s o)) (snd (bij_step keqb veqb b o)).
  Proof.
    intros (t & HR & HRb). destruct (rb_bidi_step_hb s t o HR) as [H1 H2].
    destruct (hb_step_refines keqb veqb (ceqb_spec OK sepK) (ceqb_spec OV sepV) kins vins
                (ins_sorted_ok (cmp_ltb cmpK)) (ins_sorted_ok (cmp_ltb cmpV)) t b o HRb) as [H3 H4].
    split; [exists (fst (hb_step keqb veqb kins vins t o)); split; assumption|]. now rewrite H2.
  Qed.

  Lemma Rtb_nil : Rtb (T1.tb_empty K V) hb0.
  Proof. unfold Rtb, hb0. cbn [fwd inv]. apply CP1.Rbd_empty. Qed.
  Lemma Rtbo_nil : Rtbo (T1.tb_empty K V) [].
  Proof. exists hb0. split; [apply Rtb_nil|apply Rb_nil]. Qed.

  Lemma Rtbo_facts s b : Rtbo s b ->
    (forall k v, BT1.lookup cmpK k (RB1.root (T1.fwd s)) = Some v <-> BT1.lookup cmpV v (RB1.root (T1.inv s)) = Some k) /\
    Permutation (tb_keys s) (map fst b) /\ Permutation (tb_vals s) (map snd b) /\
    StronglySorted (fun a c => cmpK a c < 0) (tb_keys s) /\ StronglySorted (fun a c => cmpV a c < 0) (tb_vals s).
  Proof.
    intros ([fw bw] & HR & HRb). unfold Rtb in HR. cbn [fwd inv] in HR. pose proof HR as [HF HI]. cbn [fst snd] in HF, HI.
    pose proof HF as (SF & EF & _). pose proof HI as (SI & EI & _).
    pose proof (Rb_bijection keqb veqb (ceqb_spec OK sepK) (ceqb_spec OV sepV) _ _ HRb) as (HB & _).
    cbn [fwd inv] in HB. pose proof HRb as (PF & PI & _). cbn [fwd inv] in PF, PI. unfold tb_keys, tb_vals. rewrite EF, EI.
    split; [|split; [|split; [|split]]].
    - intros k v. rewrite (CP1.lookup_fwd OK _ _ k HF), (CP1.lookup_inv OV _ _ v HI).
      rewrite (sm_get_gget OK sepK k fw SF), (sm_get_gget OV sepV v bw SI). apply HB.
    - now apply Permutation_map.
    - apply (Permutation_map fst) in PI. exact (eq_ind _ (fun x => Permutation (map fst bw) x) PI _ (gkeys_flip b)).
    - apply sorted_SortedKeys in SF. unfold SortedKeys, lt in SF. eapply SS_impl; [|exact SF].
      intros a c. unfold cmp_ltb. now rewrite Z.ltb_lt.
    - apply sorted_SortedKeys in SI. unfold SortedKeys, lt in SI. eapply SS_impl; [|exact SI].
      intros a c. unfold cmp_ltb. now rewrite Z.ltb_lt.
  Qed.

  (* C09_treebidimap *)
  Theorem treebidimap_refines ops :
    Forall2 (bout_equiv (K:=K) (V:=V)) (snd (run (rb_bidi_step cmpK cmpV zeroK zeroV) (T1.tb_empty K V) ops))
            (snd (run (bij_step keqb veqb) [] ops)) /\
    let s := fst (run (rb_bidi_step cmpK cmpV zeroK zeroV) (T1.tb_empty K V) ops) in
    let b := fst (run (bij_step keqb veqb) [] ops) in
    (forall k v, BT1.lookup cmpK k (RB1.root (T1.fwd s)) = Some v <-> BT1.lookup cmpV v (RB1.root (T1.inv s)) = Some k) /\
    Permutation (tb_keys s) (map fst b) /\ Permutation (tb_vals s) (map snd b) /\
    StronglySorted (fun a c => cmpK a c < 0) (tb_keys s) /\ StronglySorted (fun a c => cmpV a c < 0) (tb_vals s).
  Proof.
    destruct (run_rel Rtbo bout_equiv (rb_bidi_step cmpK cmpV zeroK zeroV) (bij_step keqb veqb) rb_bidi_step_refines ops _ _ Rtbo_nil)
      as [HR HF].
    split; [exact HF|]. cbv zeta. now apply Rtbo_facts.
  Qed.

  Theorem treebidimap_abstract_agrees ops :
    snd (run (rb_bidi_step cmpK cmpV zeroK zeroV) (T1.tb_empty K V) ops) = snd (run (hb_step keqb veqb kins vins) hb0 ops).
  Proof.
    apply Forall2_eq.
    exact (proj2 (run_rel Rtb eq (rb_bidi_step cmpK cmpV zeroK zeroV) (hb_step keqb veqb kins vins) rb_bidi_step_hb ops _ _ Rtb_nil)).
  Qed.
End BidiBridge.
