(* C09 specification: the reference containers the property speaks about.
   - omap: insertion-ordered finite map (re-put keeps the position; remove + re-put goes to the end);
     it is also the reference for the unordered maps, whose Keys/Values are then compared up to permutation
   - oset: insertion-ordered finite set
   - bij : a finite partial bijection given by its list of pairs
   - the three set-algebra results, by membership *)
From VF Require Import Common.Base C09.Model.

Section Spec.
  Context {K V : Type}.
  Variable keqb : K -> K -> bool.
  Variable veqb : V -> V -> bool.

  (* ----- ordered map ----- *)
  Definition omap := list (K * V).
  Definition o_get (k : K) (o : omap) : option V :=
    option_map snd (find (fun kv => keqb k (fst kv)) o).
  Definition o_has (k : K) (o : omap) : bool := existsb (fun kv => keqb k (fst kv)) o.
  Definition o_put (k : K) (v : V) (o : omap) : omap :=
    if o_has k o then map (fun kv => if keqb k (fst kv) then (fst kv, v) else kv) o else o ++ [(k, v)].
  Definition o_remove (k : K) (o : omap) : omap := filter (fun kv => negb (keqb k (fst kv))) o.

  Definition omap_step (o : omap) (op : mop K V) : omap * mout K V :=
    match op with
    | MPut k v => (o_put k v o, MONone)
    | MRemove k => (o_remove k o, MONone)
    | MClear => ([], MONone)
    | MGet k => (o, MOGet (o_get k o))
    | MSize => (o, MOSize (length o))
    | MEmpty => (o, MOEmpty (Nat.eqb (length o) 0))
    | MKeys => (o, MOKeys (map fst o))
    | MValues => (o, MOValues (map snd o))
    end.

  (* outputs of an unordered container: Keys / Values are lists in no particular order *)
  Definition mout_equiv (a b : mout K V) : Prop :=
    match a, b with
    | MOKeys l1, MOKeys l2 => Permutation l1 l2
    | MOValues l1, MOValues l2 => Permutation l1 l2
    | _, _ => a = b
    end.

  (* ----- ordered set ----- *)
  Definition oset := list K.
  Definition os_has (x : K) (s : oset) : bool := existsb (keqb x) s.
  Definition os_add1 (s : oset) (x : K) : oset := if os_has x s then s else s ++ [x].
  Definition os_remove1 (s : oset) (x : K) : oset := filter (fun y => negb (keqb x y)) s.

  Definition oset_step (s : oset) (op : sop K) : oset * sout K :=
    match op with
    | SAdd l => (fold_left os_add1 l s, SONone)
    | SRemove l => (fold_left os_remove1 l s, SONone)
    | SClear => ([], SONone)
    | SContains l => (s, SOBool (forallb (fun x => os_has x s) l))
    | SSize => (s, SOSize (length s))
    | SEmpty => (s, SOBool (Nat.eqb (length s) 0))
    | SValues => (s, SOValues s)
    end.
  Definition sout_equiv (a b : sout K) : Prop :=
    match a, b with
    | SOValues l1, SOValues l2 => Permutation l1 l2
    | _, _ => a = b
    end.

  (* ----- partial bijection ----- *)
  Definition bij := list (K * V).
  Definition b_put (k : K) (v : V) (b : bij) : bij :=
    filter (fun p => negb (keqb k (fst p)) && negb (veqb v (snd p))) b ++ [(k, v)].
  Definition b_remove (k : K) (b : bij) : bij := filter (fun p => negb (keqb k (fst p))) b.
  Definition b_get (k : K) (b : bij) : option V := option_map snd (find (fun p => keqb k (fst p)) b).
  Definition b_getkey (v : V) (b : bij) : option K := option_map fst (find (fun p => veqb v (snd p)) b).

  Definition bij_step (b : bij) (op : bop K V) : bij * bout K V :=
    match op with
    | BPut k v => (b_put k v b, BONone)
    | BRemove k => (b_remove k b, BONone)
    | BClear => ([], BONone)
    | BGet k => (b, BOGet (b_get k b))
    | BGetKey v => (b, BOGetKey (b_getkey v b))
    | BSize => (b, BOSize (length b))
    | BEmpty => (b, BOEmpty (Nat.eqb (length b) 0))
    | BKeys => (b, BOKeys (map fst b))
    | BValues => (b, BOValues (map snd b))
    end.
  Definition bout_equiv (a b : bout K V) : Prop :=
    match a, b with
    | BOKeys l1, BOKeys l2 => Permutation l1 l2
    | BOValues l1, BOValues l2 => Permutation l1 l2
    | _, _ => a = b
    end.

  (* what "is a bijection" means for the two tables of a bidi-map *)
  Definition Bijection (s : bidi K V) : Prop :=
    (forall k v, gget keqb k (fwd s) = Some v <-> gget veqb v (inv s) = Some k)
    /\ NoDup (gkeys (fwd s)) /\ NoDup (gkeys (inv s)) /\ glen (fwd s) = glen (inv s).

  (* ----- set algebra, by membership; the result is a set (no duplicates) ----- *)
  Definition is_union (r a b : list K) : Prop := NoDup r /\ forall x, In x r <-> In x a \/ In x b.
  Definition is_inter (r a b : list K) : Prop := NoDup r /\ forall x, In x r <-> In x a /\ In x b.
  Definition is_diff  (r a b : list K) : Prop := NoDup r /\ forall x, In x r <-> In x a /\ ~ In x b.
End Spec.

(* the table and the ordering list of a linked container hold the same elements *)
Definition same_set {K} (a b : list K) : Prop := forall x, In x a <-> In x b.
