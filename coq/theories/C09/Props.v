(* C09 property theorems.  Statements closed by [exact]; Print Assumptions at the end.
   Everywhere: K (V) is any key (value) type, [eqb] is Go's == on it (premise: it decides equality), [ins] is
   where a Go map / a tree puts a binding whose key is new (premise: somewhere, i.e. the result is a
   permutation of the old bindings plus the new one) - so the theorems hold for every iteration order of
   Go maps and for the sorted order of the tree-backed variants alike. *)
From VF Require Import Common.Base C09.Model C09.Spec C09.Proofs C09.Proofs2 C09.TreeModel C09.TreeBridge C09.Check.
From VF Require C01.Order C01.BinTree C01.RB C01.Containers.
From Coq Require Import Sorted.

(* hashmap: same answers as the reference map after every operation list; Keys()/Values() up to order *)
Theorem C09_hashmap : forall (K V : Type) (eqb : K -> K -> bool),
  (forall a b, eqb a b = true <-> a = b) ->
  forall ins : K -> V -> list (K * V) -> list (K * V), (forall k v m, Permutation (ins k v m) ((k, v) :: m)) ->
  forall ops,
    Forall2 (mout_equiv (K:=K) (V:=V)) (snd (run (hm_step eqb ins) [] ops)) (snd (run (omap_step eqb) [] ops))
    /\ NoDup (gkeys (fst (run (hm_step eqb ins) [] ops))).
Proof. intros K V eqb He ins Hi ops. exact (hashmap_refines eqb He ins Hi ops). Qed.

(* hashset (and any one-table set, e.g. the sorted-insertion table) *)
Theorem C09_hashset : forall (K : Type) (eqb : K -> K -> bool),
  (forall a b, eqb a b = true <-> a = b) ->
  forall ins : K -> unit -> list (K * unit) -> list (K * unit), (forall k v m, Permutation (ins k v m) ((k, v) :: m)) ->
  forall ops,
    Forall2 (sout_equiv (K:=K)) (snd (run (gs_step eqb ins) [] ops)) (snd (run (oset_step eqb) [] ops))
    /\ NoDup (gkeys (fst (run (gs_step eqb ins) [] ops))).
Proof. intros K eqb He ins Hi ops. exact (hashset_refines eqb He ins Hi ops). Qed.

(* linkedhashmap (repaired Remove): EQUAL outputs to the insertion-ordered reference map - Keys() is the
   first-insertion order, re-put keeps the position, remove + re-put moves to the end -, the ordering list is
   duplicate free and holds exactly the keys of the table *)
Theorem C09_linked : forall (K V : Type) (eqb : K -> K -> bool) (zeroV : V),
  (forall a b, eqb a b = true <-> a = b) ->
  forall ins : K -> V -> list (K * V) -> list (K * V), (forall k v m, Permutation (ins k v m) ((k, v) :: m)) ->
  forall ops,
    snd (run (lhm_step eqb ins zeroV) lhm0 ops) = snd (run (omap_step eqb) [] ops) /\
    let s := fst (run (lhm_step eqb ins zeroV) lhm0 ops) in
    NoDup (ordering s) /\ same_set (gkeys (table s)) (ordering s) /\ length (table s) = length (ordering s).
Proof. intros K V eqb z He ins Hi ops. exact (linked_refines eqb He z ins Hi ops). Qed.

Theorem C09_linked_set : forall (K : Type) (eqb : K -> K -> bool),
  (forall a b, eqb a b = true <-> a = b) ->
  forall ins : K -> unit -> list (K * unit) -> list (K * unit), (forall k v m, Permutation (ins k v m) ((k, v) :: m)) ->
  forall ops,
    snd (run (ls_step eqb ins) ls0 ops) = snd (run (oset_step eqb) [] ops) /\
    let s := fst (run (ls_step eqb ins) ls0 ops) in
    NoDup (sordering s) /\ same_set (gkeys (stable s)) (sordering s) /\ length (stable s) = length (sordering s).
Proof. intros K eqb He ins Hi ops. exact (linkedset_refines eqb He ins Hi ops). Qed.

(* D21: the code as it was (ordering list searched with an equality [deq] coarser than ==, reflect.DeepEqual on
   pointer keys): table and ordering list stop holding the same elements *)
Theorem C09_linked_deepequal_refuted :
  exists (deq : Z -> Z -> bool) (ops : list (mop Z Z)),
    (forall a b, Z.eqb a b = true -> deq a b = true) /\
    let s := fst (run (lhm_step_with Z.eqb (@ins_front Z Z) 0%Z deq) lhm0 ops) in
    ~ same_set (gkeys (table s)) (ordering s).
Proof.
  exists (fun a b => Z.eqb (a / 2) (b / 2)), [MPut 0%Z 1%Z; MPut 1%Z 2%Z; MRemove 1%Z]. split.
  - intros a b H. apply Z.eqb_eq in H. subst. apply Z.eqb_refl.
  - vm_compute. intros H. destruct (H 0%Z) as [H1 _]. destruct (H1 (or_introl eq_refl)) as [E|[]]. discriminate.
Qed.

(* bidi-maps (hashbidimap: any insertion place; also the sorted-insertion tables): always a bijection
   - Get and GetKey inverse of each other, no duplicate keys / values, both tables of the same size - and the
   same answers as the reference partial bijection *)
Theorem C09_bidi : forall (K V : Type) (keqb : K -> K -> bool) (veqb : V -> V -> bool),
  (forall a b, keqb a b = true <-> a = b) -> (forall a b, veqb a b = true <-> a = b) ->
  forall (kins : K -> V -> list (K * V) -> list (K * V)) (vins : V -> K -> list (V * K) -> list (V * K)),
  (forall k v m, Permutation (kins k v m) ((k, v) :: m)) -> (forall k v m, Permutation (vins k v m) ((k, v) :: m)) ->
  forall ops,
    Bijection keqb veqb (fst (run (hb_step keqb veqb kins vins) hb0 ops)) /\
    Forall2 (bout_equiv (K:=K) (V:=V)) (snd (run (hb_step keqb veqb kins vins) hb0 ops)) (snd (run (bij_step keqb veqb) [] ops)).
Proof. intros K V keqb veqb Hk Hv kins vins Hki Hvi ops. exact (bidi_refines keqb veqb Hk Hv kins vins Hki Hvi ops). Qed.

(* set algebra: hashset (any one-table set) - any operands; linkedhashset - operands satisfying the invariant
   that C09_linked_set establishes for every reachable set.  The results are fresh values built from New();
   operands are not written by the model's loops (in the functional model they cannot be: that clause is
   exercised on the real code by the harness). *)
Theorem C09_algebra : forall (K : Type) (eqb : K -> K -> bool),
  (forall a b, eqb a b = true <-> a = b) ->
  forall ins : K -> unit -> list (K * unit) -> list (K * unit), (forall k v m, Permutation (ins k v m) ((k, v) :: m)) ->
  forall a b,
    is_union (gs_values (gs_union eqb ins a b)) (gs_values a) (gs_values b) /\
    is_inter (gs_values (gs_inter eqb ins a b)) (gs_values a) (gs_values b) /\
    is_diff (gs_values (gs_diff eqb ins a b)) (gs_values a) (gs_values b).
Proof.
  intros K eqb He ins Hi a b. split; [|split].
  - exact (gs_union_ok eqb He ins Hi a b).
  - exact (gs_inter_ok eqb He ins Hi a b).
  - exact (gs_diff_ok eqb He ins Hi a b).
Qed.

Theorem C09_algebra_linked : forall (K : Type) (eqb : K -> K -> bool),
  (forall a b, eqb a b = true <-> a = b) ->
  forall ins : K -> unit -> list (K * unit) -> list (K * unit), (forall k v m, Permutation (ins k v m) ((k, v) :: m)) ->
  forall a b, LInv a -> LInv b ->
    (LInv (ls_union eqb ins a b) /\ is_union (sordering (ls_union eqb ins a b)) (sordering a) (sordering b)) /\
    (LInv (ls_inter eqb ins a b) /\ is_inter (sordering (ls_inter eqb ins a b)) (sordering a) (sordering b)) /\
    (LInv (ls_diff eqb ins a b) /\ is_diff (sordering (ls_diff eqb ins a b)) (sordering a) (sordering b)).
Proof.
  intros K eqb He ins Hi a b Ha Hb. split; [|split].
  - exact (ls_union_ok eqb He ins Hi a b Ha Hb).
  - exact (ls_inter_ok eqb He ins Hi a b Ha Hb).
  - exact (ls_diff_ok eqb He ins Hi a b Ha Hb).
Qed.
(* every reachable linkedhashset satisfies LInv *)
Theorem C09_linked_set_inv : forall (K : Type) (eqb : K -> K -> bool),
  (forall a b, eqb a b = true <-> a = b) ->
  forall ins : K -> unit -> list (K * unit) -> list (K * unit), (forall k v m, Permutation (ins k v m) ((k, v) :: m)) ->
  forall ops, LInv (fst (run (ls_step eqb ins) ls0 ops)).
Proof. intros K eqb He ins Hi ops. exact (linked_set_inv eqb He ins Hi ops). Qed.

(* ===== treeset and treebidimap on the REAL tree model: the red-black tree of C01 (C01/RB.v, C01/Containers.v:
   treeset_step, tbidi_step), addressed in C09's operation vocabulary by rb_set_step / rb_bidi_step (C09/TreeModel.v).
   Premises: the comparator laws of C01 and cmp a b = 0 -> a = b (the built-in int / string comparators);
   == of the reference containers is then [cmp_eqb cmp a b := cmp a b =? 0].  Corollaries of C01's refinement theorems
   (tset_step_refines, bidi_step_refines) through the bridge C09/TreeBridge.v. ===== *)
Definition CmpLaws {K} (cmp : K -> K -> Z) : Prop := VF.C01.Order.CmpLaws cmp.
Definition separates {K} (cmp : K -> K -> Z) : Prop := forall a b, cmp a b = 0%Z -> a = b.

(* treeset: the answers of the reference set for every operation list; Values() strictly ascending, duplicate free,
   exactly the reference's elements *)
Theorem C09_treeset : forall (K : Type) (cmp : K -> K -> Z), CmpLaws cmp -> separates cmp ->
  forall ops,
    Forall2 (sout_equiv (K:=K)) (snd (run (rb_set_step cmp) ts_empty ops)) (snd (run (oset_step (cmp_eqb cmp)) [] ops)) /\
    let s := fst (run (rb_set_step cmp) ts_empty ops) in
    Permutation (ts_values s) (fst (run (oset_step (cmp_eqb cmp)) [] ops)) /\ NoDup (ts_values s) /\
    StronglySorted (fun a b => (cmp a b < 0)%Z) (ts_values s).
Proof. intros K cmp O sep ops. exact (treeset_refines O sep ops). Qed.

(* treebidimap: the answers of the reference partial bijection for every operation list; the two trees are inverse of
   each other (Get k = v exactly when GetKey v = k), hold the reference's keys / values, and enumerate them in order *)
Theorem C09_treebidimap : forall (K V : Type) (cmpK : K -> K -> Z) (cmpV : V -> V -> Z) (zeroK : K) (zeroV : V),
  CmpLaws cmpK -> CmpLaws cmpV -> separates cmpK -> separates cmpV ->
  forall ops,
    Forall2 (bout_equiv (K:=K) (V:=V)) (snd (run (rb_bidi_step cmpK cmpV zeroK zeroV) (VF.C01.Containers.tb_empty K V) ops))
            (snd (run (bij_step (cmp_eqb cmpK) (cmp_eqb cmpV)) [] ops)) /\
    let s := fst (run (rb_bidi_step cmpK cmpV zeroK zeroV) (VF.C01.Containers.tb_empty K V) ops) in
    let b := fst (run (bij_step (cmp_eqb cmpK) (cmp_eqb cmpV)) [] ops) in
    (forall k v, VF.C01.BinTree.lookup cmpK k (VF.C01.RB.root (VF.C01.Containers.fwd s)) = Some v <->
                 VF.C01.BinTree.lookup cmpV v (VF.C01.RB.root (VF.C01.Containers.inv s)) = Some k) /\
    Permutation (tb_keys s) (map fst b) /\ Permutation (tb_vals s) (map snd b) /\
    StronglySorted (fun a c => (cmpK a c < 0)%Z) (tb_keys s) /\ StronglySorted (fun a c => (cmpV a c < 0)%Z) (tb_vals s).
Proof. intros K V cmpK cmpV zeroK zeroV OK OV sK sV ops. exact (treebidimap_refines OK OV sK sV zeroK zeroV ops). Qed.

(* treeset's Union / Intersection / Difference (the code's loops over the tree iterator, result := NewWith(comparator),
   both operands with the same comparator), operands reached by ANY two operation lists: the mathematical result, in a
   duplicate-free, strictly ascending tree set *)
Theorem C09_algebra_tree : forall (K : Type) (cmp : K -> K -> Z), CmpLaws cmp -> separates cmp ->
  forall aops bops,
    let a := fst (run (rb_set_step cmp) ts_empty aops) in
    let b := fst (run (rb_set_step cmp) ts_empty bops) in
    (is_union (ts_values (ts_union cmp a b)) (ts_values a) (ts_values b) /\
     StronglySorted (fun x y => (cmp x y < 0)%Z) (ts_values (ts_union cmp a b))) /\
    (is_inter (ts_values (ts_inter cmp a b)) (ts_values a) (ts_values b) /\
     StronglySorted (fun x y => (cmp x y < 0)%Z) (ts_values (ts_inter cmp a b))) /\
    (is_diff (ts_values (ts_diff cmp a b)) (ts_values a) (ts_values b) /\
     StronglySorted (fun x y => (cmp x y < 0)%Z) (ts_values (ts_diff cmp a b))).
Proof. intros K cmp O sep aops bops. exact (treeset_algebra_reachable O sep aops bops). Qed.

(* the sorted-insertion tables (one table for the set, two for the bidi-map) answer EXACTLY as the red-black models:
   this is what licenses their use as the abstract tree containers in C15's JSON model *)
Theorem C09_tree_abstract_agrees : forall (K V : Type) (cmpK : K -> K -> Z) (cmpV : V -> V -> Z) (zeroK : K) (zeroV : V),
  CmpLaws cmpK -> CmpLaws cmpV -> separates cmpK -> separates cmpV ->
  (forall ops, snd (run (rb_set_step cmpK) ts_empty ops) =
               snd (run (gs_step (cmp_eqb cmpK) (ins_sorted (cmp_ltb cmpK))) [] ops)) /\
  (forall ops, snd (run (rb_bidi_step cmpK cmpV zeroK zeroV) (VF.C01.Containers.tb_empty K V) ops) =
               snd (run (hb_step (cmp_eqb cmpK) (cmp_eqb cmpV) (ins_sorted (cmp_ltb cmpK)) (ins_sorted (cmp_ltb cmpV))) hb0 ops)).
Proof.
  intros K V cmpK cmpV zeroK zeroV OK OV sK sV. split.
  - intros ops. exact (treeset_abstract_agrees OK sK ops).
  - intros ops. exact (treebidimap_abstract_agrees OK OV sK sV zeroK zeroV ops).
Qed.

(* every comparator shape the correspondence check evaluates (the built-in three-valued comparator and k * (a - b),
   k <> 0, on the key numbers) satisfies the premises of the tree theorems above: the evaluated cases are covered *)
Theorem C09_comparator_shapes : forall c, cmpsel_ok c = true -> CmpLaws (cmp_of c) /\ separates (cmp_of c).
Proof.
  intros [|k] H; cbn [cmp_of cmpsel_ok] in *.
  - split; [exact VF.C01.Order.zcmp_laws|]. intros a b. change (VF.C01.Order.zcmp a b = 0%Z -> a = b). unfold VF.C01.Order.zcmp.
    destruct (Z.eqb_spec a b); [auto|]. destruct (a >? b)%Z; discriminate.
  - apply negb_true_iff, Z.eqb_neq in H. split.
    + assert (Hk : (k < 0 \/ 0 < k)%Z) by lia.
      constructor; unfold cmp_of.
      * intros a b. replace ((b - a) * k)%Z with (- ((a - b) * k))%Z by ring. lia.
      * intros a b. replace ((b - a) * k)%Z with (- ((a - b) * k))%Z by ring. lia.
      * intros a b c H1 H2. replace ((a - c) * k)%Z with ((a - b) * k + (b - c) * k)%Z by ring. lia.
    + intros a b E. unfold cmp_of in E. apply Z.mul_eq_0 in E. lia.
Qed.

(* the sorted-insertion tables stay strictly sorted (so their Keys()/Values() are ordered) *)
Theorem C09_tree_sorted : forall (K V : Type) (keqb : K -> K -> bool) (veqb : V -> V -> bool),
  (forall a b, keqb a b = true <-> a = b) -> (forall a b, veqb a b = true <-> a = b) ->
  forall (kltb : K -> K -> bool) (vltb : V -> V -> bool),
  (forall a b c, kltb a b = true -> kltb b c = true -> kltb a c = true) -> (forall a b, kltb a b = false -> a <> b -> kltb b a = true) ->
  (forall a b c, vltb a b = true -> vltb b c = true -> vltb a c = true) -> (forall a b, vltb a b = false -> a <> b -> vltb b a = true) ->
  (forall ops, let s := fst (run (hb_step keqb veqb (ins_sorted kltb) (ins_sorted vltb)) hb0 ops) in
               StronglySorted (fun a b => kltb a b = true) (gkeys (fwd s)) /\
               StronglySorted (fun a b => vltb a b = true) (gkeys (inv s))) /\
  (forall ops, StronglySorted (fun a b => kltb a b = true) (gkeys (fst (run (gs_step keqb (ins_sorted kltb)) [] ops)))).
Proof.
  intros K V keqb veqb Hk Hv kltb vltb H1 H2 H3 H4. split.
  - intros ops. exact (tbidi_sorted keqb veqb Hk Hv kltb vltb H1 H2 H3 H4 ops).
  - intros ops. exact (treeset_sorted keqb Hk kltb H1 H2 ops).
Qed.

(* non-vacuity: the premises are satisfiable (integer keys, front insertion) and a concrete run reaches a
   state with overwrites, a removed-and-re-added key and a bidi value collision *)
Example C09_nonvacuous :
  (forall a b, Z.eqb a b = true <-> a = b) /\ (forall k v m, Permutation (@ins_front Z Z k v m) ((k, v) :: m)) /\
  snd (run (lhm_step Z.eqb (@ins_front Z Z) 0%Z) lhm0
           [MPut 1 10; MPut 2 20; MPut 1 11; MRemove 1; MPut 3 30; MPut 1 12; MKeys; MValues]%Z)
  = [MONone; MONone; MONone; MONone; MONone; MONone; MOKeys [2; 3; 1]; MOValues [20; 30; 12]]%Z /\
  snd (run (hb_step Z.eqb Z.eqb (@ins_front Z Z) (@ins_front Z Z)) hb0
           [BPut 1 7; BPut 2 8; BPut 1 8; BGet 2; BGetKey 8; BGetKey 7; BSize]%Z)
  = [BONone; BONone; BONone; BOGet None; BOGetKey (Some 1); BOGetKey None; BOSize 1]%Z.
Proof.
  split; [exact Z.eqb_eq|]. split; [intros; apply Permutation_refl|]. split; vm_compute; reflexivity.
Qed.
(* ... and for the tree variants: the int comparator meets the premises; a run on the red-black treeset and treebidimap *)
Example C09_tree_nonvacuous :
  CmpLaws VF.C01.Order.zcmp /\ separates VF.C01.Order.zcmp /\
  snd (run (rb_set_step VF.C01.Order.zcmp) ts_empty [SAdd [3; 1; 2; 1]; SRemove [2; 7]; SContains [1; 3]; SSize; SValues]%Z)
  = [SONone; SONone; SOBool true; SOSize 2; SOValues [1; 3]]%Z /\
  snd (run (rb_bidi_step VF.C01.Order.zcmp VF.C01.Order.zcmp 0%Z 0%Z) (VF.C01.Containers.tb_empty Z Z)
           [BPut 2 7; BPut 1 8; BPut 2 8; BGet 1; BGetKey 8; BGetKey 7; BSize; BKeys; BValues]%Z)
  = [BONone; BONone; BONone; BOGet None; BOGetKey (Some 2); BOGetKey None; BOSize 1; BOKeys [2]; BOValues [8]]%Z /\
  ts_values (ts_inter VF.C01.Order.zcmp (fst (run (rb_set_step VF.C01.Order.zcmp) ts_empty [SAdd [5; 1; 3]]%Z))
                                        (fst (run (rb_set_step VF.C01.Order.zcmp) ts_empty [SAdd [3; 4; 5; 6]]%Z))) = [3; 5]%Z.
Proof.
  split; [exact VF.C01.Order.zcmp_laws|]. split.
  - intros a b. unfold VF.C01.Order.zcmp. destruct (Z.eqb_spec a b); [auto|]. destruct (a >? b)%Z; discriminate.
  - repeat split; vm_compute; reflexivity.
Qed.

Print Assumptions C09_hashmap.
Print Assumptions C09_hashset.
Print Assumptions C09_linked.
Print Assumptions C09_linked_set.
Print Assumptions C09_linked_deepequal_refuted.
Print Assumptions C09_bidi.
Print Assumptions C09_algebra.
Print Assumptions C09_algebra_linked.
Print Assumptions C09_linked_set_inv.
Print Assumptions C09_comparator_shapes.
Print Assumptions C09_tree_sorted.
Print Assumptions C09_treeset.
Print Assumptions C09_treebidimap.
Print Assumptions C09_algebra_tree.
Print Assumptions C09_tree_abstract_agrees.
