(* C09 on the real tree model: treeset and treebidimap are the red-black-tree based models of C01
   (C01/RB.v + C01/Containers.v: treeset_step, tbidi_step), spoken to in the operation / output vocabulary of C09
   (C09/Model.v: sop / sout, bop / bout), plus treeset's set algebra as the code's loops over the tree iterator.
   No proofs in this file.  C01 is not imported (its operation types have the same constructor names as C09's):
   its names are written qualified. *)
From VF Require Import Common.Base C09.Model.
From VF Require C01.SortedMap C01.BinTree C01.RB C01.Containers.
Local Open Scope Z_scope.

Module S1 := VF.C01.SortedMap.
Module T1 := VF.C01.Containers.
Module RB1 := VF.C01.RB.

(* == of the comparator-ordered containers: Comparator(a, b) == 0;  "a sorts before b": Comparator(a, b) < 0 *)
Definition cmp_eqb {K} (cmp : K -> K -> Z) (a b : K) : bool := cmp a b =? 0.
Definition cmp_ltb {K} (cmp : K -> K -> Z) (a b : K) : bool := cmp a b <? 0.

(* ---------- treeset ---------- *)
Section TreeSet.
  Context {K : Type}.
  Variable cmp : K -> K -> Z.

  Definition ts_state := T1.ts_state K.
  Definition ts_empty : ts_state := RB1.empty K unit.

  Definition to1_sop (o : sop K) : S1.sop K :=
    match o with
    | SAdd l => S1.SAdd l | SRemove l => S1.SRemove l | SClear => S1.SClear | SContains l => S1.SContains l
    | SSize => S1.SSize | SEmpty => S1.SEmpty | SValues => S1.SValues
    end.
  Definition of1_sout (r : S1.sout K) : sout K :=
    match r with
    | S1.SONone => SONone | S1.SOBool b => SOBool b | S1.SOSize n => SOSize (Z.to_nat n) | S1.SOVals ks => SOValues ks
    end.
  Definition rb_set_step (s : ts_state) (o : sop K) : ts_state * sout K :=
    let '(s', r) := T1.treeset_step K cmp s (to1_sop o) in (s', of1_sout r).

  (* set.Iterator() walks the tree in order; Values() = tree.Keys() *)
  Definition ts_values (s : ts_state) : list K := map fst (VF.C01.BinTree.elements (RB1.root s)).
  (* Contains(x): tree.Get(x) found *)
  Definition ts_has (s : ts_state) (x : K) : bool := RB1.is_some (VF.C01.BinTree.lookup cmp x (RB1.root s)).
  (* result := NewWith(comparator); for it := from.Iterator(); it.Next(); { if p(it.Value()) { result.Add(it.Value()) } } *)
  Definition ts_keep (p : K -> bool) (from : ts_state) : ts_state :=
    fold_left (fun r x => if p x then T1.ts_put K cmp r x else r) (ts_values from) ts_empty.
  (* both operands carry the same comparator (otherwise Intersection / Union return the empty set: not modelled) *)
  Definition ts_inter (a b : ts_state) : ts_state :=
    if RB1.size a <=? RB1.size b then ts_keep (ts_has b) a else ts_keep (ts_has a) b.
  Definition ts_union (a b : ts_state) : ts_state :=
    fold_left (T1.ts_put K cmp) (ts_values b) (fold_left (T1.ts_put K cmp) (ts_values a) ts_empty).
  Definition ts_diff (a b : ts_state) : ts_state := ts_keep (fun x => negb (ts_has b x)) a.
End TreeSet.

(* ---------- treebidimap ---------- *)
Section TreeBidi.
  Context {K V : Type}.
  Variable cmpK : K -> K -> Z.
  Variable cmpV : V -> V -> Z.
  Variable zeroK : K.
  Variable zeroV : V.

  Definition to1_bop (o : bop K V) : S1.bop K V :=
    match o with
    | BPut k v => S1.BPut k v | BRemove k => S1.BRemove k | BClear => S1.BClear | BGet k => S1.BGet k
    | BGetKey v => S1.BGetKey v | BSize => S1.BSize | BEmpty => S1.BEmpty | BKeys => S1.BKeys | BValues => S1.BValues
    end.
  Definition of1_bout (r : S1.bout K V) : bout K V :=
    match r with
    | S1.BONone => BONone
    | S1.BOGet v found => BOGet (if found then Some v else None)
    | S1.BOGetKey k found => BOGetKey (if found then Some k else None)
    | S1.BOSize n => BOSize (Z.to_nat n)
    | S1.BOBool b => BOEmpty b
    | S1.BOKeys ks => BOKeys ks
    | S1.BOVals vs => BOValues vs
    end.
  Definition rb_bidi_step (s : T1.tb_state K V) (o : bop K V) : T1.tb_state K V * bout K V :=
    let '(s', r) := T1.tbidi_step K V cmpK cmpV zeroK zeroV s (to1_bop o) in (s', of1_bout r).
End TreeBidi.
(* Keys() = in-order walk of the forward tree; Values() = in-order walk of the inverse tree *)
Definition tb_keys {K V} (s : T1.tb_state K V) : list K := map fst (VF.C01.BinTree.elements (RB1.root (T1.fwd s))).
Definition tb_vals {K V} (s : T1.tb_state K V) : list V := map fst (VF.C01.BinTree.elements (RB1.root (T1.inv s))).
