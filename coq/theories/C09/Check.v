(* C09 correspondence checker.  Keys and values are integers (the harness numbers its int / string /
   pointer keys; two pointers to equal structs are two different numbers, as they are different for ==).
   For every recorded mutation the harness snapshots the container through its public methods (and, for the
   linked containers, the verif accessor of the table); this file decides
     kind 2: the snapshot contradicts the reference container of Spec.v (or, for set algebra, the
             mathematical result computed from the operands the implementation itself reported);
     kind 1: the snapshot satisfies the property but differs from what the model of the code computes.
   treeset / treebidimap are evaluated on the red-black-tree models of C01 (C09/TreeModel.v: rb_set_step, rb_bidi_step,
   ts_union / ts_inter / ts_diff) with the comparator the harness built the container with: a [cmpsel], interpreted
   by [cmp_of] to a Z-valued function on the key NUMBERS (ordered key types are numbered in ascending key order, so the
   function has the sign of the real comparator on the real keys - the only thing correct tree code looks at; the real
   comparators return -1/0/+1, a - b, (b - a) * 7, ... with magnitudes that vary with the keys). *)
From VF Require Import Common.Base C09.Model C09.Spec C09.TreeModel.
From VF Require C01.Order.
Local Open Scope Z_scope.

Inductive mkind := KHash | KLinked.
(* comparator shapes: the built-in three-valued one, and k * (a - b) for k <> 0 (k < 0: descending order) *)
Inductive cmpsel := CBuiltin | CLin (k : Z).
Definition cmp_of (c : cmpsel) (a b : Z) : Z :=
  match c with
  | CBuiltin => VF.C01.Order.zcmp a b
  | CLin k => (a - b) * k
  end.
Definition cmpsel_ok (c : cmpsel) : bool := match c with CBuiltin => true | CLin k => negb (k =? 0) end.

Inductive skind := SHash | SLinked | STree (c : cmpsel).
Inductive bkind := BHash | BTree (ck cv : cmpsel).
Inductive aop := AUnion | AInter | ADiff.

Fixpoint insZ (x : Z) (l : list Z) : list Z :=
  match l with [] => [x] | y :: t => if x <=? y then x :: l else y :: insZ x t end.
Definition sortZ (l : list Z) : list Z := fold_right insZ [] l.
Definition zlist_eqb := list_eqb Z.eqb.
Definition perm_eqb (a b : list Z) : bool := zlist_eqb (sortZ a) (sortZ b).
(* ordered = true: compare as sequences; false: as multisets *)
Definition seq_eqb (ordered : bool) (a b : list Z) : bool := if ordered then zlist_eqb a b else perm_eqb a b.
Definition oz_eqb := option_eqb Z.eqb.
Definition memZ (x : Z) (l : list Z) : bool := existsb (Z.eqb x) l.
Fixpoint nodupZ (l : list Z) : bool := match l with [] => true | x :: t => negb (memZ x t) && nodupZ t end.
Fixpoint strictly_sorted (l : list Z) : bool :=
  match l with x :: ((y :: _) as t) => (x <? y) && strictly_sorted t | _ => true end.
Fixpoint forallb2 {A B} (f : A -> B -> bool) (l1 : list A) (l2 : list B) : bool :=
  match l1, l2 with
  | [], [] => true
  | a :: t1, b :: t2 => f a b && forallb2 f t1 t2
  | _, _ => false
  end.

(* ---------- one recorded step: a single operation, or UnmarshalJSON of a document into the container in its
   current (used) state.  The code's UnmarshalJSON decodes the document, calls Clear() and then Put / Add every decoded
   binding / element (hashmap, linkedhashmap in document order, the sets, the bidi-maps): on the model and on the
   reference alike it IS the operation list Clear; Put ... / Clear; Add ..., so the theorems (stated for every operation
   list) cover it.  The documents are written by the harness, not by MarshalJSON: members in any order, repeated
   elements (sets), repeated VALUES (bidi-maps), null, empty; member names are distinct.  hashmap: the order in which
   the decoded Go map is ranged over does not matter; linkedhashmap: document order; bidi-maps: see [bact_ops]. ---------- *)
Inductive mact := MOp (o : mop Z Z) | MLoad (doc : list (Z * Z)).
Definition mact_ops (s : mact) : list (mop Z Z) :=
  match s with MOp o => [o] | MLoad d => MClear :: map (fun kv => MPut (fst kv) (snd kv)) d end.
Inductive sact := SOp (o : sop Z) | SLoad (doc : list Z).
Definition sact_ops (s : sact) : list (sop Z) := match s with SOp o => [o] | SLoad d => [SClear; SAdd d] end.
Inductive bact := BOp (o : bop Z Z) | BLoad (doc : list (Z * Z)).
Definition after {S O X} (step : S -> O -> S * X) (s : S) (ops : list O) : S := fst (run step s ops).

(* ---------- maps ---------- *)
Record msnap := MS { m_panic : bool; m_size : nat; m_empty : bool; m_keys : list Z; m_vals : list Z;
                     m_gets : list (option Z);     (* Get k for every k of the universe *)
                     m_table : list Z;             (* linked: keys of the table (verif accessor) *)
                     m_rev : list Z }.             (* linked: keys enumerated backwards by the iterator *)

Definition mout_eqb (ordered : bool) (a b : mout Z Z) : bool :=
  match a, b with
  | MONone, MONone => true
  | MOGet x, MOGet y => oz_eqb x y
  | MOSize x, MOSize y => Nat.eqb x y
  | MOEmpty x, MOEmpty y => Bool.eqb x y
  | MOKeys x, MOKeys y => seq_eqb ordered x y
  | MOValues x, MOValues y => seq_eqb ordered x y
  | _, _ => false
  end.

(* the observers of the public API, evaluated by [step] on state [s], against the snapshot *)
Definition mobs_ok {S} (step : S -> mop Z Z -> S * mout Z Z) (ordered : bool) (s : S) (univ : list Z) (sn : msnap) : bool :=
  negb (m_panic sn)
  && mout_eqb ordered (snd (step s MSize)) (MOSize (m_size sn))
  && mout_eqb ordered (snd (step s MEmpty)) (MOEmpty (m_empty sn))
  && mout_eqb ordered (snd (step s MKeys)) (MOKeys (m_keys sn))
  && mout_eqb ordered (snd (step s MValues)) (MOValues (m_vals sn))
  && forallb2 (fun k g => mout_eqb ordered (snd (step s (MGet k))) (MOGet g)) univ (m_gets sn).

Definition hm_model := hm_step Z.eqb (@ins_front Z Z).
Definition lhm_model := lhm_step Z.eqb (@ins_front Z Z) 0.
Definition omap_spec := omap_step (V := Z) Z.eqb.

Definition hm_check (univ : list Z) (st : list (Z * Z) * list (Z * Z)) (x : mact * msnap) :=
  let '(m, o) := st in
  let '(op, sn) := x in
  let m' := after hm_model m (mact_ops op) in
  let o' := after omap_spec o (mact_ops op) in
  ((m', o'), kind_of (mobs_ok hm_model false m' univ sn)
                     (mobs_ok omap_spec false o' univ sn && nodupZ (m_keys sn))).

Definition lhm_check (univ : list Z) (st : lhm Z Z * list (Z * Z)) (x : mact * msnap) :=
  let '(m, o) := st in
  let '(op, sn) := x in
  let m' := after lhm_model m (mact_ops op) in
  let o' := after omap_spec o (mact_ops op) in
  ((m', o'), kind_of (mobs_ok lhm_model true m' univ sn
                      && perm_eqb (m_table sn) (gkeys (table m')) && zlist_eqb (m_rev sn) (rev (ordering m')))
                     (mobs_ok omap_spec true o' univ sn
                      (* table and ordering list hold the same elements, judged on the two dumps *)
                      && perm_eqb (m_table sn) (m_keys sn) && nodupZ (m_keys sn))).

(* ---------- sets ---------- *)
Record ssnap := SS { s_panic : bool; s_size : nat; s_empty : bool; s_values : list Z;
                     s_has : list bool;            (* Contains(x) for every x of the universe *)
                     s_query : list Z; s_qres : bool;   (* one variadic Contains *)
                     s_table : list Z; s_rev : list Z }.

Definition sout_eqb (ordered : bool) (a b : sout Z) : bool :=
  match a, b with
  | SONone, SONone => true
  | SOBool x, SOBool y => Bool.eqb x y
  | SOSize x, SOSize y => Nat.eqb x y
  | SOValues x, SOValues y => seq_eqb ordered x y
  | _, _ => false
  end.
Definition sobs_ok {S} (step : S -> sop Z -> S * sout Z) (ordered : bool) (s : S) (univ : list Z) (sn : ssnap) : bool :=
  negb (s_panic sn)
  && sout_eqb ordered (snd (step s SSize)) (SOSize (s_size sn))
  && sout_eqb ordered (snd (step s SEmpty)) (SOBool (s_empty sn))
  && sout_eqb ordered (snd (step s SValues)) (SOValues (s_values sn))
  && sout_eqb ordered (snd (step s (SContains (s_query sn)))) (SOBool (s_qres sn))
  && forallb2 (fun x g => sout_eqb ordered (snd (step s (SContains [x]))) (SOBool g)) univ (s_has sn).

Definition zcmp := VF.C01.Order.zcmp.
Definition hs_model := gs_step Z.eqb (@ins_front Z unit).
Definition ts_model (c : cmpsel) := rb_set_step (cmp_of c).      (* red-black treeset, C01/Containers.v *)
(* enumerated in the comparator's order *)
Fixpoint sorted_by (cmp : Z -> Z -> Z) (l : list Z) : bool :=
  match l with x :: ((y :: _) as t) => (cmp x y <? 0) && sorted_by cmp t | _ => true end.
Definition ls_model := ls_step Z.eqb (@ins_front Z unit).
Definition oset_spec := oset_step Z.eqb.

Definition gs_check (univ : list Z) (st : list (Z * unit) * list Z) (x : sact * ssnap) :=
  let '(m, o) := st in
  let '(op, sn) := x in
  let m' := after hs_model m (sact_ops op) in
  let o' := after oset_spec o (sact_ops op) in
  ((m', o'), kind_of (sobs_ok hs_model false m' univ sn)
                     (sobs_ok oset_spec false o' univ sn && nodupZ (s_values sn))).

Definition ts_check (c : cmpsel) (univ : list Z) (st : ts_state (K:=Z) * list Z) (x : sact * ssnap) :=
  let '(m, o) := st in
  let '(op, sn) := x in
  let m' := after (ts_model c) m (sact_ops op) in
  let o' := after oset_spec o (sact_ops op) in
  ((m', o'), kind_of (cmpsel_ok c && sobs_ok (ts_model c) true m' univ sn)
                     (sobs_ok oset_spec false o' univ sn && nodupZ (s_values sn) && sorted_by (cmp_of c) (s_values sn))).

Definition ls_check (univ : list Z) (st : lset Z * list Z) (x : sact * ssnap) :=
  let '(m, o) := st in
  let '(op, sn) := x in
  let m' := after ls_model m (sact_ops op) in
  let o' := after oset_spec o (sact_ops op) in
  ((m', o'), kind_of (sobs_ok ls_model true m' univ sn
                      && perm_eqb (s_table sn) (gkeys (stable m')) && zlist_eqb (s_rev sn) (rev (sordering m')))
                     (sobs_ok oset_spec true o' univ sn
                      && perm_eqb (s_table sn) (s_values sn) && nodupZ (s_values sn))).

(* ---------- bidirectional maps ---------- *)
Record bsnap := BS { b_panic : bool; b_size : nat; b_empty : bool; b_keys : list Z; b_vals : list Z;
                     b_gets : list (option Z);      (* Get k, k in the key universe *)
                     b_getkeys : list (option Z) }. (* GetKey v, v in the value universe *)

Definition bout_eqb (ordered : bool) (a b : bout Z Z) : bool :=
  match a, b with
  | BONone, BONone => true
  | BOGet x, BOGet y => oz_eqb x y
  | BOGetKey x, BOGetKey y => oz_eqb x y
  | BOSize x, BOSize y => Nat.eqb x y
  | BOEmpty x, BOEmpty y => Bool.eqb x y
  | BOKeys x, BOKeys y => seq_eqb ordered x y
  | BOValues x, BOValues y => seq_eqb ordered x y
  | _, _ => false
  end.
Definition bobs_ok {S} (step : S -> bop Z Z -> S * bout Z Z) (ordered : bool) (s : S) (ku vu : list Z) (sn : bsnap) : bool :=
  negb (b_panic sn)
  && bout_eqb ordered (snd (step s BSize)) (BOSize (b_size sn))
  && bout_eqb ordered (snd (step s BEmpty)) (BOEmpty (b_empty sn))
  && bout_eqb ordered (snd (step s BKeys)) (BOKeys (b_keys sn))
  && bout_eqb ordered (snd (step s BValues)) (BOValues (b_vals sn))
  && forallb2 (fun k g => bout_eqb ordered (snd (step s (BGet k))) (BOGet g)) ku (b_gets sn)
  && forallb2 (fun v g => bout_eqb ordered (snd (step s (BGetKey v))) (BOGetKey g)) vu (b_getkeys sn).

(* the bijection law, judged on the observations alone: Get and GetKey are inverse on the universes,
   every reported key / value is in its universe, Size counts the pairs *)
Definition count_some (l : list (option Z)) : nat := length (filter (fun o => match o with Some _ => true | None => false end) l).
Definition lookup_obs (u : list Z) (obs : list (option Z)) (x : Z) : option (option Z) :=
  (fix go u obs := match u, obs with
                   | y :: u', o :: obs' => if x =? y then Some o else go u' obs'
                   | _, _ => None
                   end) u obs.
Definition bij_obs_ok (ku vu : list Z) (sn : bsnap) : bool :=
  forallb2 (fun k g => match g with
                       | Some v => match lookup_obs vu (b_getkeys sn) v with Some (Some k') => k' =? k | _ => false end
                       | None => true
                       end) ku (b_gets sn)
  && forallb2 (fun v g => match g with
                          | Some k => match lookup_obs ku (b_gets sn) k with Some (Some v') => v' =? v | _ => false end
                          | None => true
                          end) vu (b_getkeys sn)
  && Nat.eqb (count_some (b_gets sn)) (b_size sn) && Nat.eqb (count_some (b_getkeys sn)) (b_size sn)
  && Nat.eqb (length (b_keys sn)) (b_size sn) && Nat.eqb (length (b_vals sn)) (b_size sn)
  && nodupZ (b_keys sn) && nodupZ (b_vals sn)
  && forallb (fun k => memZ k ku) (b_keys sn) && forallb (fun v => memZ v vu) (b_vals sn).

(* UnmarshalJSON of a bidi-map ranges over a Go map of the decoded members and Puts each: the members are Put in SOME
   order.  When values repeat, the result depends on that order: per value, the key Put last survives.  Every order is
   a legal execution, so the reference must accept any of them: the members the snapshot still reports (Get k = v) are
   Put last, the others first.  If the snapshot is the result of some order, this order reproduces it on model and
   reference; if it is the result of NO order (a value bound to two keys, a lost value, ...), it differs from the
   reference's result for this order, which is one of the legal results, and the step is a kind-2 disagreement. *)
Definition bload_order (ku : list Z) (sn : bsnap) (doc : list (Z * Z)) : list (Z * Z) :=
  let win kv := match lookup_obs ku (b_gets sn) (fst kv) with Some (Some v) => v =? snd kv | _ => false end in
  filter (fun kv => negb (win kv)) doc ++ filter win doc.
Definition bact_ops (ku : list Z) (sn : bsnap) (s : bact) : list (bop Z Z) :=
  match s with
  | BOp o => [o]
  | BLoad d => BClear :: map (fun kv => BPut (fst kv) (snd kv)) (bload_order ku sn d)
  end.

Definition hb_model := hb_step Z.eqb Z.eqb (@ins_front Z Z) (@ins_front Z Z).
Definition tb_model (ck cv : cmpsel) := rb_bidi_step (cmp_of ck) (cmp_of cv) 0 0.       (* two red-black trees, C01/Containers.v *)
Definition bij_spec := bij_step Z.eqb Z.eqb.

Definition hb_check (ku vu : list Z) (st : bidi Z Z * list (Z * Z)) (x : bact * bsnap) :=
  let '(m, o) := st in
  let '(op, sn) := x in
  let m' := after hb_model m (bact_ops ku sn op) in
  let o' := after bij_spec o (bact_ops ku sn op) in
  ((m', o'), kind_of (bobs_ok hb_model false m' ku vu sn)
                     (bobs_ok bij_spec false o' ku vu sn && bij_obs_ok ku vu sn)).

Definition tb_check (ck cv : cmpsel) (ku vu : list Z) (st : T1.tb_state Z Z * list (Z * Z)) (x : bact * bsnap) :=
  let '(m, o) := st in
  let '(op, sn) := x in
  let m' := after (tb_model ck cv) m (bact_ops ku sn op) in
  let o' := after bij_spec o (bact_ops ku sn op) in
  ((m', o'), kind_of (cmpsel_ok ck && cmpsel_ok cv && bobs_ok (tb_model ck cv) true m' ku vu sn)
                     (bobs_ok bij_spec false o' ku vu sn && bij_obs_ok ku vu sn
                      && sorted_by (cmp_of ck) (b_keys sn) && sorted_by (cmp_of cv) (b_vals sn))).

(* ---------- set algebra ---------- *)
Record asnap := AS { a_panic : bool;
                     a_a0 : list Z; a_b0 : list Z;      (* operands before *)
                     a_r : list Z; a_rtable : list Z;   (* result (and, linked, its table) *)
                     a_a1 : list Z; a_b1 : list Z;      (* operands re-read after the operation *)
                     a_a2 : list Z; a_b2 : list Z;      (* ... after a second result of the same call was mutated *)
                     a_r2 : list Z;                     (* first result after the second was mutated *)
                     a_r3 : list Z }.                   (* first result after both operands were mutated *)

Definition dedupZ (l : list Z) : list Z := fold_right (fun x r => if memZ x r then r else x :: r) [] l.
Definition math_result (op : aop) (a b : list Z) : list Z :=
  match op with
  | AUnion => dedupZ (a ++ b)
  | AInter => dedupZ (filter (fun x => memZ x b) a)
  | ADiff => dedupZ (filter (fun x => negb (memZ x b)) a)
  end.

Definition alg_prop (k : skind) (op : aop) (sn : asnap) : bool :=
  let ordered := match k with SHash => false | _ => true end in
  negb (a_panic sn)
  && nodupZ (a_r sn) && perm_eqb (a_r sn) (math_result op (a_a0 sn) (a_b0 sn))
  && match k with STree c => sorted_by (cmp_of c) (a_r sn) | SLinked => perm_eqb (a_rtable sn) (a_r sn) | SHash => true end
  && seq_eqb ordered (a_a1 sn) (a_a0 sn) && seq_eqb ordered (a_b1 sn) (a_b0 sn)
  && seq_eqb ordered (a_a2 sn) (a_a0 sn) && seq_eqb ordered (a_b2 sn) (a_b0 sn)
  && seq_eqb ordered (a_r2 sn) (a_r sn) && seq_eqb ordered (a_r3 sn) (a_r sn).

Definition alg_model (k : skind) (op : aop) (aops bops : list (sop Z)) (sn : asnap) : bool :=
  match k with
  | SLinked =>
      let a := fst (run ls_model ls0 aops) in
      let b := fst (run ls_model ls0 bops) in
      let r := match op with
               | AUnion => ls_union Z.eqb (@ins_front Z unit) a b
               | AInter => ls_inter Z.eqb (@ins_front Z unit) a b
               | ADiff => ls_diff Z.eqb (@ins_front Z unit) a b
               end in
      zlist_eqb (a_a0 sn) (sordering a) && zlist_eqb (a_b0 sn) (sordering b)
      (* the order of the result follows Go's map iteration order: compared as a set *)
      && perm_eqb (a_r sn) (sordering r) && perm_eqb (a_rtable sn) (gkeys (stable r))
  | STree c =>
      let a := fst (run (ts_model c) ts_empty aops) in
      let b := fst (run (ts_model c) ts_empty bops) in
      let r := match op with
               | AUnion => ts_union (cmp_of c) a b
               | AInter => ts_inter (cmp_of c) a b
               | ADiff => ts_diff (cmp_of c) a b
               end in
      cmpsel_ok c && zlist_eqb (a_a0 sn) (ts_values a) && zlist_eqb (a_b0 sn) (ts_values b) && zlist_eqb (a_r sn) (ts_values r)
  | SHash =>
      let ins := @ins_front Z unit in
      let a := fst (run hs_model [] aops) in
      let b := fst (run hs_model [] bops) in
      let r := match op with
               | AUnion => gs_union Z.eqb ins a b
               | AInter => gs_inter Z.eqb ins a b
               | ADiff => gs_diff Z.eqb ins a b
               end in
      perm_eqb (a_a0 sn) (gs_values a) && perm_eqb (a_b0 sn) (gs_values b) && perm_eqb (a_r sn) (gs_values r)
  end.

(* ---------- cases ---------- *)
Inductive case :=
| CMap (k : mkind) (univ : list Z) (steps : list (mact * msnap))
| CSet (k : skind) (univ : list Z) (steps : list (sact * ssnap))
| CBidi (k : bkind) (ku vu : list Z) (steps : list (bact * bsnap))
| CAlg (k : skind) (op : aop) (aops bops : list (sop Z)) (sn : asnap).

Definition check_case (c : case) : nat :=
  match c with
  | CMap KHash u steps => scan (hm_check u) ([], []) steps 0
  | CMap KLinked u steps => scan (lhm_check u) (lhm0, []) steps 0
  | CSet SHash u steps => scan (gs_check u) ([], []) steps 0
  | CSet (STree c) u steps => scan (ts_check c u) (ts_empty, []) steps 0
  | CSet SLinked u steps => scan (ls_check u) (ls0, []) steps 0
  | CBidi BHash ku vu steps => scan (hb_check ku vu) (hb0, []) steps 0
  | CBidi (BTree ck cv) ku vu steps => scan (tb_check ck cv ku vu) (T1.tb_empty Z Z, []) steps 0
  | CAlg k op aops bops sn => kind_of (alg_model k op aops bops sn) (alg_prop k op sn)
  end.

Definition mismatches (cs : list case) : list (nat * nat) := find_bad check_case cs.
