(* C09 proofs, part 1: association lists, hashmap / linkedhashmap / hashset / linkedhashset refinement. *)
From VF Require Import Common.Base C09.Model C09.Spec.

(* ---------- generic ---------- *)
Lemma run_rel {S1 S2 O X1 X2} (R : S1 -> S2 -> Prop) (E : X1 -> X2 -> Prop)
      (step1 : S1 -> O -> S1 * X1) (step2 : S2 -> O -> S2 * X2) :
  (forall s1 s2 o, R s1 s2 -> R (fst (step1 s1 o)) (fst (step2 s2 o)) /\ E (snd (step1 s1 o)) (snd (step2 s2 o))) ->
  forall ops s1 s2, R s1 s2 ->
    R (fst (run step1 s1 ops)) (fst (run step2 s2 ops)) /\ Forall2 E (snd (run step1 s1 ops)) (snd (run step2 s2 ops)).
Proof.
  intros Hstep ops. induction ops as [|o t IH]; intros s1 s2 HR; cbn [run].
  - split; [exact HR|constructor].
  - destruct (Hstep s1 s2 o HR) as [HR1 HE].
    destruct (step1 s1 o) as [s1' x1]. destruct (step2 s2 o) as [s2' x2]. cbn [fst snd] in *.
    destruct (IH s1' s2' HR1) as [HR2 HF].
    destruct (run step1 s1' t) as [s1'' xs1]. destruct (run step2 s2' t) as [s2'' xs2]. cbn [fst snd] in *.
    split; [exact HR2|constructor; assumption].
Qed.

Lemma Forall2_eq {A} (l1 l2 : list A) : Forall2 eq l1 l2 -> l1 = l2.
Proof. induction 1; congruence. Qed.

Lemma run_inv {S O X} (I : S -> Prop) (step : S -> O -> S * X) :
  (forall s o, I s -> I (fst (step s o))) -> forall ops s, I s -> I (fst (run step s ops)).
Proof.
  intros Hstep ops. induction ops as [|o t IH]; intros s HI; cbn [run]; [exact HI|].
  pose proof (Hstep s o HI) as H1. destruct (step s o) as [s1 x]. cbn [fst] in H1.
  pose proof (IH s1 H1) as H2. destruct (run step s1 t) as [s2 xs]. exact H2.
Qed.

Lemma Permutation_filter {A} (f : A -> bool) (l l' : list A) :
  Permutation l l' -> Permutation (filter f l) (filter f l').
Proof.
  induction 1 as [|x l l' HP IH|x y l|l l' l'' H1 IH1 H2 IH2]; cbn [filter].
  - constructor.
  - destruct (f x); [constructor|]; exact IH.
  - destruct (f x), (f y); try apply Permutation_refl. apply perm_swap.
  - eapply perm_trans; eassumption.
Qed.

Lemma filter_id {A} (f : A -> bool) (l : list A) : (forall x, In x l -> f x = true) -> filter f l = l.
Proof.
  induction l as [|a l IH]; intros H; cbn [filter]; [reflexivity|].
  rewrite (H a (or_introl eq_refl)). f_equal. apply IH. intros x Hx. apply H. now right.
Qed.

Lemma forallb_ext {A} (f g : A -> bool) (l : list A) : (forall x, f x = g x) -> forallb f l = forallb g l.
Proof. intros H. induction l as [|a l IH]; cbn [forallb]; [reflexivity|]. now rewrite H, IH. Qed.

Lemma filter_map_fst {A B} (p : A -> bool) (l : list (A * B)) :
  map fst (filter (fun kv => p (fst kv)) l) = filter p (map fst l).
Proof.
  induction l as [|[a b] l IH]; cbn [filter map fst]; [reflexivity|].
  destruct (p a); cbn [map fst]; now rewrite IH.
Qed.

Definition ins_ok {K V} (ins : K -> V -> list (K * V) -> list (K * V)) : Prop :=
  forall k v m, Permutation (ins k v m) ((k, v) :: m).
Definition ins_back {K V} (k : K) (v : V) (m : list (K * V)) := m ++ [(k, v)].
Lemma ins_front_ok {K V} : ins_ok (@ins_front K V).
Proof. intros k v m. apply Permutation_refl. Qed.
Lemma ins_back_ok {K V} : ins_ok (@ins_back K V).
Proof. intros k v m. apply Permutation_sym, Permutation_cons_append. Qed.
Lemma ins_sorted_ok {K V} (ltb : K -> K -> bool) : ins_ok (@ins_sorted K V ltb).
Proof.
  intros k v m. induction m as [|[k' v'] t IH]; cbn [ins_sorted]; [apply Permutation_refl|].
  destruct (ltb k k'); [apply Permutation_refl|].
  eapply perm_trans; [apply perm_skip, IH|apply perm_swap].
Qed.

(* ---------- association lists ---------- *)
Section Assoc.
  Context {K : Type}.
  Variable eqb : K -> K -> bool.
  Hypothesis eqb_spec : forall a b, eqb a b = true <-> a = b.

  Lemma eqb_refl a : eqb a a = true.
  Proof. now apply eqb_spec. Qed.
  Lemma eqb_neq a b : eqb a b = false <-> a <> b.
  Proof.
    split.
    - intros H E. apply eqb_spec in E. congruence.
    - intros H. destruct (eqb a b) eqn:E; [|reflexivity]. apply eqb_spec in E. contradiction.
  Qed.
  Lemma eqb_sym a b : eqb a b = eqb b a.
  Proof.
    destruct (eqb a b) eqn:E1, (eqb b a) eqn:E2; try reflexivity.
    - apply eqb_spec in E1. subst. now rewrite eqb_refl in E2.
    - apply eqb_spec in E2. subst. now rewrite eqb_refl in E1.
  Qed.
  Lemma key_dec (a b : K) : a = b \/ a <> b.
  Proof. destruct (eqb a b) eqn:E; [left; now apply eqb_spec|right; now apply eqb_neq]. Qed.

  Section Vals.
  Context {V : Type}.
  Implicit Types (m o : list (K * V)) (ins : K -> V -> list (K * V) -> list (K * V)).

  Lemma gget_in k v m : gget eqb k m = Some v -> In (k, v) m.
  Proof.
    induction m as [|[k' v'] t IH]; cbn [gget]; [discriminate|].
    destruct (eqb k k') eqn:E.
    - intros H. injection H as <-. apply eqb_spec in E. subst. now left.
    - intros H. right. now apply IH.
  Qed.
  Lemma gget_none_iff k m : gget eqb k m = None <-> ~ In k (gkeys m).
  Proof.
    induction m as [|[k' v'] t IH]; cbn [gget gkeys map fst In].
    - split; [intros _ []|reflexivity].
    - destruct (eqb k k') eqn:E.
      + apply eqb_spec in E. subst. split; [discriminate|]. intros H. exfalso. apply H. now left.
      + apply eqb_neq in E. unfold gkeys in IH. rewrite IH. split.
        * intros H [H1|H1]; [congruence|contradiction].
        * intros H H1. apply H. now right.
  Qed.
  Lemma in_gget k v m : NoDup (gkeys m) -> In (k, v) m -> gget eqb k m = Some v.
  Proof.
    induction m as [|[k' v'] t IH]; cbn [gget gkeys map fst In]; [intros _ []|].
    intros HN [H|H].
    - injection H as -> ->. now rewrite eqb_refl.
    - inversion HN as [|x l Hx HN' Ex]; subst. destruct (eqb k k') eqn:E.
      + apply eqb_spec in E. subst. exfalso. apply Hx. change (In (fst (k', v)) (map fst t)). now apply in_map.
      + now apply IH.
  Qed.
  Lemma gmem_in k m : gmem eqb k m = true <-> In k (gkeys m).
  Proof.
    unfold gmem. destruct (gget eqb k m) eqn:E.
    - split; [intros _|reflexivity]. apply gget_in in E. change k with (fst (k, v)). now apply in_map.
    - split; [discriminate|]. intros H. apply gget_none_iff in E. contradiction.
  Qed.
  Lemma gmem_false k m : gmem eqb k m = false <-> ~ In k (gkeys m).
  Proof.
    rewrite <- gmem_in. destruct (gmem eqb k m); split; intros H; try congruence; try discriminate.
  Qed.
  Lemma gget_perm k m o : NoDup (gkeys m) -> Permutation m o -> gget eqb k m = gget eqb k o.
  Proof.
    intros HN HP. assert (HNo : NoDup (gkeys o)).
    { eapply Permutation_NoDup; [apply Permutation_map; exact HP|exact HN]. }
    destruct (gget eqb k m) eqn:E.
    - symmetry. apply in_gget; [exact HNo|]. eapply Permutation_in; [exact HP|]. now apply gget_in.
    - symmetry. apply gget_none_iff. apply gget_none_iff in E. intros H. apply E.
      eapply Permutation_in; [apply Permutation_sym, Permutation_map; exact HP|exact H].
  Qed.
  Lemma gmem_perm k m o : NoDup (gkeys m) -> Permutation m o -> gmem eqb k m = gmem eqb k o.
  Proof. intros HN HP. unfold gmem. now rewrite (gget_perm k m o HN HP). Qed.

  Lemma gkeys_gdel k m : gkeys (gdel eqb k m) = filter (fun x => negb (eqb k x)) (gkeys m).
  Proof. unfold gkeys, gdel. apply (filter_map_fst (fun x => negb (eqb k x))). Qed.
  Lemma gdel_notin k m : ~ In k (gkeys m) -> gdel eqb k m = m.
  Proof.
    intros H. unfold gdel. apply filter_id. intros [k' v'] Hin. cbn [fst].
    apply negb_true_iff. apply eqb_neq. intros ->. apply H. change k' with (fst (k', v')). now apply in_map.
  Qed.
  Lemma in_gkeys_gdel k x m : In x (gkeys (gdel eqb k m)) <-> x <> k /\ In x (gkeys m).
  Proof.
    rewrite gkeys_gdel, filter_In, negb_true_iff, eqb_neq. split; intros [H1 H2]; split; auto.
  Qed.
  Lemma NoDup_gdel k m : NoDup (gkeys m) -> NoDup (gkeys (gdel eqb k m)).
  Proof. intros H. rewrite gkeys_gdel. now apply NoDup_filter. Qed.
  Lemma gdel_perm k m o : Permutation m o -> Permutation (gdel eqb k m) (gdel eqb k o).
  Proof. apply Permutation_filter. Qed.

  Lemma gkeys_gset k v m : gkeys (gset eqb k v m) = gkeys m.
  Proof.
    induction m as [|[k' v'] t IH]; cbn [gset gkeys map fst]; [reflexivity|].
    destruct (eqb k k'); cbn [map fst]; [reflexivity|]. unfold gkeys in IH. now rewrite IH.
  Qed.
  Lemma gset_perm k v m : NoDup (gkeys m) -> gmem eqb k m = true ->
    Permutation (gset eqb k v m) ((k, v) :: gdel eqb k m).
  Proof.
    induction m as [|[k' v'] t IH]; intros HN HM.
    - discriminate.
    - inversion HN as [|x l Hx HN' Ex]; subst. cbn [gset]. unfold gdel. cbn [filter fst].
      destruct (eqb k k') eqn:E; cbn [negb].
      + apply eqb_spec in E. subst k'. fold (gdel eqb k t). rewrite gdel_notin by exact Hx. apply Permutation_refl.
      + fold (gdel eqb k t). eapply perm_trans; [apply perm_skip, IH|apply perm_swap]; [exact HN'|].
        unfold gmem in *. cbn [gget] in HM. now rewrite E in HM.
  Qed.
  Lemma gput_perm ins k v m : ins_ok ins -> NoDup (gkeys m) ->
    Permutation (gput eqb ins k v m) ((k, v) :: gdel eqb k m).
  Proof.
    intros Hi HN. unfold gput. destruct (gmem eqb k m) eqn:E.
    - now apply gset_perm.
    - rewrite gdel_notin by (now apply gmem_false). apply Hi.
  Qed.
  Lemma gput_perm2 ins1 ins2 k v m o : ins_ok ins1 -> ins_ok ins2 -> NoDup (gkeys m) -> Permutation m o ->
    Permutation (gput eqb ins1 k v m) (gput eqb ins2 k v o).
  Proof.
    intros H1 H2 HN HP.
    assert (HNo : NoDup (gkeys o)) by (eapply Permutation_NoDup; [apply Permutation_map; exact HP|exact HN]).
    eapply perm_trans; [apply gput_perm; assumption|].
    eapply perm_trans; [apply perm_skip, gdel_perm; exact HP|].
    apply Permutation_sym. now apply gput_perm.
  Qed.
  Lemma NoDup_gput ins k v m : ins_ok ins -> NoDup (gkeys m) -> NoDup (gkeys (gput eqb ins k v m)).
  Proof.
    intros Hi HN. eapply Permutation_NoDup.
    - apply Permutation_sym. apply Permutation_map. apply gput_perm; assumption.
    - cbn [map fst]. constructor.
      + fold (gkeys (gdel eqb k m)). rewrite in_gkeys_gdel. intros [H _]. now apply H.
      + now apply NoDup_gdel.
  Qed.
  Lemma in_gkeys_gput ins k v x m : ins_ok ins -> NoDup (gkeys m) ->
    In x (gkeys (gput eqb ins k v m)) <-> x = k \/ In x (gkeys m).
  Proof.
    intros Hi HN. pose proof (Permutation_map fst (gput_perm ins k v m Hi HN)) as HP. cbn [map fst] in HP.
    fold (gkeys (gput eqb ins k v m)) in HP. fold (gkeys (gdel eqb k m)) in HP. split.
    - intros H. apply (Permutation_in _ HP) in H. destruct H as [H|H]; [left; now symmetry|].
      apply in_gkeys_gdel in H. right. tauto.
    - intros H. apply (Permutation_in _ (Permutation_sym HP)).
      destruct (key_dec x k) as [->|Hne]; [now left|]. right. apply in_gkeys_gdel. destruct H; [contradiction|auto].
  Qed.

  (* ----- the specification's functions are the same functions ----- *)
  Lemma o_get_gget k o : o_get eqb k o = gget eqb k o.
  Proof.
    unfold o_get. induction o as [|[k' v'] t IH]; cbn [find gget fst]; [reflexivity|].
    destruct (eqb k k'); [reflexivity|exact IH].
  Qed.
  Lemma o_has_gmem k o : o_has eqb k o = gmem eqb k o.
  Proof.
    unfold o_has, gmem. induction o as [|[k' v'] t IH]; cbn [existsb gget fst]; [reflexivity|].
    destruct (eqb k k'); [reflexivity|exact IH].
  Qed.
  Lemma o_map_gset k v o : NoDup (map fst o) ->
    map (fun kv : K * V => if eqb k (fst kv) then (fst kv, v) else kv) o = gset eqb k v o.
  Proof.
    induction o as [|[k' v'] t IH]; intros HN; cbn [map gset fst]; [reflexivity|].
    inversion HN as [|x l Hx HN' Ex]; subst. destruct (eqb k k') eqn:E.
    - f_equal. apply eqb_spec in E. subst k'. rewrite <- (map_id t) at 2. apply map_ext_in.
      intros [k2 v2] Hin. cbn [fst]. destruct (eqb k k2) eqn:E2; [|reflexivity].
      apply eqb_spec in E2. subst k2. exfalso. apply Hx. change k with (fst (k, v2)). now apply in_map.
    - f_equal. now apply IH.
  Qed.
  Lemma o_put_gput k v o : NoDup (map fst o) -> o_put eqb k v o = gput eqb ins_back k v o.
  Proof.
    intros HN. unfold o_put, gput. rewrite o_has_gmem. destruct (gmem eqb k o); [now apply o_map_gset|reflexivity].
  Qed.
  Lemma o_put_keys k v o : map fst (o_put eqb k v o) = if o_has eqb k o then map fst o else map fst o ++ [k].
  Proof.
    unfold o_put. destruct (o_has eqb k o).
    - rewrite map_map. apply map_ext. intros [k' v']. cbn [fst]. now destruct (eqb k k').
    - now rewrite map_app.
  Qed.

  (* ----- hashmap refines the reference map, outputs up to the order of Keys / Values ----- *)
  Definition Rh (m o : list (K * V)) : Prop := Permutation m o /\ NoDup (gkeys m).

  Lemma Rh_nodup_o m o : Rh m o -> NoDup (map fst o).
  Proof. intros [HP HN]. eapply Permutation_NoDup; [apply Permutation_map; exact HP|exact HN]. Qed.

  Lemma Rh_put ins k v m o : ins_ok ins -> Rh m o -> Rh (gput eqb ins k v m) (o_put eqb k v o).
  Proof.
    intros Hi HR. pose proof (Rh_nodup_o m o HR) as HNo. destruct HR as [HP HN]. split.
    - rewrite o_put_gput by exact HNo. apply gput_perm2; auto using @ins_back_ok.
    - now apply NoDup_gput.
  Qed.
  Lemma Rh_del k m o : Rh m o -> Rh (gdel eqb k m) (o_remove eqb k o).
  Proof. intros [HP HN]. split; [now apply gdel_perm|now apply NoDup_gdel]. Qed.
  Lemma Rh_nil : Rh [] [].
  Proof. split; constructor. Qed.

  Lemma hm_step_refines ins : ins_ok ins -> forall m o op, Rh m o ->
    Rh (fst (hm_step eqb ins m op)) (fst (omap_step eqb o op)) /\
    mout_equiv (snd (hm_step eqb ins m op)) (snd (omap_step eqb o op)).
  Proof.
    intros Hi m o op HR. destruct op; cbn [hm_step omap_step fst snd mout_equiv].
    - split; [now apply Rh_put|reflexivity].
    - split; [now apply Rh_del|reflexivity].
    - split; [apply Rh_nil|reflexivity].
    - split; [exact HR|]. destruct HR as [HP HN]. now rewrite o_get_gget, (gget_perm k m o HN HP).
    - split; [exact HR|]. destruct HR as [HP HN]. unfold glen. now rewrite (Permutation_length HP).
    - split; [exact HR|]. destruct HR as [HP HN]. unfold glen. now rewrite (Permutation_length HP).
    - split; [exact HR|]. destruct HR as [HP HN]. now apply Permutation_map.
    - split; [exact HR|]. destruct HR as [HP HN]. now apply Permutation_map.
  Qed.

  Lemma hashmap_refines ins : ins_ok ins -> forall ops,
    Forall2 mout_equiv (snd (run (hm_step eqb ins) [] ops)) (snd (run (omap_step eqb) [] ops))
    /\ NoDup (gkeys (fst (run (hm_step eqb ins) [] ops))).
  Proof.
    intros Hi ops.
    destruct (run_rel Rh mout_equiv (hm_step eqb ins) (omap_step eqb) (hm_step_refines ins Hi) ops [] [] Rh_nil)
      as [[_ HN] HF].
    split; assumption.
  Qed.

  (* ----- linkedhashmap ----- *)
  Lemma dl_remove_found_filter k (l : list K) : NoDup l ->
    dl_remove_found eqb k l = filter (fun x => negb (eqb k x)) l.
  Proof.
    unfold dl_remove_found. induction l as [|x t IH]; intros HN; cbn [dl_index_of filter]; [reflexivity|].
    inversion HN as [|y l Hx HN' Ex]; subst. rewrite (eqb_sym k x). destruct (eqb x k) eqn:E; cbn [negb].
    - cbn [dl_remove_at]. apply eqb_spec in E. subst x. symmetry. apply filter_id.
      intros y Hy. apply negb_true_iff, eqb_neq. intros ->. contradiction.
    - specialize (IH HN'). destruct (dl_index_of eqb k t) as [i|]; cbn [option_map dl_remove_at]; cbv iota beta in IH; f_equal; exact IH.
  Qed.

  Variable zeroV : V.
  Definition Rl (s : lhm K V) (o : list (K * V)) : Prop :=
    ordering s = map fst o /\ Permutation (table s) o /\ NoDup (map fst o).

  Lemma Rl_table_nodup s o : Rl s o -> NoDup (gkeys (table s)).
  Proof.
    intros (_ & HP & HN). eapply Permutation_NoDup; [apply Permutation_sym, Permutation_map; exact HP|exact HN].
  Qed.

  Lemma lhm_values_spec s o : Rl s o -> lhm_values eqb zeroV s = map snd o.
  Proof.
    intros HR. pose proof (Rl_table_nodup s o HR) as HNt. destruct HR as (HO & HP & HN).
    unfold lhm_values. rewrite HO.
    rewrite (map_ext _ (fun k => match gget eqb k o with Some v => v | None => zeroV end))
      by (intros k; now rewrite (gget_perm k _ _ HNt HP)).
    clear HO HP HNt. induction o as [|[k v] t IH]; cbn [map fst snd gget]; [reflexivity|].
    inversion HN as [|x l Hx HN' Ex]; subst. rewrite eqb_refl. f_equal.
    rewrite <- (IH HN'). apply map_ext_in. intros k' Hin. destruct (eqb k' k) eqn:E; [|reflexivity].
    apply eqb_spec in E. subst. contradiction.
  Qed.

  Lemma lhm_step_refines ins : ins_ok ins -> forall s o op, Rl s o ->
    Rl (fst (lhm_step eqb ins zeroV s op)) (fst (omap_step eqb o op)) /\
    snd (lhm_step eqb ins zeroV s op) = snd (omap_step eqb o op).
  Proof.
    intros Hi s o op HR. pose proof (Rl_table_nodup s o HR) as HNt. pose proof HR as (HO & HP & HN).
    destruct op; unfold lhm_step; cbn [lhm_step_with omap_step fst snd].
    - (* Put *) split; [|reflexivity]. unfold lhm_put, Rl. cbn [table ordering].
      split; [now rewrite o_put_keys, o_has_gmem, (gmem_perm k _ _ HNt HP), HO|]. split.
      + rewrite o_put_gput by exact HN. apply gput_perm2; auto using @ins_back_ok.
      + rewrite o_put_gput by exact HN. apply NoDup_gput; auto using @ins_back_ok.
    - (* Remove *) split; [|reflexivity]. unfold lhm_remove. destruct (gmem eqb k (table s)) eqn:E.
      + unfold Rl. cbn [table ordering]. rewrite HO, dl_remove_found_filter by exact HN. split; [|split].
        * symmetry. apply (gkeys_gdel k o).
        * now apply gdel_perm.
        * apply (NoDup_gdel k o HN).
      + unfold o_remove. fold (gdel eqb k o). rewrite gdel_notin; [exact HR|].
        apply gmem_false. now rewrite <- (gmem_perm k _ _ HNt HP).
    - (* Clear *) split; [|reflexivity]. unfold lhm0, Rl. cbn. repeat split; constructor.
    - split; [exact HR|]. now rewrite o_get_gget, (gget_perm k _ _ HNt HP).
    - split; [exact HR|]. unfold lhm_size. now rewrite HO, map_length.
    - split; [exact HR|]. unfold lhm_size. now rewrite HO, map_length.
    - split; [exact HR|]. now rewrite HO.
    - split; [exact HR|]. now rewrite (lhm_values_spec s o HR).
  Qed.

  Lemma Rl_nil : Rl (lhm0 (K:=K) (V:=V)) [].
  Proof. unfold Rl, lhm0. cbn. repeat split; constructor. Qed.

  Lemma linked_refines ins : ins_ok ins -> forall ops,
    snd (run (lhm_step eqb ins zeroV) lhm0 ops) = snd (run (omap_step eqb) [] ops) /\
    let s := fst (run (lhm_step eqb ins zeroV) lhm0 ops) in
    NoDup (ordering s) /\ same_set (gkeys (table s)) (ordering s) /\ length (table s) = length (ordering s).
  Proof.
    intros Hi ops.
    destruct (run_rel Rl eq (lhm_step eqb ins zeroV) (omap_step eqb) (lhm_step_refines ins Hi) ops lhm0 [] Rl_nil)
      as [HR HF].
    split; [now apply Forall2_eq|]. cbv zeta. destruct HR as (HO & HP & HN). rewrite HO. split; [exact HN|]. split.
    - intros x. split; intros H.
      + eapply Permutation_in; [apply Permutation_map; exact HP|exact H].
      + eapply Permutation_in; [apply Permutation_sym, Permutation_map; exact HP|exact H].
    - rewrite map_length. now apply Permutation_length.
  Qed.
  End Vals.

  (* ---------- sets: a set is a map to unit ---------- *)
  Implicit Types (ins : K -> unit -> list (K * unit) -> list (K * unit)).
  Definition lift (o : list K) : list (K * unit) := map (fun x => (x, tt)) o.
  Lemma gkeys_lift o : gkeys (lift o) = o.
  Proof. unfold gkeys, lift. rewrite map_map. cbn [fst]. apply map_id. Qed.
  Lemma os_has_gmem x o : os_has eqb x o = gmem eqb x (lift o).
  Proof.
    unfold os_has, gmem. induction o as [|y t IH]; cbn [existsb lift map gget]; [reflexivity|].
    destruct (eqb x y); [reflexivity|exact IH].
  Qed.
  Lemma gset_unit x (m : list (K * unit)) : gset eqb x tt m = m.
  Proof.
    induction m as [|[k' []] t IH]; cbn [gset]; [reflexivity|]. destruct (eqb x k'); [reflexivity|now rewrite IH].
  Qed.
  Lemma lift_add1 o x : lift (os_add1 eqb o x) = gput eqb ins_back x tt (lift o).
  Proof.
    unfold os_add1, gput. rewrite os_has_gmem. destruct (gmem eqb x (lift o)).
    - now rewrite gset_unit.
    - unfold lift, ins_back. now rewrite map_app.
  Qed.
  Lemma lift_remove1 o x : lift (os_remove1 eqb o x) = gdel eqb x (lift o).
  Proof.
    unfold os_remove1, gdel, lift. induction o as [|y t IH]; cbn [filter map fst]; [reflexivity|].
    destruct (eqb x y); cbn [negb map]; now rewrite IH.
  Qed.

  Definition Rs (s : list (K * unit)) (o : list K) : Prop := Rh s (lift o).
  Lemma Rs_nodup s o : Rs s o -> NoDup o.
  Proof. intros H. apply Rh_nodup_o in H. fold (gkeys (lift o)) in H. now rewrite gkeys_lift in H. Qed.
  Lemma Rs_add1 ins s o x : ins_ok ins -> Rs s o -> Rs (gput eqb ins x tt s) (os_add1 eqb o x).
  Proof.
    intros Hi HR. unfold Rs. rewrite lift_add1. pose proof (Rh_nodup_o _ _ HR) as HNo. destruct HR as [HP HN]. split.
    - apply gput_perm2; auto using @ins_back_ok.
    - now apply NoDup_gput.
  Qed.
  Lemma Rs_remove1 s o x : Rs s o -> Rs (gdel eqb x s) (os_remove1 eqb o x).
  Proof. intros HR. unfold Rs. rewrite lift_remove1. now apply Rh_del. Qed.
  Lemma Rs_mem s o x : Rs s o -> gmem eqb x s = os_has eqb x o.
  Proof. intros [HP HN]. rewrite os_has_gmem. now apply gmem_perm. Qed.

  Lemma gs_step_refines ins : ins_ok ins -> forall s o op, Rs s o ->
    Rs (fst (gs_step eqb ins s op)) (fst (oset_step eqb o op)) /\
    sout_equiv (snd (gs_step eqb ins s op)) (snd (oset_step eqb o op)).
  Proof.
    intros Hi s o op HR. destruct op; cbn [gs_step oset_step fst snd sout_equiv].
    - split; [|reflexivity]. unfold gs_add. revert s o HR. induction l as [|x t IH]; intros s o HR; cbn [fold_left]; [exact HR|].
      apply IH. now apply Rs_add1.
    - split; [|reflexivity]. unfold gs_remove. revert s o HR. induction l as [|x t IH]; intros s o HR; cbn [fold_left]; [exact HR|].
      apply IH. now apply Rs_remove1.
    - split; [|reflexivity]. unfold Rs. cbn. apply Rh_nil.
    - split; [exact HR|]. f_equal. unfold gs_contains. apply forallb_ext. intros x. now apply Rs_mem.
    - split; [exact HR|]. destruct HR as [HP HN]. unfold glen. rewrite (Permutation_length HP). unfold lift. now rewrite map_length.
    - split; [exact HR|]. destruct HR as [HP HN]. unfold glen. rewrite (Permutation_length HP). unfold lift. now rewrite map_length.
    - split; [exact HR|]. destruct HR as [HP HN]. unfold gs_values. rewrite <- (gkeys_lift o). now apply Permutation_map.
  Qed.

  Lemma hashset_refines ins : ins_ok ins -> forall ops,
    Forall2 sout_equiv (snd (run (gs_step eqb ins) [] ops)) (snd (run (oset_step eqb) [] ops))
    /\ NoDup (gkeys (fst (run (gs_step eqb ins) [] ops))).
  Proof.
    intros Hi ops. assert (H0 : Rs [] []) by (unfold Rs; cbn; apply Rh_nil).
    destruct (run_rel Rs sout_equiv (gs_step eqb ins) (oset_step eqb) (gs_step_refines ins Hi) ops [] [] H0)
      as [[_ HN] HF].
    split; assumption.
  Qed.

  (* ----- linkedhashset ----- *)
  Definition Rls (s : lset K) (o : list K) : Prop := sordering s = o /\ Rs (stable s) o.

  Lemma Rls_add1 ins s o x : ins_ok ins -> Rls s o -> Rls (ls_add1 eqb ins s x) (os_add1 eqb o x).
  Proof.
    intros Hi [HO HR]. unfold ls_add1, os_add1. rewrite (Rs_mem _ _ x HR). destruct (os_has eqb x o) eqn:E.
    - split; assumption.
    - split; cbn [sordering stable]; [now rewrite HO|].
      pose proof (Rs_add1 ins _ _ x Hi HR) as H. unfold os_add1 in H. now rewrite E in H.
  Qed.
  Lemma Rls_remove1 ins s o x : Rls s o -> Rls (ls_remove1 eqb eqb s x) (os_remove1 eqb o x).
  Proof.
    intros [HO HR]. pose proof (Rs_nodup _ _ HR) as HN. unfold ls_remove1. destruct (gmem eqb x (stable s)) eqn:E.
    - split; cbn [sordering stable].
      + rewrite HO. now apply dl_remove_found_filter.
      + now apply Rs_remove1.
    - rewrite (Rs_mem _ _ x HR), os_has_gmem in E. apply gmem_false in E. rewrite gkeys_lift in E.
      unfold os_remove1. rewrite filter_id; [split; assumption|].
      intros y Hy. apply negb_true_iff, eqb_neq. intros ->. contradiction.
  Qed.

  Lemma ls_step_refines ins : ins_ok ins -> forall s o op, Rls s o ->
    Rls (fst (ls_step eqb ins s op)) (fst (oset_step eqb o op)) /\
    snd (ls_step eqb ins s op) = snd (oset_step eqb o op).
  Proof.
    intros Hi s o op HR. destruct op; unfold ls_step; cbn [ls_step_with oset_step fst snd].
    - split; [|reflexivity]. unfold ls_add. revert s o HR. induction l as [|x t IH]; intros s o HR; cbn [fold_left]; [exact HR|].
      apply IH. now apply Rls_add1.
    - split; [|reflexivity]. unfold ls_remove. revert s o HR. induction l as [|x t IH]; intros s o HR; cbn [fold_left]; [exact HR|].
      apply IH. now apply (Rls_remove1 ins).
    - split; [|reflexivity]. split; [reflexivity|]. unfold Rs. cbn. apply Rh_nil.
    - split; [exact HR|]. f_equal. unfold ls_contains. apply forallb_ext. intros x. destruct HR as [_ HR]. now apply Rs_mem.
    - split; [exact HR|]. destruct HR as [HO _]. unfold ls_size. now rewrite HO.
    - split; [exact HR|]. destruct HR as [HO _]. unfold ls_size. now rewrite HO.
    - split; [exact HR|]. destruct HR as [HO _]. now rewrite HO.
  Qed.

  Lemma Rls_inv s o : Rls s o -> NoDup (sordering s) /\ Permutation (gkeys (stable s)) (sordering s).
  Proof.
    intros [HO HR]. pose proof (Rs_nodup _ _ HR) as HN. subst o. split; [exact HN|].
    destruct HR as [HP _]. apply (Permutation_map fst) in HP. fold (gkeys (stable s)) in HP.
    fold (gkeys (lift (sordering s))) in HP. now rewrite gkeys_lift in HP.
  Qed.

  Lemma linkedset_refines ins : ins_ok ins -> forall ops,
    snd (run (ls_step eqb ins) ls0 ops) = snd (run (oset_step eqb) [] ops) /\
    let s := fst (run (ls_step eqb ins) ls0 ops) in
    NoDup (sordering s) /\ same_set (gkeys (stable s)) (sordering s) /\ length (stable s) = length (sordering s).
  Proof.
    intros Hi ops. assert (H0 : Rls ls0 []) by (split; [reflexivity|unfold Rs; cbn; apply Rh_nil]).
    destruct (run_rel Rls eq (ls_step eqb ins) (oset_step eqb) (ls_step_refines ins Hi) ops ls0 [] H0) as [HR HF].
    split; [now apply Forall2_eq|]. cbv zeta. destruct (Rls_inv _ _ HR) as [HN HP]. split; [exact HN|]. split.
    - intros x. split; intros H; [eapply Permutation_in; [exact HP|exact H]|eapply Permutation_in; [apply Permutation_sym; exact HP|exact H]].
    - rewrite <- (Permutation_length HP). unfold gkeys. now rewrite map_length.
  Qed.
End Assoc.
