(* C09 model: hashmap, linkedhashmap, hashset, linkedhashset, hashbidimap (and, abstractly, treebidimap /
   treeset) as the Go code is written.  No proofs in this file.

   Go's built-in map  = duplicate-free association list [list (K * V)].  Where a key that is not yet present
   is stored is decided by the parameter [ins] (a Go map: anywhere - iteration order is unspecified, all
   theorems hold for every [ins] that inserts the binding somewhere; the red-black tree behind treebidimap /
   treeset, which is modelled by another property (C01): the sorted position, [ins_sorted]).
   Keys carry TWO equalities: [eqb] is Go's [==] (map indexing, the repaired Remove), [feq] is whatever the
   ordering-list search uses; the code before the repair used reflect.DeepEqual there, which is coarser than
   [==] on pointer keys (defect D21).  [lhm_step] / [ls_step] are the model of the repaired code
   ([feq := eqb]); [lhm_step_with deq] is the code as it was. *)
From VF Require Import Common.Base.

Fixpoint run {S O X} (step : S -> O -> S * X) (s : S) (ops : list O) : S * list X :=
  match ops with
  | [] => (s, [])
  | o :: t => let '(s1, x) := step s o in
              let '(s2, xs) := run step s1 t in (s2, x :: xs)
  end.

(* ---------- Go map ---------- *)
Section GoMap.
  Context {K V : Type}.
  Variable eqb : K -> K -> bool.                                   (* == *)
  Variable ins : K -> V -> list (K * V) -> list (K * V).           (* where a new binding goes *)

  Fixpoint gget (k : K) (m : list (K * V)) : option V :=
    match m with
    | [] => None
    | (k', v) :: t => if eqb k k' then Some v else gget k t
    end.
  Definition gmem (k : K) (m : list (K * V)) : bool :=
    match gget k m with Some _ => true | None => false end.
  (* m[k] = v for a key that is present: the stored key object is kept *)
  Fixpoint gset (k : K) (v : V) (m : list (K * V)) : list (K * V) :=
    match m with
    | [] => []
    | (k', v') :: t => if eqb k k' then (k', v) :: t else (k', v') :: gset k v t
    end.
  Definition gput (k : K) (v : V) (m : list (K * V)) : list (K * V) :=
    if gmem k m then gset k v m else ins k v m.
  Definition gdel (k : K) (m : list (K * V)) : list (K * V) :=
    filter (fun kv => negb (eqb k (fst kv))) m.
  Definition gkeys (m : list (K * V)) : list K := map fst m.
  Definition gvals (m : list (K * V)) : list V := map snd m.
  Definition glen (m : list (K * V)) : nat := length m.
End GoMap.

Definition ins_front {K V} (k : K) (v : V) (m : list (K * V)) := (k, v) :: m.
Fixpoint ins_sorted {K V} (ltb : K -> K -> bool) (k : K) (v : V) (m : list (K * V)) : list (K * V) :=
  match m with
  | [] => [(k, v)]
  | (k', v') :: t => if ltb k k' then (k, v) :: m else (k', v') :: ins_sorted ltb k v t
  end.

(* ---------- the part of doublylinkedlist the linked containers use, on the element sequence ---------- *)
Section DList.
  Context {K : Type}.
  (* IndexOf (before the repair) / the iterator loop with break (after): first index whose element matches *)
  Fixpoint dl_index_of (feq : K -> K -> bool) (k : K) (l : list K) : option nat :=
    match l with
    | [] => None                                  (* -1 *)
    | x :: t => if feq x k then Some 0 else option_map S (dl_index_of feq k t)
    end.
  (* Remove(index); an index out of range is a no-op *)
  Fixpoint dl_remove_at (i : nat) (l : list K) : list K :=
    match l, i with
    | [], _ => []
    | _ :: t, O => t
    | x :: t, S i' => x :: dl_remove_at i' t
    end.
  Definition dl_remove_found (feq : K -> K -> bool) (k : K) (l : list K) : list K :=
    match dl_index_of feq k l with
    | Some i => dl_remove_at i l
    | None => l
    end.
End DList.

(* ---------- operations and outputs ---------- *)
Inductive mop (K V : Type) :=
| MPut (k : K) (v : V) | MRemove (k : K) | MClear | MGet (k : K) | MSize | MEmpty | MKeys | MValues.
Inductive mout (K V : Type) :=
| MONone | MOGet (o : option V) | MOSize (n : nat) | MOEmpty (b : bool) | MOKeys (l : list K) | MOValues (l : list V).
Arguments MPut {K V}. Arguments MRemove {K V}. Arguments MClear {K V}. Arguments MGet {K V}.
Arguments MSize {K V}. Arguments MEmpty {K V}. Arguments MKeys {K V}. Arguments MValues {K V}.
Arguments MONone {K V}. Arguments MOGet {K V}. Arguments MOSize {K V}. Arguments MOEmpty {K V}.
Arguments MOKeys {K V}. Arguments MOValues {K V}.

Inductive sop (K : Type) :=
| SAdd (l : list K) | SRemove (l : list K) | SClear | SContains (l : list K) | SSize | SEmpty | SValues.
Inductive sout (K : Type) := SONone | SOBool (b : bool) | SOSize (n : nat) | SOValues (l : list K).
Arguments SAdd {K}. Arguments SRemove {K}. Arguments SClear {K}. Arguments SContains {K}.
Arguments SSize {K}. Arguments SEmpty {K}. Arguments SValues {K}.
Arguments SONone {K}. Arguments SOBool {K}. Arguments SOSize {K}. Arguments SOValues {K}.

Inductive bop (K V : Type) :=
| BPut (k : K) (v : V) | BRemove (k : K) | BClear | BGet (k : K) | BGetKey (v : V) | BSize | BEmpty | BKeys | BValues.
Inductive bout (K V : Type) :=
| BONone | BOGet (o : option V) | BOGetKey (o : option K) | BOSize (n : nat) | BOEmpty (b : bool)
| BOKeys (l : list K) | BOValues (l : list V).
Arguments BPut {K V}. Arguments BRemove {K V}. Arguments BClear {K V}. Arguments BGet {K V}.
Arguments BGetKey {K V}. Arguments BSize {K V}. Arguments BEmpty {K V}. Arguments BKeys {K V}. Arguments BValues {K V}.
Arguments BONone {K V}. Arguments BOGet {K V}. Arguments BOGetKey {K V}. Arguments BOSize {K V}.
Arguments BOEmpty {K V}. Arguments BOKeys {K V}. Arguments BOValues {K V}.

(* ---------- hashmap (and any map that is a thin wrapper over one table) ---------- *)
Section HashMap.
  Context {K V : Type}.
  Variable eqb : K -> K -> bool.
  Variable ins : K -> V -> list (K * V) -> list (K * V).

  Definition hm_step (m : list (K * V)) (o : mop K V) : list (K * V) * mout K V :=
    match o with
    | MPut k v => (gput eqb ins k v m, MONone)
    | MRemove k => (gdel eqb k m, MONone)
    | MClear => ([], MONone)
    | MGet k => (m, MOGet (gget eqb k m))
    | MSize => (m, MOSize (glen m))
    | MEmpty => (m, MOEmpty (Nat.eqb (glen m) 0))
    | MKeys => (m, MOKeys (gkeys m))
    | MValues => (m, MOValues (gvals m))
    end.
End HashMap.

(* ---------- linkedhashmap: table + ordering list ---------- *)
Record lhm (K V : Type) := { table : list (K * V); ordering : list K }.
Arguments table {K V}. Arguments ordering {K V}.

Section LinkedHashMap.
  Context {K V : Type}.
  Variable eqb : K -> K -> bool.                                   (* == : table indexing *)
  Variable ins : K -> V -> list (K * V) -> list (K * V).
  Variable zeroV : V.                                              (* iterator.Value() of a key missing from the table *)
  Variable feq : K -> K -> bool.                                   (* the equality of the ordering-list search *)

  Definition lhm0 : lhm K V := {| table := []; ordering := [] |}.

  Definition lhm_put (k : K) (v : V) (s : lhm K V) : lhm K V :=
    {| ordering := if gmem eqb k (table s) then ordering s else ordering s ++ [k];     (* Append *)
       table := gput eqb ins k v (table s) |}.
  Definition lhm_remove (k : K) (s : lhm K V) : lhm K V :=
    if gmem eqb k (table s)
    then {| table := gdel eqb k (table s); ordering := dl_remove_found feq k (ordering s) |}
    else s.
  Definition lhm_size (s : lhm K V) : nat := length (ordering s).          (* ordering.Size() *)
  Definition lhm_values (s : lhm K V) : list V :=
    map (fun k => match gget eqb k (table s) with Some v => v | None => zeroV end) (ordering s).

  Definition lhm_step_with (s : lhm K V) (o : mop K V) : lhm K V * mout K V :=
    match o with
    | MPut k v => (lhm_put k v s, MONone)
    | MRemove k => (lhm_remove k s, MONone)
    | MClear => (lhm0, MONone)
    | MGet k => (s, MOGet (gget eqb k (table s)))
    | MSize => (s, MOSize (lhm_size s))
    | MEmpty => (s, MOEmpty (Nat.eqb (lhm_size s) 0))
    | MKeys => (s, MOKeys (ordering s))
    | MValues => (s, MOValues (lhm_values s))
    end.
End LinkedHashMap.
(* the repaired code: the ordering list is searched with == *)
Definition lhm_step {K V} (eqb : K -> K -> bool) ins (zeroV : V) := lhm_step_with eqb ins zeroV eqb.

(* ---------- hashset / (abstract) treeset: one table with unit values ---------- *)
Section HashSet.
  Context {K : Type}.
  Variable eqb : K -> K -> bool.
  Variable ins : K -> unit -> list (K * unit) -> list (K * unit).
  Definition gs := list (K * unit).

  Definition gs_add (items : list K) (s : gs) : gs := fold_left (fun s x => gput eqb ins x tt s) items s.
  Definition gs_remove (items : list K) (s : gs) : gs := fold_left (fun s x => gdel eqb x s) items s.
  Definition gs_contains (items : list K) (s : gs) : bool := forallb (fun x => gmem eqb x s) items.
  Definition gs_values (s : gs) : list K := gkeys s.

  Definition gs_step (s : gs) (o : sop K) : gs * sout K :=
    match o with
    | SAdd l => (gs_add l s, SONone)
    | SRemove l => (gs_remove l s, SONone)
    | SClear => ([], SONone)
    | SContains l => (s, SOBool (gs_contains l s))
    | SSize => (s, SOSize (glen s))
    | SEmpty => (s, SOBool (Nat.eqb (glen s) 0))
    | SValues => (s, SOValues (gs_values s))
    end.

  (* set algebra: the loops of the code over the (unordered) table; result := New() *)
  Definition gs_keep (p : K -> bool) (from : gs) : gs :=
    fold_left (fun r x => if p x then gs_add [x] r else r) (gkeys from) [].
  Definition gs_inter (a b : gs) : gs :=
    if Nat.leb (glen a) (glen b) then gs_keep (fun x => gmem eqb x b) a else gs_keep (fun x => gmem eqb x a) b.
  Definition gs_union (a b : gs) : gs :=
    fold_left (fun r x => gs_add [x] r) (gkeys b) (fold_left (fun r x => gs_add [x] r) (gkeys a) []).
  Definition gs_diff (a b : gs) : gs := gs_keep (fun x => negb (gmem eqb x b)) a.
End HashSet.

(* ---------- linkedhashset ---------- *)
Record lset (K : Type) := { stable : list (K * unit); sordering : list K }.
Arguments stable {K}. Arguments sordering {K}.

Section LinkedHashSet.
  Context {K : Type}.
  Variable eqb : K -> K -> bool.
  Variable ins : K -> unit -> list (K * unit) -> list (K * unit).
  Variable feq : K -> K -> bool.

  Definition ls0 : lset K := {| stable := []; sordering := [] |}.
  Definition ls_add1 (s : lset K) (x : K) : lset K :=
    if gmem eqb x (stable s) then s
    else {| stable := gput eqb ins x tt (stable s); sordering := sordering s ++ [x] |}.
  Definition ls_remove1 (s : lset K) (x : K) : lset K :=
    if gmem eqb x (stable s)
    then {| stable := gdel eqb x (stable s); sordering := dl_remove_found feq x (sordering s) |}
    else s.
  Definition ls_add (items : list K) (s : lset K) := fold_left ls_add1 items s.
  Definition ls_remove (items : list K) (s : lset K) := fold_left ls_remove1 items s.
  Definition ls_contains (items : list K) (s : lset K) := forallb (fun x => gmem eqb x (stable s)) items.
  Definition ls_size (s : lset K) := length (sordering s).

  Definition ls_step_with (s : lset K) (o : sop K) : lset K * sout K :=
    match o with
    | SAdd l => (ls_add l s, SONone)
    | SRemove l => (ls_remove l s, SONone)
    | SClear => (ls0, SONone)
    | SContains l => (s, SOBool (ls_contains l s))
    | SSize => (s, SOSize (ls_size s))
    | SEmpty => (s, SOBool (Nat.eqb (ls_size s) 0))
    | SValues => (s, SOValues (sordering s))
    end.

  (* set algebra ranges over the *table* (Go map order: unspecified), tests membership in the other table,
     and compares Size() = ordering.Size() *)
  Definition ls_keep (p : K -> bool) (from : lset K) : lset K :=
    fold_left (fun r x => if p x then ls_add [x] r else r) (gkeys (stable from)) ls0.
  Definition ls_inter (a b : lset K) : lset K :=
    if Nat.leb (ls_size a) (ls_size b) then ls_keep (fun x => gmem eqb x (stable b)) a
    else ls_keep (fun x => gmem eqb x (stable a)) b.
  Definition ls_union (a b : lset K) : lset K :=
    fold_left (fun r x => ls_add [x] r) (gkeys (stable b)) (fold_left (fun r x => ls_add [x] r) (gkeys (stable a)) ls0).
  Definition ls_diff (a b : lset K) : lset K := ls_keep (fun x => negb (gmem eqb x (stable b))) a.
End LinkedHashSet.
Definition ls_step {K} (eqb : K -> K -> bool) ins := ls_step_with eqb ins eqb.

(* ---------- hashbidimap / (abstract) treebidimap: two tables, updated in the code's order ---------- *)
Record bidi (K V : Type) := { fwd : list (K * V); inv : list (V * K) }.
Arguments fwd {K V}. Arguments inv {K V}.

Section BidiMap.
  Context {K V : Type}.
  Variable keqb : K -> K -> bool.
  Variable veqb : V -> V -> bool.
  Variable kins : K -> V -> list (K * V) -> list (K * V).
  Variable vins : V -> K -> list (V * K) -> list (V * K).

  Definition hb0 : bidi K V := {| fwd := []; inv := [] |}.
  Definition hb_put (k : K) (v : V) (s : bidi K V) : bidi K V :=
    let inv1 := match gget keqb k (fwd s) with Some ov => gdel veqb ov (inv s) | None => inv s end in
    let fwd1 := match gget veqb v inv1 with Some ok => gdel keqb ok (fwd s) | None => fwd s end in
    {| fwd := gput keqb kins k v fwd1; inv := gput veqb vins v k inv1 |}.
  Definition hb_remove (k : K) (s : bidi K V) : bidi K V :=
    match gget keqb k (fwd s) with
    | Some v => {| fwd := gdel keqb k (fwd s); inv := gdel veqb v (inv s) |}
    | None => s
    end.
  Definition hb_step (s : bidi K V) (o : bop K V) : bidi K V * bout K V :=
    match o with
    | BPut k v => (hb_put k v s, BONone)
    | BRemove k => (hb_remove k s, BONone)
    | BClear => (hb0, BONone)
    | BGet k => (s, BOGet (gget keqb k (fwd s)))
    | BGetKey v => (s, BOGetKey (gget veqb v (inv s)))
    | BSize => (s, BOSize (glen (fwd s)))
    | BEmpty => (s, BOEmpty (Nat.eqb (glen (fwd s)) 0))
    | BKeys => (s, BOKeys (gkeys (fwd s)))
    | BValues => (s, BOValues (gkeys (inv s)))
    end.
End BidiMap.
