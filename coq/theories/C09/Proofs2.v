(* C09 proofs, part 2: bidirectional maps, set algebra, sortedness of the abstract tree variants. *)
From VF Require Import Common.Base C09.Model C09.Spec C09.Proofs.
From Coq Require Import Sorted.

Lemma filter_filter_and {A} (f g : A -> bool) (l : list A) :
  filter f (filter g l) = filter (fun x => g x && f x) l.
Proof.
  induction l as [|a l IH]; cbn [filter]; [reflexivity|].
  destruct (g a); cbn [filter andb]; [destruct (f a)|]; now rewrite IH.
Qed.

Lemma NoDup_map_filter {A B} (f : A -> B) (p : A -> bool) (l : list A) :
  NoDup (map f l) -> NoDup (map f (filter p l)).
Proof.
  induction l as [|a l IH]; cbn [map filter]; intros HN; [constructor|].
  inversion HN as [|x l' Hx HN' E]; subst. destruct (p a); [|now apply IH].
  cbn [map]. constructor; [|now apply IH]. intros H. apply Hx.
  apply in_map_iff in H as (y & Hy & Hin). apply filter_In in Hin as [Hin _]. rewrite <- Hy. now apply in_map.
Qed.

Lemma NoDup_map_inj_in {A B} (f : A -> B) (l : list A) a b :
  NoDup (map f l) -> In a l -> In b l -> f a = f b -> a = b.
Proof.
  induction l as [|x l IH]; cbn [map In]; intros HN Ha Hb E; [contradiction|].
  inversion HN as [|y l' Hx HN' Ey]; subst. destruct Ha as [->|Ha], Hb as [->|Hb]; auto.
  - exfalso. apply Hx. rewrite E. now apply in_map.
  - exfalso. apply Hx. rewrite <- E. now apply in_map.
Qed.

Lemma bool_eq_iff (a b : bool) : (a = true <-> b = true) -> a = b.
Proof.
  destruct a, b; intros [H1 H2]; try reflexivity.
  - symmetry. now apply H1.
  - now apply H2.
Qed.

(* ---------- bidirectional maps ---------- *)
Section Bidi.
  Context {K V : Type}.
  Variable keqb : K -> K -> bool.
  Variable veqb : V -> V -> bool.
  Hypothesis keqb_spec : forall a b, keqb a b = true <-> a = b.
  Hypothesis veqb_spec : forall a b, veqb a b = true <-> a = b.
  Variable kins : K -> V -> list (K * V) -> list (K * V).
  Variable vins : V -> K -> list (V * K) -> list (V * K).
  Hypothesis kins_ok : ins_ok kins.
  Hypothesis vins_ok : ins_ok vins.

  Definition flip (b : list (K * V)) : list (V * K) := map (fun p => (snd p, fst p)) b.
  Definition fk (k : K) (p : K * V) := negb (keqb k (fst p)).
  Definition fv (v : V) (p : K * V) := negb (veqb v (snd p)).

  Lemma gkeys_flip b : gkeys (flip b) = map snd b.
  Proof. unfold gkeys, flip. rewrite map_map. reflexivity. Qed.
  Lemma flip_app a b : flip (a ++ b) = flip a ++ flip b.
  Proof. apply map_app. Qed.
  Lemma in_flip k v b : In (v, k) (flip b) <-> In (k, v) b.
  Proof.
    unfold flip. rewrite in_map_iff. split.
    - intros ([k' v'] & E & H). cbn [fst snd] in E. now inversion E; subst.
    - intros H. exists (k, v). now split.
  Qed.
  Lemma gdel_flip v b : gdel veqb v (flip b) = flip (filter (fv v) b).
  Proof.
    unfold gdel, flip, fv. induction b as [|[k' v'] t IH]; cbn [map filter fst snd]; [reflexivity|].
    destruct (veqb v v'); cbn [negb map fst snd]; now rewrite IH.
  Qed.
  Lemma gdel_fk k b : gdel keqb k b = filter (fk k) b.
  Proof. reflexivity. Qed.

  Lemma b_getkey_flip v b : b_getkey veqb v b = gget veqb v (flip b).
  Proof.
    unfold b_getkey, flip. induction b as [|[k' v'] t IH]; cbn [find map gget fst snd]; [reflexivity|].
    destruct (veqb v v'); [reflexivity|exact IH].
  Qed.

  (* in a bijection, "first component is k" and "second component is v" select the same pair *)
  Lemma bij_filter k v b : NoDup (map fst b) -> NoDup (map snd b) -> In (k, v) b ->
    filter (fv v) b = filter (fk k) b.
  Proof.
    intros HK HV Hin. apply filter_ext_in. intros p Hp. unfold fv, fk. f_equal. apply bool_eq_iff.
    rewrite keqb_spec, veqb_spec. split; intros E.
    - assert (p = (k, v)) as -> by (apply (NoDup_map_inj_in snd b); auto). reflexivity.
    - assert (p = (k, v)) as -> by (apply (NoDup_map_inj_in fst b); auto). reflexivity.
  Qed.

  Definition Rb (s : bidi K V) (b : list (K * V)) : Prop :=
    Permutation (fwd s) b /\ Permutation (inv s) (flip b) /\ NoDup (map fst b) /\ NoDup (map snd b).

  Lemma Rb_nodup s b : Rb s b -> NoDup (gkeys (fwd s)) /\ NoDup (gkeys (inv s)).
  Proof.
    intros (HF & HI & HK & HV). split.
    - eapply Permutation_NoDup; [apply Permutation_sym, Permutation_map; exact HF|exact HK].
    - eapply Permutation_NoDup; [apply Permutation_sym, Permutation_map; exact HI|].
      fold (gkeys (flip b)). now rewrite gkeys_flip.
  Qed.

  Lemma notin_fst_filter k (q : K * V -> bool) b : ~ In k (map fst (filter (fun p => fk k p && q p) b)).
  Proof.
    intros H. apply in_map_iff in H as (p & E & Hin). apply filter_In in Hin as [_ Hf].
    apply andb_true_iff in Hf as [Hf _]. unfold fk in Hf. apply negb_true_iff in Hf.
    subst k. rewrite (proj2 (keqb_spec _ _) eq_refl) in Hf. discriminate.
  Qed.
  Lemma notin_snd_filter v (q : K * V -> bool) b : ~ In v (map snd (filter (fun p => q p && fv v p) b)).
  Proof.
    intros H. apply in_map_iff in H as (p & E & Hin). apply filter_In in Hin as [_ Hf].
    apply andb_true_iff in Hf as [_ Hf]. unfold fv in Hf. apply negb_true_iff in Hf.
    subst v. rewrite (proj2 (veqb_spec _ _) eq_refl) in Hf. discriminate.
  Qed.

  Lemma Rb_put k v s b : Rb s b -> Rb (hb_put keqb veqb kins vins k v s) (b_put keqb veqb k v b).
  Proof.
    intros HR. destruct (Rb_nodup s b HR) as [HNf HNi]. destruct HR as (HF & HI & HK & HV).
    unfold hb_put, b_put. fold (fk k). fold (fv v).
    set (b1 := filter (fk k) b).
    set (b2 := filter (fun p => fk k p && fv v p) b).
    set (inv1 := match gget keqb k (fwd s) with Some ov => gdel veqb ov (inv s) | None => inv s end).
    (* step A *)
    assert (HA : Permutation inv1 (flip b1)).
    { unfold inv1. rewrite (gget_perm keqb keqb_spec k _ _ HNf HF). destruct (gget keqb k b) as [ov|] eqn:E.
      - apply (gget_in keqb keqb_spec) in E.
        eapply perm_trans; [apply (gdel_perm veqb); exact HI|]. rewrite gdel_flip.
        unfold b1. now rewrite (bij_filter k ov b HK HV E).
      - apply (gget_none_iff keqb keqb_spec) in E. unfold b1. rewrite <- gdel_fk.
        rewrite (gdel_notin keqb keqb_spec) by exact E. exact HI. }
    assert (HK1 : NoDup (map fst b1)) by (apply NoDup_map_filter; exact HK).
    assert (HV1 : NoDup (map snd b1)) by (apply NoDup_map_filter; exact HV).
    assert (HNi1 : NoDup (gkeys inv1)).
    { eapply Permutation_NoDup; [apply Permutation_sym, Permutation_map; exact HA|].
      fold (gkeys (flip b1)). now rewrite gkeys_flip. }
    set (fwd1 := match gget veqb v inv1 with Some ok => gdel keqb ok (fwd s) | None => fwd s end).
    (* step B *)
    assert (HB : Permutation (gdel keqb k fwd1) b2 /\ NoDup (gkeys fwd1)).
    { unfold fwd1. rewrite (gget_perm veqb veqb_spec v _ _ HNi1 HA). destruct (gget veqb v (flip b1)) as [ok|] eqn:E.
      - split; [|now apply (NoDup_gdel keqb)].
        apply (gget_in veqb veqb_spec) in E. apply in_flip in E. unfold b1 in E. apply filter_In in E as [E _].
        eapply perm_trans; [apply (gdel_perm keqb), (gdel_perm keqb); exact HF|].
        rewrite !gdel_fk, <- (bij_filter ok v b HK HV E), filter_filter_and. unfold b2.
        erewrite filter_ext; [apply Permutation_refl|]. intros p. apply andb_comm.
      - split; [|exact HNf]. apply (gget_none_iff veqb veqb_spec) in E. rewrite gkeys_flip in E.
        eapply perm_trans; [apply (gdel_perm keqb); exact HF|]. rewrite gdel_fk. unfold b2.
        erewrite filter_ext_in; [apply Permutation_refl|]. intros p Hp. cbv beta.
        destruct (fk k p) eqn:Ek; [|reflexivity]. cbn [andb]. symmetry. unfold fv. apply negb_true_iff.
        destruct (veqb v (snd p)) eqn:Ev; [|reflexivity]. exfalso. apply E. apply veqb_spec in Ev. subst v.
        apply in_map. unfold b1. apply filter_In. now split. }
    destruct HB as [HB HNf1].
    unfold Rb. cbn [fwd inv]. fold inv1. fold fwd1. fold b2. split; [|split; [|split]].
    - eapply perm_trans; [apply (gput_perm keqb keqb_spec); assumption|].
      eapply perm_trans; [apply perm_skip; exact HB|]. apply Permutation_cons_append.
    - eapply perm_trans; [apply (gput_perm veqb veqb_spec); assumption|].
      eapply perm_trans; [apply perm_skip, (gdel_perm veqb); exact HA|].
      rewrite gdel_flip. unfold b1. rewrite filter_filter_and. fold b2.
      rewrite flip_app. cbn [flip map fst snd]. apply Permutation_cons_append.
    - rewrite map_app. cbn [map fst]. eapply Permutation_NoDup; [apply Permutation_cons_append|].
      constructor; [apply notin_fst_filter|apply NoDup_map_filter; exact HK].
    - rewrite map_app. cbn [map snd]. eapply Permutation_NoDup; [apply Permutation_cons_append|].
      constructor; [apply notin_snd_filter|apply NoDup_map_filter; exact HV].
  Qed.

  Lemma Rb_remove k s b : Rb s b -> Rb (hb_remove keqb veqb k s) (b_remove keqb k b).
  Proof.
    intros HR. destruct (Rb_nodup s b HR) as [HNf HNi]. pose proof HR as (HF & HI & HK & HV).
    unfold hb_remove, b_remove. fold (fk k). rewrite (gget_perm keqb keqb_spec k _ _ HNf HF).
    destruct (gget keqb k b) as [v|] eqn:E.
    - apply (gget_in keqb keqb_spec) in E. unfold Rb. cbn [fwd inv]. split; [|split; [|split]].
      + rewrite <- gdel_fk. now apply (gdel_perm keqb).
      + eapply perm_trans; [apply (gdel_perm veqb); exact HI|]. rewrite gdel_flip.
        now rewrite (bij_filter k v b HK HV E).
      + now apply NoDup_map_filter.
      + now apply NoDup_map_filter.
    - apply (gget_none_iff keqb keqb_spec) in E. rewrite <- gdel_fk. rewrite (gdel_notin keqb keqb_spec) by exact E. exact HR.
  Qed.

  Lemma Rb_nil : Rb hb0 [].
  Proof. unfold Rb, hb0. cbn. repeat split; constructor. Qed.

  Lemma hb_step_refines s b op : Rb s b ->
    Rb (fst (hb_step keqb veqb kins vins s op)) (fst (bij_step keqb veqb b op)) /\
    bout_equiv (snd (hb_step keqb veqb kins vins s op)) (snd (bij_step keqb veqb b op)).
  Proof.
    intros HR. destruct (Rb_nodup s b HR) as [HNf HNi]. pose proof HR as (HF & HI & HK & HV).
    destruct op; cbn [hb_step bij_step fst snd bout_equiv].
    - split; [now apply Rb_put|reflexivity].
    - split; [now apply Rb_remove|reflexivity].
    - split; [apply Rb_nil|reflexivity].
    - split; [exact HR|]. f_equal. rewrite (gget_perm keqb keqb_spec k _ _ HNf HF). symmetry.
      apply (o_get_gget keqb).
    - split; [exact HR|]. f_equal. rewrite (gget_perm veqb veqb_spec v _ _ HNi HI). symmetry. apply b_getkey_flip.
    - split; [exact HR|]. unfold glen. now rewrite (Permutation_length HF).
    - split; [exact HR|]. unfold glen. now rewrite (Permutation_length HF).
    - split; [exact HR|]. now apply Permutation_map.
    - split; [exact HR|]. rewrite <- gkeys_flip. now apply Permutation_map.
  Qed.

  Lemma Rb_bijection s b : Rb s b -> Bijection keqb veqb s.
  Proof.
    intros HR. destruct (Rb_nodup s b HR) as [HNf HNi]. destruct HR as (HF & HI & HK & HV).
    unfold Bijection. split; [|split; [exact HNf|split; [exact HNi|]]].
    - intros k v. split; intros H.
      + apply (in_gget veqb veqb_spec); [exact HNi|]. apply (gget_in keqb keqb_spec) in H.
        eapply Permutation_in; [apply Permutation_sym; exact HI|]. apply in_flip.
        eapply Permutation_in; [exact HF|exact H].
      + apply (in_gget keqb keqb_spec); [exact HNf|]. apply (gget_in veqb veqb_spec) in H.
        eapply Permutation_in; [apply Permutation_sym; exact HF|]. apply in_flip.
        eapply Permutation_in; [exact HI|exact H].
    - unfold glen. rewrite (Permutation_length HF), (Permutation_length HI). unfold flip. now rewrite map_length.
  Qed.

  Lemma bidi_refines ops :
    Bijection keqb veqb (fst (run (hb_step keqb veqb kins vins) hb0 ops)) /\
    Forall2 bout_equiv (snd (run (hb_step keqb veqb kins vins) hb0 ops)) (snd (run (bij_step keqb veqb) [] ops)).
  Proof.
    destruct (run_rel Rb bout_equiv (hb_step keqb veqb kins vins) (bij_step keqb veqb) hb_step_refines ops hb0 [] Rb_nil)
      as [HR HF].
    split; [eapply Rb_bijection; exact HR|exact HF].
  Qed.
End Bidi.

(* ---------- set algebra ---------- *)
Section Algebra.
  Context {K : Type}.
  Variable eqb : K -> K -> bool.
  Hypothesis eqb_spec : forall a b, eqb a b = true <-> a = b.
  Variable ins : K -> unit -> list (K * unit) -> list (K * unit).
  Hypothesis ins_is_ok : ins_ok ins.

  (* --- hashset / abstract treeset --- *)
  Lemma gs_keep_fold (p : K -> bool) l r0 : NoDup (gkeys r0) ->
    let r := fold_left (fun r x => if p x then gs_add eqb ins [x] r else r) l r0 in
    NoDup (gkeys r) /\ forall y, In y (gkeys r) <-> (In y l /\ p y = true) \/ In y (gkeys r0).
  Proof.
    revert r0. induction l as [|x t IH]; intros r0 HN; cbn [fold_left].
    - split; [exact HN|]. intros y. cbn [In]. tauto.
    - destruct (p x) eqn:E.
      + unfold gs_add at 2 4. cbn [fold_left].
        destruct (IH (gput eqb ins x tt r0) (NoDup_gput eqb eqb_spec ins x tt r0 ins_is_ok HN)) as [H1 H2].
        split; [exact H1|]. intros y. rewrite H2, (in_gkeys_gput eqb eqb_spec ins x tt y r0 ins_is_ok HN). cbn [In].
        split; [intros [[Ha Hb]|[->|Hc]]|intros [[[->|Ha] Hb]|Hc]]; tauto.
      + destruct (IH r0 HN) as [H1 H2]. split; [exact H1|]. intros y. rewrite H2. cbn [In].
        split; [tauto|]. intros [[[->|Ha] Hb]|Hc]; [congruence|tauto|tauto].
  Qed.
  Lemma gs_all_fold l r0 : NoDup (gkeys r0) ->
    let r := fold_left (fun r x => gs_add eqb ins [x] r) l r0 in
    NoDup (gkeys r) /\ forall y, In y (gkeys r) <-> In y l \/ In y (gkeys r0).
  Proof.
    intros HN. pose proof (gs_keep_fold (fun _ => true) l r0 HN) as H. cbv zeta beta in *.
    destruct H as [H1 H2]. split; [exact H1|]. intros y. rewrite H2. tauto.
  Qed.

  Lemma gs_union_ok a b : is_union (gs_values (gs_union eqb ins a b)) (gs_values a) (gs_values b).
  Proof.
    unfold gs_union, gs_values, is_union.
    destruct (gs_all_fold (gkeys a) [] (NoDup_nil _)) as [H1 H2].
    destruct (gs_all_fold (gkeys b) _ H1) as [H3 H4]. split; [exact H3|].
    intros y. rewrite H4, H2. cbn [gkeys map In]. tauto.
  Qed.
  Lemma gs_keep_ok p a : let r := gs_keep eqb ins p a in
    NoDup (gkeys r) /\ forall y, In y (gkeys r) <-> In y (gkeys a) /\ p y = true.
  Proof.
    unfold gs_keep. destruct (gs_keep_fold p (gkeys a) [] (NoDup_nil _)) as [H1 H2]. split; [exact H1|].
    intros y. rewrite H2. cbn [gkeys map In]. tauto.
  Qed.
  Lemma gs_inter_ok a b : is_inter (gs_values (gs_inter eqb ins a b)) (gs_values a) (gs_values b).
  Proof.
    unfold gs_inter, gs_values, is_inter. destruct (Nat.leb (glen a) (glen b)).
    - destruct (gs_keep_ok (fun x => gmem eqb x b) a) as [H1 H2]. split; [exact H1|].
      intros y. rewrite H2, (gmem_in eqb eqb_spec). tauto.
    - destruct (gs_keep_ok (fun x => gmem eqb x a) b) as [H1 H2]. split; [exact H1|].
      intros y. rewrite H2, (gmem_in eqb eqb_spec). tauto.
  Qed.
  Lemma gs_diff_ok a b : is_diff (gs_values (gs_diff eqb ins a b)) (gs_values a) (gs_values b).
  Proof.
    unfold gs_diff, gs_values, is_diff.
    destruct (gs_keep_ok (fun x => negb (gmem eqb x b)) a) as [H1 H2]. split; [exact H1|].
    intros y. rewrite H2, negb_true_iff, (gmem_false eqb eqb_spec). tauto.
  Qed.

  (* --- linkedhashset --- *)
  Definition LInv (s : lset K) : Prop :=
    NoDup (sordering s) /\ same_set (gkeys (stable s)) (sordering s) /\ NoDup (gkeys (stable s)).

  Lemma LInv_Rls s : LInv s <-> Rls s (sordering s).
  Proof.
    split.
    - intros (H1 & H2 & H3). split; [reflexivity|]. split; [|exact H3].
      apply NoDup_Permutation.
      + now apply NoDup_map_inv with (f := fst).
      + apply NoDup_map_inv with (f := fst). fold (gkeys (lift (sordering s))). now rewrite gkeys_lift.
      + intros [x []]. split; intros H.
        * apply in_map_iff. exists x. split; [reflexivity|]. apply H2. change x with (fst (x, tt)). now apply in_map.
        * apply in_map_iff in H as (y & E & Hy). inversion E; subst y. apply H2 in Hy.
          apply in_map_iff in Hy as ([x' []] & E' & Hin). cbn [fst] in E'. now subst.
    - intros HR. destruct (Rls_inv _ _ HR) as [H1 H2]. split; [exact H1|]. split.
      + intros x. split; intros H; [eapply Permutation_in; [exact H2|exact H]|eapply Permutation_in; [apply Permutation_sym; exact H2|exact H]].
      + destruct HR as [_ [_ HN]]. exact HN.
  Qed.

  Lemma in_os_add1 o x y : In y (os_add1 eqb o x) <-> y = x \/ In y o.
  Proof.
    unfold os_add1, os_has. destruct (existsb (eqb x) o) eqn:E.
    - apply existsb_exists in E as (z & Hz & Ez). apply eqb_spec in Ez. subst z. split; [tauto|]. intros [->|H]; assumption.
    - rewrite in_app_iff. cbn [In]. split; [intros [H|[H|[]]]|intros [H|H]]; auto.
  Qed.

  Lemma ls_keep_fold (p : K -> bool) l r0 o0 : Rls r0 o0 ->
    let r := fold_left (fun r x => if p x then ls_add eqb ins [x] r else r) l r0 in
    exists o, Rls r o /\ forall y, In y o <-> (In y l /\ p y = true) \/ In y o0.
  Proof.
    revert r0 o0. induction l as [|x t IH]; intros r0 o0 HR; cbn [fold_left].
    - exists o0. split; [exact HR|]. intros y. cbn [In]. tauto.
    - destruct (p x) eqn:E.
      + unfold ls_add at 2. cbn [fold_left].
        destruct (IH _ _ (Rls_add1 eqb eqb_spec ins r0 o0 x ins_is_ok HR)) as (o & H1 & H2).
        exists o. split; [exact H1|]. intros y. rewrite H2, in_os_add1. cbn [In].
        split; [intros [[Ha Hb]|[->|Hc]]|intros [[[->|Ha] Hb]|Hc]]; tauto.
      + destruct (IH _ _ HR) as (o & H1 & H2). exists o. split; [exact H1|]. intros y. rewrite H2. cbn [In].
        split; [tauto|]. intros [[[->|Ha] Hb]|Hc]; [congruence|tauto|tauto].
  Qed.
  Lemma ls_all_fold l r0 o0 : Rls r0 o0 ->
    let r := fold_left (fun r x => ls_add eqb ins [x] r) l r0 in
    exists o, Rls r o /\ forall y, In y o <-> In y l \/ In y o0.
  Proof.
    intros HR. destruct (ls_keep_fold (fun _ => true) l r0 o0 HR) as (o & H1 & H2). cbv beta in *.
    exists o. split; [exact H1|]. intros y. rewrite H2. tauto.
  Qed.
  Lemma Rls_nil : Rls (@ls0 K) [].
  Proof. split; [reflexivity|]. unfold Rs. cbn. apply Rh_nil. Qed.
  Lemma Rls_LInv r o : Rls r o -> LInv r /\ sordering r = o.
  Proof. intros HR. pose proof HR as [HO _]. subst o. split; [now apply LInv_Rls|reflexivity]. Qed.

  Lemma ls_keep_ok p a : LInv a -> let r := ls_keep eqb ins p a in
    LInv r /\ forall y, In y (sordering r) <-> In y (sordering a) /\ p y = true.
  Proof.
    intros (_ & HS & _). unfold ls_keep. destruct (ls_keep_fold p (gkeys (stable a)) ls0 [] Rls_nil) as (o & H1 & H2).
    apply Rls_LInv in H1 as [H1 <-]. split; [exact H1|]. intros y. rewrite H2, (HS y). cbn [In]. tauto.
  Qed.
  Lemma ls_union_ok a b : LInv a -> LInv b ->
    LInv (ls_union eqb ins a b) /\ is_union (sordering (ls_union eqb ins a b)) (sordering a) (sordering b).
  Proof.
    intros (_ & HSa & _) (_ & HSb & _). unfold ls_union.
    destruct (ls_all_fold (gkeys (stable a)) ls0 [] Rls_nil) as (o1 & H1 & H2).
    destruct (ls_all_fold (gkeys (stable b)) _ o1 H1) as (o2 & H3 & H4).
    apply Rls_LInv in H3 as [H3 <-]. split; [exact H3|]. split; [apply H3|].
    intros y. rewrite H4, H2, (HSa y), (HSb y). cbn [In]. tauto.
  Qed.
  Lemma ls_inter_ok a b : LInv a -> LInv b ->
    LInv (ls_inter eqb ins a b) /\ is_inter (sordering (ls_inter eqb ins a b)) (sordering a) (sordering b).
  Proof.
    intros Ha Hb. pose proof Ha as (_ & HSa & _). pose proof Hb as (_ & HSb & _).
    unfold ls_inter. destruct (Nat.leb (ls_size a) (ls_size b)).
    - destruct (ls_keep_ok (fun x => gmem eqb x (stable b)) a Ha) as [H1 H2]. split; [exact H1|]. split; [apply H1|].
      intros y. rewrite H2, (gmem_in eqb eqb_spec), (HSb y). tauto.
    - destruct (ls_keep_ok (fun x => gmem eqb x (stable a)) b Hb) as [H1 H2]. split; [exact H1|]. split; [apply H1|].
      intros y. rewrite H2, (gmem_in eqb eqb_spec), (HSa y). tauto.
  Qed.
  Lemma ls_diff_ok a b : LInv a -> LInv b ->
    LInv (ls_diff eqb ins a b) /\ is_diff (sordering (ls_diff eqb ins a b)) (sordering a) (sordering b).
  Proof.
    intros Ha Hb. pose proof Hb as (_ & HSb & _). unfold ls_diff.
    destruct (ls_keep_ok (fun x => negb (gmem eqb x (stable b))) a Ha) as [H1 H2]. split; [exact H1|]. split; [apply H1|].
    intros y. rewrite H2, negb_true_iff, (gmem_false eqb eqb_spec), (HSb y). tauto.
  Qed.

  Lemma linked_set_inv ops : LInv (fst (run (ls_step eqb ins) ls0 ops)).
  Proof.
    destruct (run_rel Rls eq (ls_step eqb ins) (oset_step eqb) (ls_step_refines eqb eqb_spec ins ins_is_ok) ops ls0 [] Rls_nil)
      as [HR _].
    apply Rls_LInv in HR. apply HR.
  Qed.
End Algebra.

(* ---------- the abstract tree variants keep their tables sorted ---------- *)
Section SortedIns.
  Context {K : Type}.
  Variable eqb : K -> K -> bool.
  Hypothesis eqb_spec : forall a b, eqb a b = true <-> a = b.
  Variable ltb : K -> K -> bool.
  Hypothesis ltb_trans : forall a b c, ltb a b = true -> ltb b c = true -> ltb a c = true.
  Hypothesis ltb_total : forall a b, ltb a b = false -> a <> b -> ltb b a = true.
  Definition lt (a b : K) : Prop := ltb a b = true.
  Definition SortedKeys {V} (m : list (K * V)) : Prop := StronglySorted lt (gkeys m).

  Lemma StronglySorted_filter (p : K -> bool) l : StronglySorted lt l -> StronglySorted lt (filter p l).
  Proof.
    induction 1 as [|a l HS IH HF]; cbn [filter]; [constructor|]. destruct (p a); [|exact IH].
    constructor; [exact IH|]. rewrite Forall_forall in *. intros x Hx. apply HF. apply filter_In in Hx. tauto.
  Qed.

  Context {V : Type}.
  Lemma sorted_ins k v (m : list (K * V)) : SortedKeys m -> ~ In k (gkeys m) -> SortedKeys (ins_sorted ltb k v m).
  Proof.
    unfold SortedKeys. induction m as [|[k' v'] t IH]; intros HS Hn; cbn [ins_sorted].
    - cbn. constructor; constructor.
    - cbn [gkeys map fst] in HS, Hn. inversion HS as [|a l HS' HF E]; subst.
      destruct (ltb k k') eqn:E.
      + cbn [gkeys map fst]. constructor; [exact HS|]. constructor; [exact E|].
        rewrite Forall_forall in *. intros x Hx. eapply ltb_trans; [exact E|now apply HF].
      + cbn [gkeys map fst]. constructor.
        * apply IH; [exact HS'|]. intros H. apply Hn. now right.
        * rewrite Forall_forall in *. intros x Hx.
          pose proof (Permutation_map fst (ins_sorted_ok ltb k v t)) as HP.
          apply (Permutation_in _ HP) in Hx. cbn [map fst In] in Hx. destruct Hx as [<-|Hx]; [|now apply HF].
          apply ltb_total; [exact E|]. intros ->. apply Hn. now left.
  Qed.
  Lemma sorted_gput k v (m : list (K * V)) : SortedKeys m -> SortedKeys (gput eqb (ins_sorted ltb) k v m).
  Proof.
    intros HS. unfold gput. destruct (gmem eqb k m) eqn:E.
    - unfold SortedKeys. now rewrite gkeys_gset.
    - apply sorted_ins; [exact HS|]. now apply (gmem_false eqb eqb_spec).
  Qed.
  Lemma sorted_gdel k (m : list (K * V)) : SortedKeys m -> SortedKeys (gdel eqb k m).
  Proof. intros HS. unfold SortedKeys. rewrite gkeys_gdel. now apply StronglySorted_filter. Qed.
End SortedIns.

Section TreeSorted.
  Context {K V : Type}.
  Variable keqb : K -> K -> bool.
  Variable veqb : V -> V -> bool.
  Hypothesis keqb_spec : forall a b, keqb a b = true <-> a = b.
  Hypothesis veqb_spec : forall a b, veqb a b = true <-> a = b.
  Variable kltb : K -> K -> bool.
  Variable vltb : V -> V -> bool.
  Hypothesis kltb_trans : forall a b c, kltb a b = true -> kltb b c = true -> kltb a c = true.
  Hypothesis kltb_total : forall a b, kltb a b = false -> a <> b -> kltb b a = true.
  Hypothesis vltb_trans : forall a b c, vltb a b = true -> vltb b c = true -> vltb a c = true.
  Hypothesis vltb_total : forall a b, vltb a b = false -> a <> b -> vltb b a = true.

  Definition tb_step := hb_step keqb veqb (ins_sorted kltb) (ins_sorted vltb).
  Definition TBSorted (s : bidi K V) : Prop := SortedKeys kltb (fwd s) /\ SortedKeys vltb (inv s).

  Lemma tb_step_sorted s op : TBSorted s -> TBSorted (fst (tb_step s op)).
  Proof.
    intros [HF HI]. destruct op; cbn [tb_step hb_step fst]; try (split; assumption).
    - unfold hb_put. split; cbn [fwd inv].
      + apply (sorted_gput keqb keqb_spec kltb kltb_trans kltb_total).
        destruct (gget veqb v _); [now apply sorted_gdel|exact HF].
      + apply (sorted_gput veqb veqb_spec vltb vltb_trans vltb_total).
        destruct (gget keqb k _); [now apply sorted_gdel|exact HI].
    - unfold hb_remove. destruct (gget keqb k (fwd s)); [|split; assumption].
      split; cbn [fwd inv]; now apply sorted_gdel.
    - split; cbn; constructor.
  Qed.
  Lemma tbidi_sorted ops : TBSorted (fst (run tb_step hb0 ops)).
  Proof. apply run_inv; [intros s o; apply tb_step_sorted|]. split; cbn; constructor. Qed.

  Definition ts_step := gs_step keqb (ins_sorted kltb).
  Lemma ts_step_sorted s op : SortedKeys kltb s -> SortedKeys kltb (fst (ts_step s op)).
  Proof.
    intros HS. destruct op; cbn [ts_step gs_step fst]; try exact HS.
    - unfold gs_add. revert s HS. induction l as [|x t IH]; intros s HS; cbn [fold_left]; [exact HS|].
      apply IH. now apply (sorted_gput keqb keqb_spec kltb kltb_trans kltb_total).
    - unfold gs_remove. revert s HS. induction l as [|x t IH]; intros s HS; cbn [fold_left]; [exact HS|].
      apply IH. now apply sorted_gdel.
    - cbn. constructor.
  Qed.
  Lemma treeset_sorted ops : SortedKeys kltb (fst (run ts_step [] ops)).
  Proof. apply run_inv; [intros s o; apply ts_step_sorted|]. cbn. constructor. Qed.
End TreeSorted.
